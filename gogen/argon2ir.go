package main

import (
	"fmt"
	"go/ast"
	"go/constant"
	"go/token"
	"go/types"
	"os"
	"sort"
	"strings"

	"golang.org/x/tools/go/packages"
)

// genArgon2IR translates the bodies of argon2/argon2crypto (generic / `purego` path) into the block IR
// of lean/GoCrypt/Base/A2IR.lean: Key, initHash, initBlocks, processBlocks and its processSegment
// closure (lambda-lifted), extractKey, indexAlpha, phi, blake2bHash, processBlockGeneric, processBlock,
// processBlockXOR, blamkaGeneric.
//
// The package is loaded a second time with `-tags purego`, so that blamka_ref.go (not the assembly
// front end blamka_amd64.go) provides processBlock/processBlockXOR.
//
// The translation is syntax-directed and types-driven. Variables are SLOTS numbered by declaration
// (parameters, then locals in source order; for the lifted closure: captured variables in slot order of
// the enclosing function, then its parameters, then its locals); names and file:line only appear in
// comments. Whatever has no IR form becomes an `unknown` node carrying the source text.
func (g *Gen) genArgon2IR() {
	const pkgKey = "argon2/argon2crypto"
	cfg := &packages.Config{
		Mode: packages.NeedName | packages.NeedFiles | packages.NeedSyntax | packages.NeedTypes |
			packages.NeedTypesInfo | packages.NeedImports | packages.NeedCompiledGoFiles,
		Dir:        g.repo,
		Fset:       g.fset,
		Tests:      false,
		BuildFlags: []string{"-tags=purego"},
		Env:        append(os.Environ(), "GOFLAGS=-mod=mod", "GOPROXY=off", "GOSUMDB=off", "GOTOOLCHAIN=local"),
	}
	pkgs, err := packages.Load(cfg, "./"+pkgKey)
	if err != nil || len(pkgs) != 1 || len(pkgs[0].Errors) > 0 {
		g.failf("argon2ir: cannot load %s with -tags purego: %v", pkgKey, err)
		return
	}
	p := pkgs[0]
	fns := []string{"Key", "initHash", "initBlocks", "processBlocks", "extractKey", "indexAlpha", "phi",
		"blake2bHash", "processBlockGeneric", "processBlock", "processBlockXOR", "blamkaGeneric"}
	x := &a2X{g: g, p: p, known: map[*types.Func]string{}}
	var decls []*ast.FuncDecl
	for _, name := range fns {
		fd := g.funcDecl(p, name)
		if fd == nil || fd.Body == nil {
			g.failf("argon2ir: %s.%s not found (or has no Go body) with -tags purego", pkgKey, name)
			return
		}
		obj, _ := p.TypesInfo.Defs[fd.Name].(*types.Func)
		if obj == nil {
			g.failf("argon2ir: %s.%s has no type information", pkgKey, name)
			return
		}
		x.known[obj] = name
		decls = append(decls, fd)
	}

	var sb strings.Builder
	sb.WriteString(header("Block IR of argon2/argon2crypto, generic (`purego`) path (see Base/A2IR.lean): one `Proc` per Go function\n(a function literal becomes a procedure of its own whose first parameters are the captured variables),\nvariables numbered by order of declaration (source names in comments only)."))
	sb.WriteString("import GoCrypt.Base.A2IR\n\nopen GoCrypt.A2IR\n\nnamespace GoCrypt.Gen.argon2IR\n\n")

	type emitted struct{ goName, leanName string }
	var all []emitted
	for i, fd := range decls {
		f := &a2Fn{x: x, name: fns[i], body: fd.Body, ftype: fd.Type, slots: map[*types.Var]int{}, closures: map[*types.Var]*a2Closure{}}
		body := f.run(nil)
		lean := "proc_" + fns[i]
		fmt.Fprintf(&sb, "/-- %s  (%s)\n%s -/\ndef %s : Proc := {\n  nparams := %d\n  nslots := %d\n  body :=\n%s\n}\n\n",
			fns[i], g.pos(fd.Pos()), f.slotDoc(), lean, f.nparams, len(f.slotNames), body)
		all = append(all, emitted{fns[i], lean})
		// lifted closures, in source order
		for _, c := range f.lifted {
			lean := "proc_" + c.irName
			fmt.Fprintf(&sb, "/-- %s: the function literal assigned to `%s` in `%s`, lambda-lifted  (%s)\n%s -/\ndef %s : Proc := {\n  nparams := %d\n  nslots := %d\n  body :=\n%s\n}\n\n",
				c.irName, c.v.Name(), fns[i], g.pos(c.lit.Pos()), c.fn.slotDoc(), lean, c.fn.nparams, len(c.fn.slotNames), c.text)
			all = append(all, emitted{c.irName, lean})
		}
	}
	var pl []string
	for _, e := range all {
		pl = append(pl, fmt.Sprintf("(%s, %s)", strLit(e.goName), e.leanName))
	}
	fmt.Fprintf(&sb, "/-- The translated functions, by Go name. -/\ndef program : Program := {\n  procs := [\n    %s\n  ]\n}\n\n", strings.Join(pl, ",\n    "))
	sb.WriteString("end GoCrypt.Gen.argon2IR\n")
	g.emit("Argon2IR.lean", sb.String())
}

type a2X struct {
	g     *Gen
	p     *packages.Package
	known map[*types.Func]string
}

type a2Closure struct {
	v        *types.Var // the variable the literal is assigned to
	lit      *ast.FuncLit
	irName   string
	captured []*types.Var // in slot order of the enclosing function
	fn       *a2Fn
	text     string
	wgParam  *types.Var // its *sync.WaitGroup parameter, if any
}

// a2Fn is the translation of one function body (a declaration or a lifted literal).
type a2Fn struct {
	x         *a2X
	name      string
	body      *ast.BlockStmt
	ftype     *ast.FuncType
	slots     map[*types.Var]int
	slotNames []string
	nparams   int
	nresults  int
	closures  map[*types.Var]*a2Closure
	lifted    []*a2Closure
	outer     *a2Fn // for a lifted literal: the enclosing function (to resolve closure variables)
}

func (f *a2Fn) info() *types.Info { return f.x.p.TypesInfo }

func (f *a2Fn) addSlot(v *types.Var, role string) int {
	k := len(f.slotNames)
	if v != nil {
		f.slots[v] = k
		f.slotNames = append(f.slotNames, fmt.Sprintf("%d = %s%s", k, v.Name(), role))
	} else {
		f.slotNames = append(f.slotNames, fmt.Sprintf("%d =%s", k, role))
	}
	return k
}

func (f *a2Fn) temp(what string) int { return f.addSlot(nil, " (translator temporary: "+what+")") }

func (f *a2Fn) slotDoc() string { return "slots: " + strings.Join(f.slotNames, ", ") }

func (f *a2Fn) where(n ast.Node) string { return f.x.g.pos(n.Pos()) }

func (f *a2Fn) srcLine(n ast.Node) string {
	s := strings.Join(strings.Fields(f.x.g.src(n)), " ")
	if len(s) > 110 {
		s = s[:110] + " …"
	}
	return strings.ReplaceAll(s, "-/", "- /")
}

func (f *a2Fn) unknown(n ast.Node, why string) string {
	return fmt.Sprintf("(.unknown %s)", strLit(f.where(n)+": "+why+": "+f.srcLine(n)))
}

func (f *a2Fn) typ(e ast.Expr) types.Type {
	if tv, ok := f.info().Types[e]; ok && tv.Type != nil {
		return tv.Type
	}
	if id, ok := e.(*ast.Ident); ok {
		if o := f.info().ObjectOf(id); o != nil {
			return o.Type()
		}
	}
	return types.Typ[types.Invalid]
}

// ---- type classification ------------------------------------------------------------------------

type a2Kind int

const (
	kOther a2Kind = iota
	kU8
	kU32
	kU64
	kInt
	kBool
	kBlock  // block = [128]uint64
	kPBlock // *block
	kBlocks // []block
	kPWord  // *uint64
	kBytes  // []byte
	kBArr   // [N]byte
	kPBArr  // *[N]byte
	kHash   // hash.Hash
	kWG     // sync.WaitGroup
	kPWG    // *sync.WaitGroup
)

func isBlockArray(t types.Type) bool {
	a, ok := t.Underlying().(*types.Array)
	if !ok || a.Len() != 128 {
		return false
	}
	b, ok := a.Elem().Underlying().(*types.Basic)
	return ok && b.Kind() == types.Uint64
}

func a2KindOf(t types.Type) a2Kind {
	if t == nil {
		return kOther
	}
	if n, ok := t.(*types.Named); ok && n.Obj().Pkg() != nil {
		switch n.Obj().Pkg().Path() + "." + n.Obj().Name() {
		case "hash.Hash":
			return kHash
		case "sync.WaitGroup":
			return kWG
		}
	}
	switch u := t.Underlying().(type) {
	case *types.Basic:
		switch u.Kind() {
		case types.Uint8:
			return kU8
		case types.Uint32:
			return kU32
		case types.Uint64:
			return kU64
		case types.Int, types.UntypedInt:
			return kInt
		case types.Bool, types.UntypedBool:
			return kBool
		}
	case *types.Array:
		if isBlockArray(t) {
			return kBlock
		}
		if isByteArray(t) {
			return kBArr
		}
	case *types.Slice:
		if isByteSlice(t) {
			return kBytes
		}
		if isBlockArray(u.Elem()) {
			return kBlocks
		}
	case *types.Pointer:
		switch a2KindOf(u.Elem()) {
		case kBlock:
			return kPBlock
		case kU64:
			return kPWord
		case kBArr:
			return kPBArr
		case kWG:
			return kPWG
		}
	}
	return kOther
}

func (f *a2Fn) kind(e ast.Expr) a2Kind { return a2KindOf(f.typ(e)) }

var a2TyName = map[a2Kind]string{kU8: ".u8", kU32: ".u32", kU64: ".u64", kInt: ".int"}

// localVar resolves an identifier to a variable of the function being translated (or, inside a lifted
// literal, a captured variable of the enclosing function).
func (f *a2Fn) localVar(id *ast.Ident) *types.Var {
	v, ok := f.info().ObjectOf(id).(*types.Var)
	if !ok || v.IsField() || v.Pkg() == nil || v.Parent() == v.Pkg().Scope() {
		return nil
	}
	return v
}

func (f *a2Fn) slotOf(id *ast.Ident) (int, bool) {
	if lv := f.localVar(id); lv != nil {
		k, ok := f.slots[lv]
		return k, ok
	}
	return 0, false
}

// ---- setting up the frame -----------------------------------------------------------------------

// run numbers the slots and translates the body. `captured` are the leading parameters of a lifted literal.
func (f *a2Fn) run(captured []*types.Var) string {
	info := f.info()
	for _, v := range captured {
		f.addSlot(v, " (captured)")
	}
	if f.ftype.Params != nil {
		for _, fld := range f.ftype.Params.List {
			if len(fld.Names) == 0 {
				return "    " + f.unknown(f.ftype, "unnamed parameter")
			}
			for _, n := range fld.Names {
				v, _ := info.Defs[n].(*types.Var)
				if v == nil || n.Name == "_" {
					return "    " + f.unknown(f.ftype, "blank parameter")
				}
				f.addSlot(v, " (parameter)")
			}
		}
	}
	f.nparams = len(f.slotNames)
	if res := f.ftype.Results; res != nil {
		f.nresults = res.NumFields()
		for _, fld := range res.List {
			if len(fld.Names) > 0 {
				return "    " + f.unknown(f.ftype, "named results")
			}
		}
	}
	// locals, in order of declaration; function literals get frames of their own
	var walk func(n ast.Node) bool
	walk = func(n ast.Node) bool {
		if _, ok := n.(*ast.FuncLit); ok {
			return false
		}
		if id, ok := n.(*ast.Ident); ok {
			if v, ok := info.Defs[id].(*types.Var); ok && v != nil && !v.IsField() && id.Name != "_" {
				if _, seen := f.slots[v]; !seen {
					f.addSlot(v, "")
				}
			}
		}
		return true
	}
	ast.Inspect(f.body, walk)
	stmts := f.block(f.body.List, "    ")
	if len(stmts) == 0 {
		return "    .skip"
	}
	return strings.Join(stmts, " ;;;\n")
}

// ---- expressions --------------------------------------------------------------------------------

func (f *a2Fn) constExpr(e ast.Expr, v constant.Value, t types.Type) string {
	switch v.Kind() {
	case constant.Bool:
		return fmt.Sprintf("(.bool %v)", constant.BoolVal(v))
	case constant.Int:
		s := v.ExactString()
		switch a2KindOf(t) {
		case kU8:
			return fmt.Sprintf("(.u8 %s)", s)
		case kU32:
			return fmt.Sprintf("(.u32 %s)", s)
		case kU64:
			return fmt.Sprintf("(.u64 %s)", s)
		case kInt:
			if strings.HasPrefix(s, "-") {
				return fmt.Sprintf("(.int (%s))", s)
			}
			return fmt.Sprintf("(.int %s)", s)
		}
	}
	return f.unknown(e, "constant of type "+t.String())
}

var a2BinOps = map[token.Token]string{
	token.ADD: "add", token.SUB: "sub", token.MUL: "mul", token.QUO: "div", token.REM: "rem",
	token.AND: "band", token.OR: "bor", token.XOR: "xor",
	token.LSS: "lt", token.LEQ: "le", token.GTR: "gt", token.GEQ: "ge", token.EQL: "eq", token.NEQ: "ne",
}

func isIntKind(k a2Kind) bool { return k == kU8 || k == kU32 || k == kU64 || k == kInt }

// arith builds `a op b`; both operands have the same Go type (the type checker's rule), which is what
// the interpreter dispatches on.
func (f *a2Fn) arith(n ast.Node, op token.Token, a, b ast.Expr) string {
	if op == token.SHL || op == token.SHR {
		tv, ok := f.info().Types[b]
		if !ok || tv.Value == nil || tv.Value.Kind() != constant.Int {
			return f.unknown(n, "shift by a non-constant count")
		}
		cnt, exact := constant.Int64Val(tv.Value)
		if !exact || cnt < 0 {
			return f.unknown(n, "shift count")
		}
		if k := f.kind(a); k != kU32 && k != kU64 {
			return f.unknown(n, "shift of a value that is not uint32/uint64")
		}
		name := "shl"
		if op == token.SHR {
			name = "shr"
		}
		return fmt.Sprintf("(.%s %s %d)", name, f.expr(a), cnt)
	}
	name, ok := a2BinOps[op]
	if !ok {
		return f.unknown(n, "operator "+op.String())
	}
	ka, kb := f.kind(a), f.kind(b)
	if !isIntKind(ka) || ka != kb {
		return f.unknown(n, "operands that are not two integers of one type")
	}
	return fmt.Sprintf("(.bin .%s %s %s)", name, f.expr(a), f.expr(b))
}

func (f *a2Fn) isNil(e ast.Expr) bool {
	id, ok := ast.Unparen(e).(*ast.Ident)
	if !ok {
		return false
	}
	_, isNil := f.info().ObjectOf(id).(*types.Nil)
	return isNil
}

// place translates an expression that denotes a block, a byte array or a WaitGroup VARIABLE (or a
// pointer to one) into the reference held in its slot: `&x`, `x[i]`, `x[lo:hi]` all start from it.
func (f *a2Fn) place(e ast.Expr) (string, bool) {
	switch v := ast.Unparen(e).(type) {
	case *ast.Ident:
		switch f.kind(v) {
		case kBlock, kPBlock, kBArr, kPBArr, kWG, kPWG:
			if k, ok := f.slotOf(v); ok {
				return fmt.Sprintf("(.var %d)", k), true
			}
		}
	case *ast.IndexExpr:
		if f.kind(v.X) == kBlocks && f.kind(v) == kBlock {
			return fmt.Sprintf("(.elem %s %s)", f.expr(v.X), f.expr(v.Index)), true
		}
	case *ast.UnaryExpr:
		if v.Op == token.AND {
			switch f.kind(v.X) {
			case kBlock, kBArr, kWG:
				return f.place(v.X)
			}
		}
	}
	return "", false
}

func (f *a2Fn) expr(e ast.Expr) string {
	if tv, ok := f.info().Types[e]; ok && tv.Value != nil {
		return f.constExpr(e, tv.Value, tv.Type)
	}
	switch v := e.(type) {
	case *ast.ParenExpr:
		return f.expr(v.X)
	case *ast.Ident:
		if f.isNil(v) {
			if f.kind(v) == kBytes {
				return ".nilBytes"
			}
			return f.unknown(v, "nil of type "+f.typ(v).String())
		}
		k, ok := f.slotOf(v)
		if !ok {
			return f.unknown(v, "identifier that is not a variable of the function")
		}
		switch f.kind(v) {
		case kU8, kU32, kU64, kInt, kBool, kPBlock, kBlocks, kPWord, kBytes, kPBArr, kPWG:
			return fmt.Sprintf("(.var %d)", k)
		case kBlock:
			return fmt.Sprintf("(.loadBlk (.var %d))", k) // the array as a value: a copy
		case kBArr:
			return fmt.Sprintf("(.loadArr (.var %d))", k)
		}
		return f.unknown(v, "variable of type "+f.typ(v).String()+" used as a value")
	case *ast.BinaryExpr:
		switch v.Op {
		case token.LAND:
			return fmt.Sprintf("(.land %s %s)", f.expr(v.X), f.expr(v.Y))
		case token.LOR:
			return fmt.Sprintf("(.lor %s %s)", f.expr(v.X), f.expr(v.Y))
		}
		return f.arith(v, v.Op, v.X, v.Y)
	case *ast.UnaryExpr:
		switch v.Op {
		case token.NOT:
			return fmt.Sprintf("(.not %s)", f.expr(v.X))
		case token.AND:
			if s, ok := f.place(v); ok {
				return s
			}
			// &t[i] for a block t
			if ix, ok := ast.Unparen(v.X).(*ast.IndexExpr); ok && f.kind(ix) == kU64 {
				if base, ok := f.place(ix.X); ok && (f.kind(ix.X) == kBlock || f.kind(ix.X) == kPBlock) {
					return fmt.Sprintf("(.addrWord %s %s)", base, f.expr(ix.Index))
				}
			}
		}
		return f.unknown(v, "unary operator "+v.Op.String())
	case *ast.StarExpr:
		if f.kind(v.X) == kPWord {
			return fmt.Sprintf("(.deref %s)", f.expr(v.X))
		}
		return f.unknown(v, "pointer indirection")
	case *ast.IndexExpr:
		switch f.kind(v.X) {
		case kBlock, kPBlock:
			if base, ok := f.place(v.X); ok {
				return fmt.Sprintf("(.word %s %s)", base, f.expr(v.Index))
			}
		case kBlocks:
			if s, ok := f.place(v); ok {
				return fmt.Sprintf("(.loadBlk %s)", s) // B[i] as a value: a copy
			}
		}
		return f.unknown(v, "index expression")
	case *ast.SliceExpr:
		if v.Slice3 {
			return f.unknown(v, "3-index slice")
		}
		var base string
		switch f.kind(v.X) {
		case kBytes:
			base = f.expr(v.X)
		case kBArr, kPBArr:
			b, ok := f.place(v.X)
			if !ok {
				return f.unknown(v, "slice of an array that is not a variable")
			}
			base = b
		default:
			return f.unknown(v, "slice expression on something that is not a []byte or a byte array")
		}
		lo, hi := "(.int 0)", fmt.Sprintf("(.len %s)", base)
		if v.Low != nil {
			lo = f.expr(v.Low)
		}
		if v.High != nil {
			hi = f.expr(v.High)
		}
		return fmt.Sprintf("(.slice %s %s %s)", base, lo, hi)
	case *ast.CallExpr:
		return f.callExpr(v)
	}
	return f.unknown(e, "expression form")
}

// stdFunc names a call into another package: "pkgpath.Func" or "pkgpath.Var.Method".
func (f *a2Fn) stdFunc(c *ast.CallExpr) string {
	sel, ok := c.Fun.(*ast.SelectorExpr)
	if !ok {
		return ""
	}
	if id, ok := sel.X.(*ast.Ident); ok {
		if pn, ok := f.info().ObjectOf(id).(*types.PkgName); ok {
			if fn, ok := f.info().ObjectOf(sel.Sel).(*types.Func); ok {
				return pn.Imported().Path() + "." + fn.Name()
			}
		}
	}
	s := f.info().Selections[sel]
	if s == nil || s.Kind() != types.MethodVal {
		return ""
	}
	fn, ok := s.Obj().(*types.Func)
	if !ok || fn.Pkg() == nil {
		return ""
	}
	if inner, ok := sel.X.(*ast.SelectorExpr); ok {
		if v, ok := f.info().ObjectOf(inner.Sel).(*types.Var); ok && v.Pkg() != nil && v.Parent() == v.Pkg().Scope() {
			return v.Pkg().Path() + "." + v.Name() + "." + fn.Name()
		}
	}
	return ""
}

// method recognises `x.M(…)` for a local variable x of kind k; it returns x's slot.
func (f *a2Fn) method(c *ast.CallExpr, k a2Kind, name string) (int, bool) {
	sel, ok := c.Fun.(*ast.SelectorExpr)
	if !ok || sel.Sel.Name != name {
		return 0, false
	}
	id, ok := ast.Unparen(sel.X).(*ast.Ident)
	if !ok || f.kind(id) != k {
		return 0, false
	}
	if s := f.info().Selections[sel]; s == nil || s.Kind() != types.MethodVal {
		return 0, false
	}
	return f.slotOf(id)
}

func (f *a2Fn) callExpr(c *ast.CallExpr) string {
	info := f.info()
	if tv, ok := info.Types[c.Fun]; ok && tv.IsType() && len(c.Args) == 1 {
		to, from := a2KindOf(tv.Type), f.kind(c.Args[0])
		if isIntKind(to) && isIntKind(from) {
			if to == from {
				return f.expr(c.Args[0])
			}
			return fmt.Sprintf("(.conv %s %s)", a2TyName[to], f.expr(c.Args[0]))
		}
		return f.unknown(c, "conversion")
	}
	if id, ok := c.Fun.(*ast.Ident); ok {
		if b, ok := info.ObjectOf(id).(*types.Builtin); ok {
			if b.Name() == "len" && len(c.Args) == 1 {
				switch f.kind(c.Args[0]) {
				case kBytes:
					return fmt.Sprintf("(.len %s)", f.expr(c.Args[0]))
				}
			}
			return f.unknown(c, "builtin "+b.Name())
		}
	}
	if f.stdFunc(c) == "encoding/binary.LittleEndian.Uint64" && len(c.Args) == 1 {
		return fmt.Sprintf("(.leU64 %s)", f.expr(c.Args[0]))
	}
	return f.unknown(c, "call inside an expression")
}

// calledFunc resolves a call to a translated function or to a lifted literal of this function.
func (f *a2Fn) calledFunc(c *ast.CallExpr) (name string, extra []string, ok bool) {
	id, isId := c.Fun.(*ast.Ident)
	if !isId {
		return "", nil, false
	}
	switch o := f.info().ObjectOf(id).(type) {
	case *types.Func:
		if n, known := f.x.known[o]; known {
			return n, nil, true
		}
	case *types.Var:
		if cl := f.closures[o]; cl != nil {
			for _, cv := range cl.captured {
				extra = append(extra, fmt.Sprintf("(.var %d)", f.slots[cv]))
			}
			return cl.irName, extra, true
		}
	}
	return "", nil, false
}

func (f *a2Fn) callArgs(c *ast.CallExpr, extra []string) []string {
	args := append([]string{}, extra...)
	sig, _ := f.typ(c.Fun).(*types.Signature)
	for i, a := range c.Args {
		// an untyped nil takes the parameter's type
		if f.isNil(a) && sig != nil && i < sig.Params().Len() && a2KindOf(sig.Params().At(i).Type()) == kBytes {
			args = append(args, ".nilBytes")
			continue
		}
		args = append(args, f.expr(a))
	}
	return args
}

// ---- statements ---------------------------------------------------------------------------------

func (f *a2Fn) comment(n ast.Node, ind string) string {
	return fmt.Sprintf("%s-- %s: %s\n", ind, f.where(n), f.srcLine(n))
}

func (f *a2Fn) comment1(n ast.Node, text, ind string) string {
	return fmt.Sprintf("%s-- %s: %s\n", ind, f.where(n), text)
}

func (f *a2Fn) group(stmts []string, ind string) string {
	if len(stmts) == 0 {
		return ind + ".skip"
	}
	return ind + "(\n" + strings.Join(stmts, " ;;;\n") + "\n" + ind + ")"
}

func (f *a2Fn) nested(list []ast.Stmt, ind string) string {
	return f.group(f.block(list, ind+"  "), ind)
}

func (f *a2Fn) block(list []ast.Stmt, ind string) []string {
	var out []string
	for i := 0; i < len(list); i++ {
		if i+2 < len(list) {
			if s, ok := f.tasksPattern(list[i], list[i+1], list[i+2], ind); ok {
				out = append(out, s...)
				i += 2
				continue
			}
		}
		out = append(out, f.stmt(list[i], ind)...)
	}
	return out
}

// lhs translates an assignment target; isDefine tells whether the statement declares it.
func (f *a2Fn) lhs(e ast.Expr, isDefine bool) string {
	switch v := ast.Unparen(e).(type) {
	case *ast.Ident:
		if v.Name == "_" {
			return ".blank"
		}
		k, ok := f.slotOf(v)
		if !ok {
			return ""
		}
		switch f.kind(v) {
		case kU8, kU32, kU64, kInt, kBool, kPBlock, kBlocks, kPWord, kBytes, kPBArr, kHash:
			return fmt.Sprintf(".var %d", k)
		case kBArr:
			if isDefine {
				return fmt.Sprintf(".newArr %d", k)
			}
		}
	case *ast.IndexExpr:
		switch f.kind(v.X) {
		case kBlock, kPBlock:
			if base, ok := f.place(v.X); ok {
				return fmt.Sprintf(".word %s %s", base, f.expr(v.Index))
			}
		}
	case *ast.StarExpr:
		if f.kind(v.X) == kPWord {
			return fmt.Sprintf(".deref %s", f.expr(v.X))
		}
	}
	return ""
}

func (f *a2Fn) zero(t types.Type) (string, bool) {
	switch a2KindOf(t) {
	case kU8:
		return "(.u8 0)", true
	case kU32:
		return "(.u32 0)", true
	case kU64:
		return "(.u64 0)", true
	case kInt:
		return "(.int 0)", true
	case kBool:
		return "(.bool false)", true
	case kHash:
		return ".nilHash", true
	case kBytes:
		return ".nilBytes", true
	}
	return "", false
}

// newHashCall recognises `blake2b.New512(nil)` / `blake2b.New(n, nil)`.
func (f *a2Fn) newHashCall(e ast.Expr) (string, bool) {
	c, ok := ast.Unparen(e).(*ast.CallExpr)
	if !ok {
		return "", false
	}
	switch f.stdFunc(c) {
	case "golang.org/x/crypto/blake2b.New512":
		if len(c.Args) == 1 && f.isNil(c.Args[0]) {
			return "(.int 64)", true
		}
	case "golang.org/x/crypto/blake2b.New":
		if len(c.Args) == 2 && f.isNil(c.Args[1]) && f.kind(c.Args[0]) == kInt {
			return f.expr(c.Args[0]), true
		}
	}
	return "", false
}

func (f *a2Fn) assignStmt(v *ast.AssignStmt, ind string) []string {
	c := f.comment(v, ind)
	isDefine := v.Tok == token.DEFINE
	switch v.Tok {
	case token.ASSIGN, token.DEFINE:
		// a function literal: lambda-lifted
		if len(v.Lhs) == 1 && len(v.Rhs) == 1 && isDefine {
			if lit, ok := v.Rhs[0].(*ast.FuncLit); ok {
				if id, ok := v.Lhs[0].(*ast.Ident); ok {
					return f.liftLiteral(v, id, lit, ind)
				}
			}
		}
		// h, _ := blake2b.New…(…)
		if len(v.Lhs) == 2 && len(v.Rhs) == 1 {
			if size, ok := f.newHashCall(v.Rhs[0]); ok {
				id, isId := v.Lhs[0].(*ast.Ident)
				blank, isBlank := v.Lhs[1].(*ast.Ident)
				if isId && isBlank && blank.Name == "_" && f.kind(id) == kHash {
					if k, ok := f.slotOf(id); ok {
						return []string{fmt.Sprintf("%s%s.newHash %d %s", c, ind, k, size)}
					}
				}
			}
		}
		if len(v.Lhs) == 1 && len(v.Rhs) == 1 {
			if call, ok := v.Rhs[0].(*ast.CallExpr); ok {
				// x := make([]T, n)
				if id, ok := call.Fun.(*ast.Ident); ok {
					if b, ok := f.info().ObjectOf(id).(*types.Builtin); ok && b.Name() == "make" && len(call.Args) == 2 {
						if tgt, ok := v.Lhs[0].(*ast.Ident); ok {
							if k, ok := f.slotOf(tgt); ok && isIntKind(f.kind(call.Args[1])) {
								switch f.kind(call) {
								case kBlocks:
									return []string{fmt.Sprintf("%s%s.makeBlocks %d %s", c, ind, k, f.expr(call.Args[1]))}
								case kBytes:
									return []string{fmt.Sprintf("%s%s.makeBytes %d %s", c, ind, k, f.expr(call.Args[1]))}
								}
							}
						}
					}
				}
			}
		}
		var ls []string
		for _, l := range v.Lhs {
			s := f.lhs(l, isDefine)
			if s == "" {
				return []string{ind + f.unknown(v, "assignment target")}
			}
			ls = append(ls, s)
		}
		if len(v.Rhs) == 1 {
			if call, ok := v.Rhs[0].(*ast.CallExpr); ok {
				if name, extra, ok := f.calledFunc(call); ok {
					return []string{fmt.Sprintf("%s%s.call [%s] %s [%s]", c, ind, strings.Join(ls, ", "), strLit(name), strings.Join(f.callArgs(call, extra), ", "))}
				}
			}
		}
		if len(v.Lhs) != len(v.Rhs) {
			return []string{ind + f.unknown(v, "multi-value assignment from something that is not a translated function")}
		}
		for _, l := range ls {
			if strings.HasPrefix(l, ".newArr") {
				return []string{ind + f.unknown(v, "array variable defined from something that is not a call")}
			}
		}
		var rs []string
		for _, r := range v.Rhs {
			rs = append(rs, f.expr(r))
		}
		return []string{fmt.Sprintf("%s%s.assign [%s] [%s]", c, ind, strings.Join(ls, ", "), strings.Join(rs, ", "))}
	}
	ops := map[token.Token]token.Token{
		token.ADD_ASSIGN: token.ADD, token.SUB_ASSIGN: token.SUB, token.MUL_ASSIGN: token.MUL, token.QUO_ASSIGN: token.QUO,
		token.REM_ASSIGN: token.REM, token.AND_ASSIGN: token.AND, token.OR_ASSIGN: token.OR, token.XOR_ASSIGN: token.XOR,
		token.SHL_ASSIGN: token.SHL, token.SHR_ASSIGN: token.SHR,
	}
	op, ok := ops[v.Tok]
	if !ok || len(v.Lhs) != 1 || len(v.Rhs) != 1 || f.hasCall(v.Lhs[0]) {
		return []string{ind + f.unknown(v, "assignment operator")}
	}
	l := f.lhs(v.Lhs[0], false)
	if l == "" || l == ".blank" {
		return []string{ind + f.unknown(v, "assignment target")}
	}
	return []string{fmt.Sprintf("%s%s.assign [%s] [%s]", c, ind, l, f.arith(v, op, v.Lhs[0], v.Rhs[0]))}
}

func (f *a2Fn) hasCall(e ast.Expr) bool {
	found := false
	ast.Inspect(e, func(n ast.Node) bool {
		if c, ok := n.(*ast.CallExpr); ok {
			if tv, ok := f.info().Types[c.Fun]; !ok || !tv.IsType() {
				found = true
			}
		}
		return true
	})
	return found
}

// liftLiteral turns `name := func(params) { body }` into a procedure whose leading parameters are the
// variables of the enclosing function that the literal reads. A literal that assigns to, or takes the
// address of, a captured variable is not liftable.
func (f *a2Fn) liftLiteral(v *ast.AssignStmt, id *ast.Ident, lit *ast.FuncLit, ind string) []string {
	fv, _ := f.info().Defs[id].(*types.Var)
	if fv == nil || f.outer != nil {
		return []string{ind + f.unknown(v, "function literal")}
	}
	capSet := map[*types.Var]bool{}
	written := false
	ast.Inspect(lit.Body, func(n ast.Node) bool {
		switch s := n.(type) {
		case *ast.Ident:
			if lv := f.localVar(s); lv != nil {
				if _, mine := f.slots[lv]; mine {
					capSet[lv] = true
				}
			}
		case *ast.AssignStmt:
			for _, l := range s.Lhs {
				if lid, ok := ast.Unparen(l).(*ast.Ident); ok {
					if lv := f.localVar(lid); lv != nil {
						if _, mine := f.slots[lv]; mine {
							written = true
						}
					}
				}
			}
		case *ast.IncDecStmt:
			if lid, ok := ast.Unparen(s.X).(*ast.Ident); ok {
				if lv := f.localVar(lid); lv != nil {
					if _, mine := f.slots[lv]; mine {
						written = true
					}
				}
			}
		case *ast.UnaryExpr:
			if s.Op == token.AND {
				if lid, ok := ast.Unparen(s.X).(*ast.Ident); ok {
					if lv := f.localVar(lid); lv != nil {
						if _, mine := f.slots[lv]; mine {
							written = true
						}
					}
				}
			}
		case *ast.FuncLit:
			if s != lit {
				written = true // nested literals: not translated
			}
		}
		return true
	})
	if written {
		return []string{ind + f.unknown(v, "function literal that writes a captured variable")}
	}
	var captured []*types.Var
	for cv := range capSet {
		captured = append(captured, cv)
	}
	sort.Slice(captured, func(i, j int) bool { return f.slots[captured[i]] < f.slots[captured[j]] })
	for _, cv := range captured {
		switch a2KindOf(cv.Type()) {
		case kU8, kU32, kU64, kInt, kBool, kBlocks, kBytes, kPBlock, kPBArr:
		default:
			return []string{ind + f.unknown(v, "function literal capturing a variable of type "+cv.Type().String())}
		}
	}
	cl := &a2Closure{v: fv, lit: lit, irName: id.Name, captured: captured}
	cl.fn = &a2Fn{x: f.x, name: id.Name, body: lit.Body, ftype: lit.Type, slots: map[*types.Var]int{}, closures: map[*types.Var]*a2Closure{}, outer: f}
	// a *sync.WaitGroup parameter whose only use is a final `wg.Done()` makes the literal a TASK
	if lit.Type.Params != nil {
		for _, fld := range lit.Type.Params.List {
			for _, n := range fld.Names {
				if pv, ok := f.info().Defs[n].(*types.Var); ok && a2KindOf(pv.Type()) == kPWG {
					cl.wgParam = pv
				}
			}
		}
	}
	cl.text = cl.fn.run(captured)
	f.closures[fv] = cl
	f.lifted = append(f.lifted, cl)
	var names []string
	for _, cv := range captured {
		names = append(names, cv.Name())
	}
	return []string{fmt.Sprintf("%s%s-- function literal: lifted to procedure %s, captured variables (passed at each call): %s\n%s.skip",
		f.comment1(v, id.Name+" := func(…) { … }", ind), ind, strLit(id.Name), strings.Join(names, ", "), ind)}
}

// isTask: the lifted literal has a *sync.WaitGroup parameter, uses it exactly once, and that use is the
// statement `wg.Done()` at the very end of its body.
func (f *a2Fn) isTask(cl *a2Closure) bool {
	if cl.wgParam == nil {
		return false
	}
	uses := 0
	ast.Inspect(cl.lit.Body, func(n ast.Node) bool {
		if id, ok := n.(*ast.Ident); ok && f.info().ObjectOf(id) == cl.wgParam {
			uses++
		}
		return true
	})
	list := cl.lit.Body.List
	if uses != 1 || len(list) == 0 {
		return false
	}
	es, ok := list[len(list)-1].(*ast.ExprStmt)
	if !ok {
		return false
	}
	call, ok := es.X.(*ast.CallExpr)
	if !ok || len(call.Args) != 0 {
		return false
	}
	sel, ok := call.Fun.(*ast.SelectorExpr)
	if !ok || sel.Sel.Name != "Done" {
		return false
	}
	id, ok := sel.X.(*ast.Ident)
	return ok && f.info().ObjectOf(id) == cl.wgParam
}

// tasksPattern recognises
//
//	var wg sync.WaitGroup
//	for init; cond; post { wg.Add(1); go task(args…, &wg) }
//	wg.Wait()
//
// where `task` is a lifted literal that is a task (isTask) and `wg` is used nowhere else in the loop.
func (f *a2Fn) tasksPattern(s0, s1, s2 ast.Stmt, ind string) ([]string, bool) {
	ds, ok := s0.(*ast.DeclStmt)
	if !ok {
		return nil, false
	}
	gd, ok := ds.Decl.(*ast.GenDecl)
	if !ok || gd.Tok != token.VAR || len(gd.Specs) != 1 {
		return nil, false
	}
	vs := gd.Specs[0].(*ast.ValueSpec)
	if len(vs.Names) != 1 || len(vs.Values) != 0 || f.kind(vs.Names[0]) != kWG {
		return nil, false
	}
	wgVar, _ := f.info().Defs[vs.Names[0]].(*types.Var)
	wgSlot, okSlot := f.slots[wgVar]
	loop, ok := s1.(*ast.ForStmt)
	if !ok || wgVar == nil || !okSlot || loop.Cond == nil || len(loop.Body.List) != 2 {
		return nil, false
	}
	isWg := func(e ast.Expr) bool {
		id, ok := ast.Unparen(e).(*ast.Ident)
		return ok && f.info().ObjectOf(id) == wgVar
	}
	// wg.Add(1)
	add, ok := loop.Body.List[0].(*ast.ExprStmt)
	if !ok {
		return nil, false
	}
	addCall, ok := add.X.(*ast.CallExpr)
	if !ok || len(addCall.Args) != 1 {
		return nil, false
	}
	if sel, ok := addCall.Fun.(*ast.SelectorExpr); !ok || sel.Sel.Name != "Add" || !isWg(sel.X) {
		return nil, false
	}
	if tv, ok := f.info().Types[addCall.Args[0]]; !ok || tv.Value == nil || tv.Value.ExactString() != "1" {
		return nil, false
	}
	// go task(args…, &wg)
	gs, ok := loop.Body.List[1].(*ast.GoStmt)
	if !ok {
		return nil, false
	}
	name, extra, ok := f.calledFunc(gs.Call)
	if !ok {
		return nil, false
	}
	fid, _ := gs.Call.Fun.(*ast.Ident)
	fvar, _ := f.info().ObjectOf(fid).(*types.Var)
	cl := f.closures[fvar]
	if cl == nil || !f.isTask(cl) || len(gs.Call.Args) == 0 {
		return nil, false
	}
	last, ok := ast.Unparen(gs.Call.Args[len(gs.Call.Args)-1]).(*ast.UnaryExpr)
	if !ok || last.Op != token.AND || !isWg(last.X) {
		return nil, false
	}
	// no other use of wg inside the loop header / the other arguments
	uses := 0
	ast.Inspect(loop, func(n ast.Node) bool {
		if id, ok := n.(*ast.Ident); ok && f.info().ObjectOf(id) == wgVar {
			uses++
		}
		return true
	})
	if uses != 2 {
		return nil, false
	}
	// wg.Wait()
	ws, ok := s2.(*ast.ExprStmt)
	if !ok {
		return nil, false
	}
	waitCall, ok := ws.X.(*ast.CallExpr)
	if !ok || len(waitCall.Args) != 0 {
		return nil, false
	}
	if sel, ok := waitCall.Fun.(*ast.SelectorExpr); !ok || sel.Sel.Name != "Wait" || !isWg(sel.X) {
		return nil, false
	}
	init := ind + "  .skip"
	if loop.Init != nil {
		init = f.group(f.stmt(loop.Init, ind+"    "), ind+"  ")
	}
	post := ind + "  .skip"
	if loop.Post != nil {
		post = f.group(f.stmt(loop.Post, ind+"    "), ind+"  ")
	}
	args := f.callArgs(gs.Call, extra)
	out := []string{fmt.Sprintf("%s%s.declWG %d", f.comment(s0, ind), ind, wgSlot)}
	out = append(out, fmt.Sprintf("%s%s-- … { %s; %s }; %s  — run the calls as tasks (sequentially, in loop order), then join\n%s.tasks %s\n%s\n%s  %s\n%s\n%s  (.var %d) %s [%s]",
		f.comment1(s1, "for "+f.srcLine(loop.Cond), ind), ind, f.srcLine(loop.Body.List[0]), f.srcLine(loop.Body.List[1]), f.srcLine(s2),
		ind, f.fuel(loop.Cond), init, ind, f.expr(loop.Cond), post, ind, wgSlot, strLit(name), strings.Join(args, ", ")))
	return out, true
}

// fuel derives an iteration bound from a loop condition `a < b` (bound b) or `a > b` (bound a); the
// interpreter does not trust it.
func (f *a2Fn) fuel(cond ast.Expr) string {
	if b, ok := ast.Unparen(cond).(*ast.BinaryExpr); ok {
		switch b.Op {
		case token.LSS, token.LEQ:
			if isIntKind(f.kind(b.Y)) {
				return f.expr(b.Y)
			}
		case token.GTR, token.GEQ:
			if isIntKind(f.kind(b.X)) {
				return f.expr(b.X)
			}
		}
	}
	return f.unknown(cond, "no iteration bound for this loop condition")
}

func (f *a2Fn) stmt(s ast.Stmt, ind string) []string {
	switch v := s.(type) {
	case *ast.EmptyStmt:
		return nil
	case *ast.BlockStmt:
		return f.block(v.List, ind)
	case *ast.AssignStmt:
		return f.assignStmt(v, ind)
	case *ast.IncDecStmt:
		l := f.lhs(v.X, false)
		if l == "" || l == ".blank" || f.hasCall(v.X) || !isIntKind(f.kind(v.X)) {
			return []string{ind + f.unknown(v, "target of ++/--")}
		}
		op := "add"
		if v.Tok == token.DEC {
			op = "sub"
		}
		one := f.constExpr(v.X, constant.MakeInt64(1), f.typ(v.X))
		return []string{fmt.Sprintf("%s%s.assign [%s] [(.bin .%s %s %s)]", f.comment(v, ind), ind, l, op, f.expr(v.X), one)}
	case *ast.DeclStmt:
		gd, ok := v.Decl.(*ast.GenDecl)
		if !ok || gd.Tok != token.VAR {
			return []string{ind + f.unknown(v, "declaration")}
		}
		var out []string
		for _, sp := range gd.Specs {
			vs := sp.(*ast.ValueSpec)
			if len(vs.Values) != 0 {
				out = append(out, ind+f.unknown(v, "var declaration with initial values"))
				continue
			}
			for _, n := range vs.Names {
				k, ok := f.slotOf(n)
				if !ok {
					out = append(out, ind+f.unknown(n, "declared name"))
					continue
				}
				c := f.comment1(n, "var "+n.Name+" "+types.TypeString(f.typ(n), func(p *types.Package) string { return p.Name() }), ind)
				switch f.kind(n) {
				case kBlock:
					out = append(out, fmt.Sprintf("%s%s.declBlock %d", c, ind, k))
				case kBArr:
					out = append(out, fmt.Sprintf("%s%s.declBytes %d %d", c, ind, k, f.typ(n).Underlying().(*types.Array).Len()))
				default:
					if z, ok := f.zero(f.typ(n)); ok {
						out = append(out, fmt.Sprintf("%s%s.assign [.var %d] [%s]", c, ind, k, z))
					} else {
						out = append(out, ind+f.unknown(n, "variable of type "+f.typ(n).String()))
					}
				}
			}
		}
		return out
	case *ast.ExprStmt:
		call, ok := v.X.(*ast.CallExpr)
		if !ok {
			return []string{ind + f.unknown(v, "expression statement")}
		}
		c := f.comment(v, ind)
		if name, extra, ok := f.calledFunc(call); ok {
			sig, _ := f.typ(call.Fun).(*types.Signature)
			var ls []string
			if sig != nil {
				for i := 0; i < sig.Results().Len(); i++ {
					ls = append(ls, ".blank")
				}
			}
			return []string{fmt.Sprintf("%s%s.call [%s] %s [%s]", c, ind, strings.Join(ls, ", "), strLit(name), strings.Join(f.callArgs(call, extra), ", "))}
		}
		switch f.stdFunc(call) {
		case "encoding/binary.LittleEndian.PutUint32":
			if len(call.Args) == 2 && f.kind(call.Args[0]) == kBytes && f.kind(call.Args[1]) == kU32 {
				return []string{fmt.Sprintf("%s%s.putU32 %s %s", c, ind, f.expr(call.Args[0]), f.expr(call.Args[1]))}
			}
		case "encoding/binary.LittleEndian.PutUint64":
			if len(call.Args) == 2 && f.kind(call.Args[0]) == kBytes && f.kind(call.Args[1]) == kU64 {
				return []string{fmt.Sprintf("%s%s.putU64 %s %s", c, ind, f.expr(call.Args[0]), f.expr(call.Args[1]))}
			}
		}
		if k, ok := f.method(call, kHash, "Write"); ok && len(call.Args) == 1 && f.kind(call.Args[0]) == kBytes {
			return []string{fmt.Sprintf("%s%s.hashWrite %d %s", c, ind, k, f.expr(call.Args[0]))}
		}
		if k, ok := f.method(call, kHash, "Sum"); ok && len(call.Args) == 1 && f.kind(call.Args[0]) == kBytes {
			return []string{fmt.Sprintf("%s%s.hashSum %d %s", c, ind, k, f.expr(call.Args[0]))}
		}
		if k, ok := f.method(call, kHash, "Reset"); ok && len(call.Args) == 0 {
			return []string{fmt.Sprintf("%s%s.hashReset %d", c, ind, k)}
		}
		if k, ok := f.method(call, kPWG, "Done"); ok && len(call.Args) == 0 && f.outer != nil {
			return []string{fmt.Sprintf("%s%s.wgDone (.var %d)", c, ind, k)}
		}
		if id, ok := call.Fun.(*ast.Ident); ok {
			if b, ok := f.info().ObjectOf(id).(*types.Builtin); ok && b.Name() == "copy" && len(call.Args) == 2 &&
				f.kind(call.Args[0]) == kBytes && f.kind(call.Args[1]) == kBytes {
				return []string{fmt.Sprintf("%s%s.copy %s %s", c, ind, f.expr(call.Args[0]), f.expr(call.Args[1]))}
			}
		}
		return []string{ind + f.unknown(v, "call statement")}
	case *ast.IfStmt:
		var out []string
		if v.Init != nil {
			out = append(out, f.stmt(v.Init, ind)...)
		}
		th := f.nested(v.Body.List, ind+"  ")
		el := ind + "  .skip"
		if v.Else != nil {
			el = f.group(f.stmt(v.Else, ind+"    "), ind+"  ")
		}
		return append(out, fmt.Sprintf("%s%s.ite %s\n%s\n%s", f.comment1(v, "if "+f.srcLine(v.Cond), ind), ind, f.expr(v.Cond), th, el))
	case *ast.ForStmt:
		var out []string
		if v.Init != nil {
			out = append(out, f.stmt(v.Init, ind)...)
		}
		if v.Cond == nil {
			return append(out, ind+f.unknown(v, "loop without a condition"))
		}
		post := ind + "  .skip"
		if v.Post != nil {
			post = f.group(f.stmt(v.Post, ind+"    "), ind+"  ")
		}
		body := f.nested(v.Body.List, ind+"  ")
		return append(out, fmt.Sprintf("%s%s.for_ %s\n%s  %s\n%s\n%s", f.comment1(v, "for "+f.srcLine(v.Cond), ind), ind, f.fuel(v.Cond), ind, f.expr(v.Cond), post, body))
	case *ast.RangeStmt:
		if v.Tok != token.DEFINE || v.Key == nil {
			return []string{ind + f.unknown(v, "range statement")}
		}
		kid, ok := v.Key.(*ast.Ident)
		if !ok || kid.Name == "_" {
			return []string{ind + f.unknown(v, "range key")}
		}
		ks, ok := f.slotOf(kid)
		if !ok {
			return []string{ind + f.unknown(v, "range key")}
		}
		hdr := "for " + f.srcLine(v.Key)
		if v.Value != nil {
			hdr += ", " + f.srcLine(v.Value)
		}
		hdr += " := range " + f.srcLine(v.X)
		c := f.comment1(v, hdr, ind)
		arr, isArr := f.typ(v.X).Underlying().(*types.Array)
		if !isArr {
			return []string{ind + f.unknown(v, "range over something that is not an array")}
		}
		if v.Value == nil {
			// one iteration variable, constant length: Go does not evaluate the range expression
			return []string{fmt.Sprintf("%s%s.forN %d %d\n%s", c, ind, ks, arr.Len(), f.nested(v.Body.List, ind+"  "))}
		}
		vid, ok := v.Value.(*ast.Ident)
		if !ok || vid.Name == "_" || f.kind(v.X) != kBlock {
			return []string{ind + f.unknown(v, "range with a value over something that is not a block")}
		}
		vsl, ok := f.slotOf(vid)
		if !ok {
			return []string{ind + f.unknown(v, "range value")}
		}
		return []string{fmt.Sprintf("%s%s.forBlk %d %d %s\n%s", c, ind, ks, vsl, f.expr(v.X), f.nested(v.Body.List, ind+"  "))}
	case *ast.ReturnStmt:
		c := f.comment(v, ind)
		if len(v.Results) != f.nresults {
			return []string{ind + f.unknown(v, "return of a multi-value call")}
		}
		if len(v.Results) == 1 {
			if call, ok := ast.Unparen(v.Results[0]).(*ast.CallExpr); ok {
				if name, extra, ok := f.calledFunc(call); ok {
					k := f.temp("result of the call returned at " + f.where(v))
					return []string{fmt.Sprintf("%s%s.call [.var %d] %s [%s] ;;;\n%s.ret [(.var %d)]", c, ind, k, strLit(name), strings.Join(f.callArgs(call, extra), ", "), ind, k)}
				}
			}
		}
		var rs []string
		for _, r := range v.Results {
			rs = append(rs, f.expr(r))
		}
		return []string{fmt.Sprintf("%s%s.ret [%s]", c, ind, strings.Join(rs, ", "))}
	}
	return []string{ind + f.unknown(s, "statement form")}
}
