package main

import (
	"fmt"
	"go/ast"
	"go/constant"
	"go/token"
	"go/types"
	"strings"

	"golang.org/x/tools/go/packages"
)

// genTypeInfoIR translates (*typeInfo).field, (*typeInfo).normalize, getRawTypeInfo, indirectType and
// getTypeInfo of hash/typeinfo.go into the type-info IR of lean/GoCrypt/Base/TIIR.lean.
//
// The translation is syntax-directed and types-driven. Variables are identified by their declaration
// (types.Var object) and numbered in order of declaration: renaming a variable or moving code does not
// change the program text (file:line appears in comments only). Record fields are numbered by their
// position in the flattened struct declaration. Operations of reflect/strings/strconv/errors/sort and
// the type cache become the external operations of the IR; everything else that has no IR form becomes
// an `unknown` node, on which the interpreter is stuck.
func (g *Gen) genTypeInfoIR() {
	const pkgKey = "hash"
	p := g.pkg(pkgKey)
	if p == nil {
		return
	}
	fns := []struct{ goName, leanName string }{
		{"typeInfo.field", "fieldIR"},
		{"typeInfo.normalize", "normalizeIR"},
		{"getRawTypeInfo", "getRawTypeInfoIR"},
		{"indirectType", "indirectTypeIR"},
		{"getTypeInfo", "getTypeInfoIR"},
	}
	x := &tiX{g: g, p: p, known: map[*types.Func]int{}, flat: map[string][]tiFlatField{}}
	var decls []*ast.FuncDecl
	for i, fn := range fns {
		fd := g.funcDecl(p, fn.goName)
		if fd == nil || fd.Body == nil {
			g.failf("typeinfoir: %s.%s not found", pkgKey, fn.goName)
			return
		}
		obj, _ := p.TypesInfo.Defs[fd.Name].(*types.Func)
		if obj == nil {
			g.failf("typeinfoir: %s.%s has no type information", pkgKey, fn.goName)
			return
		}
		x.known[obj] = i
		decls = append(decls, fd)
	}

	var sb strings.Builder
	sb.WriteString(header("Type-info IR of hash/typeinfo.go (see Base/TIIR.lean): one `Proc` per Go function, variables numbered by\norder of declaration, record fields by position (source names in comments only)."))
	sb.WriteString("import GoCrypt.Base.TIIR\n\nopen GoCrypt.TIIR\n\nnamespace GoCrypt.Gen.typeinfoIR\n\n")

	for _, rec := range []struct{ goName, leanName string }{
		{"fieldInfo", "fieldInfoFields"}, {"typeInfo", "typeInfoFields"}, {"TagParamError", "tagParamErrorFields"},
	} {
		fl, ok := x.flatten(rec.goName)
		if !ok {
			g.failf("typeinfoir: struct %s not found", rec.goName)
			return
		}
		var fs []string
		for _, f := range fl {
			fs = append(fs, strLit(f.path))
		}
		fmt.Fprintf(&sb, "/-- Fields of a `%s` record, nested struct values flattened (`Expr.fld _ k` is the `k`-th). -/\ndef %s : List String := [%s]\n\n", rec.goName, rec.leanName, strings.Join(fs, ", "))
	}

	for i, fd := range decls {
		f := &tiFn{x: x, fd: fd, slots: map[*types.Var]int{}, boxed: map[*types.Var]bool{}}
		body := f.run()
		fmt.Fprintf(&sb, "/-- %s  (%s); function number %d\n%s -/\ndef %s : Proc := {\n  nparams := %d\n  nslots := %d\n  body :=\n%s\n}\n\n",
			fns[i].goName, g.pos(fd.Pos()), i, f.slotDoc(), fns[i].leanName, f.nparams, len(f.slotNames), body)
	}

	var pl, nl []string
	for _, fn := range fns {
		pl = append(pl, fn.leanName)
		nl = append(nl, strLit(fn.goName))
	}
	fmt.Fprintf(&sb, "/-- The translated functions; `Stmt.call _ k _` calls the `k`-th. -/\ndef program : Program := {\n  procs := [%s]\n}\n\n", strings.Join(pl, ", "))
	fmt.Fprintf(&sb, "/-- Go names of the translated functions, in the same order. -/\ndef procNames : List String := [%s]\n\n", strings.Join(nl, ", "))
	sb.WriteString("end GoCrypt.Gen.typeinfoIR\n")
	g.emit("TypeInfoIR.lean", sb.String())
}

type tiFlatField struct {
	path string
	typ  types.Type
}

type tiX struct {
	g     *Gen
	p     *packages.Package
	known map[*types.Func]int
	flat  map[string][]tiFlatField
	codec bool // codecir.go: the codec IR (Base/CodecIR.lean) instead of the type-info IR
}

// seqTok: the sequencing operator between two statements (the codec IR has its own notation: two
// notations with the same token would make every `a ;; b` ambiguous for the Lean elaborator).
func (x *tiX) seqTok() string {
	if x.codec {
		return " ;;;\n"
	}
	return " ;;\n"
}

// pkgStruct reports the name of t when it is a named struct type of the translated package.
func (x *tiX) pkgStruct(t types.Type) (string, bool) {
	n, ok := t.(*types.Named)
	if !ok || n.Obj().Pkg() == nil || n.Obj().Pkg().Path() != x.p.PkgPath {
		return "", false
	}
	if _, ok := n.Underlying().(*types.Struct); !ok {
		return "", false
	}
	return n.Obj().Name(), true
}

// flatten lists the fields of a struct of the package, nested struct VALUES expanded (paths "A.B").
func (x *tiX) flatten(name string) ([]tiFlatField, bool) {
	if fl, ok := x.flat[name]; ok {
		return fl, true
	}
	tn, ok := x.p.Types.Scope().Lookup(name).(*types.TypeName)
	if !ok {
		return nil, false
	}
	st, ok := tn.Type().Underlying().(*types.Struct)
	if !ok {
		return nil, false
	}
	var out []tiFlatField
	for i := 0; i < st.NumFields(); i++ {
		f := st.Field(i)
		if inner, ok := x.pkgStruct(f.Type()); ok {
			sub, ok := x.flatten(inner)
			if !ok {
				return nil, false
			}
			for _, s := range sub {
				out = append(out, tiFlatField{f.Name() + "." + s.path, s.typ})
			}
			continue
		}
		out = append(out, tiFlatField{f.Name(), f.Type()})
	}
	x.flat[name] = out
	return out, true
}

func (x *tiX) fieldNo(structName, path string) (int, bool) {
	fl, ok := x.flatten(structName)
	if !ok {
		return 0, false
	}
	for i, f := range fl {
		if f.path == path {
			return i, true
		}
	}
	return 0, false
}

type tiFn struct {
	x         *tiX
	fd        *ast.FuncDecl
	slots     map[*types.Var]int
	slotNames []string
	nparams   int
	nresults  int
	boxed     map[*types.Var]bool // struct-valued locals kept by address
	pre       []string            // statements hoisted out of the expression being translated
	ctx       []string            // enclosing "for" / "switch", innermost last
	noHoist   bool
	closure   map[*types.Var]bool // non-nil while translating a sort.Slice closure: the variables it declares
	// codec IR: `defer func() { … }()` lowered to a flag and an epilogue before every return
	deferFlag int
	deferLit  *ast.FuncLit
	deferRes  []int
	inDefer   bool
}

func (f *tiFn) info() *types.Info { return f.x.p.TypesInfo }

func (f *tiFn) addSlot(v *types.Var, role string) int {
	k := len(f.slotNames)
	if v != nil {
		f.slots[v] = k
		f.slotNames = append(f.slotNames, fmt.Sprintf("%d = %s%s", k, v.Name(), role))
	} else {
		f.slotNames = append(f.slotNames, fmt.Sprintf("%d =%s", k, role))
	}
	return k
}

func (f *tiFn) temp(what string) int { return f.addSlot(nil, " (translator temporary: "+what+")") }

func (f *tiFn) slotDoc() string { return "slots: " + strings.Join(f.slotNames, ", ") }

func (f *tiFn) where(n ast.Node) string { return f.x.g.pos(n.Pos()) }

func (f *tiFn) srcLine(n ast.Node) string {
	s := strings.Join(strings.Fields(f.x.g.src(n)), " ")
	if len(s) > 100 {
		s = s[:100] + " …"
	}
	return strings.ReplaceAll(s, "-/", "- /")
}

// unknown nodes carry the source text and the reason, never a position (moving code must not change the program).
func (f *tiFn) unknownE(n ast.Node, why string) string {
	return fmt.Sprintf("(.unknown %s)", strLit(why+": "+f.srcLine(n)))
}

func (f *tiFn) unknownS(n ast.Node, why string) string {
	return fmt.Sprintf("(.unknown %s)", strLit(why+": "+f.srcLine(n)))
}

func (f *tiFn) typ(e ast.Expr) types.Type {
	if tv, ok := f.info().Types[e]; ok && tv.Type != nil {
		return tv.Type
	}
	if id, ok := e.(*ast.Ident); ok {
		if o := f.info().ObjectOf(id); o != nil {
			return o.Type()
		}
	}
	return types.Typ[types.Invalid]
}

func (f *tiFn) localVar(id *ast.Ident) *types.Var {
	v, ok := f.info().ObjectOf(id).(*types.Var)
	if !ok || v.IsField() || v.Pkg() == nil || v.Parent() == v.Pkg().Scope() {
		return nil
	}
	return v
}

func (f *tiFn) isNil(e ast.Expr) bool {
	id, ok := ast.Unparen(e).(*ast.Ident)
	if !ok {
		return false
	}
	_, isNil := f.info().ObjectOf(id).(*types.Nil)
	return isNil
}

func isNamedType(t types.Type, pkgPath, name string) bool {
	n, ok := t.(*types.Named)
	return ok && n.Obj().Pkg() != nil && n.Obj().Pkg().Path() == pkgPath && n.Obj().Name() == name
}

func tiIsIntSlice(t types.Type) bool {
	s, ok := t.Underlying().(*types.Slice)
	if !ok {
		return false
	}
	b, ok := s.Elem().Underlying().(*types.Basic)
	return ok && b.Kind() == types.Int
}

func (f *tiFn) isPtrSlice(t types.Type) bool {
	s, ok := t.Underlying().(*types.Slice)
	if !ok {
		return false
	}
	pt, ok := s.Elem().(*types.Pointer)
	if !ok {
		return false
	}
	_, ok = f.x.pkgStruct(pt.Elem())
	return ok
}

func tiIsStringBoolMap(t types.Type) bool {
	m, ok := t.Underlying().(*types.Map)
	return ok && isStringType(m.Key()) && isBoolType(m.Elem())
}

func (f *tiFn) run() string {
	info := f.info()
	addParams := func(fl *ast.FieldList, role string) bool {
		if fl == nil {
			return true
		}
		for _, fld := range fl.List {
			if len(fld.Names) == 0 {
				return false
			}
			for _, n := range fld.Names {
				v, _ := info.Defs[n].(*types.Var)
				if v == nil || n.Name == "_" {
					return false
				}
				f.addSlot(v, role)
			}
		}
		return true
	}
	if !addParams(f.fd.Recv, " (receiver)") || !addParams(f.fd.Type.Params, " (parameter)") {
		return "    " + f.unknownS(f.fd.Type, "unnamed receiver or parameter")
	}
	f.nparams = len(f.slotNames)
	if res := f.fd.Type.Results; res != nil {
		f.nresults = res.NumFields()
		for _, fld := range res.List {
			if len(fld.Names) > 0 {
				return "    " + f.unknownS(f.fd.Type, "named results")
			}
		}
	}
	// locals (including the parameters and locals of closures), in order of declaration
	ast.Inspect(f.fd.Body, func(n ast.Node) bool {
		if id, ok := n.(*ast.Ident); ok {
			if v, ok := info.Defs[id].(*types.Var); ok && v != nil && !v.IsField() && id.Name != "_" {
				if _, seen := f.slots[v]; !seen {
					role := ""
					if _, isStruct := f.x.pkgStruct(v.Type()); isStruct {
						f.boxed[v] = true
						role = " (struct variable, kept by address)"
					}
					f.addSlot(v, role)
				}
			}
		}
		return true
	})
	f.deferFlag = -1
	var prologue []string
	if f.x.codec {
		prologue = f.codecDeferSetup()
	}
	stmts := append(prologue, f.block(f.fd.Body.List, "    ")...)
	if len(stmts) == 0 {
		return "    .skip"
	}
	return strings.Join(stmts, f.x.seqTok())
}

// ---- expressions -----------------------------------------------------------------------------

func tiInt(v constant.Value) string {
	s := v.ExactString()
	if strings.HasPrefix(s, "-") {
		return fmt.Sprintf("(.int (%s))", s)
	}
	return fmt.Sprintf("(.int %s)", s)
}

// fieldPath resolves a chain of field selections that ends at a pointer to (or a boxed variable of) a
// struct of the package: the pointer expression, the struct's name and the flattened path.
func (f *tiFn) fieldPath(e *ast.SelectorExpr) (base string, structName string, path string, ok bool) {
	sel := f.info().Selections[e]
	if sel == nil || sel.Kind() != types.FieldVal || len(sel.Index()) != 1 {
		return "", "", "", false
	}
	xt := f.typ(e.X)
	if pt, isPtr := xt.(*types.Pointer); isPtr {
		if name, isS := f.x.pkgStruct(pt.Elem()); isS {
			return f.expr(e.X), name, e.Sel.Name, true
		}
		return "", "", "", false
	}
	if name, isS := f.x.pkgStruct(xt); isS {
		switch inner := ast.Unparen(e.X).(type) {
		case *ast.Ident:
			if lv := f.localVar(inner); lv != nil && f.boxed[lv] {
				if k, ok := f.slots[lv]; ok {
					return fmt.Sprintf("(.var %d)", k), name, e.Sel.Name, true
				}
			}
		case *ast.SelectorExpr:
			b, s, p, ok := f.fieldPath(inner)
			if ok {
				return b, s, p + "." + e.Sel.Name, true
			}
		}
	}
	return "", "", "", false
}

var tiStructFieldOps = map[string]string{
	"Tag": "sfTag", "PkgPath": "sfPkgPath", "Anonymous": "sfAnonymous", "Type": "sfType", "Index": "sfIndex", "Name": "sfName",
}

var tiTypeMethods1 = map[string]string{
	"NumField": "typeNumField", "Kind": "typeKind", "Elem": "typeElem", "Len": "typeLen", "String": "typeString",
}

var tiTypeMethods2 = map[string]string{"Field": "typeField", "FieldByIndex": "typeFieldByIndex"}

func (f *tiFn) expr(e ast.Expr) string {
	if f.x.codec {
		if s, ok := f.codecExpr(e); ok {
			return s
		}
	}
	if tv, ok := f.info().Types[e]; ok && tv.Value != nil {
		switch tv.Value.Kind() {
		case constant.Int:
			return tiInt(tv.Value)
		case constant.Bool:
			return fmt.Sprintf("(.bool %v)", constant.BoolVal(tv.Value))
		case constant.String:
			return fmt.Sprintf("(.str %s)", bytesLit([]byte(constant.StringVal(tv.Value))))
		}
		return f.unknownE(e, "constant of a kind the IR does not have")
	}
	switch v := e.(type) {
	case *ast.ParenExpr:
		return f.expr(v.X)
	case *ast.Ident:
		switch o := f.info().ObjectOf(v).(type) {
		case *types.Nil:
			return ".nil"
		case *types.Var:
			if lv := f.localVar(v); lv != nil {
				if f.boxed[lv] {
					return f.unknownE(v, "struct variable used as a value")
				}
				if k, ok := f.slots[lv]; ok {
					return fmt.Sprintf("(.var %d)", k)
				}
				return f.unknownE(v, "variable without a slot")
			}
			if o.Pkg() != nil && o.Parent() == o.Pkg().Scope() && !o.IsField() {
				return fmt.Sprintf("(.global %s)", strLit(o.Name()))
			}
		}
		return f.unknownE(v, "identifier")
	case *ast.BinaryExpr:
		return f.binary(v)
	case *ast.UnaryExpr:
		switch v.Op {
		case token.NOT:
			return fmt.Sprintf("(.not %s)", f.expr(v.X))
		case token.AND:
			switch inner := ast.Unparen(v.X).(type) {
			case *ast.CompositeLit:
				return f.allocLit(v, inner)
			case *ast.Ident:
				if lv := f.localVar(inner); lv != nil && f.boxed[lv] {
					return fmt.Sprintf("(.var %d)", f.slots[lv])
				}
			}
		}
		return f.unknownE(v, "unary operator "+v.Op.String())
	case *ast.IndexExpr:
		t := f.typ(v.X)
		if tiIsIntSlice(t) || f.isPtrSlice(t) || isStringType(t) {
			return fmt.Sprintf("(.index %s %s)", f.expr(v.X), f.expr(v.Index))
		}
		if tiIsStringBoolMap(t) && !f.x.codec {
			return fmt.Sprintf("(.mapGet %s %s)", f.expr(v.X), f.expr(v.Index))
		}
		return f.unknownE(v, "index of something the IR does not model")
	case *ast.SliceExpr:
		if v.Slice3 || !isStringType(f.typ(v.X)) {
			return f.unknownE(v, "slice expression other than on a string")
		}
		switch {
		case v.Low != nil && v.High == nil:
			return fmt.Sprintf("(.sliceFrom %s %s)", f.expr(v.X), f.expr(v.Low))
		case v.Low == nil && v.High != nil:
			return fmt.Sprintf("(.sliceTo %s %s)", f.expr(v.X), f.expr(v.High))
		}
		return f.unknownE(v, "slice expression with both or no bounds")
	case *ast.SelectorExpr:
		return f.selector(v)
	case *ast.CallExpr:
		return f.callExpr(v)
	case *ast.CompositeLit:
		t := f.typ(v)
		switch {
		case f.x.codec:
		case tiIsIntSlice(t) && len(v.Elts) == 1:
			if _, isKV := v.Elts[0].(*ast.KeyValueExpr); !isKV {
				return fmt.Sprintf("(.ints1 %s)", f.expr(v.Elts[0]))
			}
		case tiIsIntSlice(t) && len(v.Elts) == 0:
			return ".emptyInts"
		case tiIsStringBoolMap(t) && len(v.Elts) == 0:
			return ".emptyMap"
		}
		return f.unknownE(v, "composite literal")
	case *ast.TypeAssertExpr:
		if v.Type != nil && f.x.codec {
			if pt, ok := f.typ(v.Type).(*types.Pointer); ok {
				switch {
				case isNamedType(pt.Elem(), codecParsePkg, "GroupNode"):
					return fmt.Sprintf("(.ext1 .assertGroup %s)", f.expr(v.X))
				case isNamedType(pt.Elem(), codecParsePkg, "ValueNode"):
					return fmt.Sprintf("(.ext1 .assertValue %s)", f.expr(v.X))
				}
			}
		}
		if v.Type != nil {
			if pt, ok := f.typ(v.Type).(*types.Pointer); ok {
				if _, isS := f.x.pkgStruct(pt.Elem()); isS {
					return fmt.Sprintf("(.assertPtr %s)", f.expr(v.X))
				}
			}
		}
		return f.unknownE(v, "type assertion")
	}
	return f.unknownE(e, "expression form")
}

func (f *tiFn) binary(v *ast.BinaryExpr) string {
	switch v.Op {
	case token.LAND:
		if f.x.codec {
			return f.codecShortCircuit(v, true)
		}
		return fmt.Sprintf("(.land %s %s)", f.expr(v.X), f.expr(v.Y))
	case token.LOR:
		if f.x.codec {
			return f.codecShortCircuit(v, false)
		}
		return fmt.Sprintf("(.lor %s %s)", f.expr(v.X), f.expr(v.Y))
	case token.EQL, token.NEQ:
		var s string
		switch {
		case f.isNil(v.Y):
			s = fmt.Sprintf("(.isNil %s)", f.expr(v.X))
			if v.Op == token.NEQ {
				s = fmt.Sprintf("(.not %s)", s)
			}
			return s
		case f.isNil(v.X):
			s = fmt.Sprintf("(.isNil %s)", f.expr(v.Y))
			if v.Op == token.NEQ {
				s = fmt.Sprintf("(.not %s)", s)
			}
			return s
		}
		tx, ty := f.typ(v.X), f.typ(v.Y)
		okT := func(t types.Type) bool {
			return isIntType(t) || isStringType(t) || isBoolType(t) || (f.x.codec && codecIsFloat(t))
		}
		if !okT(tx) || !okT(ty) {
			return f.unknownE(v, "comparison of values the IR does not compare")
		}
		if v.Op == token.EQL {
			return fmt.Sprintf("(.eq %s %s)", f.expr(v.X), f.expr(v.Y))
		}
		return fmt.Sprintf("(.ne %s %s)", f.expr(v.X), f.expr(v.Y))
	case token.LSS, token.LEQ, token.GTR, token.GEQ:
		if !isIntType(f.typ(v.X)) || !isIntType(f.typ(v.Y)) {
			return f.unknownE(v, "ordering of non-integers")
		}
		op := map[token.Token]string{token.LSS: "lt", token.LEQ: "le", token.GTR: "gt", token.GEQ: "ge"}[v.Op]
		return fmt.Sprintf("(.bin .%s %s %s)", op, f.expr(v.X), f.expr(v.Y))
	case token.ADD, token.SUB:
		t := f.typ(v)
		if isStringType(t) && v.Op == token.ADD {
			return fmt.Sprintf("(.concat %s %s)", f.expr(v.X), f.expr(v.Y))
		}
		if isIntType(t) {
			op := "add"
			if v.Op == token.SUB {
				op = "sub"
			}
			return fmt.Sprintf("(.bin .%s %s %s)", op, f.expr(v.X), f.expr(v.Y))
		}
	}
	return f.unknownE(v, "operator "+v.Op.String())
}

func (f *tiFn) selector(v *ast.SelectorExpr) string {
	// a package-level variable of another package: hashutil.HashEncoding
	if id, ok := v.X.(*ast.Ident); ok {
		if pn, ok := f.info().ObjectOf(id).(*types.PkgName); ok {
			if o, ok := f.info().ObjectOf(v.Sel).(*types.Var); ok && o.Parent() == o.Pkg().Scope() {
				return fmt.Sprintf("(.global %s)", strLit(pn.Imported().Name()+"."+o.Name()))
			}
			return f.unknownE(v, "qualified identifier")
		}
	}
	sel := f.info().Selections[v]
	if sel == nil || sel.Kind() != types.FieldVal {
		return f.unknownE(v, "selector that is not a field")
	}
	if f.x.codec {
		if s, ok := f.codecSelector(v); ok {
			return s
		}
	}
	if isNamedType(f.typ(v.X), "reflect", "StructField") {
		if op, ok := tiStructFieldOps[v.Sel.Name]; ok && !f.x.codec {
			return fmt.Sprintf("(.ext1 .%s %s)", op, f.expr(v.X))
		}
		return f.unknownE(v, "field of reflect.StructField the IR does not model")
	}
	if base, sn, path, ok := f.fieldPath(v); ok {
		if k, ok := f.x.fieldNo(sn, path); ok {
			return fmt.Sprintf("(.fld %s %d)", base, k)
		}
		if _, isS := f.x.pkgStruct(f.typ(v)); isS {
			return f.unknownE(v, "nested struct used as a value")
		}
	}
	return f.unknownE(v, "field selection")
}

// zero value of a Go type, as an expression.
func (f *tiFn) zero(t types.Type) (string, bool) {
	if f.x.codec {
		if s, ok := codecZero(t); ok {
			return s, true
		}
	}
	switch {
	case isIntType(t):
		return "(.int 0)", true
	case isBoolType(t):
		return "(.bool false)", true
	case isStringType(t):
		return "(.str [])", true
	case tiIsIntSlice(t):
		return ".emptyInts", true
	case f.isPtrSlice(t):
		return ".emptyPtrs", true
	}
	switch t.Underlying().(type) {
	case *types.Pointer, *types.Interface:
		return ".nil", true
	}
	return "", false
}

// litFields fills vals (flattened path ↦ expression) from a composite literal of a struct of the package.
func (f *tiFn) litFields(lit *ast.CompositeLit, prefix string, vals map[string]string) bool {
	if f.x.codec && prefix == "" && len(lit.Elts) > 0 {
		if _, isKV := lit.Elts[0].(*ast.KeyValueExpr); !isKV {
			// positional literal: every field, in order
			name, ok := f.x.pkgStruct(f.typ(lit))
			if !ok {
				return false
			}
			fl, _ := f.x.flatten(name)
			if len(fl) != len(lit.Elts) {
				return false
			}
			for i, el := range lit.Elts {
				if _, isKV := el.(*ast.KeyValueExpr); isKV {
					return false
				}
				vals[fl[i].path] = f.expr(el)
			}
			return true
		}
	}
	for _, el := range lit.Elts {
		kv, ok := el.(*ast.KeyValueExpr)
		if !ok {
			return false
		}
		key, ok := kv.Key.(*ast.Ident)
		if !ok {
			return false
		}
		if inner, ok := ast.Unparen(kv.Value).(*ast.CompositeLit); ok {
			if _, isS := f.x.pkgStruct(f.typ(inner)); isS {
				if !f.litFields(inner, prefix+key.Name+".", vals) {
					return false
				}
				continue
			}
		}
		vals[prefix+key.Name] = f.expr(kv.Value)
	}
	return true
}

// allocLit: `&T{…}` — a fresh record with every field of T (zero values made explicit), hoisted.
func (f *tiFn) allocLit(n ast.Node, lit *ast.CompositeLit) string {
	name, ok := f.x.pkgStruct(f.typ(lit))
	if !ok {
		return f.unknownE(n, "address of a literal that is not a struct of the package")
	}
	if f.noHoist || f.closure != nil {
		return f.unknownE(n, "allocation inside a loop header or closure")
	}
	vals := map[string]string{}
	if !f.litFields(lit, "", vals) {
		return f.unknownE(n, "composite literal without field names")
	}
	fl, _ := f.x.flatten(name)
	var fs []string
	for _, fld := range fl {
		val, given := vals[fld.path]
		if !given {
			z, ok := f.zero(fld.typ)
			if !ok {
				z = f.unknownE(n, "zero value of "+fld.typ.String())
			}
			val = z
		}
		delete(vals, fld.path)
		fs = append(fs, fmt.Sprintf("      /- %s -/ %s", fld.path, val))
	}
	if len(vals) != 0 {
		return f.unknownE(n, "composite literal with a field the record does not have")
	}
	k := f.temp("&" + name + "{…}")
	if f.x.codec {
		f.pre = append(f.pre, fmt.Sprintf("-- %s: &%s{…}\n.allocRec %d %s [\n%s]", f.where(n), name, k, strLit(name), strings.Join(fs, ",\n")))
		return fmt.Sprintf("(.var %d)", k)
	}
	f.pre = append(f.pre, fmt.Sprintf("-- %s: &%s{…}\n.alloc %d [\n%s]", f.where(n), name, k, strings.Join(fs, ",\n")))
	return fmt.Sprintf("(.var %d)", k)
}

// calledFunc resolves a call to a translated function of this package.
func (f *tiFn) calledFunc(c *ast.CallExpr) (no int, recv ast.Expr, ok bool) {
	switch fun := c.Fun.(type) {
	case *ast.Ident:
		if fn, isF := f.info().ObjectOf(fun).(*types.Func); isF {
			if n, known := f.x.known[fn]; known {
				return n, nil, true
			}
		}
	case *ast.SelectorExpr:
		if sel := f.info().Selections[fun]; sel != nil && sel.Kind() == types.MethodVal {
			if fn, isF := sel.Obj().(*types.Func); isF {
				if n, known := f.x.known[fn]; known {
					return n, fun.X, true
				}
			}
		}
	}
	return 0, nil, false
}

// pkgFunc reports "pkg.Func" for a call of a package-level function of another package.
func (f *tiFn) pkgFunc(c *ast.CallExpr) string {
	sel, ok := c.Fun.(*ast.SelectorExpr)
	if !ok {
		return ""
	}
	id, ok := sel.X.(*ast.Ident)
	if !ok {
		return ""
	}
	pn, ok := f.info().ObjectOf(id).(*types.PkgName)
	if !ok {
		return ""
	}
	if _, ok := f.info().ObjectOf(sel.Sel).(*types.Func); !ok {
		return ""
	}
	return pn.Imported().Path() + "." + sel.Sel.Name
}

// cacheMethod reports the method name for `typeCache.M(…)` where typeCache is a package-level sync.Map.
func (f *tiFn) cacheMethod(c *ast.CallExpr) (string, string) {
	sel, ok := c.Fun.(*ast.SelectorExpr)
	if !ok {
		return "", ""
	}
	id, ok := sel.X.(*ast.Ident)
	if !ok {
		return "", ""
	}
	v, ok := f.info().ObjectOf(id).(*types.Var)
	if !ok || v.Pkg() == nil || v.Parent() != v.Pkg().Scope() || !isNamedType(v.Type(), "sync", "Map") {
		return "", ""
	}
	return v.Name(), sel.Sel.Name
}

func (f *tiFn) callArgs(c *ast.CallExpr, recv ast.Expr) []string {
	var args []string
	if recv != nil {
		args = append(args, f.expr(recv))
	}
	for _, a := range c.Args {
		args = append(args, f.expr(a))
	}
	return args
}

func (f *tiFn) callExpr(c *ast.CallExpr) string {
	info := f.info()
	if f.x.codec {
		return f.codecCallExpr(c)
	}
	// conversion
	if tv, ok := info.Types[c.Fun]; ok && tv.IsType() && len(c.Args) == 1 {
		to, from := tv.Type, f.typ(c.Args[0])
		if isIntType(to) && isIntType(from) {
			a := f.expr(c.Args[0])
			if fits(from, to) {
				return a
			}
			if bits, unsigned, ok := bitsOf(to); ok && bits == 64 && !unsigned {
				return fmt.Sprintf("(.toInt64 %s)", a)
			}
		}
		return f.unknownE(c, "conversion")
	}
	// builtins
	if id, ok := c.Fun.(*ast.Ident); ok {
		if b, ok := info.ObjectOf(id).(*types.Builtin); ok {
			switch b.Name() {
			case "len":
				if len(c.Args) == 1 {
					t := f.typ(c.Args[0])
					if tiIsIntSlice(t) || f.isPtrSlice(t) || isStringType(t) {
						return fmt.Sprintf("(.len %s)", f.expr(c.Args[0]))
					}
				}
			case "append":
				t := f.typ(c)
				if len(c.Args) == 2 && (tiIsIntSlice(t) || f.isPtrSlice(t)) {
					if c.Ellipsis.IsValid() {
						return fmt.Sprintf("(.appendAll %s %s)", f.expr(c.Args[0]), f.expr(c.Args[1]))
					}
					return fmt.Sprintf("(.append1 %s %s)", f.expr(c.Args[0]), f.expr(c.Args[1]))
				}
			}
			return f.unknownE(c, "builtin "+b.Name())
		}
	}
	// methods of reflect.Type / reflect.StructTag
	if sel, ok := c.Fun.(*ast.SelectorExpr); ok {
		if s := info.Selections[sel]; s != nil && s.Kind() == types.MethodVal {
			rt := f.typ(sel.X)
			switch {
			case isNamedType(rt, "reflect", "Type"):
				if op, ok := tiTypeMethods1[sel.Sel.Name]; ok && len(c.Args) == 0 {
					return fmt.Sprintf("(.ext1 .%s %s)", op, f.expr(sel.X))
				}
				if op, ok := tiTypeMethods2[sel.Sel.Name]; ok && len(c.Args) == 1 {
					return fmt.Sprintf("(.ext2 .%s %s %s)", op, f.expr(sel.X), f.expr(c.Args[0]))
				}
			case isNamedType(rt, "reflect", "StructTag"):
				if sel.Sel.Name == "Get" && len(c.Args) == 1 {
					return fmt.Sprintf("(.ext2 .tagGet %s %s)", f.expr(sel.X), f.expr(c.Args[0]))
				}
			}
		}
	}
	switch f.pkgFunc(c) {
	case "strings.IndexByte":
		if len(c.Args) == 2 {
			return fmt.Sprintf("(.ext2 .indexByte %s %s)", f.expr(c.Args[0]), f.expr(c.Args[1]))
		}
	case "strings.HasPrefix":
		if len(c.Args) == 2 {
			return fmt.Sprintf("(.ext2 .hasPrefix %s %s)", f.expr(c.Args[0]), f.expr(c.Args[1]))
		}
	case "strconv.Quote":
		if len(c.Args) == 1 {
			return fmt.Sprintf("(.ext1 .quote %s)", f.expr(c.Args[0]))
		}
	case "errors.New":
		if len(c.Args) == 1 {
			return fmt.Sprintf("(.ext1 .errorsNew %s)", f.expr(c.Args[0]))
		}
	}
	// a translated function with exactly one result, used as an operand: hoisted
	if no, recv, ok := f.calledFunc(c); ok {
		sig, _ := f.typ(c.Fun).(*types.Signature)
		if sig == nil || sig.Results().Len() != 1 {
			return f.unknownE(c, "multi-value call used as an operand")
		}
		if f.noHoist || f.closure != nil {
			return f.unknownE(c, "call inside a loop header or closure")
		}
		args := f.callArgs(c, recv)
		k := f.temp("result of " + f.srcLine(c))
		f.pre = append(f.pre, fmt.Sprintf("-- %s: %s\n.call [.var %d] %d [%s]", f.where(c), f.srcLine(c), k, no, strings.Join(args, ", ")))
		return fmt.Sprintf("(.var %d)", k)
	}
	return f.unknownE(c, "call")
}

// ---- statements ------------------------------------------------------------------------------

func (f *tiFn) flush(ind string, s string) []string {
	var out []string
	for _, p := range f.pre {
		out = append(out, indent(ind, p))
	}
	f.pre = nil
	if s == "" {
		return out
	}
	return append(out, s)
}

func (f *tiFn) block(list []ast.Stmt, ind string) []string {
	var out []string
	for _, s := range list {
		out = append(out, f.stmt(s, ind)...)
	}
	return out
}

func (f *tiFn) nested(list []ast.Stmt, ind string) string {
	return f.group(f.block(list, ind+"  "), ind)
}

func (f *tiFn) group(stmts []string, ind string) string {
	if len(stmts) == 0 {
		return ind + ".skip"
	}
	return ind + "(\n" + strings.Join(stmts, f.x.seqTok()) + "\n" + ind + ")"
}

func (f *tiFn) comment(n ast.Node, ind string) string {
	return fmt.Sprintf("%s-- %s: %s\n", ind, f.where(n), f.srcLine(n))
}

func (f *tiFn) comment1(n ast.Node, text string, ind string) string {
	return fmt.Sprintf("%s-- %s: %s\n", ind, f.where(n), text)
}

// lhs translates an assignment target ("" when it has no IR form).
func (f *tiFn) lhs(e ast.Expr) string {
	switch v := e.(type) {
	case *ast.ParenExpr:
		return f.lhs(v.X)
	case *ast.Ident:
		if v.Name == "_" {
			return ".blank"
		}
		if lv := f.localVar(v); lv != nil && !f.boxed[lv] {
			if f.closure != nil && !f.closure[lv] {
				return "" // a closure may only assign to its own variables
			}
			if k, ok := f.slots[lv]; ok {
				return fmt.Sprintf(".var %d", k)
			}
		}
	case *ast.SelectorExpr:
		if f.closure != nil || f.x.codec {
			return ""
		}
		if base, sn, path, ok := f.fieldPath(v); ok {
			if k, ok := f.x.fieldNo(sn, path); ok {
				return fmt.Sprintf(".fld %s %d", base, k)
			}
		}
	case *ast.IndexExpr:
		if f.closure != nil || f.x.codec {
			return ""
		}
		if id, ok := v.X.(*ast.Ident); ok {
			if lv := f.localVar(id); lv != nil && tiIsStringBoolMap(lv.Type()) {
				if k, ok := f.slots[lv]; ok {
					return fmt.Sprintf(".mapAt %d %s", k, f.expr(v.Index))
				}
			}
		}
	}
	return ""
}

func (f *tiFn) assignStmt(v *ast.AssignStmt, ind string) []string {
	c := f.comment(v, ind)
	if v.Tok != token.ASSIGN && v.Tok != token.DEFINE {
		return []string{ind + f.unknownS(v, "assignment operator")}
	}
	// `x := *e` for a struct variable kept by address
	if len(v.Lhs) == 1 && len(v.Rhs) == 1 && v.Tok == token.DEFINE {
		if id, ok := v.Lhs[0].(*ast.Ident); ok {
			if lv := f.localVar(id); lv != nil && f.boxed[lv] {
				if st, ok := ast.Unparen(v.Rhs[0]).(*ast.StarExpr); ok {
					e := f.expr(st.X)
					return f.flush(ind, fmt.Sprintf("%s%s.copyObj %d %s", c, ind, f.slots[lv], e))
				}
				return []string{ind + f.unknownS(v, "struct variable initialised from something that is not a dereference")}
			}
		}
	}
	if f.x.codec {
		if out, ok := f.codecStoreStmt(v, c, ind); ok {
			return out
		}
	}
	var ls []string
	for _, l := range v.Lhs {
		s := f.lhs(l)
		if s == "" {
			return []string{ind + f.unknownS(v, "assignment target")}
		}
		ls = append(ls, s)
	}
	if f.x.codec {
		if out, ok := f.codecAssign(v, ls, c, ind); ok {
			return out
		}
	}
	if len(v.Rhs) == 1 && len(v.Lhs) >= 1 {
		if call, ok := ast.Unparen(v.Rhs[0]).(*ast.CallExpr); ok {
			if no, recv, ok := f.calledFunc(call); ok {
				if f.closure != nil {
					return []string{ind + f.unknownS(v, "call inside a closure")}
				}
				args := f.callArgs(call, recv)
				return f.flush(ind, fmt.Sprintf("%s%s.call [%s] %d [%s]", c, ind, strings.Join(ls, ", "), no, strings.Join(args, ", ")))
			}
			if len(v.Lhs) == 2 && !f.x.codec {
				if f.pkgFunc(call) == "strconv.ParseUint" && len(call.Args) == 3 {
					args := f.callArgs(call, nil)
					return f.flush(ind, fmt.Sprintf("%s%s.extCall [%s] .parseUint [%s]", c, ind, strings.Join(ls, ", "), strings.Join(args, ", ")))
				}
				if cv, m := f.cacheMethod(call); cv != "" {
					args := append([]string{fmt.Sprintf("(.global %s)", strLit(cv))}, f.callArgs(call, nil)...)
					switch {
					case m == "Load" && len(call.Args) == 1:
						return f.flush(ind, fmt.Sprintf("%s%s.extCall [%s] .cacheLoad [%s]", c, ind, strings.Join(ls, ", "), strings.Join(args, ", ")))
					case m == "LoadOrStore" && len(call.Args) == 2:
						return f.flush(ind, fmt.Sprintf("%s%s.extCall [%s] .cacheLoadOrStore [%s]", c, ind, strings.Join(ls, ", "), strings.Join(args, ", ")))
					}
				}
			}
		}
		// `v, ok := m[k]`
		if ix, ok := ast.Unparen(v.Rhs[0]).(*ast.IndexExpr); ok && len(v.Lhs) == 2 && tiIsStringBoolMap(f.typ(ix.X)) && !f.x.codec {
			m, k := f.expr(ix.X), f.expr(ix.Index)
			return f.flush(ind, fmt.Sprintf("%s%s.assign [%s] [(.mapGet %s %s), (.mapHas %s %s)]", c, ind, strings.Join(ls, ", "), m, k, m, k))
		}
	}
	if len(v.Lhs) != len(v.Rhs) {
		return []string{ind + f.unknownS(v, "multi-value assignment the IR does not model")}
	}
	var rs []string
	for _, r := range v.Rhs {
		rs = append(rs, f.expr(r))
	}
	return f.flush(ind, fmt.Sprintf("%s%s.assign [%s] [%s]", c, ind, strings.Join(ls, ", "), strings.Join(rs, ", ")))
}

func (f *tiFn) stmt(s ast.Stmt, ind string) []string {
	switch v := s.(type) {
	case *ast.EmptyStmt:
		return nil
	case *ast.BlockStmt:
		return f.block(v.List, ind)
	case *ast.AssignStmt:
		return f.assignStmt(v, ind)
	case *ast.IncDecStmt:
		l := f.lhs(v.X)
		if l == "" || l == ".blank" || !isIntType(f.typ(v.X)) {
			return []string{ind + f.unknownS(v, "target of ++/--")}
		}
		op := "add"
		if v.Tok == token.DEC {
			op = "sub"
		}
		return f.flush(ind, fmt.Sprintf("%s%s.assign [%s] [(.bin .%s %s (.int 1))]", f.comment(v, ind), ind, l, op, f.expr(v.X)))
	case *ast.DeclStmt:
		gd, ok := v.Decl.(*ast.GenDecl)
		if !ok || gd.Tok != token.VAR {
			return []string{ind + f.unknownS(v, "declaration")}
		}
		var out []string
		for _, sp := range gd.Specs {
			vs := sp.(*ast.ValueSpec)
			if len(vs.Values) != 0 && len(vs.Values) != len(vs.Names) {
				out = append(out, ind+f.unknownS(v, "multi-value var declaration"))
				continue
			}
			for i, n := range vs.Names {
				l := f.lhs(n)
				if l == "" {
					out = append(out, ind+f.unknownS(v, "declared name"))
					continue
				}
				var val string
				if len(vs.Values) > 0 {
					val = f.expr(vs.Values[i])
				} else if z, ok := f.zero(f.typ(n)); ok {
					val = z
				} else {
					val = f.unknownE(n, "zero value of "+f.typ(n).String())
				}
				out = append(out, f.flush(ind, fmt.Sprintf("%s%s.assign [%s] [%s]", f.comment(v, ind), ind, l, val))...)
			}
		}
		return out
	case *ast.ExprStmt:
		call, ok := v.X.(*ast.CallExpr)
		if !ok {
			return []string{ind + f.unknownS(v, "expression statement")}
		}
		if f.x.codec {
			if out, ok := f.codecExprStmt(v, call, ind); ok {
				return out
			}
			if f.pkgFunc(call) == "sort.Slice" {
				return []string{ind + f.unknownS(v, "sort.Slice")}
			}
		}
		if f.pkgFunc(call) == "sort.Slice" && len(call.Args) == 2 {
			return f.sortSlice(v, call, ind)
		}
		if no, recv, ok := f.calledFunc(call); ok && f.closure == nil {
			args := f.callArgs(call, recv)
			sig, _ := f.typ(call.Fun).(*types.Signature)
			var ls []string
			if sig != nil {
				for i := 0; i < sig.Results().Len(); i++ {
					ls = append(ls, ".blank")
				}
			}
			return f.flush(ind, fmt.Sprintf("%s%s.call [%s] %d [%s]", f.comment(v, ind), ind, strings.Join(ls, ", "), no, strings.Join(args, ", ")))
		}
		return []string{ind + f.unknownS(v, "call statement")}
	case *ast.IfStmt:
		var out []string
		if v.Init != nil {
			out = append(out, f.stmt(v.Init, ind)...)
		}
		cond := f.expr(v.Cond)
		out = append(out, f.flush(ind, "")...)
		th := f.nested(v.Body.List, ind+"  ")
		el := ind + "  .skip"
		if v.Else != nil {
			el = f.group(f.stmt(v.Else, ind+"    "), ind+"  ")
		}
		return append(out, fmt.Sprintf("%s%s.ite %s\n%s\n%s", f.comment1(v, "if "+f.srcLine(v.Cond), ind), ind, cond, th, el))
	case *ast.ForStmt:
		return f.forStmt(v, ind)
	case *ast.RangeStmt:
		return f.rangeStmt(v, ind)
	case *ast.SwitchStmt:
		return f.switchStmt(v, ind)
	case *ast.ReturnStmt:
		c := f.comment(v, ind)
		if len(v.Results) != f.nresults {
			return []string{ind + f.unknownS(v, "return of a multi-value call or bare return")}
		}
		var rs []string
		for _, r := range v.Results {
			rs = append(rs, f.expr(r))
		}
		if f.x.codec && f.deferFlag >= 0 && !f.inDefer {
			return f.codecReturnWithDefer(v, rs, c, ind)
		}
		return f.flush(ind, fmt.Sprintf("%s%s.ret [%s]", c, ind, strings.Join(rs, ", ")))
	case *ast.BranchStmt:
		if v.Label != nil || len(f.ctx) == 0 {
			return []string{ind + f.unknownS(v, "labelled or stray branch")}
		}
		switch v.Tok {
		case token.BREAK:
			if f.ctx[len(f.ctx)-1] != "for" {
				return []string{ind + f.unknownS(v, "break out of a switch")}
			}
			return []string{f.comment(v, ind) + ind + ".brk"}
		case token.CONTINUE:
			for _, c := range f.ctx {
				if c == "for" {
					return []string{f.comment(v, ind) + ind + ".cont"}
				}
			}
		}
		return []string{ind + f.unknownS(v, "branch statement")}
	}
	if ds, ok := s.(*ast.DeferStmt); ok && f.x.codec {
		return f.codecDeferStmt(ds, ind)
	}
	return []string{ind + f.unknownS(s, "statement form")}
}

// forStmt: `init ;; for_ cond post body`.
func (f *tiFn) forStmt(v *ast.ForStmt, ind string) []string {
	var out []string
	if v.Init != nil {
		out = append(out, f.stmt(v.Init, ind)...)
	}
	saved := f.noHoist
	f.noHoist = true
	cond := "(.bool true)"
	if v.Cond != nil {
		cond = f.expr(v.Cond)
	}
	post := ind + "  .skip"
	if v.Post != nil {
		post = f.group(f.stmt(v.Post, ind+"    "), ind+"  ")
	}
	f.noHoist = saved
	f.ctx = append(f.ctx, "for")
	body := f.nested(v.Body.List, ind+"  ")
	f.ctx = f.ctx[:len(f.ctx)-1]
	hdr := "for"
	if v.Cond != nil {
		hdr = "for " + f.srcLine(v.Cond)
	}
	return append(out, fmt.Sprintf("%s%s.for_ %s\n%s\n%s", f.comment1(v, hdr, ind), ind, cond, post, body))
}

// rangeStmt: `for k, v := range e { body }` over a slice — the range expression is evaluated once into a
// temporary, a second temporary counts; `k`, `v` are assigned at the start of every iteration.
func (f *tiFn) rangeStmt(v *ast.RangeStmt, ind string) []string {
	t := f.typ(v.X)
	if !(tiIsIntSlice(t) || f.isPtrSlice(t) || (f.x.codec && codecIsNodeSlice(t))) || v.Tok != token.DEFINE {
		return []string{ind + f.unknownS(v, "range over something that is not a slice, or without :=")}
	}
	xs := f.expr(v.X)
	out := f.flush(ind, "")
	ts := f.temp("the slice ranged over: " + f.srcLine(v.X))
	tidx := f.temp("position in the range over " + f.srcLine(v.X))
	out = append(out, fmt.Sprintf("%s%s.assign [.var %d, .var %d] [%s, (.int 0)]", f.comment1(v, "for … := range "+f.srcLine(v.X), ind), ind, ts, tidx, xs))
	var pre []string
	bind := func(e ast.Expr, val string) bool {
		if e == nil {
			return true
		}
		l := f.lhs(e)
		if l == "" {
			return false
		}
		if l != ".blank" {
			pre = append(pre, fmt.Sprintf("%s    .assign [%s] [%s]", ind, l, val))
		}
		return true
	}
	if !bind(v.Key, fmt.Sprintf("(.var %d)", tidx)) || !bind(v.Value, fmt.Sprintf("(.index (.var %d) (.var %d))", ts, tidx)) {
		return []string{ind + f.unknownS(v, "range variables")}
	}
	f.ctx = append(f.ctx, "for")
	body := f.group(append(pre, f.block(v.Body.List, ind+"    ")...), ind+"  ")
	f.ctx = f.ctx[:len(f.ctx)-1]
	post := fmt.Sprintf("%s  (.assign [.var %d] [(.bin .add (.var %d) (.int 1))])", ind, tidx, tidx)
	cond := fmt.Sprintf("(.bin .lt (.var %d) (.len (.var %d)))", tidx, ts)
	return append(out, fmt.Sprintf("%s.for_ %s\n%s\n%s", ind, cond, post, body))
}

// switchStmt: the tag (if any) goes to a fresh slot, the clauses are tested in source order.
func (f *tiFn) switchStmt(v *ast.SwitchStmt, ind string) []string {
	var out []string
	if v.Init != nil {
		out = append(out, f.stmt(v.Init, ind)...)
	}
	tag := ""
	if v.Tag != nil {
		tt := f.typ(v.Tag)
		if !(isIntType(tt) || isStringType(tt)) {
			return append(out, ind+f.unknownS(v, "switch on a value the IR does not compare"))
		}
		t := f.expr(v.Tag)
		k := f.temp("tag of the switch on " + f.srcLine(v.Tag))
		out = append(out, f.flush(ind, fmt.Sprintf("%s%s.assign [.var %d] [%s]", f.comment1(v, "switch "+f.srcLine(v.Tag), ind), ind, k, t))...)
		tag = fmt.Sprintf("(.var %d)", k)
	}
	clauses := v.Body.List
	n := len(clauses)
	f.ctx = append(f.ctx, "switch")
	defer func() { f.ctx = f.ctx[:len(f.ctx)-1] }()
	bodyInd := ind + "    "
	bodies := make([][]string, n)
	dflt := -1
	for i, cl := range clauses {
		cc := cl.(*ast.CaseClause)
		for _, st := range cc.Body {
			if br, ok := st.(*ast.BranchStmt); ok && br.Tok == token.FALLTHROUGH {
				return append(out, ind+f.unknownS(v, "fallthrough"))
			}
		}
		bodies[i] = f.block(cc.Body, bodyInd)
		if cc.List == nil {
			if dflt >= 0 {
				return append(out, ind+f.unknownS(v, "two default clauses"))
			}
			dflt = i
		}
	}
	chain := ind + "  .skip"
	if dflt >= 0 {
		chain = f.group(bodies[dflt], ind+"  ")
	}
	saved := f.noHoist
	f.noHoist = true
	result := ""
	for i := n - 1; i >= 0; i-- {
		cc := clauses[i].(*ast.CaseClause)
		if cc.List == nil {
			continue
		}
		cond := ""
		for j := len(cc.List) - 1; j >= 0; j-- {
			one := f.expr(cc.List[j])
			if tag != "" {
				one = fmt.Sprintf("(.eq %s %s)", tag, one)
			}
			if cond == "" {
				cond = one
			} else {
				cond = fmt.Sprintf("(.lor %s %s)", one, cond)
			}
		}
		var texts []string
		for _, e := range cc.List {
			texts = append(texts, f.srcLine(e))
		}
		result = fmt.Sprintf("%s%s.ite %s\n%s\n%s", f.comment1(cc, "case "+strings.Join(texts, ", "), ind), ind, cond, f.group(bodies[i], ind+"  "), chain)
		chain = ind + "  (\n" + result + "\n" + ind + "  )"
	}
	f.noHoist = saved
	if result == "" {
		if dflt >= 0 {
			return append(out, bodies[dflt]...)
		}
		return out
	}
	return append(out, result)
}

// sortSlice: `sort.Slice(x, func(i, j int) bool { … })` for a local slice variable x.
func (f *tiFn) sortSlice(v *ast.ExprStmt, call *ast.CallExpr, ind string) []string {
	id, ok := ast.Unparen(call.Args[0]).(*ast.Ident)
	lit, ok2 := ast.Unparen(call.Args[1]).(*ast.FuncLit)
	if !ok || !ok2 || f.closure != nil {
		return []string{ind + f.unknownS(v, "sort.Slice of something that is not a local variable with a function literal")}
	}
	lv := f.localVar(id)
	if lv == nil || !f.isPtrSlice(lv.Type()) {
		return []string{ind + f.unknownS(v, "sort.Slice of something that is not a local slice of pointers")}
	}
	var ps []int
	for _, fld := range lit.Type.Params.List {
		for _, n := range fld.Names {
			pv, _ := f.info().Defs[n].(*types.Var)
			if pv == nil {
				return []string{ind + f.unknownS(v, "closure parameter")}
			}
			ps = append(ps, f.slots[pv])
		}
	}
	if len(ps) != 2 || lit.Type.Results == nil || lit.Type.Results.NumFields() != 1 {
		return []string{ind + f.unknownS(v, "closure signature")}
	}
	own := map[*types.Var]bool{}
	ast.Inspect(lit, func(n ast.Node) bool {
		if id, ok := n.(*ast.Ident); ok {
			if dv, ok := f.info().Defs[id].(*types.Var); ok && dv != nil {
				own[dv] = true
			}
		}
		return true
	})
	savedCtx, savedRes := f.ctx, f.nresults
	f.ctx, f.nresults, f.closure = nil, 1, own
	body := f.nested(lit.Body.List, ind+"  ")
	f.ctx, f.nresults, f.closure = savedCtx, savedRes, nil
	return []string{fmt.Sprintf("%s%s.sortSlice %d %d %d\n%s", f.comment1(v, "sort.Slice("+id.Name+", func …)", ind), ind, f.slots[lv], ps[0], ps[1], body)}
}
