package main

import (
	"fmt"
	"go/ast"
	"go/constant"
	"go/token"
	"go/types"
	"sort"
	"strings"

	"golang.org/x/tools/go/packages"
)

// genKdfIR translates the key-derivation bodies (md5crypt.Encrypt, sha2crypt.Encrypt, the hashing part
// of sha1.Key, and every function of this module they call: newHash, sum, duplicate,
// cryptoutil.Permute) into the hash-transcript IR of lean/GoCrypt/Base/HashIR.lean.
//
// The translation is syntax-directed: every Go statement/expression form has one IR form, names
// are the source names (a shadowing declaration gets a numeric suffix), constants are whatever
// go/types evaluates them to, calls are followed through the call graph. Whatever has no IR form
// becomes an `unknown` node (the interpreter is stuck on it, so the theorems about the program
// fail); whatever would make the IR's value semantics differ from Go's reference semantics
// (aliasing of a hash object or of a slice that is stored into) fails the run.
func (g *Gen) genKdfIR() {
	x := &kdfX{g: g, procs: map[string]*kdfProc{}, inProgress: map[string]bool{}}
	var roots []*kdfRoot
	for _, r := range []struct {
		pkg, fn string
		suffix  bool // translate from the first statement that creates a hash object (the guards before it are Gen/Guards.lean)
	}{
		{"md5/md5crypt", "Encrypt", false},
		{"sha256/sha2crypt", "Encrypt", false},
		{"sha1", "Key", true},
	} {
		p := g.pkg(r.pkg)
		if p == nil {
			continue
		}
		root := &kdfRoot{pkg: r.pkg, globals: map[string]string{}, merged: map[string]bool{}}
		x.root = root
		x.suffixOf = ""
		if r.suffix {
			x.suffixOf = p.Types.Name() + "." + r.fn
		}
		name := x.translate(p, r.fn)
		if name == "" {
			g.failf("kdfir: %s.%s not found", r.pkg, r.fn)
			continue
		}
		root.entry = name
		roots = append(roots, root)
	}

	var sb strings.Builder
	sb.WriteString(header("Hash-transcript IR of the key-derivation bodies (see Base/HashIR.lean): one `Proc` per Go function,\none `Program` per entry point."))
	sb.WriteString("import GoCrypt.Base.HashIR\n\nopen GoCrypt.HashIR\n\n")
	// procedures, grouped by package
	byPkg := map[string][]*kdfProc{}
	for _, pr := range x.procs {
		byPkg[pr.pkgKey] = append(byPkg[pr.pkgKey], pr)
	}
	var pkgKeys []string
	for k := range byPkg {
		pkgKeys = append(pkgKeys, k)
	}
	sort.Strings(pkgKeys)
	for _, k := range pkgKeys {
		prs := byPkg[k]
		sort.Slice(prs, func(i, j int) bool { return prs[i].pos < prs[j].pos })
		fmt.Fprintf(&sb, "namespace GoCrypt.Gen.%s\n\n", leanNS(k))
		for _, pr := range prs {
			fmt.Fprintf(&sb, "/-- %s  (%s)%s -/\ndef %s : Proc := {\n  params := [%s]\n  body :=\n%s\n}\n\n",
				pr.name, pr.where, pr.note, pr.leanName, strings.Join(pr.params, ", "), pr.body)
		}
		fmt.Fprintf(&sb, "end GoCrypt.Gen.%s\n\n", leanNS(k))
	}
	// programs
	for _, root := range roots {
		fmt.Fprintf(&sb, "namespace GoCrypt.Gen.%s\n\n", leanNS(root.pkg))
		fmt.Fprintf(&sb, "/-- Entry point of `kdfProgram`. -/\ndef kdfEntry : String := %s\n\n", strLit(root.entry))
		fmt.Fprintf(&sb, "/-- Where the hash objects of this program come from (one source per program, checked by gogen). -/\ndef kdfHashSource : String := %s\n\n", strLit(root.hashSrc))
		var gl []string
		for _, n := range root.gorder {
			gl = append(gl, fmt.Sprintf("(%s, %s)", strLit(n), root.globals[n]))
		}
		var pl []string
		for _, n := range root.porder {
			pr := x.procs[n]
			pl = append(pl, fmt.Sprintf("(%s, GoCrypt.Gen.%s.%s)", strLit(n), leanNS(pr.pkgKey), pr.leanName))
		}
		gls := "[]"
		if len(gl) > 0 {
			gls = "[\n    " + strings.Join(gl, ",\n    ") + "\n  ]"
		}
		fmt.Fprintf(&sb, "/-- %s and everything it calls inside this module. -/\ndef kdfProgram : Program := {\n  procs := [\n    %s\n  ]\n  globals := %s\n}\n\n",
			root.entry, strings.Join(pl, ",\n    "), gls)
		fmt.Fprintf(&sb, "end GoCrypt.Gen.%s\n\n", leanNS(root.pkg))
	}
	g.emit("KdfIR.lean", sb.String())
}

type kdfRoot struct {
	pkg     string
	entry   string
	porder  []string // procedures reachable from the entry, in order of first use
	globals map[string]string
	gorder  []string
	hashSrc string
	merged  map[string]bool
}

type kdfProc struct {
	name     string // "md5crypt.Encrypt"
	leanName string // "encryptIR"
	pkgKey   string
	where    string
	pos      token.Pos
	params   []string
	body     string
	callees  []string
	fresh    bool // every return value is a buffer allocated by the function itself
	note     string
	globals  []string
	globalV  map[string]string
	hashSrcs []string
}

type kdfX struct {
	g          *Gen
	procs      map[string]*kdfProc
	inProgress map[string]bool
	root       *kdfRoot
	suffixOf   string // qualified name of the function of which only the hashing suffix is translated
}

// translate translates function fn of package p (once) and registers it, its callees and the
// globals it reads with the current root. It returns the qualified IR name.
func (x *kdfX) translate(p *packages.Package, fn string) string {
	fd := x.g.funcDecl(p, fn)
	if fd == nil || fd.Body == nil {
		return ""
	}
	name := p.Types.Name() + "." + fn
	if x.inProgress[name] {
		x.g.failf("kdfir: %s is recursive", name)
		return name
	}
	x.root.addProc(name) // callers before callees: the entry point comes first
	pr, done := x.procs[name]
	if !done {
		x.inProgress[name] = true
		f := &kdfFn{x: x, p: p, fd: fd, names: map[*types.Var]string{}, used: map[string]bool{}, isParam: map[*types.Var]bool{},
			pr: &kdfProc{name: name, leanName: strings.ToLower(fn[:1]) + fn[1:] + "IR", pkgKey: key(p.PkgPath),
				where: x.g.pos(fd.Pos()), pos: fd.Pos(), globalV: map[string]string{}}}
		f.run()
		pr = f.pr
		x.procs[name] = pr
		delete(x.inProgress, name)
	}
	// register with the current root (also when the procedure was translated for an earlier root)
	x.register(pr)
	return name
}

func (x *kdfX) register(pr *kdfProc) {
	r := x.root
	r.addProc(pr.name)
	if r.merged[pr.name] {
		return
	}
	r.merged[pr.name] = true
	for _, gname := range pr.globals {
		if _, ok := r.globals[gname]; !ok {
			r.globals[gname] = pr.globalV[gname]
			r.gorder = append(r.gorder, gname)
		}
	}
	for _, hs := range pr.hashSrcs {
		if r.hashSrc == "" {
			r.hashSrc = hs
		} else if r.hashSrc != hs {
			x.g.failf("kdfir: %s creates hash objects from %s but the program already uses %s", pr.name, hs, r.hashSrc)
		}
	}
	for _, c := range pr.callees {
		if cp := x.procs[c]; cp != nil {
			x.register(cp)
		}
	}
}

func (r *kdfRoot) addProc(name string) {
	for _, n := range r.porder {
		if n == name {
			return
		}
	}
	r.porder = append(r.porder, name)
}

// kdfFn is the translation of one function body.
type kdfFn struct {
	x       *kdfX
	p       *packages.Package
	fd      *ast.FuncDecl
	pr      *kdfProc
	names   map[*types.Var]string
	used    map[string]bool
	hashP   *types.Var // the parameter of type crypto.Hash, if any
	pre     []string   // statements hoisted out of the expression being translated (calls)
	noHoist bool
	tmp     int
	lastTmp string
	stored  map[*types.Var]bool // slices this function stores into (x[i] = …, x = append(x, …))
	isParam map[*types.Var]bool
	from    token.Pos // start of the translated suffix (0: whole body)
}

func isNamed(t types.Type, pkgPath, name string) bool {
	n, ok := t.(*types.Named)
	return ok && n.Obj().Pkg() != nil && n.Obj().Pkg().Path() == pkgPath && n.Obj().Name() == name
}

func isByteSlice(t types.Type) bool {
	s, ok := t.Underlying().(*types.Slice)
	if !ok {
		return false
	}
	b, ok := s.Elem().Underlying().(*types.Basic)
	return ok && b.Kind() == types.Uint8
}

func isByteArray(t types.Type) bool {
	s, ok := t.Underlying().(*types.Array)
	if !ok {
		return false
	}
	b, ok := s.Elem().Underlying().(*types.Basic)
	return ok && b.Kind() == types.Uint8
}

func isByteSliceSlice(t types.Type) bool {
	s, ok := t.Underlying().(*types.Slice)
	return ok && isByteSlice(s.Elem())
}

func isIntType(t types.Type) bool {
	b, ok := t.Underlying().(*types.Basic)
	return ok && b.Info()&types.IsInteger != 0
}

func (f *kdfFn) typ(e ast.Expr) types.Type {
	if tv, ok := f.p.TypesInfo.Types[e]; ok {
		return tv.Type
	}
	if id, ok := e.(*ast.Ident); ok {
		if o := f.p.TypesInfo.ObjectOf(id); o != nil {
			return o.Type()
		}
	}
	return types.Typ[types.Invalid]
}

func (f *kdfFn) desc(n ast.Node) string {
	return strLit(f.x.g.pos(n.Pos()) + ": " + strings.Join(strings.Fields(f.x.g.src(n)), " "))
}

func (f *kdfFn) unknownE(n ast.Node, why string) string {
	return fmt.Sprintf("(.unknown %s)", strLit(f.x.g.pos(n.Pos())+": "+why+": "+strings.Join(strings.Fields(f.x.g.src(n)), " ")))
}

func (f *kdfFn) unknownS(n ast.Node, why string) string {
	return fmt.Sprintf(".unknown %s", strLit(f.x.g.pos(n.Pos())+": "+why+": "+strings.Join(strings.Fields(f.x.g.src(n)), " ")))
}

// varOf resolves an identifier to a local variable (parameter, result or local), or nil.
func (f *kdfFn) varOf(id *ast.Ident) *types.Var {
	v, ok := f.p.TypesInfo.ObjectOf(id).(*types.Var)
	if !ok || v.IsField() || v.Pkg() == nil || v.Parent() == v.Pkg().Scope() {
		return nil
	}
	return v
}

// name gives each variable OBJECT one IR name: the source name, suffixed when another variable of
// this function already uses it (Go block scoping / shadowing).
func (f *kdfFn) name(v *types.Var) string {
	if n, ok := f.names[v]; ok {
		return n
	}
	n := v.Name()
	for k := 2; f.used[n]; k++ {
		n = fmt.Sprintf("%s_%d", v.Name(), k)
	}
	f.used[n] = true
	f.names[v] = n
	return n
}

func (f *kdfFn) temp() string {
	for {
		f.tmp++
		n := fmt.Sprintf("tmp%d", f.tmp)
		if !f.used[n] {
			f.used[n] = true
			return n
		}
	}
}

func (f *kdfFn) run() {
	sig := f.fd.Type
	suffix := f.x.suffixOf == f.pr.name
	for _, fl := range sig.Params.List {
		for _, n := range fl.Names {
			v, _ := f.p.TypesInfo.Defs[n].(*types.Var)
			if v == nil || n.Name == "_" {
				f.x.g.failf("kdfir: %s: unnamed parameter", f.pr.name)
				continue
			}
			if isNamed(v.Type(), "crypto", "Hash") {
				if f.hashP != nil {
					f.x.g.failf("kdfir: %s has two crypto.Hash parameters", f.pr.name)
				}
				f.hashP = v
			}
			f.isParam[v] = true
			if !suffix {
				f.pr.params = append(f.pr.params, strLit(f.name(v)))
			}
		}
	}
	if sig.Results != nil {
		for _, fl := range sig.Results.List {
			if len(fl.Names) > 0 {
				f.x.g.failf("kdfir: %s: named results are outside the fragment", f.pr.name)
			}
		}
	}
	list := f.fd.Body.List
	if suffix {
		// the hashing part: from the first top-level statement that creates a hash object to the end;
		// its free variables (declared before it) are the parameters of the IR procedure
		start := -1
		for i, st := range list {
			if f.createsHash(st) {
				start = i
				break
			}
		}
		if start < 0 {
			f.x.g.failf("kdfir: %s: no statement creates a hash object", f.pr.name)
			return
		}
		f.from = list[start].Pos()
		list = list[start:]
		seen := map[*types.Var]bool{}
		var free []*types.Var
		for _, st := range list {
			ast.Inspect(st, func(n ast.Node) bool {
				if id, ok := n.(*ast.Ident); ok {
					if v := f.varOf(id); v != nil && v.Pos() < f.from && !seen[v] {
						seen[v] = true
						free = append(free, v)
					}
				}
				return true
			})
		}
		sort.Slice(free, func(i, j int) bool { return free[i].Pos() < free[j].Pos() })
		for _, v := range free {
			f.pr.params = append(f.pr.params, strLit(f.name(v)))
		}
		f.pr.note = fmt.Sprintf(": the statements from %s on (the first one that creates a hash object);\nthe parameters are the variables they read that were declared before", f.x.g.pos(f.from))
	}
	f.findStored(list)
	f.pr.fresh = f.returnsFresh(list)
	body, _ := f.block(list, "    ")
	f.pr.body = body
}

// createsHash: does the statement contain a call that returns a new hash.Hash object?
func (f *kdfFn) createsHash(st ast.Stmt) bool {
	found := false
	ast.Inspect(st, func(n ast.Node) bool {
		if c, ok := n.(*ast.CallExpr); ok {
			if tv, ok := f.p.TypesInfo.Types[c]; ok && tv.Type != nil && isNamed(tv.Type, "hash", "Hash") {
				found = true
			}
		}
		return !found
	})
	return found
}

// returnsFresh: every returned []byte is a variable this function allocated itself (so a caller may
// pass it a buffer it later overwrites: the result cannot alias the argument).
func (f *kdfFn) returnsFresh(list []ast.Stmt) bool {
	ok := true
	any := false
	for _, st := range list {
		ast.Inspect(st, func(n ast.Node) bool {
			r, isRet := n.(*ast.ReturnStmt)
			if !isRet || len(r.Results) == 0 {
				return true
			}
			any = true
			id, isId := r.Results[0].(*ast.Ident)
			if !isId {
				ok = false
				return true
			}
			if v := f.varOf(id); v == nil || !f.stored[v] {
				ok = false
			}
			return true
		})
	}
	return ok && any
}

// ---- value-semantics side conditions -------------------------------------------------------

// sumIntoArg matches `x[:0]` for a local array variable x (the argument of `h.Sum(x[:0])`).
func (f *kdfFn) sumIntoArg(e ast.Expr) (*ast.Ident, *types.Var) {
	se, ok := e.(*ast.SliceExpr)
	if !ok || se.Slice3 || se.Low != nil || se.High == nil {
		return nil, nil
	}
	if tv, ok := f.p.TypesInfo.Types[se.High]; !ok || tv.Value == nil || tv.Value.ExactString() != "0" {
		return nil, nil
	}
	id, ok := se.X.(*ast.Ident)
	if !ok || !isByteArray(f.typ(se.X)) {
		return nil, nil
	}
	return id, f.varOf(id)
}

// isSumInto matches the statement `h.Sum(x[:0])`.
func (f *kdfFn) isSumInto(st ast.Stmt) (h *ast.Ident, x *ast.Ident, ok bool) {
	es, isE := st.(*ast.ExprStmt)
	if !isE {
		return nil, nil, false
	}
	c, isC := es.X.(*ast.CallExpr)
	if !isC || len(c.Args) != 1 {
		return nil, nil, false
	}
	sel, isS := c.Fun.(*ast.SelectorExpr)
	if !isS || sel.Sel.Name != "Sum" || !isNamed(f.typ(sel.X), "hash", "Hash") {
		return nil, nil, false
	}
	hid, isId := sel.X.(*ast.Ident)
	xid, xv := f.sumIntoArg(c.Args[0])
	if !isId || f.varOf(hid) == nil || xv == nil {
		return nil, nil, false
	}
	return hid, xid, true
}

// findStored collects the buffers the function stores into and checks that each of them is only ever
// a fresh buffer that nothing else can alias: a local (not a parameter) defined by make(…), by a
// `var x [N]byte` declaration or by appending to itself, and used only as a store target, a read
// operand, a Write argument, an argument of a function that returns a buffer of its own, or a
// return value.
func (f *kdfFn) findStored(list []ast.Stmt) {
	f.stored = map[*types.Var]bool{}
	inspect := func(fn func(ast.Node) bool) {
		for _, st := range list {
			ast.Inspect(st, fn)
		}
	}
	inspect(func(n ast.Node) bool {
		if st, ok := n.(ast.Stmt); ok {
			if _, x, ok := f.isSumInto(st); ok {
				f.stored[f.varOf(x)] = true
			}
		}
		as, ok := n.(*ast.AssignStmt)
		if !ok {
			return true
		}
		for i, l := range as.Lhs {
			if ix, ok := l.(*ast.IndexExpr); ok {
				if id, ok := ix.X.(*ast.Ident); ok {
					if v := f.varOf(id); v != nil {
						f.stored[v] = true
					}
				}
			}
			if id, ok := l.(*ast.Ident); ok && i < len(as.Rhs) {
				if call, ok := as.Rhs[i].(*ast.CallExpr); ok {
					if b, ok := call.Fun.(*ast.Ident); ok && b.Name == "append" {
						if _, isB := f.p.TypesInfo.Uses[b].(*types.Builtin); isB {
							if v := f.varOf(id); v != nil {
								f.stored[v] = true
							}
						}
					}
				}
			}
		}
		return true
	})
	if len(f.stored) == 0 {
		return
	}
	// every occurrence of a stored variable must be in an allowed position
	allowed := map[*ast.Ident]bool{}
	defined := map[*types.Var]bool{}
	sliceBase := func(a ast.Expr) *ast.Ident {
		if se, ok := a.(*ast.SliceExpr); ok && !se.Slice3 {
			a = se.X
		}
		id, _ := a.(*ast.Ident)
		return id
	}
	inspect(func(n ast.Node) bool {
		switch v := n.(type) {
		case *ast.ExprStmt:
			if _, x, ok := f.isSumInto(v); ok {
				allowed[x] = true // h.Sum(x[:0])
			}
		case *ast.DeclStmt:
			if gd, ok := v.Decl.(*ast.GenDecl); ok && gd.Tok == token.VAR {
				for _, spec := range gd.Specs {
					vs := spec.(*ast.ValueSpec)
					if len(vs.Values) == 0 {
						for _, n := range vs.Names {
							if lv := f.varOf(n); lv != nil && isByteArray(lv.Type()) {
								allowed[n] = true // var x [N]byte
								defined[lv] = true
							}
						}
					}
				}
			}
		case *ast.AssignStmt:
			for i, l := range v.Lhs {
				if ix, ok := l.(*ast.IndexExpr); ok {
					if id, ok := ix.X.(*ast.Ident); ok {
						allowed[id] = true // x[i] = …
					}
				}
				id, ok := l.(*ast.Ident)
				if !ok || i >= len(v.Rhs) || len(v.Lhs) != len(v.Rhs) {
					continue
				}
				sv := f.varOf(id)
				if sv == nil || !f.stored[sv] {
					continue
				}
				call, ok := v.Rhs[i].(*ast.CallExpr)
				if !ok {
					continue
				}
				if b, ok := call.Fun.(*ast.Ident); ok {
					if _, isB := f.p.TypesInfo.Uses[b].(*types.Builtin); isB {
						if b.Name == "make" {
							allowed[id] = true // x := make(…)
							defined[sv] = true
						}
						if b.Name == "append" && len(call.Args) > 0 {
							if a0, ok := call.Args[0].(*ast.Ident); ok && f.varOf(a0) == sv {
								allowed[id] = true // x = append(x, …)
								allowed[a0] = true
							}
						}
					}
				}
			}
		case *ast.ReturnStmt:
			for _, r := range v.Results {
				if id, ok := r.(*ast.Ident); ok {
					allowed[id] = true
				}
			}
		case *ast.CallExpr:
			if b, ok := v.Fun.(*ast.Ident); ok && b.Name == "len" && len(v.Args) == 1 {
				if id := sliceBase(v.Args[0]); id != nil {
					allowed[id] = true
				}
			}
			if sel, ok := v.Fun.(*ast.SelectorExpr); ok && sel.Sel.Name == "Write" && len(v.Args) == 1 && isNamed(f.typ(sel.X), "hash", "Hash") {
				if id := sliceBase(v.Args[0]); id != nil {
					allowed[id] = true // Write copies its argument
				}
			}
			// a function of this module whose result is a buffer of its own cannot keep an alias
			if fn := f.calledFunc(v); fn != nil && fn.Pkg() != nil && strings.HasPrefix(fn.Pkg().Path(), modPath) {
				if callee := f.x.g.pkgs[key(fn.Pkg().Path())]; callee != nil {
					if name := f.x.translate(callee, fn.Name()); name != "" {
						if pr := f.x.procs[name]; pr != nil && pr.fresh {
							for _, a := range v.Args {
								if id := sliceBase(a); id != nil {
									allowed[id] = true
								}
							}
						}
					}
				}
			}
		case *ast.IndexExpr:
			if id, ok := v.X.(*ast.Ident); ok {
				allowed[id] = true // reading x[i] yields a byte
			}
		}
		return true
	})
	inspect(func(n ast.Node) bool {
		id, ok := n.(*ast.Ident)
		if !ok {
			return true
		}
		if v := f.varOf(id); v != nil && f.stored[v] && !allowed[id] {
			f.x.g.failf("kdfir: %s: buffer %s is stored into and also used where it could be aliased; value semantics would be unsound", f.x.g.pos(id.Pos()), id.Name)
		}
		return true
	})
	for v := range f.stored {
		if f.isParam[v] || !defined[v] || (f.from != 0 && v.Pos() < f.from) {
			f.x.g.failf("kdfir: %s: %s is stored into but is not a buffer allocated by %s (make / var [N]byte)", f.x.g.pos(v.Pos()), v.Name(), f.pr.name)
		}
	}
}

// calledFunc resolves a call to a package-level function, or nil.
func (f *kdfFn) calledFunc(c *ast.CallExpr) *types.Func {
	var fn *types.Func
	switch v := c.Fun.(type) {
	case *ast.Ident:
		fn, _ = f.p.TypesInfo.Uses[v].(*types.Func)
	case *ast.SelectorExpr:
		if _, isSel := f.p.TypesInfo.Selections[v]; !isSel {
			fn, _ = f.p.TypesInfo.Uses[v.Sel].(*types.Func)
		}
	}
	if fn != nil {
		if sig, ok := fn.Type().(*types.Signature); ok && sig.Recv() != nil {
			return nil
		}
	}
	return fn
}

// ---- expressions -----------------------------------------------------------------------------

func intLit(v constant.Value) string {
	s := v.ExactString()
	if strings.HasPrefix(s, "-") {
		return fmt.Sprintf("(.int (%s))", s)
	}
	return fmt.Sprintf("(.int %s)", s)
}

var kdfBinOps = map[token.Token]string{
	token.ADD: "add", token.SUB: "sub", token.MUL: "mul", token.REM: "rem", token.AND: "band", token.SHR: "shr",
	token.LSS: "lt", token.LEQ: "le", token.GTR: "gt", token.GEQ: "ge", token.EQL: "eq", token.NEQ: "ne",
}

// wrap reduces the result of an operation that can leave the range of an unsigned type.
// Signed types (`int`: lengths and counters here) are mathematical integers, as in expr.go.
func (f *kdfFn) wrap(t types.Type, s string) string {
	bits, unsigned, ok := bitsOf(t)
	if ok && unsigned && bits > 0 {
		return fmt.Sprintf("(.wrap %d %s)", bits, s)
	}
	return s
}

func (f *kdfFn) binary(n ast.Node, op token.Token, resT types.Type, a, b string, opT types.Type) string {
	name, ok := kdfBinOps[op]
	if !ok {
		return f.unknownE(n, "operator "+op.String())
	}
	if !isIntType(opT) {
		return f.unknownE(n, "non-integer operands")
	}
	s := fmt.Sprintf("(.bin .%s %s %s)", name, a, b)
	switch op {
	case token.ADD, token.SUB, token.MUL:
		return f.wrap(resT, s)
	}
	return s
}

func (f *kdfFn) expr(e ast.Expr) string {
	if tv, ok := f.p.TypesInfo.Types[e]; ok && tv.Value != nil {
		if tv.Value.Kind() == constant.Int {
			return intLit(tv.Value)
		}
		return f.unknownE(e, "constant that is not an integer")
	}
	switch v := e.(type) {
	case *ast.ParenExpr:
		return f.expr(v.X)
	case *ast.Ident:
		switch o := f.p.TypesInfo.ObjectOf(v).(type) {
		case *types.Nil:
			if isByteSlice(f.typ(v)) {
				return "(.bytes [])"
			}
			return f.unknownE(e, "nil of a type other than []byte")
		case *types.Var:
			if lv := f.varOf(v); lv != nil {
				return fmt.Sprintf("(.var %s)", strLit(f.name(lv)))
			}
			return f.global(v, o)
		}
		return f.unknownE(e, "identifier")
	case *ast.SelectorExpr:
		if id, ok := v.X.(*ast.Ident); ok {
			if _, isPkg := f.p.TypesInfo.Uses[id].(*types.PkgName); isPkg {
				if o, ok := f.p.TypesInfo.Uses[v.Sel].(*types.Var); ok {
					return f.global(v.Sel, o)
				}
			}
		}
		return f.unknownE(e, "selector")
	case *ast.BinaryExpr:
		switch v.Op {
		case token.LAND:
			return fmt.Sprintf("(.land %s %s)", f.expr(v.X), f.expr(v.Y))
		case token.LOR:
			return fmt.Sprintf("(.lor %s %s)", f.expr(v.X), f.expr(v.Y))
		}
		return f.binary(e, v.Op, f.typ(e), f.expr(v.X), f.expr(v.Y), f.typ(v.X))
	case *ast.UnaryExpr:
		if v.Op == token.NOT {
			return fmt.Sprintf("(.not %s)", f.expr(v.X))
		}
		return f.unknownE(e, "unary operator")
	case *ast.IndexExpr:
		if t := f.typ(v.X); isByteSlice(t) || isByteArray(t) {
			return fmt.Sprintf("(.index %s %s)", f.expr(v.X), f.expr(v.Index))
		}
		return f.unknownE(e, "index of a non-[]byte")
	case *ast.SliceExpr:
		if v.Slice3 {
			return f.unknownE(e, "3-index slice")
		}
		if t := f.typ(v.X); !isByteSlice(t) && !isByteArray(t) {
			return f.unknownE(e, "slice of a non-[]byte")
		}
		x := f.expr(v.X)
		lo, hi := "(.int 0)", fmt.Sprintf("(.len %s)", x)
		if v.Low != nil {
			lo = f.expr(v.Low)
		}
		if v.High != nil {
			hi = f.expr(v.High)
		}
		return fmt.Sprintf("(.slice %s %s %s)", x, lo, hi)
	case *ast.CompositeLit:
		if isByteSlice(f.typ(v)) || isByteArray(f.typ(v)) {
			if _, vals, ok := f.x.g.constInts(f.p.TypesInfo, v); ok {
				if at, isArr := f.typ(v).Underlying().(*types.Array); !isArr || int(at.Len()) == len(vals) {
					return fmt.Sprintf("(.bytes [%s])", strings.Join(vals, ", "))
				}
			}
		}
		return f.unknownE(e, "composite literal")
	case *ast.CallExpr:
		return f.callExpr(v)
	}
	return f.unknownE(e, "expression")
}

// global registers a package-level variable whose initialiser is a constant byte table.
func (f *kdfFn) global(at ast.Node, o *types.Var) string {
	if o.Pkg() == nil || !strings.HasPrefix(o.Pkg().Path(), modPath) {
		return f.unknownE(at, "variable of another module")
	}
	gname := o.Pkg().Name() + "." + o.Name()
	if _, ok := f.pr.globalV[gname]; ok {
		return fmt.Sprintf("(.global %s)", strLit(gname))
	}
	p := f.x.g.pkgs[key(o.Pkg().Path())]
	if p == nil {
		return f.unknownE(at, "package not loaded")
	}
	for _, file := range p.Syntax {
		for _, d := range file.Decls {
			gd, ok := d.(*ast.GenDecl)
			if !ok || gd.Tok != token.VAR {
				continue
			}
			for _, spec := range gd.Specs {
				vs := spec.(*ast.ValueSpec)
				for i, n := range vs.Names {
					if p.TypesInfo.Defs[n] != o || len(vs.Values) != len(vs.Names) {
						continue
					}
					val := vs.Values[i]
					var lit string
					if isByteSlice(o.Type()) || isByteArray(o.Type()) {
						if cl, ok := val.(*ast.CompositeLit); ok {
							if _, vals, ok := f.x.g.constInts(p.TypesInfo, cl); ok {
								if at, isArr := o.Type().Underlying().(*types.Array); !isArr || int(at.Len()) == len(vals) {
									lit = "[" + strings.Join(vals, ", ") + "]"
								}
							}
						}
						if call, ok := val.(*ast.CallExpr); ok && len(call.Args) == 1 {
							if tv, has := p.TypesInfo.Types[call.Args[0]]; has && tv.Value != nil && tv.Value.Kind() == constant.String {
								if ftv, ok := p.TypesInfo.Types[call.Fun]; ok && ftv.IsType() {
									lit = bytesLit([]byte(constant.StringVal(tv.Value)))
								}
							}
						}
					}
					if lit == "" {
						return f.unknownE(at, "package variable without a constant []byte initialiser")
					}
					if f.assignedAnywhere(p, o) {
						return f.unknownE(at, "package variable that is assigned to")
					}
					f.pr.globals = append(f.pr.globals, gname)
					f.pr.globalV[gname] = fmt.Sprintf(".bytes %s", lit)
					return fmt.Sprintf("(.global %s)", strLit(gname))
				}
			}
		}
	}
	return f.unknownE(at, "package variable declaration not found")
}

// assignedAnywhere: is the package-level variable (or an element of it) ever a store target, or is its
// address taken? Then its initialiser is not its value.
func (f *kdfFn) assignedAnywhere(p *packages.Package, o *types.Var) bool {
	hit := false
	base := func(e ast.Expr) *ast.Ident {
		for {
			switch v := e.(type) {
			case *ast.IndexExpr:
				e = v.X
			case *ast.ParenExpr:
				e = v.X
			case *ast.Ident:
				return v
			default:
				return nil
			}
		}
	}
	for _, file := range p.Syntax {
		ast.Inspect(file, func(n ast.Node) bool {
			switch v := n.(type) {
			case *ast.AssignStmt:
				for _, l := range v.Lhs {
					if id := base(l); id != nil && p.TypesInfo.ObjectOf(id) == o {
						hit = true
					}
				}
			case *ast.IncDecStmt:
				if id := base(v.X); id != nil && p.TypesInfo.ObjectOf(id) == o {
					hit = true
				}
			case *ast.UnaryExpr:
				if v.Op == token.AND {
					if id := base(v.X); id != nil && p.TypesInfo.ObjectOf(id) == o {
						hit = true
					}
				}
			}
			return !hit
		})
	}
	return hit
}

func (f *kdfFn) isHashParam(e ast.Expr) bool {
	for {
		pe, ok := e.(*ast.ParenExpr)
		if !ok {
			break
		}
		e = pe.X
	}
	id, ok := e.(*ast.Ident)
	return ok && f.hashP != nil && f.varOf(id) == f.hashP
}

func (f *kdfFn) hashSrc(s string) {
	for _, h := range f.pr.hashSrcs {
		if h == s {
			return
		}
	}
	f.pr.hashSrcs = append(f.pr.hashSrcs, s)
}

func (f *kdfFn) callExpr(c *ast.CallExpr) string {
	// conversions
	if tv, ok := f.p.TypesInfo.Types[c.Fun]; ok && tv.IsType() && len(c.Args) == 1 {
		to, from := tv.Type, f.typ(c.Args[0])
		if isByteSlice(to) && isByteSlice(from) {
			return f.expr(c.Args[0])
		}
		// []byte(strconv.FormatUint(…)): strings are their bytes
		if isByteSlice(to) {
			if b, ok := from.Underlying().(*types.Basic); ok && b.Kind() == types.String {
				if inner, ok := c.Args[0].(*ast.CallExpr); ok {
					if fn := f.calledFunc(inner); fn != nil && fn.Pkg() != nil && fn.Pkg().Path() == "strconv" && fn.Name() == "FormatUint" && len(inner.Args) == 2 {
						if isIntType(f.typ(inner.Args[0])) && isIntType(f.typ(inner.Args[1])) {
							return fmt.Sprintf("(.formatUint %s %s)", f.expr(inner.Args[0]), f.expr(inner.Args[1]))
						}
					}
				}
			}
		}
		if isIntType(to) && isIntType(from) {
			tb, tu, _ := bitsOf(to)
			fb, fu, _ := bitsOf(from)
			a := f.expr(c.Args[0])
			switch {
			case tu && fu && fb <= tb:
				return a
			case tu:
				return fmt.Sprintf("(.wrap %d %s)", tb, a)
			case !tu && fu && fb < tb, !tu && !fu && fb <= tb:
				return a
			}
		}
		return f.unknownE(c, "conversion")
	}
	// builtins
	if id, ok := c.Fun.(*ast.Ident); ok {
		if _, isB := f.p.TypesInfo.Uses[id].(*types.Builtin); isB {
			switch id.Name {
			case "len":
				if len(c.Args) == 1 {
					if t := f.typ(c.Args[0]); isByteSlice(t) || isByteArray(t) || isByteSliceSlice(t) {
						return fmt.Sprintf("(.len %s)", f.expr(c.Args[0]))
					}
				}
			case "make":
				if len(c.Args) >= 2 && isByteSlice(f.typ(c.Args[0])) {
					n := f.expr(c.Args[1])
					cp := n
					if len(c.Args) == 3 {
						cp = f.expr(c.Args[2])
					}
					return fmt.Sprintf("(.make %s %s)", n, cp)
				}
			case "append":
				if len(c.Args) == 2 && c.Ellipsis.IsValid() && isByteSlice(f.typ(c.Args[0])) && isByteSlice(f.typ(c.Args[1])) {
					return fmt.Sprintf("(.append %s %s)", f.expr(c.Args[0]), f.expr(c.Args[1]))
				}
			}
			return f.unknownE(c, "builtin")
		}
	}
	// methods of crypto.Hash (the hash this run is about) and of hash.Hash objects
	if sel, ok := c.Fun.(*ast.SelectorExpr); ok {
		if s, ok := f.p.TypesInfo.Selections[sel]; ok && s.Kind() == types.MethodVal {
			recvT := f.typ(sel.X)
			switch {
			case isNamed(recvT, "crypto", "Hash"):
				if !f.isHashParam(sel.X) {
					return f.unknownE(c, "crypto.Hash method on something other than the function's crypto.Hash parameter")
				}
				f.hashSrc("the crypto.Hash argument")
				switch {
				case sel.Sel.Name == "Size" && len(c.Args) == 0:
					return ".hsize"
				case sel.Sel.Name == "New" && len(c.Args) == 0:
					return ".newHash"
				}
				return f.unknownE(c, "crypto.Hash method")
			case isNamed(recvT, "hash", "Hash"):
				if sel.Sel.Name == "Sum" && len(c.Args) == 1 {
					h := f.expr(sel.X)
					if id, ok := c.Args[0].(*ast.Ident); ok {
						if _, isNil := f.p.TypesInfo.ObjectOf(id).(*types.Nil); isNil {
							return fmt.Sprintf("(.sum %s)", h)
						}
					}
					return f.unknownE(c, "Sum into an existing buffer")
				}
				return f.unknownE(c, "hash.Hash method in expression position")
			}
			return f.unknownE(c, "method call")
		}
	}
	// functions
	var fn *types.Func
	switch v := c.Fun.(type) {
	case *ast.Ident:
		fn, _ = f.p.TypesInfo.Uses[v].(*types.Func)
	case *ast.SelectorExpr:
		fn, _ = f.p.TypesInfo.Uses[v.Sel].(*types.Func)
	}
	if fn == nil || fn.Pkg() == nil {
		return f.unknownE(c, "call")
	}
	sig := fn.Type().(*types.Signature)
	if sig.Recv() != nil {
		return f.unknownE(c, "method call")
	}
	// hmac.New(pkg.New, key)
	if fn.Pkg().Path() == "crypto/hmac" && fn.Name() == "New" && len(c.Args) == 2 && isByteSlice(f.typ(c.Args[1])) {
		if sel, ok := c.Args[0].(*ast.SelectorExpr); ok {
			if inner, ok := f.p.TypesInfo.Uses[sel.Sel].(*types.Func); ok && inner.Pkg() != nil && inner.Name() == "New" {
				isig := inner.Type().(*types.Signature)
				if isig.Recv() == nil && isig.Params().Len() == 0 && isig.Results().Len() == 1 && isNamed(isig.Results().At(0).Type(), "hash", "Hash") {
					f.hashSrc("crypto/hmac.New(" + inner.Pkg().Path() + ".New)")
					return fmt.Sprintf("(.newHmac %s)", f.expr(c.Args[1]))
				}
			}
		}
		return f.unknownE(c, "hmac.New")
	}
	// a constructor of the standard library: func New() hash.Hash
	if !strings.HasPrefix(fn.Pkg().Path(), modPath) {
		if fn.Name() == "New" && sig.Params().Len() == 0 && sig.Results().Len() == 1 && isNamed(sig.Results().At(0).Type(), "hash", "Hash") {
			f.hashSrc(fn.Pkg().Path() + ".New")
			return ".newHash"
		}
		return f.unknownE(c, "call of a function outside this module")
	}
	// a function of this module: translate it, call it through a temporary
	if f.noHoist {
		return f.unknownE(c, "call in a position that is evaluated repeatedly")
	}
	callee := f.x.g.pkgs[key(fn.Pkg().Path())]
	if callee == nil {
		return f.unknownE(c, "package not loaded")
	}
	name := f.x.translate(callee, fn.Name())
	if name == "" {
		return f.unknownE(c, "function body not found")
	}
	f.pr.callees = append(f.pr.callees, name)
	args, ok := f.callArgs(c, sig)
	if !ok {
		return f.unknownE(c, "arguments")
	}
	t := f.temp()
	f.lastTmp = t
	f.pre = append(f.pre, fmt.Sprintf(".call %s %s [%s]", strLit(t), strLit(name), strings.Join(args, ", ")))
	return fmt.Sprintf("(.var %s)", strLit(t))
}

// callArgs translates the arguments of a call to a translated function: the variadic tail becomes a
// pack, a crypto.Hash argument must be the caller's own crypto.Hash parameter (one hash per run).
func (f *kdfFn) callArgs(c *ast.CallExpr, sig *types.Signature) ([]string, bool) {
	var args []string
	np := sig.Params().Len()
	fixed := np
	if sig.Variadic() {
		fixed = np - 1
	}
	if len(c.Args) < fixed || (!sig.Variadic() && len(c.Args) != np) {
		return nil, false
	}
	for i := 0; i < fixed; i++ {
		if isNamed(sig.Params().At(i).Type(), "crypto", "Hash") && !f.isHashParam(c.Args[i]) {
			f.x.g.failf("kdfir: %s: a crypto.Hash argument that is not the caller's crypto.Hash parameter", f.x.g.pos(c.Args[i].Pos()))
		}
		if isNamed(f.typ(c.Args[i]), "hash", "Hash") {
			f.x.g.failf("kdfir: %s: hash object passed to a function (aliasing)", f.x.g.pos(c.Args[i].Pos()))
		}
		args = append(args, f.expr(c.Args[i]))
	}
	if sig.Variadic() {
		if !isByteSliceSlice(sig.Params().At(np - 1).Type()) {
			return nil, false
		}
		if c.Ellipsis.IsValid() {
			if len(c.Args) != np {
				return nil, false
			}
			args = append(args, f.expr(c.Args[np-1]))
		} else {
			pack := ".lnil"
			for i := len(c.Args) - 1; i >= fixed; i-- {
				pack = fmt.Sprintf("(.lcons %s %s)", f.expr(c.Args[i]), pack)
			}
			args = append(args, pack)
		}
	}
	return args, true
}

// ---- statements --------------------------------------------------------------------------------

// block translates a statement list; it returns the IR text (one statement per line, joined by `;;`)
// and the IR names of the variables declared directly in the list.
func (f *kdfFn) block(list []ast.Stmt, ind string) (string, []string) {
	var out []string
	var decl []string
	for _, s := range list {
		lines, d := f.stmt(s, ind)
		comment := ind + "-- " + f.x.g.pos(s.Pos()) + ": " + firstLine(f.x.g.src(s))
		for i, l := range lines {
			if i == 0 {
				out = append(out, comment+"\n"+ind+l)
			} else {
				out = append(out, ind+l)
			}
		}
		decl = append(decl, d...)
	}
	if len(out) == 0 {
		return ind + ".skip", nil
	}
	return strings.Join(out, " ;;\n"), decl
}

func firstLine(s string) string {
	if i := strings.IndexByte(s, '\n'); i >= 0 {
		return strings.TrimSpace(s[:i])
	}
	return s
}

func strList(xs []string) string {
	var q []string
	for _, x := range xs {
		q = append(q, strLit(x))
	}
	return "[" + strings.Join(q, ", ") + "]"
}

// nested renders a nested block as one parenthesised statement, scoped when it declares variables.
func (f *kdfFn) nested(list []ast.Stmt, ind string) string {
	body, decl := f.block(list, ind+"  ")
	if len(decl) > 0 {
		return fmt.Sprintf("(.scoped %s (\n%s))", strList(decl), body)
	}
	return fmt.Sprintf("(\n%s)", body)
}

// flush returns the hoisted calls followed by the statement itself.
func (f *kdfFn) flush(s string) []string {
	out := append(f.pre, s)
	f.pre = nil
	return out
}

func (f *kdfFn) zero(t types.Type) (string, bool) {
	switch {
	case isIntType(t):
		return "(.int 0)", true
	case isByteSlice(t):
		return "(.bytes [])", true
	case isByteArray(t):
		n := t.Underlying().(*types.Array).Len()
		return fmt.Sprintf("(.make (.int %d) (.int %d))", n, n), true
	}
	return "", false
}

// assignTo translates `lhs (:)= rhs` for one target.
func (f *kdfFn) assignTo(n ast.Node, lhs ast.Expr, rhs ast.Expr, rhsText string, define bool) (string, []string) {
	switch l := lhs.(type) {
	case *ast.Ident:
		if l.Name == "_" {
			return f.unknownS(n, "blank assignment"), nil
		}
		v := f.varOf(l)
		if v == nil {
			return f.unknownS(n, "assignment to a non-local"), nil
		}
		if f.hashP == v {
			f.x.g.failf("kdfir: %s: the crypto.Hash parameter is assigned to", f.x.g.pos(n.Pos()))
		}
		if rhs != nil && isNamed(v.Type(), "hash", "Hash") {
			r := rhs
			for {
				pe, ok := r.(*ast.ParenExpr)
				if !ok {
					break
				}
				r = pe.X
			}
			if _, isCall := r.(*ast.CallExpr); !isCall {
				f.x.g.failf("kdfir: %s: hash object assigned from something other than a call (aliasing)", f.x.g.pos(n.Pos()))
			}
		}
		var decl []string
		if define && f.p.TypesInfo.Defs[l] != nil {
			decl = []string{f.name(v)}
		}
		// `x := f(…)`: the hoisted call writes to x directly instead of going through a temporary
		if k := len(f.pre); k > 0 && f.lastTmp != "" && rhsText == fmt.Sprintf("(.var %s)", strLit(f.lastTmp)) &&
			strings.HasPrefix(f.pre[k-1], fmt.Sprintf(".call %s ", strLit(f.lastTmp))) {
			st := fmt.Sprintf(".call %s ", strLit(f.name(v))) + strings.TrimPrefix(f.pre[k-1], fmt.Sprintf(".call %s ", strLit(f.lastTmp)))
			f.pre = f.pre[:k-1]
			delete(f.used, f.lastTmp)
			f.tmp--
			f.lastTmp = ""
			return st, decl
		}
		return fmt.Sprintf(".assign %s %s", strLit(f.name(v)), rhsText), decl
	case *ast.IndexExpr:
		if id, ok := l.X.(*ast.Ident); ok && isByteSlice(f.typ(l.X)) {
			if v := f.varOf(id); v != nil {
				return fmt.Sprintf(".setIndex %s %s %s", strLit(f.name(v)), f.expr(l.Index), rhsText), nil
			}
		}
	}
	return f.unknownS(n, "assignment target"), nil
}

func (f *kdfFn) stmt(s ast.Stmt, ind string) ([]string, []string) {
	switch v := s.(type) {
	case *ast.EmptyStmt:
		return []string{".skip"}, nil
	case *ast.DeclStmt:
		gd, ok := v.Decl.(*ast.GenDecl)
		if !ok || gd.Tok != token.VAR {
			return []string{f.unknownS(s, "declaration")}, nil
		}
		var out, decl []string
		for _, spec := range gd.Specs {
			vs := spec.(*ast.ValueSpec)
			if len(vs.Values) != 0 && len(vs.Values) != len(vs.Names) {
				return []string{f.unknownS(s, "declaration")}, nil
			}
			for i, n := range vs.Names {
				lv := f.varOf(n)
				if lv == nil || n.Name == "_" {
					return []string{f.unknownS(s, "declaration")}, nil
				}
				var rhs string
				var rhsE ast.Expr
				if len(vs.Values) > 0 {
					rhsE = vs.Values[i]
					rhs = f.expr(rhsE)
				} else {
					z, ok := f.zero(lv.Type())
					if !ok {
						return []string{f.unknownS(s, "zero value")}, nil
					}
					rhs = z
				}
				st, d := f.assignTo(s, n, rhsE, rhs, true)
				out = append(out, f.flush(st)...)
				decl = append(decl, d...)
			}
		}
		return out, decl
	case *ast.AssignStmt:
		if len(v.Lhs) != len(v.Rhs) {
			return []string{f.unknownS(s, "assignment")}, nil
		}
		switch v.Tok {
		case token.DEFINE, token.ASSIGN:
			if len(v.Lhs) > 1 {
				// a parallel assignment evaluates every right-hand side first: only accepted when no
				// right-hand side mentions a target
				targets := map[*types.Var]bool{}
				for _, l := range v.Lhs {
					if id, ok := l.(*ast.Ident); ok {
						if lv := f.varOf(id); lv != nil {
							targets[lv] = true
						}
					} else {
						return []string{f.unknownS(s, "parallel assignment")}, nil
					}
				}
				clash := false
				for _, r := range v.Rhs {
					ast.Inspect(r, func(n ast.Node) bool {
						if id, ok := n.(*ast.Ident); ok {
							if lv := f.varOf(id); lv != nil && targets[lv] {
								clash = true
							}
						}
						return true
					})
				}
				if clash {
					return []string{f.unknownS(s, "parallel assignment reading its own targets")}, nil
				}
			}
			var out, decl []string
			for i := range v.Lhs {
				rhs := f.expr(v.Rhs[i])
				st, d := f.assignTo(s, v.Lhs[i], v.Rhs[i], rhs, v.Tok == token.DEFINE)
				out = append(out, f.flush(st)...)
				decl = append(decl, d...)
			}
			return out, decl
		default:
			// x op= e
			if len(v.Lhs) != 1 {
				return []string{f.unknownS(s, "assignment")}, nil
			}
			op, ok := map[token.Token]token.Token{
				token.ADD_ASSIGN: token.ADD, token.SUB_ASSIGN: token.SUB, token.MUL_ASSIGN: token.MUL,
				token.REM_ASSIGN: token.REM, token.AND_ASSIGN: token.AND, token.SHR_ASSIGN: token.SHR,
			}[v.Tok]
			id, isId := v.Lhs[0].(*ast.Ident)
			if !ok || !isId || f.varOf(id) == nil {
				return []string{f.unknownS(s, "compound assignment")}, nil
			}
			t := f.typ(id)
			rhs := f.binary(s, op, t, f.expr(id), f.expr(v.Rhs[0]), t)
			st, _ := f.assignTo(s, id, nil, rhs, false)
			return f.flush(st), nil
		}
	case *ast.IncDecStmt:
		id, isId := v.X.(*ast.Ident)
		if !isId || f.varOf(id) == nil || !isIntType(f.typ(id)) {
			return []string{f.unknownS(s, "inc/dec")}, nil
		}
		op := token.ADD
		if v.Tok == token.DEC {
			op = token.SUB
		}
		t := f.typ(id)
		rhs := f.binary(s, op, t, f.expr(id), "(.int 1)", t)
		st, _ := f.assignTo(s, id, nil, rhs, false)
		return f.flush(st), nil
	case *ast.ExprStmt:
		if h, x, ok := f.isSumInto(v); ok {
			return []string{fmt.Sprintf(".sumInto %s %s", strLit(f.name(f.varOf(x))), strLit(f.name(f.varOf(h))))}, nil
		}
		if c, ok := v.X.(*ast.CallExpr); ok {
			if sel, ok := c.Fun.(*ast.SelectorExpr); ok && sel.Sel.Name == "Reset" && len(c.Args) == 0 && isNamed(f.typ(sel.X), "hash", "Hash") {
				if id, ok := sel.X.(*ast.Ident); ok {
					if hv := f.varOf(id); hv != nil {
						return []string{fmt.Sprintf(".reset %s", strLit(f.name(hv)))}, nil
					}
				}
			}
			if sel, ok := c.Fun.(*ast.SelectorExpr); ok && sel.Sel.Name == "Write" && len(c.Args) == 1 && isNamed(f.typ(sel.X), "hash", "Hash") {
				if id, ok := sel.X.(*ast.Ident); ok {
					if hv := f.varOf(id); hv != nil {
						arg := f.expr(c.Args[0])
						return f.flush(fmt.Sprintf(".write %s %s", strLit(f.name(hv)), arg)), nil
					}
				}
			}
		}
		return []string{f.unknownS(s, "expression statement")}, nil
	case *ast.BlockStmt:
		return []string{f.nested(v.List, ind)}, nil
	case *ast.IfStmt:
		var out []string
		var scopeVars []string
		if v.Init != nil {
			lines, d := f.stmt(v.Init, ind)
			out = append(out, lines...)
			scopeVars = d
		}
		cond := f.expr(v.Cond)
		pre := f.pre
		f.pre = nil
		els := ".skip"
		switch e := v.Else.(type) {
		case nil:
		case *ast.BlockStmt:
			els = f.nested(e.List, ind)
		case *ast.IfStmt:
			lines, _ := f.stmt(e, ind+"  ")
			els = "(" + strings.Join(lines, " ;;\n"+ind+"  ") + ")"
		default:
			els = "(" + f.unknownS(e, "else") + ")"
		}
		ite := fmt.Sprintf(".ite %s %s %s", cond, f.nested(v.Body.List, ind), els)
		out = append(out, pre...)
		out = append(out, ite)
		if len(scopeVars) > 0 {
			return []string{fmt.Sprintf(".scoped %s (%s)", strList(scopeVars), strings.Join(out, " ;;\n"+ind+"  "))}, nil
		}
		return out, nil
	case *ast.SwitchStmt:
		return f.switchStmt(v, ind), nil
	case *ast.ForStmt:
		return f.forStmt(v, ind), nil
	case *ast.RangeStmt:
		return f.rangeStmt(v, ind), nil
	case *ast.ReturnStmt:
		return f.returnStmt(v), nil
	}
	return []string{f.unknownS(s, "statement")}, nil
}

func (f *kdfFn) switchStmt(v *ast.SwitchStmt, ind string) []string {
	if v.Init != nil || v.Tag == nil {
		return []string{f.unknownS(v, "switch with init or without tag")}
	}
	tagId, ok := v.Tag.(*ast.Ident)
	if !ok || f.varOf(tagId) == nil || !isIntType(f.typ(tagId)) {
		return []string{f.unknownS(v, "switch tag that is not an integer variable")}
	}
	tag := f.expr(tagId)
	type clause struct{ cond, body string }
	var clauses []clause
	def := ".skip"
	for _, cs := range v.Body.List {
		cc := cs.(*ast.CaseClause)
		for _, st := range cc.Body {
			if br, ok := st.(*ast.BranchStmt); ok && br.Tok == token.FALLTHROUGH {
				return []string{f.unknownS(v, "fallthrough")}
			}
			bad := false
			ast.Inspect(st, func(n ast.Node) bool {
				if br, ok := n.(*ast.BranchStmt); ok && br.Tok == token.BREAK {
					bad = true
				}
				return true
			})
			if bad {
				return []string{f.unknownS(v, "break in switch")}
			}
		}
		body := f.nested(cc.Body, ind)
		if cc.List == nil {
			def = body
			continue
		}
		cond := ""
		for i := len(cc.List) - 1; i >= 0; i-- {
			eq := f.binary(cc.List[i], token.EQL, types.Typ[types.Bool], tag, f.expr(cc.List[i]), f.typ(tagId))
			if cond == "" {
				cond = eq
			} else {
				cond = fmt.Sprintf("(.lor %s %s)", eq, cond)
			}
		}
		clauses = append(clauses, clause{cond, body})
	}
	s := def
	for i := len(clauses) - 1; i >= 0; i-- {
		if i == 0 {
			s = fmt.Sprintf(".ite %s %s %s", clauses[i].cond, clauses[i].body, parenS(s))
		} else {
			s = fmt.Sprintf("(.ite %s %s %s)", clauses[i].cond, clauses[i].body, parenS(s))
		}
	}
	if len(clauses) == 0 {
		return []string{strings.TrimSuffix(strings.TrimPrefix(s, "("), ")")}
	}
	return []string{s}
}

func parenS(s string) string {
	if strings.HasPrefix(s, "(") || s == ".skip" {
		return s
	}
	return "(" + s + ")"
}

// loopFuel derives a bound on the number of iterations from the loop header:
//
//	for …; i > e; i -= c / i-- / i >>= c   →  (i − e) + 1
//	for …; i < e; i++ / i += c             →  (e − i) + 1
//
// evaluated once after the init statement. The interpreter does not trust it (exceeding it is `stuck`).
func (f *kdfFn) loopFuel(v *ast.ForStmt) string {
	be, ok := v.Cond.(*ast.BinaryExpr)
	if !ok {
		return f.unknownE(v, "no loop bound: condition is not a comparison")
	}
	id, ok := be.X.(*ast.Ident)
	lv := (*types.Var)(nil)
	if ok {
		lv = f.varOf(id)
	}
	if lv == nil || !isIntType(lv.Type()) {
		return f.unknownE(v, "no loop bound: left side of the condition is not an integer variable")
	}
	down, up := false, false
	switch p := v.Post.(type) {
	case *ast.IncDecStmt:
		if pid, ok := p.X.(*ast.Ident); ok && f.varOf(pid) == lv {
			up, down = p.Tok == token.INC, p.Tok == token.DEC
		}
	case *ast.AssignStmt:
		if len(p.Lhs) == 1 && len(p.Rhs) == 1 {
			if pid, ok := p.Lhs[0].(*ast.Ident); ok && f.varOf(pid) == lv {
				switch p.Tok {
				case token.ADD_ASSIGN:
					up = true
				case token.SUB_ASSIGN, token.SHR_ASSIGN:
					down = true
				}
			}
		}
	}
	i, e := f.expr(id), f.expr(be.Y)
	switch {
	case down && (be.Op == token.GTR || be.Op == token.GEQ):
		return fmt.Sprintf("(.bin .add (.bin .sub %s %s) (.int 1))", i, e)
	case up && (be.Op == token.LSS || be.Op == token.LEQ):
		return fmt.Sprintf("(.bin .add (.bin .sub %s %s) (.int 1))", e, i)
	}
	return f.unknownE(v, "no loop bound: unrecognised progress")
}

func hasBranch(body *ast.BlockStmt) bool {
	found := false
	ast.Inspect(body, func(n ast.Node) bool {
		if _, ok := n.(*ast.BranchStmt); ok {
			found = true
		}
		return !found
	})
	return found
}

func (f *kdfFn) forStmt(v *ast.ForStmt, ind string) []string {
	if v.Cond == nil || hasBranch(v.Body) {
		return []string{f.unknownS(v, "loop without condition or with break/continue/goto")}
	}
	var out, scopeVars []string
	if v.Init != nil {
		lines, d := f.stmt(v.Init, ind)
		out = append(out, lines...)
		scopeVars = d
	}
	saved := f.noHoist
	f.noHoist = true
	fuel := f.loopFuel(v)
	cond := f.expr(v.Cond)
	post := ".skip"
	if v.Post != nil {
		lines, _ := f.stmt(v.Post, ind)
		if len(lines) != 1 {
			post = f.unknownS(v.Post, "post statement")
		} else {
			post = lines[0]
		}
	}
	f.noHoist = saved
	body := f.nested(v.Body.List, ind+"  ")
	loop := fmt.Sprintf(".for_ %s\n%s  %s\n%s  (%s)\n%s  %s", fuel, ind, cond, ind, post, ind, body)
	out = append(out, loop)
	if len(scopeVars) > 0 {
		return []string{fmt.Sprintf(".scoped %s (%s)", strList(scopeVars), strings.Join(out, " ;;\n"+ind+"  "))}
	}
	return out
}

func (f *kdfFn) rangeStmt(v *ast.RangeStmt, ind string) []string {
	if v.Tok != token.DEFINE || hasBranch(v.Body) {
		return []string{f.unknownS(v, "range without := or with break/continue/goto")}
	}
	t := f.typ(v.X)
	if !isByteSlice(t) && !isByteSliceSlice(t) {
		return []string{f.unknownS(v, "range over something other than []byte / ...[]byte")}
	}
	// the collection is evaluated once and must not change while it is ranged over
	xid, ok := v.X.(*ast.Ident)
	if !ok || f.varOf(xid) == nil || f.stored[f.varOf(xid)] {
		return []string{f.unknownS(v, "range over something other than an unmodified variable")}
	}
	var scopeVars []string
	opt := func(e ast.Expr) string {
		id, ok := e.(*ast.Ident)
		if e == nil || (ok && id.Name == "_") {
			return "none"
		}
		if ok {
			if lv := f.varOf(id); lv != nil {
				scopeVars = append(scopeVars, f.name(lv))
				return fmt.Sprintf("(some %s)", strLit(f.name(lv)))
			}
		}
		return "(some \"?\")"
	}
	k, val := opt(v.Key), opt(v.Value)
	body := f.nested(v.Body.List, ind)
	// the interpreter scopes the range variables to each iteration (Go 1.22 semantics; the difference to
	// per-loop variables is unobservable without closures or pointers, which are outside the fragment)
	_ = scopeVars
	return []string{fmt.Sprintf(".forRange %s %s %s %s", k, val, f.expr(v.X), body)}
}

func (f *kdfFn) returnStmt(v *ast.ReturnStmt) []string {
	res := f.fd.Type.Results
	nres := 0
	if res != nil {
		nres = res.NumFields()
	}
	isNil := func(e ast.Expr) bool {
		id, ok := e.(*ast.Ident)
		if !ok {
			return false
		}
		_, n := f.p.TypesInfo.ObjectOf(id).(*types.Nil)
		return n
	}
	switch {
	case nres == 1 && len(v.Results) == 1:
		return f.flush(fmt.Sprintf(".ret %s", f.expr(v.Results[0])))
	case nres == 2 && len(v.Results) == 2 && isNil(v.Results[1]):
		return f.flush(fmt.Sprintf(".ret %s", f.expr(v.Results[0])))
	case nres == 2 && len(v.Results) == 2 && isNil(v.Results[0]):
		// return nil, errors.New("constant")
		if c, ok := v.Results[1].(*ast.CallExpr); ok && len(c.Args) == 1 {
			if sel, ok := c.Fun.(*ast.SelectorExpr); ok {
				if fn, ok := f.p.TypesInfo.Uses[sel.Sel].(*types.Func); ok && fn.Pkg() != nil && fn.Pkg().Path() == "errors" && fn.Name() == "New" {
					if tv, ok := f.p.TypesInfo.Types[c.Args[0]]; ok && tv.Value != nil && tv.Value.Kind() == constant.String {
						return []string{fmt.Sprintf(".retErr %s", strLit(constant.StringVal(tv.Value)))}
					}
				}
			}
		}
	}
	return []string{f.unknownS(v, "return")}
}
