package main

import (
	"fmt"
	"go/ast"
	"go/constant"
	"go/token"
	"go/types"
	"strings"

	"golang.org/x/tools/go/packages"
)

// genMiscIR translates the small helper functions around alphabets and entropy
//
//	internal/hashutil:   NewEncoding, Encoding.Rand, Encoding.Encode, Encoding.Decode, Encoding.IndexAnyInvalid,
//	                     and the initialisers of the package variables (HashEncoding, Base64Encoding)
//	internal/cryptoutil: Rand
//	sha1:                randRounds
//
// into the stream IR of lean/GoCrypt/Base/StreamIRBase.lean (Gen/MiscIR.lean). The translation rules are
// those of b64ir.go/streamir.go (syntax-directed, types-driven, slots numbered by declaration, wrap-around
// nodes from the Go type of every operation, structs behind pointers, value receivers cloned on entry);
// what is new here:
//
//   - operations of the Go library and the builtin `make` have no IR statement of their own: they become
//     calls by name (`.call … "crypto/rand.Int" …`) that the Lean side resolves in its description of the
//     library (`miscLib`, Base/MiscIRBase.lean). Only the operations listed in miscLibOps are translated
//     that way; any other call is an `unknown` node.
//   - reading a package-level variable of another package (`rand.Reader`) is such an operation too.
//   - a local `var b [N]byte` is a fresh zero buffer held as its full window (so `b[:]`, `b[i]` are the
//     ordinary slice operations); using the array as a VALUE has no IR form.
//   - `panic(x)` with a variable argument is `panic_` (the panic value is not part of the IR's outcome).
//   - the loop bound is 1 + every `len(…)` and every integer constant of the loop condition.
//   - package variables `var X = F(consts…)` are emitted as data (`packageVars`).
//
// Whatever has no IR form becomes an `unknown` node (the interpreter is stuck on it).
func (g *Gen) genMiscIR() {
	type fnSpec struct{ goName, leanName string }
	pkgs := []struct {
		key, ns  string
		structs  []string
		fns      []fnSpec
		pkgVars  bool
		varsNote string
	}{
		{"internal/hashutil", "hashutil", []string{"Encoding"}, []fnSpec{
			{"NewEncoding", "newEncodingIR"},
			{"Encoding.Rand", "randIR"},
			{"Encoding.Encode", "encodeIR"},
			{"Encoding.Decode", "decodeIR"},
			{"Encoding.IndexAnyInvalid", "indexAnyInvalidIR"},
		}, true, ""},
		{"internal/cryptoutil", "cryptoutil", nil, []fnSpec{{"Rand", "randIR"}}, false, ""},
		{"sha1", "sha1", nil, []fnSpec{{"randRounds", "randRoundsIR"}}, false, ""},
	}

	var sb strings.Builder
	sb.WriteString(header("Stream IR (see Base/StreamIRBase.lean, Base/MiscIRBase.lean) of the alphabet and entropy helpers:\ninternal/hashutil (NewEncoding, Encoding.Rand/Encode/Decode/IndexAnyInvalid, the package variables),\ninternal/cryptoutil.Rand, sha1.randRounds. One `Proc` per Go function, variables numbered by order of\ndeclaration (source names in comments only); library operations are calls by name."))
	sb.WriteString("import GoCrypt.Base.MiscIRBase\n\nopen GoCrypt.SIR\nopen GoCrypt.B64IR (BinOp)\n\nnamespace GoCrypt.Gen.miscIR\n\n")

	usedLib := map[string]bool{}
	for _, ps := range pkgs {
		p := g.pkg(ps.key)
		if p == nil {
			return
		}
		x := &miscX{g: g, p: p, known: map[*types.Func]string{}, usedLib: usedLib}
		var decls []*ast.FuncDecl
		for _, fn := range ps.fns {
			fd := g.funcDecl(p, fn.goName)
			if fd == nil || fd.Body == nil {
				g.failf("miscir: %s.%s not found", ps.key, fn.goName)
				return
			}
			obj, _ := p.TypesInfo.Defs[fd.Name].(*types.Func)
			if obj == nil {
				g.failf("miscir: %s.%s has no type information", ps.key, fn.goName)
				return
			}
			x.known[obj] = fn.goName
			decls = append(decls, fd)
		}
		fmt.Fprintf(&sb, "namespace %s\n\n", ps.ns)
		for _, tn := range ps.structs {
			o, ok := p.Types.Scope().Lookup(tn).(*types.TypeName)
			if !ok {
				g.failf("miscir: type %s.%s not found", ps.key, tn)
				continue
			}
			st, ok := o.Type().Underlying().(*types.Struct)
			if !ok {
				g.failf("miscir: %s.%s is not a struct", ps.key, tn)
				continue
			}
			var fs []string
			for i := 0; i < st.NumFields(); i++ {
				fs = append(fs, fmt.Sprintf("(%s, %s)", strLit(st.Field(i).Name()), strLit(types.TypeString(st.Field(i).Type(), func(q *types.Package) string { return q.Name() }))))
			}
			fmt.Fprintf(&sb, "/-- Fields of `%s`, in declaration order (`Expr.field _ k` is the `k`-th). -/\ndef %sFields : List (String × String) := [%s]\n\n", tn, tn, strings.Join(fs, ", "))
		}
		for i, fd := range decls {
			f := &miscFn{x: x, fd: fd, slots: map[*types.Var]int{}}
			body := f.run()
			fmt.Fprintf(&sb, "/-- %s  (%s)\n%s -/\ndef %s : Proc := {\n  nparams := %d\n  nslots := %d\n  body :=\n%s\n}\n\n",
				ps.fns[i].goName, g.pos(fd.Pos()), f.slotDoc(), ps.fns[i].leanName, f.nparams, len(f.slotNames), body)
		}
		var pl []string
		for _, fn := range ps.fns {
			pl = append(pl, fmt.Sprintf("(%s, %s)", strLit(fn.goName), fn.leanName))
		}
		fmt.Fprintf(&sb, "/-- The translated functions of %s, by Go name. -/\ndef program : Program := {\n  procs := [\n    %s\n  ]\n}\n\n", ps.key, strings.Join(pl, ",\n    "))
		if ps.pkgVars {
			sb.WriteString(x.packageVars())
		}
		fmt.Fprintf(&sb, "end %s\n\n", ps.ns)
	}
	var used []string
	for _, op := range miscLibOps {
		if usedLib[op] {
			used = append(used, strLit(op))
		}
	}
	fmt.Fprintf(&sb, "/-- The library operations the bodies above call (described in `Base/MiscIRBase.lean`). -/\ndef libraryOperations : List String := [%s]\n\n", strings.Join(used, ", "))
	sb.WriteString("end GoCrypt.Gen.miscIR\n")
	g.emit("MiscIR.lean", sb.String())
}

// miscLibOps: the library operations (and the builtin make) that Base/MiscIRBase.lean describes.
var miscLibOps = []string{
	"builtin.make",
	"crypto/rand.Reader",
	"crypto/rand.Read",
	"crypto/rand.Int",
	"math/big.NewInt",
	"math/big.Int.Uint64",
	"encoding/binary.BigEndian.Uint32",
}

func miscIsLibOp(name string) bool {
	for _, op := range miscLibOps {
		if op == name {
			return true
		}
	}
	return false
}

type miscX struct {
	g       *Gen
	p       *packages.Package
	known   map[*types.Func]string // translated functions of this package, by object
	usedLib map[string]bool
}

// packageVars emits the initialisers of the package-level variables, in source order, as data:
// (variable, called function, constant arguments). Anything that is not `X = F(constants…)` with F a
// translated function gets a function name no program has, so running it is stuck.
func (x *miscX) packageVars() string {
	var items []string
	for _, file := range x.p.Syntax {
		for _, d := range file.Decls {
			gd, ok := d.(*ast.GenDecl)
			if !ok || gd.Tok != token.VAR {
				continue
			}
			for _, sp := range gd.Specs {
				vs := sp.(*ast.ValueSpec)
				for i, n := range vs.Names {
					where := x.g.pos(n.Pos())
					bad := func(why string) {
						items = append(items, fmt.Sprintf("-- %s\n    ⟨%s, %s, []⟩", where, strLit(n.Name), strLit("unknown: "+why+": "+strings.Join(strings.Fields(x.g.src(vs)), " "))))
					}
					if len(vs.Values) != len(vs.Names) {
						bad("declaration without one initialiser per name")
						continue
					}
					call, ok := vs.Values[i].(*ast.CallExpr)
					if !ok {
						bad("initialiser that is not a call")
						continue
					}
					id, ok := call.Fun.(*ast.Ident)
					if !ok {
						bad("initialiser that is not a call of a function of this package")
						continue
					}
					fn, _ := x.p.TypesInfo.ObjectOf(id).(*types.Func)
					name, known := x.known[fn]
					if fn == nil || !known {
						bad("initialiser calls a function that is not translated")
						continue
					}
					var args []string
					okArgs := true
					for _, a := range call.Args {
						tv, ok := x.p.TypesInfo.Types[a]
						if !ok || tv.Value == nil {
							okArgs = false
							break
						}
						switch tv.Value.Kind() {
						case constant.String:
							args = append(args, fmt.Sprintf(".str %s", bytesLit([]byte(constant.StringVal(tv.Value)))))
						case constant.Int:
							args = append(args, fmt.Sprintf(".int (%s)", tv.Value.ExactString()))
						case constant.Bool:
							args = append(args, fmt.Sprintf(".bool %v", constant.BoolVal(tv.Value)))
						default:
							okArgs = false
						}
					}
					if !okArgs {
						bad("initialiser with a non-constant argument")
						continue
					}
					items = append(items, fmt.Sprintf("-- %s: %s\n    ⟨%s, %s, [%s]⟩", where, strings.Join(strings.Fields(x.g.src(vs.Values[i])), " "), strLit(n.Name), strLit(name), strings.Join(args, ", ")))
				}
			}
		}
	}
	return fmt.Sprintf("/-- The package-level variables and their initialisers, in source order: variable, function, constant arguments. -/\ndef packageVars : List VarInit := [\n    %s\n  ]\n\n", strings.Join(items, ",\n    "))
}

// miscFn is the translation of one function body.
type miscFn struct {
	x         *miscX
	fd        *ast.FuncDecl
	slots     map[*types.Var]int
	slotNames []string
	nparams   int
	results   []*types.Var
	nresults  int
	pre       []string // statements hoisted out of the expression being translated
	ctx       []string // enclosing "for", innermost last
	noHoist   bool
}

func (f *miscFn) info() *types.Info { return f.x.p.TypesInfo }

func (f *miscFn) addSlot(v *types.Var, role string) int {
	k := len(f.slotNames)
	if v != nil {
		f.slots[v] = k
		f.slotNames = append(f.slotNames, fmt.Sprintf("%d = %s%s", k, v.Name(), role))
	} else {
		f.slotNames = append(f.slotNames, fmt.Sprintf("%d =%s", k, role))
	}
	return k
}

func (f *miscFn) temp(what string) int { return f.addSlot(nil, " (translator temporary: "+what+")") }

func (f *miscFn) slotDoc() string { return "slots: " + strings.Join(f.slotNames, ", ") }

func (f *miscFn) where(n ast.Node) string { return f.x.g.pos(n.Pos()) }

func (f *miscFn) srcLine(n ast.Node) string {
	s := strings.Join(strings.Fields(f.x.g.src(n)), " ")
	if len(s) > 100 {
		s = s[:100] + " …"
	}
	return strings.ReplaceAll(s, "-/", "- /")
}

func (f *miscFn) unknown(n ast.Node, why string) string {
	return fmt.Sprintf("(.unknown %s)", strLit(f.where(n)+": "+why+": "+f.srcLine(n)))
}

func (f *miscFn) typ(e ast.Expr) types.Type {
	if tv, ok := f.info().Types[e]; ok && tv.Type != nil {
		return tv.Type
	}
	if id, ok := e.(*ast.Ident); ok {
		if o := f.info().ObjectOf(id); o != nil {
			return o.Type()
		}
	}
	return types.Typ[types.Invalid]
}

func (f *miscFn) comment(n ast.Node, ind string) string {
	return fmt.Sprintf("%s-- %s: %s\n", ind, f.where(n), f.srcLine(n))
}

func (f *miscFn) comment1(n ast.Node, text, ind string) string {
	return fmt.Sprintf("%s-- %s: %s\n", ind, f.where(n), text)
}

// localVar resolves an identifier to a variable of this function (receiver, parameter, result, local).
func (f *miscFn) localVar(id *ast.Ident) *types.Var {
	v, ok := f.info().ObjectOf(id).(*types.Var)
	if !ok || v.IsField() || v.Pkg() == nil || v.Parent() == v.Pkg().Scope() {
		return nil
	}
	return v
}

func (f *miscFn) isNil(e ast.Expr) bool {
	id, ok := ast.Unparen(e).(*ast.Ident)
	if !ok {
		return false
	}
	_, isNil := f.info().ObjectOf(id).(*types.Nil)
	return isNil
}

// structOf: the struct type behind t when t is a named struct of the translated package or a pointer to one.
func (f *miscFn) structOf(t types.Type) (*types.Named, *types.Struct, bool) {
	ptr := false
	if p, ok := t.(*types.Pointer); ok {
		t = p.Elem()
		ptr = true
	}
	n, ok := t.(*types.Named)
	if !ok || n.Obj().Pkg() == nil || n.Obj().Pkg().Path() != f.x.p.PkgPath {
		return nil, nil, false
	}
	st, ok := n.Underlying().(*types.Struct)
	if !ok {
		return nil, nil, false
	}
	return n, st, ptr
}

// isBigInt: *math/big.Int. Such a value is an integer of the IR (the translated code never mutates one).
func isBigInt(t types.Type) bool {
	p, ok := t.(*types.Pointer)
	return ok && isNamed(p.Elem(), "math/big", "Int")
}

func (f *miscFn) run() string {
	info := f.info()
	addParams := func(fl *ast.FieldList, role string) bool {
		if fl == nil {
			return true
		}
		for _, fld := range fl.List {
			if len(fld.Names) == 0 {
				return false
			}
			for _, n := range fld.Names {
				v, _ := info.Defs[n].(*types.Var)
				if v == nil || n.Name == "_" {
					return false
				}
				f.addSlot(v, role)
			}
		}
		return true
	}
	if !addParams(f.fd.Recv, " (receiver)") || !addParams(f.fd.Type.Params, " (parameter)") {
		return "    " + f.unknown(f.fd, "unnamed receiver or parameter")
	}
	f.nparams = len(f.slotNames)
	var init []string
	if res := f.fd.Type.Results; res != nil {
		f.nresults = res.NumFields()
		for _, fld := range res.List {
			for _, n := range fld.Names {
				v, _ := info.Defs[n].(*types.Var)
				if v == nil || n.Name == "_" {
					return "    " + f.unknown(f.fd, "blank result name")
				}
				k := f.addSlot(v, " (result)")
				f.results = append(f.results, v)
				z, ok := f.zero(v.Type())
				if !ok {
					z = f.unknown(n, "zero value of "+v.Type().String())
				}
				init = append(init, fmt.Sprintf("    -- result %s starts as its zero value\n    .assign [.var %d] [%s]", v.Name(), k, z))
			}
		}
	}
	// locals, in order of declaration
	ast.Inspect(f.fd.Body, func(n ast.Node) bool {
		if id, ok := n.(*ast.Ident); ok {
			if v, ok := info.Defs[id].(*types.Var); ok && v != nil && !v.IsField() && id.Name != "_" {
				if _, seen := f.slots[v]; !seen {
					f.addSlot(v, "")
				}
			}
		}
		return true
	})
	init = append(init, f.clonePrologue()...)
	stmts := append(init, f.block(f.fd.Body.List, "    ")...)
	if len(stmts) == 0 {
		return "    .skip"
	}
	return strings.Join(stmts, " ;;\n")
}

// clonePrologue: a receiver/parameter of struct type (a VALUE) is copied on entry.
func (f *miscFn) clonePrologue() []string {
	var out []string
	add := func(fl *ast.FieldList) {
		if fl == nil {
			return
		}
		for _, fld := range fl.List {
			for _, n := range fld.Names {
				v, _ := f.info().Defs[n].(*types.Var)
				if v == nil {
					continue
				}
				if _, st, ptr := f.structOf(v.Type()); st != nil && !ptr {
					var arrs []string
					for i := 0; i < st.NumFields(); i++ {
						ft := st.Field(i).Type()
						if isByteArray(ft) {
							arrs = append(arrs, fmt.Sprint(i))
						} else if _, isArr := ft.Underlying().(*types.Array); isArr {
							out = append(out, "    "+f.unknown(n, "struct value with an array field that is not a byte array"))
						} else if _, s2, p2 := f.structOf(ft); s2 != nil && !p2 {
							out = append(out, "    "+f.unknown(n, "struct value with a struct-valued field"))
						}
					}
					k := f.slots[v]
					out = append(out, fmt.Sprintf("    -- %s is a value of type %s: the callee works on a copy\n    .clone %d (.var %d) [%s]", v.Name(), types.TypeString(v.Type(), func(*types.Package) string { return "" }), k, k, strings.Join(arrs, ", ")))
				}
			}
		}
	}
	add(f.fd.Recv)
	add(f.fd.Type.Params)
	return out
}

// ---- expressions -----------------------------------------------------------------------------

func (f *miscFn) wrap(n ast.Node, t types.Type, s string) string {
	bits, unsigned, ok := bitsOf(t)
	if !ok || bits == 0 {
		return f.unknown(n, "arithmetic at type "+t.String())
	}
	if unsigned {
		return fmt.Sprintf("(.wrapU %d %s)", bits, s)
	}
	return fmt.Sprintf("(.wrapS %d %s)", bits, s)
}

func (f *miscFn) arith(n ast.Node, op token.Token, resT types.Type, a, b string) string {
	name, ok := b64BinOps[op]
	if !ok {
		return f.unknown(n, "operator "+op.String())
	}
	if !isIntType(resT) {
		return f.unknown(n, "non-integer operands")
	}
	s := fmt.Sprintf("(.bin .%s %s %s)", name, a, b)
	_, unsigned, _ := bitsOf(resT)
	switch op {
	case token.ADD, token.SUB, token.MUL, token.SHL:
		return f.wrap(n, resT, s)
	case token.QUO:
		if !unsigned {
			return f.wrap(n, resT, s) // MinInt / -1
		}
	}
	return s
}

// arrayField: e is a byte-array field reached through a struct pointer/variable (held as a full window).
func (f *miscFn) arrayField(e ast.Expr) bool {
	sel, ok := ast.Unparen(e).(*ast.SelectorExpr)
	if !ok {
		return false
	}
	s := f.info().Selections[sel]
	return s != nil && s.Kind() == types.FieldVal && len(s.Index()) == 1 && isByteArray(f.typ(e))
}

// localArray: e is a local variable of byte-array type (held as the full window of its own buffer).
func (f *miscFn) localArray(e ast.Expr) (int, bool) {
	id, ok := ast.Unparen(e).(*ast.Ident)
	if !ok {
		return 0, false
	}
	lv := f.localVar(id)
	if lv == nil || !isByteArray(lv.Type()) {
		return 0, false
	}
	k, ok := f.slots[lv]
	return k, ok
}

// base translates the operand of an index / slice / len: a slice, a string, an array field or a local array.
func (f *miscFn) base(e ast.Expr) string {
	if f.arrayField(e) {
		sel := ast.Unparen(e).(*ast.SelectorExpr)
		return fmt.Sprintf("(.field %s %d)", f.structOperand(sel.X), f.info().Selections[sel].Index()[0])
	}
	if k, ok := f.localArray(e); ok {
		return fmt.Sprintf("(.var %d)", k)
	}
	return f.expr(e)
}

// structOperand translates the operand of a field selection: a pointer to a struct, or a struct
// variable (which is itself held through a pointer to its object).
func (f *miscFn) structOperand(x ast.Expr) string {
	if id, ok := ast.Unparen(x).(*ast.Ident); ok {
		if lv := f.localVar(id); lv != nil {
			if _, st, _ := f.structOf(lv.Type()); st != nil {
				if k, ok := f.slots[lv]; ok {
					return fmt.Sprintf("(.var %d)", k)
				}
			}
		}
	}
	return f.expr(x)
}

func (f *miscFn) hoist(n ast.Node, stmt func(tmp int) string, what string) string {
	if f.noHoist {
		return f.unknown(n, "call or allocation inside a loop header")
	}
	k := f.temp(what)
	f.pre = append(f.pre, stmt(k))
	return fmt.Sprintf("(.var %d)", k)
}

// extVar recognises `pkg.V` for a package-level variable V of ANOTHER package: "<import path>.V".
func (f *miscFn) extVar(e ast.Expr) (string, bool) {
	sel, ok := ast.Unparen(e).(*ast.SelectorExpr)
	if !ok {
		return "", false
	}
	id, ok := sel.X.(*ast.Ident)
	if !ok {
		return "", false
	}
	if _, isPkg := f.info().ObjectOf(id).(*types.PkgName); !isPkg {
		return "", false
	}
	v, ok := f.info().ObjectOf(sel.Sel).(*types.Var)
	if !ok || v.Pkg() == nil || v.Parent() != v.Pkg().Scope() || v.Pkg().Path() == f.x.p.PkgPath {
		return "", false
	}
	return v.Pkg().Path() + "." + v.Name(), true
}

// extCall recognises a call of a function or method of ANOTHER package (resolved by object):
// "<import path>.F", "<import path>.V.M" (method of a package-level variable V; no receiver argument),
// "<import path>.T.M" (method of a value of named type T or *T; the receiver is the first argument).
func (f *miscFn) extCall(c *ast.CallExpr) (name string, recv ast.Expr, ok bool) {
	sel, isSel := c.Fun.(*ast.SelectorExpr)
	if !isSel {
		return "", nil, false
	}
	if id, isId := sel.X.(*ast.Ident); isId {
		if _, isPkg := f.info().ObjectOf(id).(*types.PkgName); isPkg {
			fn, isF := f.info().ObjectOf(sel.Sel).(*types.Func)
			if !isF || fn.Pkg() == nil || fn.Pkg().Path() == f.x.p.PkgPath {
				return "", nil, false
			}
			return fn.Pkg().Path() + "." + fn.Name(), nil, true
		}
	}
	s := f.info().Selections[sel]
	if s == nil || s.Kind() != types.MethodVal {
		return "", nil, false
	}
	fn, isF := s.Obj().(*types.Func)
	if !isF || fn.Pkg() == nil || fn.Pkg().Path() == f.x.p.PkgPath {
		return "", nil, false
	}
	if v, isVar := f.extVar(sel.X); isVar {
		return v + "." + fn.Name(), nil, true
	}
	t := f.typ(sel.X)
	if p, isP := t.(*types.Pointer); isP {
		t = p.Elem()
	}
	if n, isN := t.(*types.Named); isN && n.Obj().Pkg() != nil {
		return n.Obj().Pkg().Path() + "." + n.Obj().Name() + "." + fn.Name(), sel.X, true
	}
	return "", nil, false
}

// libCall renders a library operation as a call by name; "" when the operation is not one of miscLibOps.
func (f *miscFn) libCall(ls []string, name string, args []string) string {
	if !miscIsLibOp(name) {
		return ""
	}
	f.x.usedLib[name] = true
	return fmt.Sprintf(".call [%s] %s [%s]", strings.Join(ls, ", "), strLit(name), strings.Join(args, ", "))
}

// calledFunc resolves a call to a translated function of this package.
func (f *miscFn) calledFunc(c *ast.CallExpr) (name string, recv ast.Expr, ok bool) {
	switch fun := c.Fun.(type) {
	case *ast.Ident:
		if fn, isF := f.info().ObjectOf(fun).(*types.Func); isF {
			if n, known := f.x.known[fn]; known {
				return n, nil, true
			}
		}
	case *ast.SelectorExpr:
		if sel := f.info().Selections[fun]; sel != nil && sel.Kind() == types.MethodVal {
			if fn, isF := sel.Obj().(*types.Func); isF {
				if n, known := f.x.known[fn]; known {
					return n, fun.X, true
				}
			}
		}
	}
	return "", nil, false
}

func (f *miscFn) callArgs(c *ast.CallExpr, recv ast.Expr) []string {
	var args []string
	if recv != nil {
		if _, st, _ := f.structOf(f.typ(recv)); st != nil {
			args = append(args, f.structOperand(recv))
		} else {
			args = append(args, f.expr(recv))
		}
	}
	for _, a := range c.Args {
		args = append(args, f.expr(a))
	}
	return args
}

func (f *miscFn) builtin(c *ast.CallExpr) string {
	id, ok := c.Fun.(*ast.Ident)
	if !ok {
		return ""
	}
	b, ok := f.info().ObjectOf(id).(*types.Builtin)
	if !ok {
		return ""
	}
	return b.Name()
}

func (f *miscFn) expr(e ast.Expr) string {
	if tv, ok := f.info().Types[e]; ok && tv.Value != nil {
		switch tv.Value.Kind() {
		case constant.Int:
			return b64Int(tv.Value)
		case constant.Bool:
			return fmt.Sprintf("(.bool %v)", constant.BoolVal(tv.Value))
		}
		return f.unknown(e, "constant that is neither an integer nor a boolean")
	}
	if name, ok := f.extVar(e); ok {
		// reading a package-level variable of another package is a library operation
		return f.hoist(e, func(k int) string {
			s := f.libCall([]string{fmt.Sprintf(".var %d", k)}, name, nil)
			if s == "" {
				return f.unknown(e, "variable of another package")
			}
			return fmt.Sprintf("-- %s: %s\n%s", f.where(e), f.srcLine(e), s)
		}, f.srcLine(e))
	}
	switch v := e.(type) {
	case *ast.ParenExpr:
		return f.expr(v.X)
	case *ast.Ident:
		switch f.info().ObjectOf(v).(type) {
		case *types.Nil:
			switch {
			case isErrorType(f.typ(v)):
				return ".nilErr"
			case isByteSlice(f.typ(v)):
				return ".nilSlice"
			}
			return f.unknown(v, "nil of type "+f.typ(v).String())
		case *types.Var:
			if lv := f.localVar(v); lv != nil {
				if _, st, ptr := f.structOf(lv.Type()); st != nil && !ptr {
					return f.unknown(v, "struct used as a value")
				}
				if _, isArr := lv.Type().Underlying().(*types.Array); isArr {
					return f.unknown(v, "array used as a value")
				}
				if k, ok := f.slots[lv]; ok {
					return fmt.Sprintf("(.var %d)", k)
				}
			}
			return f.unknown(v, "variable that is not local to the function")
		}
		return f.unknown(v, "identifier")
	case *ast.BinaryExpr:
		switch v.Op {
		case token.LAND:
			return fmt.Sprintf("(.land %s %s)", f.expr(v.X), f.expr(v.Y))
		case token.LOR:
			return fmt.Sprintf("(.lor %s %s)", f.expr(v.X), f.expr(v.Y))
		case token.EQL, token.NEQ, token.LSS, token.LEQ, token.GTR, token.GEQ:
			tx, ty := f.typ(v.X), f.typ(v.Y)
			if isErrorType(tx) || isErrorType(ty) {
				if v.Op != token.EQL && v.Op != token.NEQ {
					return f.unknown(v, "ordering of errors")
				}
				var s string
				switch {
				case f.isNil(v.Y):
					s = fmt.Sprintf("(.isNil %s)", f.expr(v.X))
				case f.isNil(v.X):
					s = fmt.Sprintf("(.isNil %s)", f.expr(v.Y))
				case isErrorType(tx) && isErrorType(ty):
					s = fmt.Sprintf("(.errEq %s %s)", f.expr(v.X), f.expr(v.Y))
				default:
					return f.unknown(v, "comparison of an error with a non-error")
				}
				if v.Op == token.NEQ {
					s = fmt.Sprintf("(.not %s)", s)
				}
				return s
			}
			if !isIntType(tx) || !isIntType(ty) {
				return f.unknown(v, "comparison of non-integers")
			}
			return fmt.Sprintf("(.bin .%s %s %s)", b64BinOps[v.Op], f.expr(v.X), f.expr(v.Y))
		}
		return f.arith(v, v.Op, f.typ(v), f.expr(v.X), f.expr(v.Y))
	case *ast.UnaryExpr:
		switch v.Op {
		case token.NOT:
			return fmt.Sprintf("(.not %s)", f.expr(v.X))
		case token.SUB:
			if isIntType(f.typ(v)) {
				return f.wrap(v, f.typ(v), fmt.Sprintf("(.bin .sub (.int 0) %s)", f.expr(v.X)))
			}
		case token.ADD:
			if isIntType(f.typ(v)) {
				return f.expr(v.X)
			}
		case token.AND:
			switch x := ast.Unparen(v.X).(type) {
			case *ast.Ident:
				// &enc for a struct variable: the pointer the variable is held through
				if lv := f.localVar(x); lv != nil {
					if _, st, ptr := f.structOf(lv.Type()); st != nil && !ptr {
						if k, ok := f.slots[lv]; ok {
							return fmt.Sprintf("(.var %d)", k)
						}
					}
				}
			case *ast.CompositeLit:
				if named, st, ptr := f.structOf(f.typ(x)); st != nil && !ptr {
					return f.newObject(v, named, st, x)
				}
			}
			return f.unknown(v, "address of something that is not a struct variable or literal")
		}
		return f.unknown(v, "unary operator "+v.Op.String())
	case *ast.IndexExpr:
		t := f.typ(v.X)
		if !(isByteSlice(t) || isByteArray(t) || isStringType(t)) {
			return f.unknown(v, "index of something that is not a byte slice/array/string")
		}
		if isByteArray(t) && !f.arrayField(v.X) {
			if _, ok := f.localArray(v.X); !ok {
				return f.unknown(v, "index of an array that is neither a field nor a local variable")
			}
		}
		return fmt.Sprintf("(.index %s %s)", f.base(v.X), f.expr(v.Index))
	case *ast.SliceExpr:
		t := f.typ(v.X)
		if v.Slice3 {
			return f.unknown(v, "three-index slice")
		}
		var base, hi string
		switch {
		case isByteSlice(t):
			base = f.expr(v.X)
			hi = fmt.Sprintf("(.len %s)", base)
		case isByteArray(t) && (f.arrayField(v.X) || func() bool { _, ok := f.localArray(v.X); return ok }()):
			base = f.base(v.X)
			hi = fmt.Sprintf("(.int %d)", t.Underlying().(*types.Array).Len())
		default:
			return f.unknown(v, "slice expression on something that is not a []byte or a byte array")
		}
		lo := "(.int 0)"
		if v.Low != nil {
			lo = f.expr(v.Low)
		}
		if v.High != nil {
			hi = f.expr(v.High)
		}
		return fmt.Sprintf("(.slice %s %s %s)", base, lo, hi)
	case *ast.SelectorExpr:
		sel := f.info().Selections[v]
		if sel == nil || sel.Kind() != types.FieldVal || len(sel.Index()) != 1 {
			return f.unknown(v, "selector that is not a direct field")
		}
		t := f.typ(v)
		if _, isArr := t.Underlying().(*types.Array); isArr {
			return f.unknown(v, "array used as a value")
		}
		if _, st, ptr := f.structOf(t); st != nil && !ptr {
			return f.unknown(v, "struct field used as a value")
		}
		if _, st, _ := f.structOf(f.typ(v.X)); st == nil {
			return f.unknown(v, "field of a struct of another package")
		}
		return fmt.Sprintf("(.field %s %d)", f.structOperand(v.X), sel.Index()[0])
	case *ast.CallExpr:
		return f.callExpr(v)
	}
	return f.unknown(e, "expression form")
}

// exprTo translates e where a value of type target is expected (an untyped `nil` takes that type).
func (f *miscFn) exprTo(e ast.Expr, target types.Type) string {
	if f.isNil(e) {
		switch {
		case target != nil && isErrorType(target):
			return ".nilErr"
		case target != nil && isByteSlice(target):
			return ".nilSlice"
		}
		return f.unknown(e, "nil where neither an error nor a []byte is expected")
	}
	return f.expr(e)
}

func (f *miscFn) callExpr(c *ast.CallExpr) string {
	info := f.info()
	// conversion
	if tv, ok := info.Types[c.Fun]; ok && tv.IsType() && len(c.Args) == 1 {
		to, from := tv.Type, f.typ(c.Args[0])
		if isIntType(to) && isIntType(from) {
			a := f.expr(c.Args[0])
			if fits(from, to) {
				return a
			}
			return f.wrap(c, to, a)
		}
		return f.unknown(c, "conversion (integer conversions only)")
	}
	switch f.builtin(c) {
	case "len":
		if len(c.Args) == 1 {
			t := f.typ(c.Args[0])
			if isByteSlice(t) || isStringType(t) {
				return fmt.Sprintf("(.len %s)", f.expr(c.Args[0]))
			}
		}
		return f.unknown(c, "len of something that is not a []byte or a string")
	case "make":
		if len(c.Args) == 2 && isByteSlice(f.typ(c)) && isIntType(f.typ(c.Args[1])) {
			n := f.expr(c.Args[1])
			return f.hoist(c, func(k int) string {
				return fmt.Sprintf("-- %s: %s\n%s", f.where(c), f.srcLine(c), f.libCall([]string{fmt.Sprintf(".var %d", k)}, "builtin.make", []string{n}))
			}, f.srcLine(c))
		}
		return f.unknown(c, "make of something that is not a []byte with a length")
	case "new":
		if len(c.Args) == 1 {
			if tv, ok := info.Types[c.Args[0]]; ok && tv.IsType() {
				if named, st, ptr := f.structOf(tv.Type); st != nil && !ptr {
					return f.newObject(c, named, st, nil)
				}
			}
		}
		return f.unknown(c, "new of a non-struct")
	case "":
	default:
		return f.unknown(c, "builtin "+f.builtin(c))
	}
	sig, _ := f.typ(c.Fun).(*types.Signature)
	// a translated function with exactly one result and integer arguments only, used as an operand
	if name, recv, ok := f.calledFunc(c); ok {
		if sig == nil || sig.Results().Len() != 1 {
			return f.unknown(c, "multi-value call used as an operand")
		}
		for i := 0; i < sig.Params().Len(); i++ {
			if !isIntType(sig.Params().At(i).Type()) {
				return f.unknown(c, "nested call with a non-integer argument")
			}
		}
		args := f.callArgs(c, recv)
		return f.hoist(c, func(k int) string {
			return fmt.Sprintf("-- %s: %s\n.call [.var %d] %s [%s]", f.where(c), f.srcLine(c), k, strLit(name), strings.Join(args, ", "))
		}, f.srcLine(c))
	}
	// a library operation with exactly one result, used as an operand
	if name, recv, ok := f.extCall(c); ok && miscIsLibOp(name) {
		if sig == nil || sig.Results().Len() != 1 {
			return f.unknown(c, "multi-value library call used as an operand")
		}
		args := f.callArgs(c, recv)
		return f.hoist(c, func(k int) string {
			return fmt.Sprintf("-- %s: %s\n%s", f.where(c), f.srcLine(c), f.libCall([]string{fmt.Sprintf(".var %d", k)}, name, args))
		}, f.srcLine(c))
	}
	return f.unknown(c, "call")
}

// zeroInit is the initialiser of a struct field that is not mentioned in a composite literal.
func (f *miscFn) zeroInit(n ast.Node, t types.Type) string {
	switch {
	case isIntType(t):
		return "(.val (.int 0))"
	case isBoolType(t):
		return "(.val (.bool false))"
	case isErrorType(t):
		return "(.val .nilErr)"
	case isByteSlice(t):
		return "(.val .nilSlice)"
	case isByteArray(t):
		return fmt.Sprintf("(.zeroArr %d)", t.Underlying().(*types.Array).Len())
	}
	return fmt.Sprintf("(.val %s)", f.unknown(n, "zero value of a field of type "+t.String()))
}

// newObject hoists `new(T)` / `&T{…}` into a `new_` statement and returns the temporary holding the pointer.
func (f *miscFn) newObject(n ast.Node, named *types.Named, st *types.Struct, lit *ast.CompositeLit) string {
	inits := make([]string, st.NumFields())
	given := make([]bool, st.NumFields())
	if lit != nil {
		for i, el := range lit.Elts {
			idx := i
			val := el
			if kv, ok := el.(*ast.KeyValueExpr); ok {
				id, ok := kv.Key.(*ast.Ident)
				idx = -1
				if ok {
					for j := 0; j < st.NumFields(); j++ {
						if st.Field(j).Name() == id.Name {
							idx = j
						}
					}
				}
				val = kv.Value
			}
			if idx < 0 || idx >= st.NumFields() {
				return f.unknown(n, "composite literal key")
			}
			ft := st.Field(idx).Type()
			if _, isArr := ft.Underlying().(*types.Array); isArr {
				return f.unknown(n, "array value in a composite literal")
			}
			if _, s, p := f.structOf(ft); s != nil && !p {
				return f.unknown(n, "struct value in a composite literal")
			}
			inits[idx] = fmt.Sprintf("(.val %s)", f.exprTo(val, ft))
			given[idx] = true
		}
	}
	for i := range inits {
		if !given[i] {
			inits[i] = f.zeroInit(n, st.Field(i).Type())
		}
	}
	tag := named.Obj().Name()
	return f.hoist(n, func(k int) string {
		return fmt.Sprintf("-- %s: %s\n.new_ %d %s [%s]", f.where(n), f.srcLine(n), k, strLit(tag), strings.Join(inits, ", "))
	}, f.srcLine(n))
}

// ---- statements ------------------------------------------------------------------------------

func (f *miscFn) flush(ind string, s string) []string {
	var out []string
	for _, p := range f.pre {
		out = append(out, indent(ind, p))
	}
	f.pre = nil
	return append(out, s)
}

func (f *miscFn) block(list []ast.Stmt, ind string) []string {
	var out []string
	for _, s := range list {
		out = append(out, f.stmt(s, ind)...)
	}
	return out
}

func (f *miscFn) group(stmts []string, ind string) string {
	if len(stmts) == 0 {
		return ind + ".skip"
	}
	return ind + "(\n" + strings.Join(stmts, " ;;\n") + "\n" + ind + ")"
}

func (f *miscFn) nested(list []ast.Stmt, ind string) string {
	return f.group(f.block(list, ind+"  "), ind)
}

func (f *miscFn) zero(t types.Type) (string, bool) {
	switch {
	case isIntType(t):
		return "(.int 0)", true
	case isBoolType(t):
		return "(.bool false)", true
	case isErrorType(t):
		return ".nilErr", true
	case isByteSlice(t):
		return ".nilSlice", true
	}
	return "", false
}

func (f *miscFn) lhs(e ast.Expr) string {
	switch v := e.(type) {
	case *ast.ParenExpr:
		return f.lhs(v.X)
	case *ast.Ident:
		if v.Name == "_" {
			return ".blank"
		}
		if lv := f.localVar(v); lv != nil {
			if _, isArr := lv.Type().Underlying().(*types.Array); isArr {
				return ""
			}
			if _, st, ptr := f.structOf(lv.Type()); st != nil && !ptr {
				return ""
			}
			if k, ok := f.slots[lv]; ok {
				return fmt.Sprintf(".var %d", k)
			}
		}
	case *ast.IndexExpr:
		if id, ok := ast.Unparen(v.X).(*ast.Ident); ok {
			if lv := f.localVar(id); lv != nil && (isByteSlice(lv.Type()) || isByteArray(lv.Type())) {
				if k, ok := f.slots[lv]; ok {
					return fmt.Sprintf(".index %d %s", k, f.expr(v.Index))
				}
			}
			return ""
		}
		if isByteSlice(f.typ(v.X)) || f.arrayField(v.X) {
			return fmt.Sprintf(".indexE %s %s", f.base(v.X), f.expr(v.Index))
		}
	case *ast.SelectorExpr:
		sel := f.info().Selections[v]
		if sel != nil && sel.Kind() == types.FieldVal && len(sel.Index()) == 1 {
			s := f.expr(v)
			if strings.HasPrefix(s, "(.field ") {
				return strings.TrimSuffix(strings.TrimPrefix(s, "("), ")")
			}
		}
	}
	return ""
}

// callStmt translates `lhs… = call` / `call` at statement level; ok=false: not a call this layer handles.
func (f *miscFn) callStmt(n ast.Node, ls []string, c *ast.CallExpr, ind string) ([]string, bool) {
	cm := f.comment(n, ind)
	sig, _ := f.typ(c.Fun).(*types.Signature)
	blanks := func() []string {
		if len(ls) > 0 || sig == nil {
			return ls
		}
		var out []string
		for i := 0; i < sig.Results().Len(); i++ {
			out = append(out, ".blank")
		}
		return out
	}
	switch f.builtin(c) {
	case "copy":
		if len(c.Args) != 2 || len(ls) > 1 {
			return []string{ind + f.unknown(n, "copy form")}, true
		}
		l := ".blank"
		if len(ls) == 1 {
			l = ls[0]
		}
		ts := f.typ(c.Args[1])
		if !(isByteSlice(f.typ(c.Args[0])) && (isByteSlice(ts) || isStringType(ts))) {
			return []string{ind + f.unknown(n, "copy of something that is not bytes")}, true
		}
		return f.flush(ind, fmt.Sprintf("%s%s.copy (%s) %s %s", cm, ind, l, f.expr(c.Args[0]), f.expr(c.Args[1]))), true
	case "panic":
		if len(c.Args) != 1 || len(ls) != 0 {
			return []string{ind + f.unknown(n, "panic form")}, true
		}
		if tv, ok := f.info().Types[c.Args[0]]; ok && tv.Value != nil && tv.Value.Kind() == constant.String {
			return []string{fmt.Sprintf("%s%s.panic_ %s", cm, ind, strLit(constant.StringVal(tv.Value)))}, true
		}
		// panic(x) for a local variable x: evaluating the argument does nothing; the value is not kept
		if id, ok := ast.Unparen(c.Args[0]).(*ast.Ident); ok && f.localVar(id) != nil {
			if _, ok := f.slots[f.localVar(id)]; ok {
				return []string{fmt.Sprintf("%s%s.panic_ %s", cm, ind, strLit(id.Name))}, true
			}
		}
		return []string{ind + f.unknown(n, "panic with an argument that is neither a constant nor a local variable")}, true
	case "":
	default:
		return nil, false
	}
	if name, recv, ok := f.calledFunc(c); ok {
		args := f.callArgs(c, recv)
		return f.flush(ind, fmt.Sprintf("%s%s.call [%s] %s [%s]", cm, ind, strings.Join(blanks(), ", "), strLit(name), strings.Join(args, ", "))), true
	}
	if name, recv, ok := f.extCall(c); ok {
		if !miscIsLibOp(name) {
			return []string{ind + f.unknown(n, "call of "+name+" (not a described library operation)")}, true
		}
		args := f.callArgs(c, recv)
		return f.flush(ind, fmt.Sprintf("%s%s%s", cm, ind, f.libCall(blanks(), name, args))), true
	}
	return nil, false
}

func (f *miscFn) assignStmt(v *ast.AssignStmt, ind string) []string {
	c := f.comment(v, ind)
	switch v.Tok {
	case token.ASSIGN, token.DEFINE:
		var ls []string
		for _, l := range v.Lhs {
			s := f.lhs(l)
			if s == "" {
				return []string{ind + f.unknown(v, "assignment target")}
			}
			ls = append(ls, s)
		}
		if len(v.Rhs) == 1 && len(v.Lhs) > 1 {
			if call, ok := v.Rhs[0].(*ast.CallExpr); ok {
				if out, ok := f.callStmt(v, ls, call, ind); ok {
					return out
				}
			}
			return []string{ind + f.unknown(v, "multi-value assignment from something that is not a translated call")}
		}
		if len(v.Lhs) != len(v.Rhs) {
			return []string{ind + f.unknown(v, "assignment count")}
		}
		var rs []string
		for i, r := range v.Rhs {
			rs = append(rs, f.exprTo(r, f.typ(v.Lhs[i])))
		}
		return f.flush(ind, fmt.Sprintf("%s%s.assign [%s] [%s]", c, ind, strings.Join(ls, ", "), strings.Join(rs, ", ")))
	}
	ops := map[token.Token]token.Token{
		token.ADD_ASSIGN: token.ADD, token.SUB_ASSIGN: token.SUB, token.MUL_ASSIGN: token.MUL, token.QUO_ASSIGN: token.QUO,
		token.REM_ASSIGN: token.REM, token.AND_ASSIGN: token.AND, token.OR_ASSIGN: token.OR, token.SHL_ASSIGN: token.SHL,
		token.SHR_ASSIGN: token.SHR,
	}
	op, ok := ops[v.Tok]
	if !ok || len(v.Lhs) != 1 || len(v.Rhs) != 1 {
		return []string{ind + f.unknown(v, "assignment operator")}
	}
	l := f.lhs(v.Lhs[0])
	if l == "" || l == ".blank" {
		return []string{ind + f.unknown(v, "assignment target")}
	}
	val := f.arith(v, op, f.typ(v.Lhs[0]), f.expr(v.Lhs[0]), f.expr(v.Rhs[0]))
	return f.flush(ind, fmt.Sprintf("%s%s.assign [%s] [%s]", c, ind, l, val))
}

func (f *miscFn) stmt(s ast.Stmt, ind string) []string {
	switch v := s.(type) {
	case *ast.EmptyStmt:
		return nil
	case *ast.BlockStmt:
		return f.block(v.List, ind)
	case *ast.AssignStmt:
		return f.assignStmt(v, ind)
	case *ast.IncDecStmt:
		l := f.lhs(v.X)
		if l == "" || l == ".blank" {
			return []string{ind + f.unknown(v, "target of ++/--")}
		}
		op := token.ADD
		if v.Tok == token.DEC {
			op = token.SUB
		}
		val := f.arith(v, op, f.typ(v.X), f.expr(v.X), "(.int 1)")
		return f.flush(ind, fmt.Sprintf("%s%s.assign [%s] [%s]", f.comment(v, ind), ind, l, val))
	case *ast.DeclStmt:
		gd, ok := v.Decl.(*ast.GenDecl)
		if !ok || gd.Tok != token.VAR {
			return []string{ind + f.unknown(v, "declaration")}
		}
		var out []string
		for _, sp := range gd.Specs {
			vs := sp.(*ast.ValueSpec)
			if len(vs.Values) != 0 && len(vs.Values) != len(vs.Names) {
				out = append(out, ind+f.unknown(v, "multi-value var declaration"))
				continue
			}
			for i, n := range vs.Names {
				if k, isArr := f.localArray(n); isArr && len(vs.Values) == 0 {
					// `var b [N]byte`: a fresh zero buffer, held as its full window
					ln := f.typ(n).Underlying().(*types.Array).Len()
					out = append(out, fmt.Sprintf("%s%s-- (a local byte array is a fresh zero buffer held as its full window)\n%s%s", f.comment(v, ind), ind, ind,
						f.libCall([]string{fmt.Sprintf(".var %d", k)}, "builtin.make", []string{fmt.Sprintf("(.int %d)", ln)})))
					continue
				}
				l := f.lhs(n)
				if l == "" {
					out = append(out, ind+f.unknown(v, "declared name"))
					continue
				}
				var val string
				if len(vs.Values) > 0 {
					val = f.exprTo(vs.Values[i], f.typ(n))
				} else if z, ok := f.zero(f.typ(n)); ok {
					val = z
				} else {
					val = f.unknown(n, "zero value of "+f.typ(n).String())
				}
				out = append(out, f.flush(ind, fmt.Sprintf("%s%s.assign [%s] [%s]", f.comment(v, ind), ind, l, val))...)
			}
		}
		return out
	case *ast.ExprStmt:
		call, ok := v.X.(*ast.CallExpr)
		if !ok {
			return []string{ind + f.unknown(v, "expression statement")}
		}
		if out, ok := f.callStmt(v, nil, call, ind); ok {
			return out
		}
		return []string{ind + f.unknown(v, "call statement")}
	case *ast.IfStmt:
		var out []string
		if v.Init != nil {
			out = append(out, f.stmt(v.Init, ind)...)
		}
		cond := f.expr(v.Cond)
		out = append(out, f.flush(ind, "")...)
		out = out[:len(out)-1]
		th := f.nested(v.Body.List, ind+"  ")
		el := ind + "  .skip"
		if v.Else != nil {
			el = f.group(f.stmt(v.Else, ind+"    "), ind+"  ")
		}
		return append(out, fmt.Sprintf("%s%s.ite %s\n%s\n%s", f.comment1(v, "if "+f.srcLine(v.Cond), ind), ind, cond, th, el))
	case *ast.ForStmt:
		return f.forStmt(v, ind)
	case *ast.ReturnStmt:
		c := f.comment(v, ind)
		if len(v.Results) == 0 {
			var rs []string
			for _, r := range f.results {
				rs = append(rs, fmt.Sprintf("(.var %d)", f.slots[r]))
			}
			if len(rs) != f.nresults {
				return []string{ind + f.unknown(v, "bare return with unnamed results")}
			}
			return []string{fmt.Sprintf("%s%s.ret [%s]", c, ind, strings.Join(rs, ", "))}
		}
		if len(v.Results) != f.nresults {
			return []string{ind + f.unknown(v, "return of a multi-value call")}
		}
		var rs []string
		sig, _ := f.info().Defs[f.fd.Name].Type().(*types.Signature)
		for i, r := range v.Results {
			var t types.Type
			if sig != nil && i < sig.Results().Len() {
				t = sig.Results().At(i).Type()
			}
			rs = append(rs, f.exprTo(r, t))
		}
		return f.flush(ind, fmt.Sprintf("%s%s.ret [%s]", c, ind, strings.Join(rs, ", ")))
	case *ast.BranchStmt:
		if v.Label != nil || len(f.ctx) == 0 {
			return []string{ind + f.unknown(v, "labelled or stray branch")}
		}
		switch v.Tok {
		case token.BREAK:
			return []string{f.comment(v, ind) + ind + ".brk"}
		case token.CONTINUE:
			return []string{f.comment(v, ind) + ind + ".cont"}
		}
		return []string{ind + f.unknown(v, "branch statement")}
	}
	return []string{ind + f.unknown(s, "statement form")}
}

// forStmt: `init ;; for_ fuel cond post body`. The bound is 1 + every `len(…)` of the condition + every
// integer constant of the condition; the interpreter does not trust it (running out of it with the
// condition still true is `stuck`).
func (f *miscFn) forStmt(v *ast.ForStmt, ind string) []string {
	var out []string
	if v.Init != nil {
		out = append(out, f.stmt(v.Init, ind)...)
	}
	saved := f.noHoist
	f.noHoist = true
	cond := "(.bool true)"
	fuel := "(.int 1)"
	if v.Cond != nil {
		cond = f.expr(v.Cond)
		ast.Inspect(v.Cond, func(n ast.Node) bool {
			e, ok := n.(ast.Expr)
			if !ok {
				return true
			}
			if tv, ok := f.info().Types[e]; ok && tv.Value != nil {
				if tv.Value.Kind() == constant.Int {
					if a, exact := constant.Int64Val(tv.Value); exact {
						if a < 0 {
							a = -a
						}
						fuel = fmt.Sprintf("(.bin .add %s (.int %d))", fuel, a)
					}
				}
				return false
			}
			if c, ok := e.(*ast.CallExpr); ok && f.builtin(c) == "len" {
				fuel = fmt.Sprintf("(.bin .add %s %s)", fuel, f.expr(c))
				return false
			}
			return true
		})
	}
	post := ind + "  .skip"
	if v.Post != nil {
		post = f.group(f.stmt(v.Post, ind+"    "), ind+"  ")
	}
	f.noHoist = saved
	f.ctx = append(f.ctx, "for")
	body := f.nested(v.Body.List, ind+"  ")
	f.ctx = f.ctx[:len(f.ctx)-1]
	hdr := "for"
	if v.Cond != nil {
		hdr = "for " + f.srcLine(v.Cond)
	}
	return append(out, fmt.Sprintf("%s%s.for_ %s\n%s  %s\n%s\n%s", f.comment1(v, hdr, ind), ind, fuel, ind, cond, post, body))
}
