package main

import (
	"fmt"
	"go/ast"
	"go/constant"
	"go/token"
	"go/types"
	"strings"
)

// genCodecIR translates Marshal, marshalValue, marshal, indirect, isEmpty of hash/marshal.go (and the
// functions of hash/unmarshal.go) into the codec IR of lean/GoCrypt/Base/CodecIR.lean.
//
// The statement/expression translator is the one of typeinfoir.go (tiFn) run with tiX.codec set: the
// shared forms (slots by declaration, record fields by position, if/for/range/switch lowering, hoisting
// of calls and of &T{…}) are emitted by the same code; the rules below add what the codec functions
// use on top of it (reflect.Value, strings.Builder, []byte, strconv.Format*, error values, calls of
// functions outside the program by name) and reject, as `unknown`, every form of the type-info IR the
// codec IR does not have.
func (g *Gen) genCodecIR() {
	const pkgKey = "hash"
	p := g.pkg(pkgKey)
	if p == nil {
		return
	}
	fns := []struct{ goName, leanName string }{
		{"Marshal", "marshalTopIR"},
		{"marshalValue", "marshalValueIR"},
		{"marshal", "marshalIR"},
		{"indirect", "indirectIR"},
		{"isEmpty", "isEmptyIR"},
	}
	x := &tiX{g: g, p: p, known: map[*types.Func]int{}, flat: map[string][]tiFlatField{}, codec: true}
	var decls []*ast.FuncDecl
	for i, fn := range fns {
		fd := g.funcDecl(p, fn.goName)
		if fd == nil || fd.Body == nil {
			g.failf("codecir: %s.%s not found", pkgKey, fn.goName)
			return
		}
		obj, _ := p.TypesInfo.Defs[fd.Name].(*types.Func)
		if obj == nil {
			g.failf("codecir: %s.%s has no type information", pkgKey, fn.goName)
			return
		}
		x.known[obj] = i
		decls = append(decls, fd)
	}

	var sb strings.Builder
	sb.WriteString(header("Codec IR of hash/marshal.go (see Base/CodecIR.lean): one `Proc` per Go function, variables numbered by\norder of declaration, record fields by position (source names in comments only)."))
	sb.WriteString("import GoCrypt.Base.CodecIR\n\nopen GoCrypt.CIR\n\nnamespace GoCrypt.Gen.codecIR\n\n")

	for _, rec := range []struct{ goName, leanName string }{
		{"fieldInfo", "fieldInfoFields"}, {"typeInfo", "typeInfoFields"},
		{"UnsupportedTypeError", "unsupportedTypeErrorFields"}, {"UnsupportedValueError", "unsupportedValueErrorFields"},
	} {
		fl, ok := x.flatten(rec.goName)
		if !ok {
			g.failf("codecir: struct %s not found", rec.goName)
			return
		}
		var fs []string
		for _, f := range fl {
			fs = append(fs, strLit(f.path))
		}
		fmt.Fprintf(&sb, "/-- Fields of a `%s` record, nested struct values flattened (`Expr.fld _ k` is the `k`-th). -/\ndef %s : List String := [%s]\n\n", rec.goName, rec.leanName, strings.Join(fs, ", "))
	}

	for i, fd := range decls {
		f := &tiFn{x: x, fd: fd, slots: map[*types.Var]int{}, boxed: map[*types.Var]bool{}}
		body := f.run()
		fmt.Fprintf(&sb, "/-- %s  (%s); function number %d\n%s -/\ndef %s : Proc := {\n  nparams := %d\n  nslots := %d\n  body :=\n%s\n}\n\n",
			fns[i].goName, g.pos(fd.Pos()), i, f.slotDoc(), fns[i].leanName, f.nparams, len(f.slotNames), body)
	}

	var pl, nl []string
	for _, fn := range fns {
		pl = append(pl, fn.leanName)
		nl = append(nl, strLit(fn.goName))
	}
	fmt.Fprintf(&sb, "/-- The translated functions; `Stmt.call _ k _` calls the `k`-th. -/\ndef program : Program := {\n  procs := [%s]\n}\n\n", strings.Join(pl, ", "))
	fmt.Fprintf(&sb, "/-- Go names of the translated functions, in the same order. -/\ndef procNames : List String := [%s]\n\n", strings.Join(nl, ", "))
	sb.WriteString("end GoCrypt.Gen.codecIR\n")
	g.emit("CodecIR.lean", sb.String())
}

func codecIsFloat(t types.Type) bool {
	b, ok := t.Underlying().(*types.Basic)
	return ok && b.Info()&types.IsFloat != 0
}

func codecIsByteSlice(t types.Type) bool {
	s, ok := t.Underlying().(*types.Slice)
	if !ok {
		return false
	}
	b, ok := s.Elem().Underlying().(*types.Basic)
	return ok && b.Kind() == types.Uint8
}

func codecZero(t types.Type) (string, bool) {
	switch {
	case isNamedType(t, "strings", "Builder"):
		return ".emptyBuilder", true
	case isNamedType(t, "reflect", "Value"):
		return ".invalidValue", true
	}
	return "", false
}

// codecExpr: expression forms of the codec IR that the type-info translator does not know.
func (f *tiFn) codecExpr(e ast.Expr) (string, bool) {
	if tv, ok := f.info().Types[e]; ok && tv.Value != nil && tv.Value.Kind() == constant.Float {
		if codecIsFloat(tv.Type) && constant.Sign(tv.Value) == 0 {
			return ".fltZero", true
		}
		return f.unknownE(e, "floating-point constant other than 0"), true
	}
	switch v := e.(type) {
	case *ast.CompositeLit:
		if isNamedType(f.typ(v), "reflect", "Value") && len(v.Elts) == 0 {
			return ".invalidValue", true
		}
	case *ast.IndexExpr:
		if codecIsByteSlice(f.typ(v.X)) {
			return fmt.Sprintf("(.index %s %s)", f.expr(v.X), f.expr(v.Index)), true
		}
	}
	return "", false
}

// codecShortCircuit: `X && Y` / `X || Y`. When translating Y hoists statements (a call of a translated
// function, an allocation), those must only run when Y is evaluated:
//
//	tmp := false/true; if X (resp. !X) { <hoisted>; tmp = Y }
func (f *tiFn) codecShortCircuit(v *ast.BinaryExpr, and bool) string {
	op, dflt := "land", "false"
	if !and {
		op, dflt = "lor", "true"
	}
	x := f.expr(v.X)
	n := len(f.pre)
	y := f.expr(v.Y)
	if len(f.pre) == n {
		return fmt.Sprintf("(.%s %s %s)", op, x, y)
	}
	if f.noHoist || f.closure != nil {
		f.pre = f.pre[:n]
		return f.unknownE(v, "short-circuit operand that needs statements, inside a loop header or closure")
	}
	extra := append([]string{}, f.pre[n:]...)
	f.pre = f.pre[:n]
	k := f.temp("value of " + f.srcLine(v))
	cond := x
	if !and {
		cond = fmt.Sprintf("(.not %s)", x)
	}
	var inner []string
	for _, p := range extra {
		inner = append(inner, indent("    ", p))
	}
	inner = append(inner, fmt.Sprintf("    .assign [.var %d] [%s]", k, y))
	f.pre = append(f.pre, fmt.Sprintf("-- %s: %s (the right operand is evaluated only when needed)\n.assign [.var %d] [(.bool %s)] ;;;\n.ite %s\n  (\n%s\n  )\n  .skip",
		f.where(v), f.srcLine(v), k, dflt, cond, strings.Join(inner, " ;;;\n")))
	return fmt.Sprintf("(.var %d)", k)
}

var codecValueMethods1 = map[string]string{
	"IsValid": "valIsValid", "Kind": "valKind", "Type": "valType", "IsNil": "valIsNil", "Elem": "valElem", "Len": "valLen",
	"Bytes": "valBytes", "Int": "valInt", "Uint": "valUint", "String": "valString", "Bool": "valBool", "Float": "valFloat",
	"CanInterface": "valCanInterface",
}

var codecTypeMethods1 = map[string]string{"Kind": "typeKind", "Elem": "typeElem", "String": "typeString"}

// functions the program calls but does not contain: called by name, behaviour supplied by the context
var codecExtFuncs = map[string]string{
	"github.com/sergeymakinen/go-crypt/hash.getTypeInfo": "getTypeInfo",
}

// extFunc reports the external name of a called function that is neither translated nor a library
// function with an IR form.
func (f *tiFn) extFunc(c *ast.CallExpr) string {
	var obj types.Object
	switch fun := c.Fun.(type) {
	case *ast.Ident:
		obj = f.info().ObjectOf(fun)
	case *ast.SelectorExpr:
		if id, ok := fun.X.(*ast.Ident); ok {
			if _, isPkg := f.info().ObjectOf(id).(*types.PkgName); isPkg {
				obj = f.info().ObjectOf(fun.Sel)
			}
		}
	}
	fn, ok := obj.(*types.Func)
	if !ok || fn.Pkg() == nil {
		return ""
	}
	return codecExtFuncs[fn.Pkg().Path()+"."+fn.Name()]
}

func (f *tiFn) codecCallExpr(c *ast.CallExpr) string {
	info := f.info()
	// conversions
	if tv, ok := info.Types[c.Fun]; ok && tv.IsType() && len(c.Args) == 1 {
		to, from := tv.Type, f.typ(c.Args[0])
		switch {
		case isIntType(to) && isIntType(from) && fits(from, to):
			return f.expr(c.Args[0])
		case codecIsByteSlice(to) && isStringType(from):
			return fmt.Sprintf("(.ext1 .toBytes %s)", f.expr(c.Args[0]))
		case isStringType(to) && codecIsByteSlice(from):
			return fmt.Sprintf("(.ext1 .toStr %s)", f.expr(c.Args[0]))
		}
		return f.unknownE(c, "conversion")
	}
	// builtins
	if id, ok := c.Fun.(*ast.Ident); ok {
		if b, ok := info.ObjectOf(id).(*types.Builtin); ok {
			switch b.Name() {
			case "len":
				if len(c.Args) == 1 {
					t := f.typ(c.Args[0])
					if tiIsIntSlice(t) || f.isPtrSlice(t) || isStringType(t) || codecIsByteSlice(t) {
						return fmt.Sprintf("(.len %s)", f.expr(c.Args[0]))
					}
				}
			case "make":
				if len(c.Args) == 2 && codecIsByteSlice(f.typ(c)) {
					return fmt.Sprintf("(.ext1 .makeBytes %s)", f.expr(c.Args[1]))
				}
			}
			return f.unknownE(c, "builtin "+b.Name())
		}
	}
	// methods
	if sel, ok := c.Fun.(*ast.SelectorExpr); ok {
		if s := info.Selections[sel]; s != nil && s.Kind() == types.MethodVal {
			rt := f.typ(sel.X)
			switch {
			case isNamedType(rt, "reflect", "Value"):
				if op, ok := codecValueMethods1[sel.Sel.Name]; ok && len(c.Args) == 0 {
					return fmt.Sprintf("(.ext1 .%s %s)", op, f.expr(sel.X))
				}
				if sel.Sel.Name == "FieldByIndex" && len(c.Args) == 1 {
					return fmt.Sprintf("(.ext2 .valFieldByIndex %s %s)", f.expr(sel.X), f.expr(c.Args[0]))
				}
				return f.unknownE(c, "method of reflect.Value the IR does not model")
			case isNamedType(rt, "reflect", "Type"):
				if op, ok := codecTypeMethods1[sel.Sel.Name]; ok && len(c.Args) == 0 {
					return fmt.Sprintf("(.ext1 .%s %s)", op, f.expr(sel.X))
				}
				if sel.Sel.Name == "Implements" && len(c.Args) == 1 {
					return fmt.Sprintf("(.ext2 .typeImplements %s %s)", f.expr(sel.X), f.expr(c.Args[0]))
				}
				return f.unknownE(c, "method of reflect.Type the IR does not model")
			case isErrorType(rt):
				if sel.Sel.Name == "Error" && len(c.Args) == 0 {
					return fmt.Sprintf("(.ext1 .errorString %s)", f.expr(sel.X))
				}
			case isNamedType(rt, "strings", "Builder"):
				if sel.Sel.Name == "String" && len(c.Args) == 0 {
					if id, ok := ast.Unparen(sel.X).(*ast.Ident); ok && f.localVar(id) != nil {
						return fmt.Sprintf("(.ext1 .bufString %s)", f.expr(sel.X))
					}
				}
			}
			if pt, ok := rt.(*types.Pointer); ok && isNamedType(pt.Elem(), "github.com/sergeymakinen/go-crypt/internal/hashutil", "Encoding") {
				if sel.Sel.Name == "IndexAnyInvalid" && len(c.Args) == 1 {
					return fmt.Sprintf("(.ext2 .indexAnyInvalid %s %s)", f.expr(sel.X), f.expr(c.Args[0]))
				}
			}
		}
	}
	switch f.pkgFunc(c) {
	case "reflect.ValueOf":
		if len(c.Args) == 1 {
			return fmt.Sprintf("(.ext1 .valueOf %s)", f.expr(c.Args[0]))
		}
	case "reflect.TypeOf":
		if len(c.Args) == 1 {
			return fmt.Sprintf("(.ext1 .typeOf %s)", f.expr(c.Args[0]))
		}
	case "strconv.FormatInt":
		if len(c.Args) == 2 {
			return fmt.Sprintf("(.ext2 .formatInt %s %s)", f.expr(c.Args[0]), f.expr(c.Args[1]))
		}
	case "strconv.FormatUint":
		if len(c.Args) == 2 {
			return fmt.Sprintf("(.ext2 .formatUint %s %s)", f.expr(c.Args[0]), f.expr(c.Args[1]))
		}
	case "strconv.QuoteRuneToASCII":
		if len(c.Args) == 1 {
			return fmt.Sprintf("(.ext1 .quoteRune %s)", f.expr(c.Args[0]))
		}
	}
	// a translated function with exactly one result, used as an operand: hoisted
	if no, recv, ok := f.calledFunc(c); ok {
		sig, _ := f.typ(c.Fun).(*types.Signature)
		if sig == nil || sig.Results().Len() != 1 {
			return f.unknownE(c, "multi-value call used as an operand")
		}
		if f.noHoist || f.closure != nil {
			return f.unknownE(c, "call inside a loop header or closure")
		}
		args := f.callArgs(c, recv)
		k := f.temp("result of " + f.srcLine(c))
		f.pre = append(f.pre, fmt.Sprintf("-- %s: %s\n.call [.var %d] %d [%s]", f.where(c), f.srcLine(c), k, no, strings.Join(args, ", ")))
		return fmt.Sprintf("(.var %d)", k)
	}
	return f.unknownE(c, "call")
}

// marshalTextCall recognises `v.Interface().(encoding.TextMarshaler).MarshalText()` and returns v.
func (f *tiFn) marshalTextCall(c *ast.CallExpr) (ast.Expr, bool) {
	sel, ok := c.Fun.(*ast.SelectorExpr)
	if !ok || sel.Sel.Name != "MarshalText" || len(c.Args) != 0 {
		return nil, false
	}
	ta, ok := ast.Unparen(sel.X).(*ast.TypeAssertExpr)
	if !ok || ta.Type == nil || !isNamedType(f.typ(ta.Type), "encoding", "TextMarshaler") {
		return nil, false
	}
	ic, ok := ast.Unparen(ta.X).(*ast.CallExpr)
	if !ok || len(ic.Args) != 0 {
		return nil, false
	}
	isel, ok := ic.Fun.(*ast.SelectorExpr)
	if !ok || isel.Sel.Name != "Interface" || !isNamedType(f.typ(isel.X), "reflect", "Value") {
		return nil, false
	}
	return isel.X, true
}

// codecAssign: assignments whose right-hand side is a multi-result external operation.
func (f *tiFn) codecAssign(v *ast.AssignStmt, ls []string, c string, ind string) ([]string, bool) {
	if len(v.Rhs) != 1 {
		return nil, false
	}
	call, ok := ast.Unparen(v.Rhs[0]).(*ast.CallExpr)
	if !ok {
		return nil, false
	}
	if f.closure != nil {
		return nil, false
	}
	if len(v.Lhs) == 2 {
		if recv, ok := f.marshalTextCall(call); ok {
			return f.flush(ind, fmt.Sprintf("%s%s.extCall [%s] .marshalText [%s]", c, ind, strings.Join(ls, ", "), f.expr(recv))), true
		}
	}
	if name := f.extFunc(call); name != "" {
		sig, _ := f.typ(call.Fun).(*types.Signature)
		if sig != nil && sig.Results().Len() == len(v.Lhs) {
			args := f.callArgs(call, nil)
			return f.flush(ind, fmt.Sprintf("%s%s.callExt [%s] %s [%s]", c, ind, strings.Join(ls, ", "), strLit(name), strings.Join(args, ", "))), true
		}
	}
	return nil, false
}

// codecExprStmt: call statements with an IR form (methods of a local strings.Builder, reflect.Copy).
func (f *tiFn) codecExprStmt(v *ast.ExprStmt, call *ast.CallExpr, ind string) ([]string, bool) {
	if f.closure != nil {
		return nil, false
	}
	if sel, ok := call.Fun.(*ast.SelectorExpr); ok {
		if s := f.info().Selections[sel]; s != nil && s.Kind() == types.MethodVal && isNamedType(f.typ(sel.X), "strings", "Builder") && len(call.Args) == 1 {
			if id, ok := ast.Unparen(sel.X).(*ast.Ident); ok {
				if lv := f.localVar(id); lv != nil {
					if k, ok := f.slots[lv]; ok {
						switch sel.Sel.Name {
						case "WriteString":
							return f.flush(ind, fmt.Sprintf("%s%s.bufWriteString %d %s", f.comment(v, ind), ind, k, f.expr(call.Args[0]))), true
						case "WriteByte":
							return f.flush(ind, fmt.Sprintf("%s%s.bufWriteByte %d %s", f.comment(v, ind), ind, k, f.expr(call.Args[0]))), true
						}
					}
				}
			}
		}
	}
	if f.pkgFunc(call) == "reflect.Copy" && len(call.Args) == 2 {
		if inner, ok := ast.Unparen(call.Args[0]).(*ast.CallExpr); ok && f.pkgFunc(inner) == "reflect.ValueOf" && len(inner.Args) == 1 {
			if id, ok := ast.Unparen(inner.Args[0]).(*ast.Ident); ok {
				if lv := f.localVar(id); lv != nil && codecIsByteSlice(lv.Type()) {
					if k, ok := f.slots[lv]; ok {
						return f.flush(ind, fmt.Sprintf("%s%s.reflectCopy %d %s", f.comment(v, ind), ind, k, f.expr(call.Args[1]))), true
					}
				}
			}
		}
	}
	return nil, false
}

var _ = token.ADD
