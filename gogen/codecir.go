package main

import (
	"fmt"
	"go/ast"
	"go/constant"
	"go/token"
	"go/types"
	"strings"
)

// genCodecIR translates Marshal, marshalValue, marshal, indirect, isEmpty of hash/marshal.go (and the
// functions of hash/unmarshal.go) into the codec IR of lean/GoCrypt/Base/CodecIR.lean.
//
// The statement/expression translator is the one of typeinfoir.go (tiFn) run with tiX.codec set: the
// shared forms (slots by declaration, record fields by position, if/for/range/switch lowering, hoisting
// of calls and of &T{…}) are emitted by the same code; the rules below add what the codec functions
// use on top of it (reflect.Value, strings.Builder, []byte, strconv.Format*, error values, calls of
// functions outside the program by name) and reject, as `unknown`, every form of the type-info IR the
// codec IR does not have.
func (g *Gen) genCodecIR() {
	const pkgKey = "hash"
	p := g.pkg(pkgKey)
	if p == nil {
		return
	}
	fns := []struct{ goName, leanName string }{
		{"Marshal", "marshalTopIR"},
		{"marshalValue", "marshalValueIR"},
		{"marshal", "marshalIR"},
		{"indirect", "indirectIR"},
		{"isEmpty", "isEmptyIR"},
		{"Unmarshal", "unmarshalTopIR"},
		{"unmarshal", "unmarshalIR"},
		{"newUnmarshalError", "newUnmarshalErrorIR"},
		{"unmarshalIndirect", "unmarshalIndirectIR"},
	}
	x := &tiX{g: g, p: p, known: map[*types.Func]int{}, flat: map[string][]tiFlatField{}, codec: true}
	var decls []*ast.FuncDecl
	for i, fn := range fns {
		fd := g.funcDecl(p, fn.goName)
		if fd == nil || fd.Body == nil {
			g.failf("codecir: %s.%s not found", pkgKey, fn.goName)
			return
		}
		obj, _ := p.TypesInfo.Defs[fd.Name].(*types.Func)
		if obj == nil {
			g.failf("codecir: %s.%s has no type information", pkgKey, fn.goName)
			return
		}
		x.known[obj] = i
		decls = append(decls, fd)
	}

	var sb strings.Builder
	sb.WriteString(header("Codec IR of hash/marshal.go and hash/unmarshal.go (see Base/CodecIR.lean): one `Proc` per Go function, variables numbered by\norder of declaration, record fields by position (source names in comments only)."))
	sb.WriteString("import GoCrypt.Base.CodecIR\n\nopen GoCrypt.CIR\n\nnamespace GoCrypt.Gen.codecIR\n\n")

	for _, rec := range []struct{ goName, leanName string }{
		{"fieldInfo", "fieldInfoFields"}, {"typeInfo", "typeInfoFields"},
		{"UnsupportedTypeError", "unsupportedTypeErrorFields"}, {"UnsupportedValueError", "unsupportedValueErrorFields"},
		{"UnmarshalTypeError", "unmarshalTypeErrorFields"}, {"InvalidUnmarshalError", "invalidUnmarshalErrorFields"},
	} {
		fl, ok := x.flatten(rec.goName)
		if !ok {
			g.failf("codecir: struct %s not found", rec.goName)
			return
		}
		var fs []string
		for _, f := range fl {
			fs = append(fs, strLit(f.path))
		}
		fmt.Fprintf(&sb, "/-- Fields of a `%s` record, nested struct values flattened (`Expr.fld _ k` is the `k`-th). -/\ndef %s : List String := [%s]\n\n", rec.goName, rec.leanName, strings.Join(fs, ", "))
	}

	for i, fd := range decls {
		f := &tiFn{x: x, fd: fd, slots: map[*types.Var]int{}, boxed: map[*types.Var]bool{}}
		body := f.run()
		fmt.Fprintf(&sb, "/-- %s  (%s); function number %d\n%s -/\ndef %s : Proc := {\n  nparams := %d\n  nslots := %d\n  body :=\n%s\n}\n\n",
			fns[i].goName, g.pos(fd.Pos()), i, f.slotDoc(), fns[i].leanName, f.nparams, len(f.slotNames), body)
	}

	var pl, nl []string
	for _, fn := range fns {
		pl = append(pl, fn.leanName)
		nl = append(nl, strLit(fn.goName))
	}
	fmt.Fprintf(&sb, "/-- The translated functions; `Stmt.call _ k _` calls the `k`-th. -/\ndef program : Program := {\n  procs := [%s]\n}\n\n", strings.Join(pl, ", "))
	fmt.Fprintf(&sb, "/-- Go names of the translated functions, in the same order. -/\ndef procNames : List String := [%s]\n\n", strings.Join(nl, ", "))
	sb.WriteString("end GoCrypt.Gen.codecIR\n")
	g.emit("CodecIR.lean", sb.String())
}

func codecIsFloat(t types.Type) bool {
	b, ok := t.Underlying().(*types.Basic)
	return ok && b.Info()&types.IsFloat != 0
}

func codecIsByteSlice(t types.Type) bool {
	s, ok := t.Underlying().(*types.Slice)
	if !ok {
		return false
	}
	b, ok := s.Elem().Underlying().(*types.Basic)
	return ok && b.Kind() == types.Uint8
}

func codecZero(t types.Type) (string, bool) {
	switch {
	case isNamedType(t, "strings", "Builder"):
		return ".emptyBuilder", true
	case isNamedType(t, "reflect", "Value"):
		return ".invalidValue", true
	}
	return "", false
}

// codecExpr: expression forms of the codec IR that the type-info translator does not know.
func (f *tiFn) codecExpr(e ast.Expr) (string, bool) {
	if tv, ok := f.info().Types[e]; ok && tv.Value != nil && tv.Value.Kind() == constant.Float {
		if codecIsFloat(tv.Type) && constant.Sign(tv.Value) == 0 {
			return ".fltZero", true
		}
		return f.unknownE(e, "floating-point constant other than 0"), true
	}
	switch v := e.(type) {
	case *ast.CompositeLit:
		if isNamedType(f.typ(v), "reflect", "Value") && len(v.Elts) == 0 {
			return ".invalidValue", true
		}
	case *ast.IndexExpr:
		if codecIsByteSlice(f.typ(v.X)) || codecIsNodeSlice(f.typ(v.X)) {
			return fmt.Sprintf("(.index %s %s)", f.expr(v.X), f.expr(v.Index)), true
		}
	case *ast.UnaryExpr:
		if lit, ok := ast.Unparen(v.X).(*ast.CompositeLit); ok && v.Op == token.AND && isNamedType(f.typ(lit), codecParsePkg, "GroupNode") {
			return f.codecAllocGroup(v, lit), true
		}
	}
	return "", false
}

// codecAllocGroup: `&parse.GroupNode{Values: []*parse.ValueNode{a, b, …}}` — a fresh group node, hoisted.
func (f *tiFn) codecAllocGroup(n ast.Node, lit *ast.CompositeLit) string {
	if f.noHoist || f.closure != nil || len(lit.Elts) != 1 {
		return f.unknownE(n, "group node literal")
	}
	kv, ok := lit.Elts[0].(*ast.KeyValueExpr)
	if !ok {
		return f.unknownE(n, "group node literal")
	}
	key, ok := kv.Key.(*ast.Ident)
	inner, ok2 := ast.Unparen(kv.Value).(*ast.CompositeLit)
	if !ok || !ok2 || key.Name != "Values" || !codecIsNodeSlice(f.typ(inner)) {
		return f.unknownE(n, "group node literal")
	}
	var ms []string
	for _, el := range inner.Elts {
		if _, isKV := el.(*ast.KeyValueExpr); isKV {
			return f.unknownE(n, "group node literal")
		}
		ms = append(ms, f.expr(el))
	}
	k := f.temp("&parse.GroupNode{…}")
	f.pre = append(f.pre, fmt.Sprintf("-- %s: &parse.GroupNode{…}\n.allocGroup %d [%s]", f.where(n), k, strings.Join(ms, ", ")))
	return fmt.Sprintf("(.var %d)", k)
}

// codecShortCircuit: `X && Y` / `X || Y`. When translating Y hoists statements (a call of a translated
// function, an allocation), those must only run when Y is evaluated:
//
//	tmp := false/true; if X (resp. !X) { <hoisted>; tmp = Y }
func (f *tiFn) codecShortCircuit(v *ast.BinaryExpr, and bool) string {
	op, dflt := "land", "false"
	if !and {
		op, dflt = "lor", "true"
	}
	x := f.expr(v.X)
	n := len(f.pre)
	y := f.expr(v.Y)
	if len(f.pre) == n {
		return fmt.Sprintf("(.%s %s %s)", op, x, y)
	}
	if f.noHoist || f.closure != nil {
		f.pre = f.pre[:n]
		return f.unknownE(v, "short-circuit operand that needs statements, inside a loop header or closure")
	}
	extra := append([]string{}, f.pre[n:]...)
	f.pre = f.pre[:n]
	k := f.temp("value of " + f.srcLine(v))
	cond := x
	if !and {
		cond = fmt.Sprintf("(.not %s)", x)
	}
	var inner []string
	for _, p := range extra {
		inner = append(inner, indent("    ", p))
	}
	inner = append(inner, fmt.Sprintf("    .assign [.var %d] [%s]", k, y))
	f.pre = append(f.pre, fmt.Sprintf("-- %s: %s (the right operand is evaluated only when needed)\n.assign [.var %d] [(.bool %s)] ;;;\n.ite %s\n  (\n%s\n  )\n  .skip",
		f.where(v), f.srcLine(v), k, dflt, cond, strings.Join(inner, " ;;;\n")))
	return fmt.Sprintf("(.var %d)", k)
}

var codecValueMethods1 = map[string]string{
	"IsValid": "valIsValid", "Kind": "valKind", "Type": "valType", "IsNil": "valIsNil", "Elem": "valElem", "Len": "valLen",
	"Bytes": "valBytes", "Int": "valInt", "Uint": "valUint", "String": "valString", "Bool": "valBool", "Float": "valFloat",
	"CanInterface": "valCanInterface", "Cap": "valCap", "CanAddr": "valCanAddr", "Addr": "valAddr",
}

var codecTypeMethods1 = map[string]string{"Kind": "typeKind", "Elem": "typeElem", "String": "typeString", "Bits": "typeBits"}

const codecParsePkg = "github.com/sergeymakinen/go-crypt/hash/parse"

var codecNodeMethods = map[string]string{"Type": "nodeType", "String": "nodeString", "End": "nodeEnd"}

// codecIsNodeType: parse.Node, parse.FragmentNode, *parse.PrefixNode, *parse.ValueNode, *parse.GroupNode.
func codecIsNodeType(t types.Type) bool {
	if pt, ok := t.(*types.Pointer); ok {
		return isNamedType(pt.Elem(), codecParsePkg, "PrefixNode") || isNamedType(pt.Elem(), codecParsePkg, "ValueNode") ||
			isNamedType(pt.Elem(), codecParsePkg, "GroupNode")
	}
	return isNamedType(t, codecParsePkg, "Node") || isNamedType(t, codecParsePkg, "FragmentNode")
}

func codecIsNodeSlice(t types.Type) bool {
	s, ok := t.Underlying().(*types.Slice)
	return ok && codecIsNodeType(s.Elem())
}

// codecSelector: fields of the parse tree.
func (f *tiFn) codecSelector(v *ast.SelectorExpr) (string, bool) {
	pt, ok := f.typ(v.X).(*types.Pointer)
	if !ok {
		return "", false
	}
	switch {
	case isNamedType(pt.Elem(), codecParsePkg, "Tree"):
		switch v.Sel.Name {
		case "Prefix":
			return fmt.Sprintf("(.fld %s 0)", f.expr(v.X)), true
		case "Fragments":
			return fmt.Sprintf("(.fld %s 1)", f.expr(v.X)), true
		}
	case isNamedType(pt.Elem(), codecParsePkg, "GroupNode"):
		if v.Sel.Name == "Values" {
			return fmt.Sprintf("(.ext1 .nodeValues %s)", f.expr(v.X)), true
		}
	case isNamedType(pt.Elem(), codecParsePkg, "ValueNode"):
		if v.Sel.Name == "Value" {
			return fmt.Sprintf("(.ext1 .nodeValue %s)", f.expr(v.X)), true
		}
	}
	return "", false
}

// functions the program calls but does not contain: called by name, behaviour supplied by the context
var codecExtFuncs = map[string]string{
	"github.com/sergeymakinen/go-crypt/hash.getTypeInfo":  "getTypeInfo",
	"github.com/sergeymakinen/go-crypt/hash.indirectType": "indirectType",
	codecParsePkg + ".Parse":                               "parse.Parse",
}

// extFunc reports the external name of a called function that is neither translated nor a library
// function with an IR form.
func (f *tiFn) extFunc(c *ast.CallExpr) string {
	var obj types.Object
	switch fun := c.Fun.(type) {
	case *ast.Ident:
		obj = f.info().ObjectOf(fun)
	case *ast.SelectorExpr:
		if id, ok := fun.X.(*ast.Ident); ok {
			if _, isPkg := f.info().ObjectOf(id).(*types.PkgName); isPkg {
				obj = f.info().ObjectOf(fun.Sel)
			}
		}
	}
	fn, ok := obj.(*types.Func)
	if !ok || fn.Pkg() == nil {
		return ""
	}
	return codecExtFuncs[fn.Pkg().Path()+"."+fn.Name()]
}

func (f *tiFn) codecCallExpr(c *ast.CallExpr) string {
	info := f.info()
	// conversions
	if tv, ok := info.Types[c.Fun]; ok && tv.IsType() && len(c.Args) == 1 {
		to, from := tv.Type, f.typ(c.Args[0])
		switch {
		case isIntType(to) && isIntType(from) && fits(from, to):
			return f.expr(c.Args[0])
		case codecIsByteSlice(to) && isStringType(from):
			return fmt.Sprintf("(.ext1 .toBytes %s)", f.expr(c.Args[0]))
		case isStringType(to) && codecIsByteSlice(from):
			return fmt.Sprintf("(.ext1 .toStr %s)", f.expr(c.Args[0]))
		}
		return f.unknownE(c, "conversion")
	}
	// builtins
	if id, ok := c.Fun.(*ast.Ident); ok {
		if b, ok := info.ObjectOf(id).(*types.Builtin); ok {
			switch b.Name() {
			case "len":
				if len(c.Args) == 1 {
					t := f.typ(c.Args[0])
					if tiIsIntSlice(t) || f.isPtrSlice(t) || isStringType(t) || codecIsByteSlice(t) || codecIsNodeSlice(t) {
						return fmt.Sprintf("(.len %s)", f.expr(c.Args[0]))
					}
				}
			case "make":
				if len(c.Args) == 2 && codecIsByteSlice(f.typ(c)) {
					return fmt.Sprintf("(.ext1 .makeBytes %s)", f.expr(c.Args[1]))
				}
			}
			return f.unknownE(c, "builtin "+b.Name())
		}
	}
	// methods
	if sel, ok := c.Fun.(*ast.SelectorExpr); ok {
		if s := info.Selections[sel]; s != nil && s.Kind() == types.MethodVal {
			rt := f.typ(sel.X)
			switch {
			case isNamedType(rt, "reflect", "Value"):
				if op, ok := codecValueMethods1[sel.Sel.Name]; ok && len(c.Args) == 0 {
					return fmt.Sprintf("(.ext1 .%s %s)", op, f.expr(sel.X))
				}
				if sel.Sel.Name == "FieldByIndex" && len(c.Args) == 1 {
					return fmt.Sprintf("(.ext2 .valFieldByIndex %s %s)", f.expr(sel.X), f.expr(c.Args[0]))
				}
				return f.unknownE(c, "method of reflect.Value the IR does not model")
			case isNamedType(rt, "reflect", "Type"):
				if op, ok := codecTypeMethods1[sel.Sel.Name]; ok && len(c.Args) == 0 {
					return fmt.Sprintf("(.ext1 .%s %s)", op, f.expr(sel.X))
				}
				if sel.Sel.Name == "Implements" && len(c.Args) == 1 {
					return fmt.Sprintf("(.ext2 .typeImplements %s %s)", f.expr(sel.X), f.expr(c.Args[0]))
				}
				return f.unknownE(c, "method of reflect.Type the IR does not model")
			case codecIsNodeType(rt):
				if op, ok := codecNodeMethods[sel.Sel.Name]; ok && len(c.Args) == 0 {
					return fmt.Sprintf("(.ext1 .%s %s)", op, f.expr(sel.X))
				}
				return f.unknownE(c, "method of a parse node the IR does not model")
			case isNamedType(rt, codecParsePkg, "NodeType"):
				if sel.Sel.Name == "String" && len(c.Args) == 0 {
					return fmt.Sprintf("(.ext1 .ntypeString %s)", f.expr(sel.X))
				}
			case isErrorType(rt):
				if sel.Sel.Name == "Error" && len(c.Args) == 0 {
					return fmt.Sprintf("(.ext1 .errorString %s)", f.expr(sel.X))
				}
			case isNamedType(rt, "strings", "Builder"):
				if sel.Sel.Name == "String" && len(c.Args) == 0 {
					if id, ok := ast.Unparen(sel.X).(*ast.Ident); ok && f.localVar(id) != nil {
						return fmt.Sprintf("(.ext1 .bufString %s)", f.expr(sel.X))
					}
				}
			}
			if pt, ok := rt.(*types.Pointer); ok && isNamedType(pt.Elem(), f.x.p.PkgPath, "fieldInfo") && sel.Sel.Name == "String" && len(c.Args) == 0 {
				// (fieldInfo).String of typeinfo.go: not part of the program, called by name
				if f.noHoist || f.closure != nil {
					return f.unknownE(c, "call inside a loop header or closure")
				}
				k := f.temp("result of " + f.srcLine(c))
				f.pre = append(f.pre, fmt.Sprintf("-- %s: %s\n.callExt [.var %d] \"fieldInfo.String\" [%s]", f.where(c), f.srcLine(c), k, f.expr(sel.X)))
				return fmt.Sprintf("(.var %d)", k)
			}
			if pt, ok := rt.(*types.Pointer); ok && isNamedType(pt.Elem(), "github.com/sergeymakinen/go-crypt/internal/hashutil", "Encoding") {
				if sel.Sel.Name == "IndexAnyInvalid" && len(c.Args) == 1 {
					return fmt.Sprintf("(.ext2 .indexAnyInvalid %s %s)", f.expr(sel.X), f.expr(c.Args[0]))
				}
			}
		}
	}
	switch f.pkgFunc(c) {
	case "reflect.ValueOf":
		if len(c.Args) == 1 {
			return fmt.Sprintf("(.ext1 .valueOf %s)", f.expr(c.Args[0]))
		}
	case "reflect.TypeOf":
		if len(c.Args) == 1 {
			return fmt.Sprintf("(.ext1 .typeOf %s)", f.expr(c.Args[0]))
		}
	case "strconv.FormatInt":
		if len(c.Args) == 2 {
			return fmt.Sprintf("(.ext2 .formatInt %s %s)", f.expr(c.Args[0]), f.expr(c.Args[1]))
		}
	case "strconv.FormatUint":
		if len(c.Args) == 2 {
			return fmt.Sprintf("(.ext2 .formatUint %s %s)", f.expr(c.Args[0]), f.expr(c.Args[1]))
		}
	case "strings.HasPrefix":
		if len(c.Args) == 2 {
			return fmt.Sprintf("(.ext2 .hasPrefix %s %s)", f.expr(c.Args[0]), f.expr(c.Args[1]))
		}
	case "strings.TrimPrefix":
		if len(c.Args) == 2 {
			return fmt.Sprintf("(.ext2 .trimPrefix %s %s)", f.expr(c.Args[0]), f.expr(c.Args[1]))
		}
	case "strconv.QuoteRuneToASCII":
		if len(c.Args) == 1 {
			return fmt.Sprintf("(.ext1 .quoteRune %s)", f.expr(c.Args[0]))
		}
	}
	// a translated function with exactly one result, used as an operand: hoisted
	if no, recv, ok := f.calledFunc(c); ok {
		sig, _ := f.typ(c.Fun).(*types.Signature)
		if sig == nil || sig.Results().Len() != 1 {
			return f.unknownE(c, "multi-value call used as an operand")
		}
		if f.noHoist || f.closure != nil {
			return f.unknownE(c, "call inside a loop header or closure")
		}
		args := f.callArgs(c, recv)
		k := f.temp("result of " + f.srcLine(c))
		f.pre = append(f.pre, fmt.Sprintf("-- %s: %s\n.call [.var %d] %d [%s]", f.where(c), f.srcLine(c), k, no, strings.Join(args, ", ")))
		return fmt.Sprintf("(.var %d)", k)
	}
	return f.unknownE(c, "call")
}

// unmarshalTextCall recognises `x.Interface().(encoding.TextUnmarshaler).UnmarshalText(arg)` and returns x, arg.
func (f *tiFn) unmarshalTextCall(c *ast.CallExpr) (ast.Expr, ast.Expr, bool) {
	sel, ok := c.Fun.(*ast.SelectorExpr)
	if !ok || sel.Sel.Name != "UnmarshalText" || len(c.Args) != 1 {
		return nil, nil, false
	}
	ta, ok := ast.Unparen(sel.X).(*ast.TypeAssertExpr)
	if !ok || ta.Type == nil || !isNamedType(f.typ(ta.Type), "encoding", "TextUnmarshaler") {
		return nil, nil, false
	}
	ic, ok := ast.Unparen(ta.X).(*ast.CallExpr)
	if !ok || len(ic.Args) != 0 {
		return nil, nil, false
	}
	isel, ok := ic.Fun.(*ast.SelectorExpr)
	if !ok || isel.Sel.Name != "Interface" || !isNamedType(f.typ(isel.X), "reflect", "Value") {
		return nil, nil, false
	}
	return isel.X, c.Args[0], true
}

// marshalTextCall recognises `v.Interface().(encoding.TextMarshaler).MarshalText()` and returns v.
func (f *tiFn) marshalTextCall(c *ast.CallExpr) (ast.Expr, bool) {
	sel, ok := c.Fun.(*ast.SelectorExpr)
	if !ok || sel.Sel.Name != "MarshalText" || len(c.Args) != 0 {
		return nil, false
	}
	ta, ok := ast.Unparen(sel.X).(*ast.TypeAssertExpr)
	if !ok || ta.Type == nil || !isNamedType(f.typ(ta.Type), "encoding", "TextMarshaler") {
		return nil, false
	}
	ic, ok := ast.Unparen(ta.X).(*ast.CallExpr)
	if !ok || len(ic.Args) != 0 {
		return nil, false
	}
	isel, ok := ic.Fun.(*ast.SelectorExpr)
	if !ok || isel.Sel.Name != "Interface" || !isNamedType(f.typ(isel.X), "reflect", "Value") {
		return nil, false
	}
	return isel.X, true
}

// codecAssign: assignments whose right-hand side is a multi-result external operation.
func (f *tiFn) codecAssign(v *ast.AssignStmt, ls []string, c string, ind string) ([]string, bool) {
	if len(v.Rhs) != 1 {
		return nil, false
	}
	call, ok := ast.Unparen(v.Rhs[0]).(*ast.CallExpr)
	if !ok {
		return nil, false
	}
	if f.closure != nil {
		return nil, false
	}
	if len(v.Lhs) == 2 && len(call.Args) == 3 {
		switch f.pkgFunc(call) {
		case "strconv.ParseInt":
			return f.flush(ind, fmt.Sprintf("%s%s.extCall [%s] .parseInt [%s]", c, ind, strings.Join(ls, ", "), strings.Join(f.callArgs(call, nil), ", "))), true
		case "strconv.ParseUint":
			return f.flush(ind, fmt.Sprintf("%s%s.extCall [%s] .parseUint [%s]", c, ind, strings.Join(ls, ", "), strings.Join(f.callArgs(call, nil), ", "))), true
		}
	}
	if len(v.Lhs) == 1 {
		if recv, arg, ok := f.unmarshalTextCall(call); ok {
			return f.flush(ind, fmt.Sprintf("%s%s.unmarshalText (%s) %s %s", c, ind, ls[0], f.expr(recv), f.expr(arg))), true
		}
	}
	if len(v.Lhs) == 2 {
		if recv, ok := f.marshalTextCall(call); ok {
			return f.flush(ind, fmt.Sprintf("%s%s.extCall [%s] .marshalText [%s]", c, ind, strings.Join(ls, ", "), f.expr(recv))), true
		}
	}
	if name := f.extFunc(call); name != "" {
		sig, _ := f.typ(call.Fun).(*types.Signature)
		if sig != nil && sig.Results().Len() == len(v.Lhs) {
			args := f.callArgs(call, nil)
			return f.flush(ind, fmt.Sprintf("%s%s.callExt [%s] %s [%s]", c, ind, strings.Join(ls, ", "), strLit(name), strings.Join(args, ", "))), true
		}
	}
	return nil, false
}

// codecExprStmt: call statements with an IR form (methods of a local strings.Builder, reflect.Copy).
func (f *tiFn) codecExprStmt(v *ast.ExprStmt, call *ast.CallExpr, ind string) ([]string, bool) {
	if f.closure != nil {
		return nil, false
	}
	if sel, ok := call.Fun.(*ast.SelectorExpr); ok {
		if s := f.info().Selections[sel]; s != nil && s.Kind() == types.MethodVal && isNamedType(f.typ(sel.X), "strings", "Builder") && len(call.Args) == 1 {
			if id, ok := ast.Unparen(sel.X).(*ast.Ident); ok {
				if lv := f.localVar(id); lv != nil {
					if k, ok := f.slots[lv]; ok {
						switch sel.Sel.Name {
						case "WriteString":
							return f.flush(ind, fmt.Sprintf("%s%s.bufWriteString %d %s", f.comment(v, ind), ind, k, f.expr(call.Args[0]))), true
						case "WriteByte":
							return f.flush(ind, fmt.Sprintf("%s%s.bufWriteByte %d %s", f.comment(v, ind), ind, k, f.expr(call.Args[0]))), true
						}
					}
				}
			}
		}
	}
	if out, ok := f.codecCellOp(v, call, ind); ok {
		return out, true
	}
	if f.pkgFunc(call) == "reflect.Copy" && len(call.Args) == 2 {
		if inner, ok := ast.Unparen(call.Args[0]).(*ast.CallExpr); ok && f.pkgFunc(inner) == "reflect.ValueOf" && len(inner.Args) == 1 {
			if id, ok := ast.Unparen(inner.Args[0]).(*ast.Ident); ok {
				if lv := f.localVar(id); lv != nil && codecIsByteSlice(lv.Type()) {
					if k, ok := f.slots[lv]; ok {
						return f.flush(ind, fmt.Sprintf("%s%s.reflectCopy %d %s", f.comment(v, ind), ind, k, f.expr(call.Args[1]))), true
					}
				}
			}
		}
	}
	return nil, false
}

// codecStoreStmt: `x.Value = e` for a *parse.ValueNode x.
func (f *tiFn) codecStoreStmt(v *ast.AssignStmt, c string, ind string) ([]string, bool) {
	if len(v.Lhs) != 1 || len(v.Rhs) != 1 || v.Tok != token.ASSIGN {
		return nil, false
	}
	sel, ok := ast.Unparen(v.Lhs[0]).(*ast.SelectorExpr)
	if !ok || sel.Sel.Name != "Value" {
		return nil, false
	}
	pt, ok := f.typ(sel.X).(*types.Pointer)
	if !ok || !isNamedType(pt.Elem(), codecParsePkg, "ValueNode") {
		return nil, false
	}
	return f.flush(ind, fmt.Sprintf("%s%s.nodeSetValue %s %s", c, ind, f.expr(sel.X), f.expr(v.Rhs[0]))), true
}

// ---- defer -----------------------------------------------------------------------------------
//
// `defer func() { body }()` (at most one per function, a literal without parameters or results): a flag
// slot is cleared at the start of the function and set where the defer statement stands; every `return`
// first evaluates its results into temporaries (as Go does), then runs `body` if the flag is set, then
// returns the temporaries. The variables the closure mentions keep their slots, so it sees their values
// at the time of the return, as a Go closure does.

func (f *tiFn) codecDeferSetup() []string {
	var lits []*ast.FuncLit
	bad := false
	ast.Inspect(f.fd.Body, func(n ast.Node) bool {
		if ds, ok := n.(*ast.DeferStmt); ok {
			lit, isLit := ds.Call.Fun.(*ast.FuncLit)
			if !isLit || len(ds.Call.Args) != 0 || lit.Type.Params.NumFields() != 0 || (lit.Type.Results != nil && lit.Type.Results.NumFields() != 0) {
				bad = true
			} else {
				lits = append(lits, lit)
			}
		}
		return true
	})
	if bad || len(lits) != 1 {
		return nil // a defer statement, if any, becomes `unknown`
	}
	f.deferLit = lits[0]
	f.deferFlag = f.temp("a deferred call is pending")
	for i := 0; i < f.nresults; i++ {
		f.deferRes = append(f.deferRes, f.temp(fmt.Sprintf("result %d, evaluated before the deferred call runs", i)))
	}
	return []string{fmt.Sprintf("    -- no deferred call yet\n    .assign [.var %d] [(.bool false)]", f.deferFlag)}
}

func (f *tiFn) codecDeferStmt(ds *ast.DeferStmt, ind string) []string {
	if f.deferFlag < 0 || ds.Call.Fun != ast.Expr(f.deferLit) || f.closure != nil {
		return []string{ind + f.unknownS(ds, "defer")}
	}
	return []string{fmt.Sprintf("%s%s.assign [.var %d] [(.bool true)]", f.comment1(ds, "defer func() { … }()", ind), ind, f.deferFlag)}
}

func (f *tiFn) codecReturnWithDefer(v *ast.ReturnStmt, rs []string, c string, ind string) []string {
	var ls, back []string
	for _, k := range f.deferRes {
		ls = append(ls, fmt.Sprintf(".var %d", k))
		back = append(back, fmt.Sprintf("(.var %d)", k))
	}
	out := f.flush(ind, fmt.Sprintf("%s%s.assign [%s] [%s]", c, ind, strings.Join(ls, ", "), strings.Join(rs, ", ")))
	f.inDefer = true
	savedCtx := f.ctx
	f.ctx = nil
	body := f.nested(f.deferLit.Body.List, ind+"  ")
	f.ctx = savedCtx
	f.inDefer = false
	out = append(out, fmt.Sprintf("%s-- the deferred call\n%s.ite (.var %d)\n%s\n%s  .skip", ind, ind, f.deferFlag, body, ind))
	return append(out, fmt.Sprintf("%s.ret [%s]", ind, strings.Join(back, ", ")))
}

// codecCellOp: stores through an addressable reflect.Value.
func (f *tiFn) codecCellOp(v *ast.ExprStmt, call *ast.CallExpr, ind string) ([]string, bool) {
	sel, ok := call.Fun.(*ast.SelectorExpr)
	if !ok || !isNamedType(f.typ(sel.X), "reflect", "Value") {
		return nil, false
	}
	emit := func(op string, target ast.Expr, args ...string) ([]string, bool) {
		return f.flush(ind, fmt.Sprintf("%s%s.cellOp .%s %s [%s]", f.comment(v, ind), ind, op, f.expr(target), strings.Join(args, ", "))), true
	}
	switch sel.Sel.Name {
	case "Set":
		if len(call.Args) != 1 {
			return nil, false
		}
		inner, ok := ast.Unparen(call.Args[0]).(*ast.CallExpr)
		if !ok {
			return nil, false
		}
		switch f.pkgFunc(inner) {
		case "reflect.New":
			if len(inner.Args) == 1 {
				return emit("setNew", sel.X, f.expr(inner.Args[0]))
			}
		case "reflect.MakeSlice":
			// the slice type must be the type of the value stored into
			if len(inner.Args) == 3 && f.x.g.src(inner.Args[0]) == f.x.g.src(sel.X)+".Type()" {
				return emit("setMakeSlice", sel.X, f.expr(inner.Args[1]), f.expr(inner.Args[2]))
			}
		}
	case "SetInt", "SetUint", "SetString", "SetLen":
		if len(call.Args) == 1 {
			op := map[string]string{"SetInt": "setInt", "SetUint": "setUint", "SetString": "setString", "SetLen": "setLen"}[sel.Sel.Name]
			// v.Index(i).SetUint(x)
			if ic, ok := ast.Unparen(sel.X).(*ast.CallExpr); ok && sel.Sel.Name == "SetUint" {
				if isel, ok := ic.Fun.(*ast.SelectorExpr); ok && isel.Sel.Name == "Index" && len(ic.Args) == 1 && isNamedType(f.typ(isel.X), "reflect", "Value") {
					return emit("setIndexUint", isel.X, f.expr(ic.Args[0]), f.expr(call.Args[0]))
				}
			}
			return emit(op, sel.X, f.expr(call.Args[0]))
		}
	}
	return nil, false
}

var _ = token.ADD
