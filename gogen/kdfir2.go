package main

import (
	"fmt"
	"go/ast"
	"go/constant"
	"go/token"
	"go/types"
	"regexp"
	"sort"
	"strings"

	"golang.org/x/tools/go/packages"
)

// genKdfIR2 translates the key-derivation glue that kdfir.go does not cover (the DES helpers, the tails
// of the Key functions after their guard clauses, nthash.encodePassword, the round loop of sunmd5.Key,
// the bcrypt glue) into the second-generation hash-transcript IR of lean/GoCrypt/Base/HashIR2.lean.
//
// The translation is syntax-directed like kdfir.go's, with these differences:
//   - variables are SLOTS numbered in order of first appearance (parameters first); the source names
//     only appear in comments, so a pure rename in the Go source leaves the output byte-identical up to
//     comments and the proofs untouched;
//   - every call (procedure of this module, linked first-generation function, opaque primitive, lifted
//     function literal) is hoisted into a temporary slot, in Go's left-to-right order;
//   - a function literal that only reads what it captures is lambda-lifted;
//   - a (value, error) pair is one IR value.
//
// Whatever has no IR form becomes an `unknown` node (the interpreter is stuck on it, so the theorems
// about the program fail); whatever would make the IR's value semantics differ from Go's reference
// semantics fails the run.
type k2Entry struct {
	fn   string
	tail string // "": the whole function; "guards": the statements after the last guard clause; "after:pkg.Func": after the top-level statement that calls it; "between:i:j": the statements between the i-th and the j-th guard clause (they must assign exactly one of the variables they read: it is returned)
	as   string // IR name suffix when the same function is translated more than once
}

type k2RootCfg struct {
	pkg     string
	entries []k2Entry
}

var k2Roots = []k2RootCfg{
	{"des/descrypt", []k2Entry{{fn: "Key"}, {fn: "EncodeInt"}, {fn: "DecodeInt"}}},
	{"desext", []k2Entry{{fn: "key"}, {fn: "Key", tail: "guards"}}},
	{"des", []k2Entry{{fn: "Key", tail: "guards"}}},
	{"nthash", []k2Entry{{fn: "encodePassword"}, {fn: "Key", tail: "guards"}}},
	{"md5", []k2Entry{{fn: "Key", tail: "guards"}}},
	{"sha256", []k2Entry{{fn: "Key", tail: "guards"}}},
	{"sha512", []k2Entry{{fn: "Key", tail: "guards"}}},
	{"sunmd5", []k2Entry{{fn: "Key", tail: "after:hash.Marshal"}}},
	{"bcrypt", []k2Entry{{fn: "encode"}, {fn: "Key", tail: "guards"}, {fn: "Key", tail: "between:1:2", as: "Key.between1"}}},
}

// Opaque primitives: functions outside the translated fragment whose result depends on the VALUES of
// their arguments only. The interpreter is parameterised by their meaning; the theorems state which
// meaning they assume.
var k2PrimFuncs = map[string]string{
	modPath + "/des/descrypt.Encrypt":              "descrypt.Encrypt",
	"unicode/utf16.Encode":                         "utf16.Encode",
	"golang.org/x/crypto/blowfish.NewSaltedCipher": "blowfish.NewSaltedCipher",
}

// Methods of a package-level variable that is never reassigned: "pkg.Var.Method".
var k2PrimMethods = map[string]bool{
	"hashutil.HashEncoding.Encode": true,
	"hashutil.HashEncoding.Decode": true,
}

// Functions the first-generation IR (kdfir.go, Gen/KdfIR.lean) already covers: a call runs the
// first-generation interpreter on the named regenerated program.
var k2Links = map[string]string{
	modPath + "/md5/md5crypt.Encrypt":        "GoCrypt.Gen.md5_md5crypt.kdfProgram",
	modPath + "/sha256/sha2crypt.Encrypt":    "GoCrypt.Gen.sha256_sha2crypt.kdfProgram",
	modPath + "/internal/cryptoutil.Permute": "GoCrypt.Gen.md5_md5crypt.kdfProgram",
}

func (g *Gen) genKdfIR2() {
	x := &k2X{g: g, procs: map[string]*k2Proc{}, inProgress: map[string]bool{}, tailOf: map[string]string{}, prims: map[string]string{}}
	for _, r := range k2Roots {
		if p := g.pkgs[r.pkg]; p != nil {
			for _, e := range r.entries {
				if e.tail != "" {
					x.tailOf[p.Types.Name()+"."+e.irName()] = e.tail
				}
			}
		}
	}
	var roots []*k2Root
	for _, r := range k2Roots {
		p := g.pkg(r.pkg)
		if p == nil {
			continue
		}
		root := &k2Root{pkg: r.pkg, globals: map[string]string{}, merged: map[string]bool{}, links: map[string]string{}}
		x.root = root
		for _, e := range r.entries {
			name := x.translateAs(p, e.fn, e.irName())
			if name == "" {
				g.failf("kdfir2: %s.%s not found", r.pkg, e.fn)
				continue
			}
			root.entries = append(root.entries, name)
		}
		roots = append(roots, root)
	}

	var sb strings.Builder
	sb.WriteString(header("Second-generation hash-transcript IR of the remaining key-derivation glue (see Base/HashIR2.lean):\none `Proc` per Go function (variables are slots; the source names are in the comments), one `Program` per package."))
	sb.WriteString("import GoCrypt.Base.HashIR2\nimport GoCrypt.Gen.KdfIR\n\nopen GoCrypt.HashIR2\n\n")
	byPkg := map[string][]*k2Proc{}
	for _, pr := range x.procs {
		byPkg[pr.pkgKey] = append(byPkg[pr.pkgKey], pr)
	}
	var pkgKeys []string
	for k := range byPkg {
		pkgKeys = append(pkgKeys, k)
	}
	sort.Strings(pkgKeys)
	for _, k := range pkgKeys {
		prs := byPkg[k]
		sort.Slice(prs, func(i, j int) bool {
			if prs[i].pos != prs[j].pos {
				return prs[i].pos < prs[j].pos
			}
			return prs[i].name < prs[j].name
		})
		fmt.Fprintf(&sb, "namespace GoCrypt.Gen.KdfIR2.%s\n\n", leanNS(k))
		for _, pr := range prs {
			var sl []string
			for i, n := range pr.slotNames {
				sl = append(sl, fmt.Sprintf("%d = %s", i, n))
			}
			fmt.Fprintf(&sb, "/-- %s  (%s)%s\nslots: %s -/\ndef %s : Proc := {\n  params := %d\n  slots := %d\n  body :=\n%s\n}\n\n",
				pr.name, pr.where, pr.note, strings.Join(sl, ", "), pr.leanName, pr.nparams, len(pr.slotNames), k2Qualify(pr.body))
		}
		fmt.Fprintf(&sb, "end GoCrypt.Gen.KdfIR2.%s\n\n", leanNS(k))
	}
	for _, root := range roots {
		fmt.Fprintf(&sb, "namespace GoCrypt.Gen.KdfIR2.%s\n\n", leanNS(root.pkg))
		fmt.Fprintf(&sb, "/-- Entry points of `program`. -/\ndef entries : List String := %s\n\n", strList(root.entries))
		fmt.Fprintf(&sb, "/-- Where the hash objects of this program come from (one source per program, checked by gogen). -/\ndef hashSource : String := %s\n\n", strLit(root.hashSrc))
		var gl, pl, ll []string
		for _, n := range root.gorder {
			gl = append(gl, fmt.Sprintf("(%s, %s)", strLit(n), root.globals[n]))
		}
		for _, n := range root.porder {
			pr := x.procs[n]
			pl = append(pl, fmt.Sprintf("(%s, GoCrypt.Gen.KdfIR2.%s.%s)", strLit(n), leanNS(pr.pkgKey), pr.leanName))
		}
		for _, n := range root.lorder {
			ll = append(ll, fmt.Sprintf("(%s, %s)", strLit(n), root.links[n]))
		}
		lst := func(xs []string) string {
			if len(xs) == 0 {
				return "[]"
			}
			return "[\n    " + strings.Join(xs, ",\n    ") + "\n  ]"
		}
		fmt.Fprintf(&sb, "/-- %s and everything they call inside this module. -/\ndef program : Program := {\n  procs := %s\n  globals := %s\n  links := %s\n}\n\n",
			strings.Join(root.entries, ", "), lst(pl), lst(gl), lst(ll))
		fmt.Fprintf(&sb, "end GoCrypt.Gen.KdfIR2.%s\n\n", leanNS(root.pkg))
	}
	// the opaque primitives the programs call, with what they are in the Go source
	sb.WriteString("namespace GoCrypt.Gen.KdfIR2\n\n/-- The opaque primitives the programs above call: IR name, and what it is in the Go source. -/\ndef primitives : List (String × String) := [\n")
	var pn []string
	for n := range x.prims {
		pn = append(pn, n)
	}
	sort.Strings(pn)
	for i, n := range pn {
		sep := ","
		if i == len(pn)-1 {
			sep = ""
		}
		fmt.Fprintf(&sb, "  (%s, %s)%s\n", strLit(n), strLit(x.prims[n]), sep)
	}
	sb.WriteString("]\n\nend GoCrypt.Gen.KdfIR2\n")
	g.emit("KdfIR2.lean", sb.String())
}

// k2Qualify spells every constructor with its type name (`.assign` → `Stmt.assign`): Lean elaborates a
// deeply nested term of dotted constructors in time exponential in the nesting depth.
var k2CtorRe = regexp.MustCompile(`(^|[^A-Za-z0-9_."])\.([a-zA-Z_]+)\b`)

var k2Ctors = func() map[string]string {
	m := map[string]string{}
	for _, c := range strings.Fields("skip seq assign write setIndex reset putUint setSlice ite for_ forRange scoped call ret retErr") {
		m[c] = "Stmt"
	}
	for _, c := range strings.Fields("int bytes var global len newHash sum bin wrap not lor land beq index slice append make repeat_ formatUint isErr errPrefix") {
		m[c] = "Expr"
	}
	for _, c := range strings.Fields("add sub mul quo rem band bor xor shl shr lt le gt ge eq ne") {
		m[c] = "BinOp"
	}
	return m
}()

func k2Qualify(body string) string {
	var out []string
	for _, line := range strings.Split(body, "\n") {
		if strings.HasPrefix(strings.TrimSpace(line), "--") {
			out = append(out, line)
			continue
		}
		// string literals (call names, error texts) contain no constructor: protect them
		parts := strings.Split(line, "\"")
		for i := 0; i < len(parts); i += 2 {
			parts[i] = k2CtorRe.ReplaceAllStringFunc(parts[i], func(m string) string {
				sub := k2CtorRe.FindStringSubmatch(m)
				if t, ok := k2Ctors[sub[2]]; ok {
					return sub[1] + t + "." + sub[2]
				}
				return m
			})
		}
		out = append(out, strings.Join(parts, "\""))
	}
	return strings.Join(out, "\n")
}

type k2Root struct {
	pkg     string
	entries []string
	porder  []string // procedures reachable from the entries, in order of first use
	globals map[string]string
	gorder  []string
	links   map[string]string
	lorder  []string
	hashSrc string
	merged  map[string]bool
}

type k2Proc struct {
	name      string // "desext.key"
	leanName  string // "proc_key"
	pkgKey    string
	where     string
	pos       token.Pos
	nparams   int
	slotNames []string // slot → source name (comment only)
	body      string
	callees   []string
	links     map[string]string
	lorder    []string
	fresh     bool // every return value is a buffer allocated by the function itself
	note      string
	globals   []string
	globalV   map[string]string
	hashSrcs  []string
}

type k2X struct {
	g          *Gen
	procs      map[string]*k2Proc
	inProgress map[string]bool
	root       *k2Root
	tailOf     map[string]string // qualified name → tail mode of the functions of which only a suffix is translated
	prims      map[string]string
}

func (e k2Entry) irName() string {
	if e.as != "" {
		return e.as
	}
	return e.fn
}

// translate translates function fn of package p (once) and registers it, its callees and the
// globals it reads with the current root. It returns the qualified IR name.
func (x *k2X) translate(p *packages.Package, fn string) string {
	return x.translateAs(p, fn, fn)
}

func (x *k2X) translateAs(p *packages.Package, fn, as string) string {
	fd := x.g.funcDecl(p, fn)
	if fd == nil || fd.Body == nil {
		return ""
	}
	name := p.Types.Name() + "." + as
	if x.inProgress[name] {
		x.g.failf("kdfir2: %s is recursive", name)
		return name
	}
	x.root.addProc(name) // callers before callees
	pr, done := x.procs[name]
	if !done {
		x.inProgress[name] = true
		f := x.newFn(p, name, "proc_"+strings.ReplaceAll(as, ".", "_"), fd.Pos())
		f.fd = fd
		f.ftype = fd.Type
		f.runDecl()
		pr = f.pr
		x.procs[name] = pr
		delete(x.inProgress, name)
	}
	x.register(pr)
	return name
}

func (x *k2X) newFn(p *packages.Package, name, leanName string, pos token.Pos) *k2Fn {
	return &k2Fn{x: x, p: p, names: map[*types.Var]string{}, isParam: map[*types.Var]bool{},
		closures: map[*types.Var]*k2Closure{}, errOf: map[*types.Var]*types.Var{}, fieldSlots: map[string]string{},
		pr: &k2Proc{name: name, leanName: leanName, pkgKey: key(p.PkgPath),
			where: x.g.pos(pos), pos: pos, globalV: map[string]string{}, links: map[string]string{}}}
}

func (x *k2X) register(pr *k2Proc) {
	r := x.root
	r.addProc(pr.name)
	if r.merged[pr.name] {
		return
	}
	r.merged[pr.name] = true
	for _, gname := range pr.globals {
		if _, ok := r.globals[gname]; !ok {
			r.globals[gname] = pr.globalV[gname]
			r.gorder = append(r.gorder, gname)
		}
	}
	for _, l := range pr.lorder {
		if _, ok := r.links[l]; !ok {
			r.links[l] = pr.links[l]
			r.lorder = append(r.lorder, l)
		}
	}
	for _, hs := range pr.hashSrcs {
		if r.hashSrc == "" {
			r.hashSrc = hs
		} else if r.hashSrc != hs {
			x.g.failf("kdfir2: %s creates hash objects from %s but the program already uses %s", pr.name, hs, r.hashSrc)
		}
	}
	for _, c := range pr.callees {
		if cp := x.procs[c]; cp != nil {
			x.register(cp)
		}
	}
}

func (r *k2Root) addProc(name string) {
	for _, n := range r.porder {
		if n == name {
			return
		}
	}
	r.porder = append(r.porder, name)
}

// k2Closure is a lambda-lifted function literal: a procedure whose first parameters are the variables
// the literal captures (passed, with their current values, at every call).
type k2Closure struct {
	name     string
	captured []*types.Var
}

// k2Fn is the translation of one function body.
type k2Fn struct {
	x          *k2X
	p          *packages.Package
	fd         *ast.FuncDecl // nil for a lifted function literal
	ftype      *ast.FuncType
	pr         *k2Proc
	names      map[*types.Var]string // variable object → slot (decimal)
	fieldSlots map[string]string     // "opts.Prefix" → slot, for read-only fields of a tail's free variables
	pre        []string              // statements hoisted out of the expression being translated (calls)
	noHoist    bool
	lastTmp    string
	stored     map[*types.Var]bool // slices this function stores into (x[i] = …, x = append(x, …))
	isParam    map[*types.Var]bool
	from       token.Pos // start of the translated suffix (0: whole body)
	closures   map[*types.Var]*k2Closure
	nlit       int
	errOf      map[*types.Var]*types.Var // `v, err := f()`: err -> v (the pair is one IR value)
	captured   map[*types.Var]bool       // lifted literal: the variables it captures (read-only)
	scopedTmp  map[string]bool           // temporaries that already end with an enclosing block
}

func (f *k2Fn) typ(e ast.Expr) types.Type {
	if tv, ok := f.p.TypesInfo.Types[e]; ok {
		return tv.Type
	}
	if id, ok := e.(*ast.Ident); ok {
		if o := f.p.TypesInfo.ObjectOf(id); o != nil {
			return o.Type()
		}
	}
	return types.Typ[types.Invalid]
}

func (f *k2Fn) desc(n ast.Node) string {
	return strLit(f.x.g.pos(n.Pos()) + ": " + strings.Join(strings.Fields(f.x.g.src(n)), " "))
}

func (f *k2Fn) unknownE(n ast.Node, why string) string {
	return fmt.Sprintf("(Expr.unknown %s)", strLit(f.x.g.pos(n.Pos())+": "+why+": "+strings.Join(strings.Fields(f.x.g.src(n)), " ")))
}

func (f *k2Fn) unknownS(n ast.Node, why string) string {
	return fmt.Sprintf("Stmt.unknown %s", strLit(f.x.g.pos(n.Pos())+": "+why+": "+strings.Join(strings.Fields(f.x.g.src(n)), " ")))
}

// varOf resolves an identifier to a local variable (parameter, result or local), or nil.
func (f *k2Fn) varOf(id *ast.Ident) *types.Var {
	v, ok := f.p.TypesInfo.ObjectOf(id).(*types.Var)
	if !ok || v.IsField() || v.Pkg() == nil || v.Parent() == v.Pkg().Scope() {
		return nil
	}
	return v
}

// name gives each variable OBJECT one slot, in order of first appearance (parameters first). The
// source name is kept for the comments only.
func (f *k2Fn) name(v *types.Var) string {
	if n, ok := f.names[v]; ok {
		return n
	}
	n := f.newSlot(v.Name())
	f.names[v] = n
	return n
}

func (f *k2Fn) newSlot(comment string) string {
	n := fmt.Sprintf("%d", len(f.pr.slotNames))
	f.pr.slotNames = append(f.pr.slotNames, comment)
	return n
}

func (f *k2Fn) temp() string {
	return f.newSlot("(temporary)")
}

// dropTemp gives back the most recently allocated slot (a temporary that turned out to be unnecessary).
func (f *k2Fn) dropTemp(n string) bool {
	if k := len(f.pr.slotNames); k > 0 && n == fmt.Sprintf("%d", k-1) {
		f.pr.slotNames = f.pr.slotNames[:k-1]
		return true
	}
	return false
}

func isNilIdent(info *types.Info, e ast.Expr) bool {
	id, ok := e.(*ast.Ident)
	if !ok {
		return false
	}
	_, n := info.ObjectOf(id).(*types.Nil)
	return n
}

// isGuard: a top-level `if … { …; return nil, <non-nil error> }` without else, or a switch with such a
// clause (the guard clauses of the Key functions, which Gen/Guards.lean covers).
func (f *k2Fn) isGuard(st ast.Stmt) bool {
	errRet := func(list []ast.Stmt) bool {
		if len(list) == 0 {
			return false
		}
		r, ok := list[len(list)-1].(*ast.ReturnStmt)
		return ok && len(r.Results) == 2 && !isNilIdent(f.p.TypesInfo, r.Results[1])
	}
	switch v := st.(type) {
	case *ast.IfStmt:
		return v.Else == nil && errRet(v.Body.List)
	case *ast.SwitchStmt:
		for _, c := range v.Body.List {
			if errRet(c.(*ast.CaseClause).Body) {
				return true
			}
		}
	}
	return false
}

// tailStart: index of the first statement of the translated suffix.
func (f *k2Fn) tailStart(list []ast.Stmt, mode string) (int, string) {
	start, _, what := f.tailRange(list, mode)
	return start, what
}

// tailRange: the translated statements are list[start:end].
func (f *k2Fn) tailRange(list []ast.Stmt, mode string) (int, int, string) {
	if strings.HasPrefix(mode, "between:") {
		var i, j int
		if _, err := fmt.Sscanf(mode, "between:%d:%d", &i, &j); err != nil || i < 1 || j <= i {
			return -1, -1, ""
		}
		var guards []int
		for k, st := range list {
			if f.isGuard(st) {
				guards = append(guards, k)
			}
		}
		if j > len(guards) {
			return -1, -1, ""
		}
		return guards[i-1] + 1, guards[j-1], fmt.Sprintf("the statements between guard clause %d and guard clause %d", i, j)
	}
	start, what := f.tailStart0(list, mode)
	return start, len(list), what
}

func (f *k2Fn) tailStart0(list []ast.Stmt, mode string) (int, string) {
	switch {
	case mode == "guards":
		for i := len(list) - 1; i >= 0; i-- {
			if f.isGuard(list[i]) {
				return i + 1, "the statements after the last guard clause"
			}
		}
	case strings.HasPrefix(mode, "after:"):
		want := strings.TrimPrefix(mode, "after:")
		for i, st := range list {
			found := false
			ast.Inspect(st, func(n ast.Node) bool {
				if c, ok := n.(*ast.CallExpr); ok {
					if fn := f.calledFunc(c); fn != nil && fn.Pkg() != nil && fn.Pkg().Name()+"."+fn.Name() == want {
						found = true
					}
				}
				return !found
			})
			if found {
				return i + 1, "the statements after the call of " + want
			}
		}
	}
	return -1, ""
}

// runDecl translates a declared function: the whole body, or the suffix configured for it.
func (f *k2Fn) runDecl() {
	sig := f.ftype
	var declared []*types.Var
	for _, fl := range sig.Params.List {
		for _, n := range fl.Names {
			v, _ := f.p.TypesInfo.Defs[n].(*types.Var)
			if v == nil || n.Name == "_" {
				f.x.g.failf("kdfir2: %s: unnamed parameter", f.pr.name)
				continue
			}
			f.isParam[v] = true
			declared = append(declared, v)
		}
	}
	if sig.Results != nil {
		for _, fl := range sig.Results.List {
			if len(fl.Names) > 0 {
				f.x.g.failf("kdfir2: %s: named results are outside the fragment", f.pr.name)
			}
		}
	}
	list := f.fd.Body.List
	mode := f.x.tailOf[f.pr.name]
	if mode == "" {
		for _, v := range declared {
			f.name(v)
		}
		f.pr.nparams = len(declared)
	} else {
		start, end, what := f.tailRange(list, mode)
		if start < 0 || start >= end || end > len(list) {
			f.x.g.failf("kdfir2: %s: no statements for mode %q", f.pr.name, mode)
			return
		}
		f.from = list[start].Pos()
		whole := list
		list = list[start:end]
		f.freeParams(list)
		f.pr.note = fmt.Sprintf(": %s (from %s on);\nthe parameters are the variables (and read-only fields) they read that were declared before", what, f.x.g.pos(f.from))
		if end < len(whole) {
			// a range in the middle of the function: its result is the one free variable it assigns
			var assigned []*types.Var
			seen := map[*types.Var]bool{}
			for _, st := range list {
				ast.Inspect(st, func(n ast.Node) bool {
					if a, ok := n.(*ast.AssignStmt); ok {
						for _, l := range a.Lhs {
							if id, ok := l.(*ast.Ident); ok {
								if v := f.varOf(id); v != nil && v.Pos() < f.from && !seen[v] {
									seen[v] = true
									assigned = append(assigned, v)
								}
							}
						}
					}
					return true
				})
			}
			if len(assigned) != 1 {
				f.x.g.failf("kdfir2: %s: the translated range must assign exactly one of the variables declared before it", f.pr.name)
				return
			}
			f.findStored(list)
			f.pr.fresh = false
			body, _ := f.block(list, "    ")
			f.pr.body = body + " ;;;\n    -- (end of the range: the variable it assigns, " + assigned[0].Name() + ", is its result)\n    .ret (.var " + f.name(assigned[0]) + ")"
			f.pr.note += fmt.Sprintf("; the range ends before %s and returns %s", f.x.g.pos(whole[end].Pos()), assigned[0].Name())
			return
		}
	}
	f.findStored(list)
	f.pr.fresh = f.returnsFresh(list)
	body, _ := f.block(list, "    ")
	f.pr.body = body
}

// freeParams makes the variables the suffix reads but does not declare its parameters, in order of
// declaration. A struct (pointer) variable that is only ever read through a field contributes that
// field instead.
func (f *k2Fn) freeParams(list []ast.Stmt) {
	type fv struct {
		v     *types.Var
		field string
		idx   int
	}
	seen := map[string]bool{}
	var free []fv
	fieldX := map[*ast.Ident]bool{}
	whole := map[*types.Var]bool{}
	viaField := map[*types.Var]bool{}
	for _, st := range list {
		ast.Inspect(st, func(n ast.Node) bool {
			sel, ok := n.(*ast.SelectorExpr)
			if !ok {
				return true
			}
			id, ok := sel.X.(*ast.Ident)
			if !ok {
				return true
			}
			v := f.varOf(id)
			s, isSel := f.p.TypesInfo.Selections[sel]
			if v == nil || v.Pos() >= f.from || !isSel || s.Kind() != types.FieldVal || len(s.Index()) != 1 {
				return true
			}
			fieldX[id] = true
			viaField[v] = true
			k := v.Name() + "." + sel.Sel.Name
			if !seen[k] {
				seen[k] = true
				free = append(free, fv{v, sel.Sel.Name, s.Index()[0]})
			}
			return true
		})
	}
	for _, st := range list {
		ast.Inspect(st, func(n ast.Node) bool {
			switch a := n.(type) {
			case *ast.AssignStmt:
				for _, l := range a.Lhs {
					if sel, ok := l.(*ast.SelectorExpr); ok {
						if id, ok := sel.X.(*ast.Ident); ok && fieldX[id] {
							f.x.g.failf("kdfir2: %s: field of a free variable is assigned to in the translated suffix", f.x.g.pos(l.Pos()))
						}
					}
				}
			case *ast.Ident:
				if v := f.varOf(a); v != nil && v.Pos() < f.from && !fieldX[a] {
					whole[v] = true
					if !seen[v.Name()+"#"] {
						seen[v.Name()+"#"] = true
						free = append(free, fv{v, "", -1})
					}
				}
			}
			return true
		})
	}
	for v := range viaField {
		if whole[v] {
			f.x.g.failf("kdfir2: %s: %s is used both as a whole and through a field in the translated suffix", f.pr.name, v.Name())
		}
	}
	sort.SliceStable(free, func(i, j int) bool {
		if free[i].v.Pos() != free[j].v.Pos() {
			return free[i].v.Pos() < free[j].v.Pos()
		}
		return free[i].idx < free[j].idx
	})
	for _, x := range free {
		if x.field == "" {
			f.name(x.v)
		} else {
			f.fieldSlots[x.v.Name()+"."+x.field] = f.newSlot(x.v.Name() + "." + x.field)
		}
	}
	f.pr.nparams = len(free)
}

// lift translates a function literal bound to the local variable v into a procedure of its own.
func (f *k2Fn) lift(v *types.Var, lit *ast.FuncLit) *k2Closure {
	f.nlit++
	name := fmt.Sprintf("%s.func%d", f.pr.name, f.nlit)
	g := f.x.newFn(f.p, name, fmt.Sprintf("%s_func%d", f.pr.leanName, f.nlit), lit.Pos())
	g.ftype = lit.Type
	g.captured = map[*types.Var]bool{}
	var caps []*types.Var
	ast.Inspect(lit.Body, func(n ast.Node) bool {
		if id, ok := n.(*ast.Ident); ok {
			if cv := f.varOf(id); cv != nil && (cv.Pos() < lit.Pos() || cv.Pos() >= lit.End()) && !g.captured[cv] {
				g.captured[cv] = true
				caps = append(caps, cv)
			}
		}
		return true
	})
	sort.Slice(caps, func(i, j int) bool { return caps[i].Pos() < caps[j].Pos() })
	for _, cv := range caps {
		t := cv.Type()
		if !isIntType(t) && !isByteSlice(t) && !isByteArray(t) {
			f.x.g.failf("kdfir2: %s: function literal captures %s, which is neither an integer nor a byte buffer", f.x.g.pos(lit.Pos()), cv.Name())
		}
		if _, isClosure := f.closures[cv]; isClosure {
			f.x.g.failf("kdfir2: %s: function literal captures another function literal", f.x.g.pos(lit.Pos()))
		}
		g.name(cv)
		g.isParam[cv] = true
	}
	// the literal must not write to what it captures (then passing the current value at each call is
	// exactly Go's capture by reference)
	base := func(e ast.Expr) *ast.Ident {
		for {
			switch x := e.(type) {
			case *ast.IndexExpr:
				e = x.X
			case *ast.SliceExpr:
				e = x.X
			case *ast.ParenExpr:
				e = x.X
			case *ast.StarExpr:
				e = x.X
			case *ast.Ident:
				return x
			default:
				return nil
			}
		}
	}
	ast.Inspect(lit.Body, func(n ast.Node) bool {
		var targets []ast.Expr
		switch a := n.(type) {
		case *ast.AssignStmt:
			targets = a.Lhs
		case *ast.IncDecStmt:
			targets = []ast.Expr{a.X}
		case *ast.UnaryExpr:
			if a.Op == token.AND {
				targets = []ast.Expr{a.X}
			}
		case *ast.RangeStmt:
			targets = []ast.Expr{a.Key, a.Value}
		}
		for _, t := range targets {
			if t == nil {
				continue
			}
			if id := base(t); id != nil {
				if cv := f.varOf(id); cv != nil && g.captured[cv] {
					f.x.g.failf("kdfir2: %s: function literal writes to the captured variable %s", f.x.g.pos(t.Pos()), cv.Name())
				}
			}
		}
		return true
	})
	for _, fl := range lit.Type.Params.List {
		for _, n := range fl.Names {
			pv, _ := f.p.TypesInfo.Defs[n].(*types.Var)
			if pv == nil || n.Name == "_" {
				f.x.g.failf("kdfir2: %s: unnamed parameter of a function literal", f.x.g.pos(lit.Pos()))
				continue
			}
			g.isParam[pv] = true
			g.name(pv)
		}
	}
	g.pr.nparams = len(g.pr.slotNames)
	g.pr.note = fmt.Sprintf(": function literal bound to a local variable, lambda-lifted; its first %d parameter(s) are the captured variable(s), which it only reads", len(caps))
	g.findStored(lit.Body.List)
	body, _ := g.block(lit.Body.List, "    ")
	g.pr.body = body
	f.x.procs[name] = g.pr
	f.pr.callees = append(f.pr.callees, name)
	return &k2Closure{name: name, captured: caps}
}

// returnsFresh: every returned []byte is a variable this function allocated itself (so a caller may
// pass it a buffer it later overwrites: the result cannot alias the argument).
func (f *k2Fn) returnsFresh(list []ast.Stmt) bool {
	ok := true
	any := false
	for _, st := range list {
		ast.Inspect(st, func(n ast.Node) bool {
			r, isRet := n.(*ast.ReturnStmt)
			if !isRet || len(r.Results) == 0 {
				return true
			}
			any = true
			id, isId := r.Results[0].(*ast.Ident)
			if !isId {
				ok = false
				return true
			}
			if v := f.varOf(id); v == nil || !f.stored[v] {
				ok = false
			}
			return true
		})
	}
	return ok && any
}

// ---- value-semantics side conditions -------------------------------------------------------

// putUintCall matches `binary.BigEndian.PutUint64(x[off:], v)` / `binary.LittleEndian.PutUint16(x[off:], v)`:
// the buffer variable, the offset expression (nil: 0), width in bytes, byte order.
func (f *k2Fn) putUintCall(c *ast.CallExpr) (x *ast.Ident, off ast.Expr, width int, big bool, ok bool) {
	sel, isS := c.Fun.(*ast.SelectorExpr)
	if !isS || len(c.Args) != 2 {
		return
	}
	s, isSel := f.p.TypesInfo.Selections[sel]
	if !isSel || s.Kind() != types.MethodVal {
		return
	}
	m, _ := s.Obj().(*types.Func)
	if m == nil || m.Pkg() == nil || m.Pkg().Path() != "encoding/binary" {
		return
	}
	// the receiver must be the package variable binary.BigEndian / binary.LittleEndian itself
	rsel, isR := sel.X.(*ast.SelectorExpr)
	if !isR {
		return
	}
	rv, _ := f.p.TypesInfo.Uses[rsel.Sel].(*types.Var)
	if rv == nil || rv.Pkg() == nil || rv.Pkg().Path() != "encoding/binary" {
		return
	}
	switch rv.Name() {
	case "BigEndian":
		big = true
	case "LittleEndian":
	default:
		return
	}
	switch m.Name() {
	case "PutUint16":
		width = 2
	case "PutUint32":
		width = 4
	case "PutUint64":
		width = 8
	default:
		return
	}
	se, isSl := c.Args[0].(*ast.SliceExpr)
	if !isSl || se.Slice3 || se.High != nil {
		return
	}
	id, isId := se.X.(*ast.Ident)
	if !isId || f.varOf(id) == nil {
		return
	}
	if t := f.typ(se.X); !isByteSlice(t) && !isByteArray(t) {
		return
	}
	return id, se.Low, width, big, true
}

// primOf: is the call a call of an opaque primitive? Returns its IR name and the argument expressions
// (a method's receiver is not an argument: the primitive is the method of that one package variable).
func (f *k2Fn) primOf(c *ast.CallExpr) (string, []ast.Expr, bool) {
	if fn := f.calledFunc(c); fn != nil && fn.Pkg() != nil {
		if name, ok := k2PrimFuncs[fn.Pkg().Path()+"."+fn.Name()]; ok {
			f.x.prims[name] = "func " + fn.Pkg().Path() + "." + fn.Name()
			return name, c.Args, true
		}
		return "", nil, false
	}
	sel, ok := c.Fun.(*ast.SelectorExpr)
	if !ok {
		return "", nil, false
	}
	s, isSel := f.p.TypesInfo.Selections[sel]
	if !isSel || s.Kind() != types.MethodVal {
		return "", nil, false
	}
	var rv *types.Var
	switch r := sel.X.(type) {
	case *ast.SelectorExpr:
		if id, ok := r.X.(*ast.Ident); ok {
			if _, isPkg := f.p.TypesInfo.Uses[id].(*types.PkgName); isPkg {
				rv, _ = f.p.TypesInfo.Uses[r.Sel].(*types.Var)
			}
		}
	case *ast.Ident:
		rv, _ = f.p.TypesInfo.Uses[r].(*types.Var)
	}
	if rv == nil || rv.Pkg() == nil || rv.Parent() != rv.Pkg().Scope() {
		return "", nil, false
	}
	name := rv.Pkg().Name() + "." + rv.Name() + "." + sel.Sel.Name
	if !k2PrimMethods[name] {
		return "", nil, false
	}
	rp := f.x.g.pkgs[key(rv.Pkg().Path())]
	if rp == nil || f.assignedAnywhere(rp, rv) {
		f.x.g.failf("kdfir2: %s: receiver of the primitive %s is assigned to somewhere", f.x.g.pos(c.Pos()), name)
	}
	f.x.prims[name] = "method " + sel.Sel.Name + " of var " + rv.Pkg().Path() + "." + rv.Name() + " = " + f.x.varInit(rp, rv)
	return name, c.Args, true
}

// varInit: the source text of the initialiser of a package-level variable.
func (x *k2X) varInit(p *packages.Package, o *types.Var) string {
	for _, file := range p.Syntax {
		for _, d := range file.Decls {
			gd, ok := d.(*ast.GenDecl)
			if !ok || gd.Tok != token.VAR {
				continue
			}
			for _, spec := range gd.Specs {
				vs := spec.(*ast.ValueSpec)
				for i, n := range vs.Names {
					if p.TypesInfo.Defs[n] == o && len(vs.Values) == len(vs.Names) {
						return strings.Join(strings.Fields(x.g.src(vs.Values[i])), " ")
					}
				}
			}
		}
	}
	return "?"
}

// findStored collects the buffers the function stores into and checks that each of them is only ever
// a fresh buffer that nothing else can alias: a local (not a parameter) defined by make(…), by a
// `var x [N]byte` declaration, by `[]byte("constant")` or by appending to itself, and used only as a
// store target, a read operand, a Write argument, an argument of a primitive or of a function that
// returns a buffer of its own, or a return value.
func (f *k2Fn) findStored(list []ast.Stmt) {
	f.stored = map[*types.Var]bool{}
	inspect := func(fn func(ast.Node) bool) {
		for _, st := range list {
			ast.Inspect(st, fn)
		}
	}
	inspect(func(n ast.Node) bool {
		if c, ok := n.(*ast.CallExpr); ok {
			if x, _, _, _, ok := f.putUintCall(c); ok {
				f.stored[f.varOf(x)] = true
			}
			if dst, _, ok := f.cipherEncryptCall(c); ok {
				f.stored[f.varOf(dst)] = true
			}
		}
		as, ok := n.(*ast.AssignStmt)
		if !ok {
			return true
		}
		for i, l := range as.Lhs {
			if ix, ok := l.(*ast.IndexExpr); ok {
				if id, ok := ix.X.(*ast.Ident); ok {
					if v := f.varOf(id); v != nil {
						f.stored[v] = true
					}
				}
			}
			if id, ok := l.(*ast.Ident); ok && i < len(as.Rhs) {
				if call, ok := as.Rhs[i].(*ast.CallExpr); ok {
					if b, ok := call.Fun.(*ast.Ident); ok && b.Name == "append" && len(call.Args) > 0 {
						if _, isB := f.p.TypesInfo.Uses[b].(*types.Builtin); isB {
							// append(x[:len(x):len(x)], …) always copies: a functional update, not a store
							if _, full := f.fullSliceOf(call.Args[0]); !full {
								if v := f.varOf(id); v != nil {
									f.stored[v] = true
								}
							}
						}
					}
				}
			}
		}
		return true
	})
	if len(f.stored) == 0 {
		return
	}
	// every occurrence of a stored variable must be in an allowed position
	allowed := map[*ast.Ident]bool{}
	defined := map[*types.Var]bool{}
	sliceBase := func(a ast.Expr) *ast.Ident {
		if se, ok := a.(*ast.SliceExpr); ok && !se.Slice3 {
			a = se.X
		}
		id, _ := a.(*ast.Ident)
		return id
	}
	inspect(func(n ast.Node) bool {
		switch v := n.(type) {
		case *ast.DeclStmt:
			if gd, ok := v.Decl.(*ast.GenDecl); ok && gd.Tok == token.VAR {
				for _, spec := range gd.Specs {
					vs := spec.(*ast.ValueSpec)
					if len(vs.Values) == 0 {
						for _, n := range vs.Names {
							if lv := f.varOf(n); lv != nil && isByteArray(lv.Type()) {
								allowed[n] = true // var x [N]byte
								defined[lv] = true
							}
						}
					}
				}
			}
		case *ast.AssignStmt:
			for i, l := range v.Lhs {
				if ix, ok := l.(*ast.IndexExpr); ok {
					if id, ok := ix.X.(*ast.Ident); ok {
						allowed[id] = true // x[i] = …
					}
				}
				id, ok := l.(*ast.Ident)
				if !ok || i >= len(v.Rhs) || len(v.Lhs) != len(v.Rhs) {
					continue
				}
				sv := f.varOf(id)
				if sv == nil || !f.stored[sv] {
					continue
				}
				call, ok := v.Rhs[i].(*ast.CallExpr)
				if !ok {
					continue
				}
				if _, isConst := f.constBytes(call); isConst && v.Tok == token.DEFINE {
					allowed[id] = true // x := []byte("constant")
					defined[sv] = true
				}
				if b, ok := call.Fun.(*ast.Ident); ok {
					if _, isB := f.p.TypesInfo.Uses[b].(*types.Builtin); isB {
						if b.Name == "make" {
							allowed[id] = true // x := make(…)
							defined[sv] = true
						}
						if b.Name == "append" && len(call.Args) > 0 {
							if a0, ok := call.Args[0].(*ast.Ident); ok && f.varOf(a0) == sv {
								allowed[id] = true // x = append(x, …)
								allowed[a0] = true
							}
						}
					}
				}
			}
		case *ast.ReturnStmt:
			for _, r := range v.Results {
				if id := sliceBase(r); id != nil {
					allowed[id] = true // the function ends here: `return x`, `return x[a:b]`
				}
			}
		case *ast.CallExpr:
			if b, ok := v.Fun.(*ast.Ident); ok && b.Name == "len" && len(v.Args) == 1 {
				if id := sliceBase(v.Args[0]); id != nil {
					allowed[id] = true
				}
			}
			if sel, ok := v.Fun.(*ast.SelectorExpr); ok && sel.Sel.Name == "Write" && len(v.Args) == 1 && isNamed(f.typ(sel.X), "hash", "Hash") {
				if id := sliceBase(v.Args[0]); id != nil {
					allowed[id] = true // Write copies its argument
				}
			}
			if x, _, _, _, ok := f.putUintCall(v); ok {
				allowed[x] = true // PutUintNN(x[off:], v)
			}
			if dst, src, ok := f.cipherEncryptCall(v); ok {
				allowed[dst] = true // c.Encrypt(x[a:b], x[a:b]) reads 8 bytes and then writes 8 bytes
				if id := sliceBase(src); id != nil {
					allowed[id] = true
				}
			}
			if _, args, ok := f.primOf(v); ok {
				for _, a := range args {
					if id := sliceBase(a); id != nil {
						allowed[id] = true // a primitive is a function of the argument VALUES
					}
				}
			} else if fn := f.calledFunc(v); fn != nil && fn.Pkg() != nil && strings.HasPrefix(fn.Pkg().Path(), modPath) && k2Links[fn.Pkg().Path()+"."+fn.Name()] == "" {
				// a function of this module whose result is a buffer of its own cannot keep an alias
				if callee := f.x.g.pkgs[key(fn.Pkg().Path())]; callee != nil {
					if name := f.x.translate(callee, fn.Name()); name != "" {
						if pr := f.x.procs[name]; pr != nil && pr.fresh {
							for _, a := range v.Args {
								if id := sliceBase(a); id != nil {
									allowed[id] = true
								}
							}
						}
					}
				}
			}
		case *ast.IndexExpr:
			if id, ok := v.X.(*ast.Ident); ok {
				allowed[id] = true // reading x[i] yields a byte
			}
		}
		return true
	})
	inspect(func(n ast.Node) bool {
		id, ok := n.(*ast.Ident)
		if !ok {
			return true
		}
		if v := f.varOf(id); v != nil && f.stored[v] && !allowed[id] {
			f.x.g.failf("kdfir2: %s: buffer %s is stored into and also used where it could be aliased; value semantics would be unsound", f.x.g.pos(id.Pos()), id.Name)
		}
		return true
	})
	for v := range f.stored {
		if f.isParam[v] || !defined[v] || (f.from != 0 && v.Pos() < f.from) {
			f.x.g.failf("kdfir2: %s: %s is stored into but is not a buffer allocated by %s (make / var [N]byte / []byte(\"…\"))", f.x.g.pos(v.Pos()), v.Name(), f.pr.name)
		}
	}
}

// constBytes matches `[]byte("constant")` and returns the bytes as an IR literal.
func (f *k2Fn) constBytes(c *ast.CallExpr) (string, bool) {
	if tv, ok := f.p.TypesInfo.Types[c.Fun]; ok && tv.IsType() && len(c.Args) == 1 && isByteSlice(tv.Type) {
		if av, has := f.p.TypesInfo.Types[c.Args[0]]; has && av.Value != nil && av.Value.Kind() == constant.String {
			return fmt.Sprintf("(.bytes %s)", bytesLit([]byte(constant.StringVal(av.Value)))), true
		}
	}
	return "", false
}

// cipherEncryptCall matches `c.Encrypt(x[a:b], src)` for a *blowfish.Cipher c: the destination buffer
// variable and the source expression.
func (f *k2Fn) cipherEncryptCall(c *ast.CallExpr) (dst *ast.Ident, src ast.Expr, ok bool) {
	sel, isS := c.Fun.(*ast.SelectorExpr)
	if !isS || sel.Sel.Name != "Encrypt" || len(c.Args) != 2 {
		return
	}
	pt, isP := f.typ(sel.X).(*types.Pointer)
	if !isP || !isNamed(pt.Elem(), "golang.org/x/crypto/blowfish", "Cipher") {
		return
	}
	se, isSl := c.Args[0].(*ast.SliceExpr)
	if !isSl || se.Slice3 {
		return
	}
	id, isId := se.X.(*ast.Ident)
	if !isId || f.varOf(id) == nil || !isByteSlice(f.typ(se.X)) {
		return
	}
	return id, c.Args[1], true
}

// calledFunc resolves a call to a package-level function, or nil.
func (f *k2Fn) calledFunc(c *ast.CallExpr) *types.Func {
	var fn *types.Func
	switch v := c.Fun.(type) {
	case *ast.Ident:
		fn, _ = f.p.TypesInfo.Uses[v].(*types.Func)
	case *ast.SelectorExpr:
		if _, isSel := f.p.TypesInfo.Selections[v]; !isSel {
			fn, _ = f.p.TypesInfo.Uses[v.Sel].(*types.Func)
		}
	}
	if fn != nil {
		if sig, ok := fn.Type().(*types.Signature); ok && sig.Recv() != nil {
			return nil
		}
	}
	return fn
}

// ---- expressions -----------------------------------------------------------------------------

var k2BinOps = map[token.Token]string{
	token.ADD: "add", token.SUB: "sub", token.MUL: "mul", token.QUO: "quo", token.REM: "rem",
	token.AND: "band", token.OR: "bor", token.XOR: "xor", token.SHL: "shl", token.SHR: "shr",
	token.LSS: "lt", token.LEQ: "le", token.GTR: "gt", token.GEQ: "ge", token.EQL: "eq", token.NEQ: "ne",
}

// wrap reduces the result of an operation that can leave the range of an unsigned type.
// Signed types (`int`: lengths and counters here) are mathematical integers, as in expr.go.
func (f *k2Fn) wrap(t types.Type, s string) string {
	bits, unsigned, ok := bitsOf(t)
	if ok && unsigned && bits > 0 {
		return fmt.Sprintf("(.wrap %d %s)", bits, s)
	}
	return s
}

func isIntSlice(t types.Type) bool {
	s, ok := t.Underlying().(*types.Slice)
	return ok && isIntType(s.Elem()) && !isByteSlice(t)
}

func (f *k2Fn) binary(n ast.Node, op token.Token, resT types.Type, a, b string, opT types.Type) string {
	name, ok := k2BinOps[op]
	if !ok {
		return f.unknownE(n, "operator "+op.String())
	}
	if isStringType(opT) && (op == token.EQL || op == token.NEQ) {
		if op == token.EQL {
			return fmt.Sprintf("(.beq %s %s)", a, b)
		}
		return fmt.Sprintf("(.not (.beq %s %s))", a, b)
	}
	if !isIntType(opT) {
		return f.unknownE(n, "non-integer operands")
	}
	s := fmt.Sprintf("(.bin .%s %s %s)", name, a, b)
	switch op {
	case token.ADD, token.SUB, token.MUL, token.SHL:
		return f.wrap(resT, s)
	}
	return s
}

// errPair: `err` of a `v, err := f()` pair → the slot of v.
func (f *k2Fn) errPair(e ast.Expr) (string, bool) {
	id, ok := e.(*ast.Ident)
	if !ok {
		return "", false
	}
	if ev := f.varOf(id); ev != nil {
		if vv, ok := f.errOf[ev]; ok {
			return f.name(vv), true
		}
	}
	return "", false
}

func (f *k2Fn) expr(e ast.Expr) string {
	if tv, ok := f.p.TypesInfo.Types[e]; ok && tv.Value != nil {
		switch tv.Value.Kind() {
		case constant.Int:
			return intLit(tv.Value)
		case constant.String:
			return fmt.Sprintf("(.bytes %s)", bytesLit([]byte(constant.StringVal(tv.Value))))
		}
		return f.unknownE(e, "constant that is neither an integer nor a string")
	}
	switch v := e.(type) {
	case *ast.ParenExpr:
		return f.expr(v.X)
	case *ast.Ident:
		switch o := f.p.TypesInfo.ObjectOf(v).(type) {
		case *types.Nil:
			if isByteSlice(f.typ(v)) {
				return "(.bytes [])"
			}
			return f.unknownE(e, "nil of a type other than []byte")
		case *types.Var:
			if lv := f.varOf(v); lv != nil {
				if _, isC := f.closures[lv]; isC {
					return f.unknownE(e, "function value used other than by calling it")
				}
				if _, isE := f.errOf[lv]; isE || isNamed(lv.Type(), "", "error") || types.Identical(lv.Type(), types.Universe.Lookup("error").Type()) {
					return f.unknownE(e, "error value in expression position")
				}
				return fmt.Sprintf("(.var %s)", f.name(lv))
			}
			return f.global(v, o)
		}
		return f.unknownE(e, "identifier")
	case *ast.SelectorExpr:
		if id, ok := v.X.(*ast.Ident); ok {
			if _, isPkg := f.p.TypesInfo.Uses[id].(*types.PkgName); isPkg {
				if o, ok := f.p.TypesInfo.Uses[v.Sel].(*types.Var); ok {
					return f.global(v.Sel, o)
				}
			}
			if lv := f.varOf(id); lv != nil {
				if slot, ok := f.fieldSlots[lv.Name()+"."+v.Sel.Name]; ok {
					return fmt.Sprintf("(.var %s)", slot)
				}
			}
		}
		return f.unknownE(e, "selector")
	case *ast.BinaryExpr:
		switch v.Op {
		case token.LAND:
			return fmt.Sprintf("(.land %s %s)", f.expr(v.X), f.expr(v.Y))
		case token.LOR:
			return fmt.Sprintf("(.lor %s %s)", f.expr(v.X), f.expr(v.Y))
		case token.NEQ, token.EQL:
			// err != nil / err == nil for the error half of a pair
			if slot, ok := f.errPair(v.X); ok && isNilIdent(f.p.TypesInfo, v.Y) {
				if v.Op == token.NEQ {
					return fmt.Sprintf("(.isErr (.var %s))", slot)
				}
				return fmt.Sprintf("(.not (.isErr (.var %s)))", slot)
			}
		}
		return f.binary(e, v.Op, f.typ(e), f.expr(v.X), f.expr(v.Y), f.typ(v.X))
	case *ast.UnaryExpr:
		if v.Op == token.NOT {
			return fmt.Sprintf("(.not %s)", f.expr(v.X))
		}
		return f.unknownE(e, "unary operator")
	case *ast.IndexExpr:
		if t := f.typ(v.X); (isByteSlice(t) || isByteArray(t)) && isIntType(f.typ(v.Index)) {
			return fmt.Sprintf("(.index %s %s)", f.expr(v.X), f.expr(v.Index))
		}
		return f.unknownE(e, "index of a non-[]byte")
	case *ast.SliceExpr:
		if t := f.typ(v.X); !isByteSlice(t) && !isByteArray(t) {
			return f.unknownE(e, "slice of a non-[]byte")
		}
		x := f.expr(v.X)
		if v.Slice3 {
			return f.unknownE(e, "3-index slice")
		}
		lo, hi := "(.int 0)", fmt.Sprintf("(.len %s)", x)
		if v.Low != nil {
			lo = f.expr(v.Low)
		}
		if v.High != nil {
			hi = f.expr(v.High)
		}
		return fmt.Sprintf("(.slice %s %s %s)", x, lo, hi)
	case *ast.CompositeLit:
		if isByteSlice(f.typ(v)) || isByteArray(f.typ(v)) {
			if _, vals, ok := f.x.g.constInts(f.p.TypesInfo, v); ok {
				if at, isArr := f.typ(v).Underlying().(*types.Array); !isArr || int(at.Len()) == len(vals) {
					return fmt.Sprintf("(.bytes [%s])", strings.Join(vals, ", "))
				}
			}
		}
		return f.unknownE(e, "composite literal")
	case *ast.CallExpr:
		return f.callExpr(v)
	}
	return f.unknownE(e, "expression")
}

// global registers a package-level variable whose initialiser is a constant byte table.
func (f *k2Fn) global(at ast.Node, o *types.Var) string {
	if o.Pkg() == nil || !strings.HasPrefix(o.Pkg().Path(), modPath) {
		return f.unknownE(at, "variable of another module")
	}
	gname := o.Pkg().Name() + "." + o.Name()
	if _, ok := f.pr.globalV[gname]; ok {
		return fmt.Sprintf("(.global %s)", strLit(gname))
	}
	p := f.x.g.pkgs[key(o.Pkg().Path())]
	if p == nil {
		return f.unknownE(at, "package not loaded")
	}
	for _, file := range p.Syntax {
		for _, d := range file.Decls {
			gd, ok := d.(*ast.GenDecl)
			if !ok || gd.Tok != token.VAR {
				continue
			}
			for _, spec := range gd.Specs {
				vs := spec.(*ast.ValueSpec)
				for i, n := range vs.Names {
					if p.TypesInfo.Defs[n] != o || len(vs.Values) != len(vs.Names) {
						continue
					}
					val := vs.Values[i]
					var lit string
					if isByteSlice(o.Type()) || isByteArray(o.Type()) {
						if cl, ok := val.(*ast.CompositeLit); ok {
							if _, vals, ok := f.x.g.constInts(p.TypesInfo, cl); ok {
								if at, isArr := o.Type().Underlying().(*types.Array); !isArr || int(at.Len()) == len(vals) {
									lit = "[" + strings.Join(vals, ", ") + "]"
								}
							}
						}
						if call, ok := val.(*ast.CallExpr); ok && len(call.Args) == 1 {
							if tv, has := p.TypesInfo.Types[call.Args[0]]; has && tv.Value != nil && tv.Value.Kind() == constant.String {
								if ftv, ok := p.TypesInfo.Types[call.Fun]; ok && ftv.IsType() {
									lit = bytesLit([]byte(constant.StringVal(tv.Value)))
								}
							}
						}
					}
					if lit == "" {
						return f.unknownE(at, "package variable without a constant []byte initialiser")
					}
					if f.assignedAnywhere(p, o) {
						return f.unknownE(at, "package variable that is assigned to")
					}
					f.pr.globals = append(f.pr.globals, gname)
					f.pr.globalV[gname] = fmt.Sprintf(".bytes %s", lit)
					return fmt.Sprintf("(.global %s)", strLit(gname))
				}
			}
		}
	}
	return f.unknownE(at, "package variable declaration not found")
}

// assignedAnywhere: is the package-level variable (or an element of it) ever a store target, or is its
// address taken? Then its initialiser is not its value.
func (f *k2Fn) assignedAnywhere(p *packages.Package, o *types.Var) bool {
	hit := false
	base := func(e ast.Expr) *ast.Ident {
		for {
			switch v := e.(type) {
			case *ast.IndexExpr:
				e = v.X
			case *ast.ParenExpr:
				e = v.X
			case *ast.Ident:
				return v
			default:
				return nil
			}
		}
	}
	for _, file := range p.Syntax {
		ast.Inspect(file, func(n ast.Node) bool {
			switch v := n.(type) {
			case *ast.AssignStmt:
				for _, l := range v.Lhs {
					if id := base(l); id != nil && p.TypesInfo.ObjectOf(id) == o {
						hit = true
					}
				}
			case *ast.IncDecStmt:
				if id := base(v.X); id != nil && p.TypesInfo.ObjectOf(id) == o {
					hit = true
				}
			case *ast.UnaryExpr:
				if v.Op == token.AND {
					if id := base(v.X); id != nil && p.TypesInfo.ObjectOf(id) == o {
						hit = true
					}
				}
			}
			return !hit
		})
	}
	return hit
}

func (f *k2Fn) hashSrc(s string) {
	for _, h := range f.pr.hashSrcs {
		if h == s {
			return
		}
	}
	f.pr.hashSrcs = append(f.pr.hashSrcs, s)
}

// hoist emits `.call tmp name args` before the statement being translated and returns the temporary.
func (f *k2Fn) hoist(c *ast.CallExpr, name string, args []string) string {
	if f.noHoist {
		return f.unknownE(c, "call in a position that is evaluated repeatedly")
	}
	t := f.temp()
	f.lastTmp = t
	f.pre = append(f.pre, fmt.Sprintf(".call %s %s [%s]", t, strLit(name), strings.Join(args, ", ")))
	return fmt.Sprintf("(.var %s)", t)
}

// fullSliceOf matches `x[:len(x):len(x)]` (a slice of x with no spare capacity: appending to it copies).
func (f *k2Fn) fullSliceOf(e ast.Expr) (ast.Expr, bool) {
	se, ok := e.(*ast.SliceExpr)
	if !ok || !se.Slice3 || se.Low != nil {
		return nil, false
	}
	id, ok := se.X.(*ast.Ident)
	if !ok || f.varOf(id) == nil || !isByteSlice(f.typ(se.X)) {
		return nil, false
	}
	isLen := func(x ast.Expr) bool {
		c, ok := x.(*ast.CallExpr)
		if !ok || len(c.Args) != 1 {
			return false
		}
		b, ok := c.Fun.(*ast.Ident)
		if !ok || b.Name != "len" {
			return false
		}
		if _, isB := f.p.TypesInfo.Uses[b].(*types.Builtin); !isB {
			return false
		}
		a, ok := c.Args[0].(*ast.Ident)
		return ok && f.varOf(a) == f.varOf(id)
	}
	if !isLen(se.High) || !isLen(se.Max) {
		return nil, false
	}
	return se.X, true
}

func (f *k2Fn) callExpr(c *ast.CallExpr) string {
	// conversions
	if tv, ok := f.p.TypesInfo.Types[c.Fun]; ok && tv.IsType() && len(c.Args) == 1 {
		to, from := tv.Type, f.typ(c.Args[0])
		if isByteSlice(to) && isByteSlice(from) {
			return f.expr(c.Args[0])
		}
		if isByteSlice(to) && isStringType(from) {
			// []byte(strconv.FormatUint(…)): strings are their bytes
			if inner, ok := c.Args[0].(*ast.CallExpr); ok {
				if fn := f.calledFunc(inner); fn != nil && fn.Pkg() != nil && fn.Pkg().Path() == "strconv" && fn.Name() == "FormatUint" && len(inner.Args) == 2 {
					if isIntType(f.typ(inner.Args[0])) && isIntType(f.typ(inner.Args[1])) {
						return fmt.Sprintf("(.formatUint %s %s)", f.expr(inner.Args[0]), f.expr(inner.Args[1]))
					}
				}
				return f.unknownE(c, "conversion of a call result")
			}
			// []byte(s) for a string variable / constant: a string is its bytes
			return f.expr(c.Args[0])
		}
		if isStringType(to) && (isStringType(from) || isByteSlice(from)) {
			return f.expr(c.Args[0])
		}
		// []rune(s): UTF-8 decoding is a primitive
		if sl, ok := to.Underlying().(*types.Slice); ok && isStringType(from) {
			if b, ok := sl.Elem().Underlying().(*types.Basic); ok && b.Kind() == types.Int32 {
				f.x.prims["[]rune"] = "conversion []rune(string)"
				return f.hoist(c, "[]rune", []string{f.expr(c.Args[0])})
			}
		}
		if isIntType(to) && isIntType(from) {
			tb, tu, _ := bitsOf(to)
			fb, fu, _ := bitsOf(from)
			a := f.expr(c.Args[0])
			switch {
			case tu && fu && fb <= tb:
				return a
			case tu:
				return fmt.Sprintf("(.wrap %d %s)", tb, a)
			case !tu && fu && fb < tb, !tu && !fu && fb <= tb:
				return a
			}
		}
		return f.unknownE(c, "conversion")
	}
	// builtins, function literals bound to a local
	if id, ok := c.Fun.(*ast.Ident); ok {
		if _, isB := f.p.TypesInfo.Uses[id].(*types.Builtin); isB {
			switch id.Name {
			case "len":
				if len(c.Args) == 1 {
					if t := f.typ(c.Args[0]); isByteSlice(t) || isByteArray(t) || isIntSlice(t) || isStringType(t) {
						return fmt.Sprintf("(.len %s)", f.expr(c.Args[0]))
					}
				}
			case "make":
				if len(c.Args) >= 2 && isByteSlice(f.typ(c.Args[0])) {
					n := f.expr(c.Args[1])
					cp := n
					if len(c.Args) == 3 {
						cp = f.expr(c.Args[2])
					}
					return fmt.Sprintf("(.make %s %s)", n, cp)
				}
			case "append":
				if len(c.Args) == 2 && c.Ellipsis.IsValid() && isByteSlice(f.typ(c.Args[0])) && isByteSlice(f.typ(c.Args[1])) {
					return fmt.Sprintf("(.append %s %s)", f.expr(c.Args[0]), f.expr(c.Args[1]))
				}
				// append(x[:len(x):len(x)], b…) for constant bytes b: always a copy
				if base, ok := f.fullSliceOf(c.Args[0]); ok && !c.Ellipsis.IsValid() && len(c.Args) >= 2 {
					var bs []string
					for _, a := range c.Args[1:] {
						tv, has := f.p.TypesInfo.Types[a]
						if !has || tv.Value == nil || tv.Value.Kind() != constant.Int {
							return f.unknownE(c, "append of a non-constant element")
						}
						bs = append(bs, tv.Value.ExactString())
					}
					return fmt.Sprintf("(.append %s (.bytes [%s]))", f.expr(base), strings.Join(bs, ", "))
				}
			}
			return f.unknownE(c, "builtin")
		}
		if lv := f.varOf(id); lv != nil {
			if cl, ok := f.closures[lv]; ok {
				var args []string
				for _, cv := range cl.captured {
					args = append(args, fmt.Sprintf("(.var %s)", f.name(cv)))
				}
				for _, a := range c.Args {
					args = append(args, f.expr(a))
				}
				return f.hoist(c, cl.name, args)
			}
		}
	}
	// methods of hash.Hash objects
	if sel, ok := c.Fun.(*ast.SelectorExpr); ok {
		if s, ok := f.p.TypesInfo.Selections[sel]; ok && s.Kind() == types.MethodVal {
			if isNamed(f.typ(sel.X), "hash", "Hash") {
				if sel.Sel.Name == "Sum" && len(c.Args) == 1 {
					if isNilIdent(f.p.TypesInfo, c.Args[0]) {
						return fmt.Sprintf("(.sum %s)", f.expr(sel.X))
					}
					return f.unknownE(c, "Sum into an existing buffer")
				}
				return f.unknownE(c, "hash.Hash method in expression position")
			}
			if name, args, ok := f.primOf(c); ok {
				var as []string
				for _, a := range args {
					as = append(as, f.expr(a))
				}
				return f.hoist(c, name, as)
			}
			return f.unknownE(c, "method call")
		}
	}
	// functions
	fn := f.calledFunc(c)
	if fn == nil || fn.Pkg() == nil {
		return f.unknownE(c, "call")
	}
	sig := fn.Type().(*types.Signature)
	full := fn.Pkg().Path() + "." + fn.Name()
	if name, args, ok := f.primOf(c); ok {
		var as []string
		for _, a := range args {
			as = append(as, f.expr(a))
		}
		return f.hoist(c, name, as)
	}
	if full == "bytes.Repeat" && len(c.Args) == 2 {
		return fmt.Sprintf("(.repeat_ %s %s)", f.expr(c.Args[0]), f.expr(c.Args[1]))
	}
	if !strings.HasPrefix(fn.Pkg().Path(), modPath) {
		// a constructor of the standard library / x/crypto: func New() hash.Hash
		if fn.Name() == "New" && sig.Params().Len() == 0 && sig.Results().Len() == 1 && isNamed(sig.Results().At(0).Type(), "hash", "Hash") {
			f.hashSrc(fn.Pkg().Path() + ".New")
			return ".newHash"
		}
		return f.unknownE(c, "call of a function outside this module")
	}
	args, ok := f.callArgs(c, sig)
	if !ok {
		return f.unknownE(c, "arguments")
	}
	qual := fn.Pkg().Name() + "." + fn.Name()
	if prog, ok := k2Links[full]; ok {
		if _, has := f.pr.links[qual]; !has {
			f.pr.links[qual] = prog
			f.pr.lorder = append(f.pr.lorder, qual)
		}
		return f.hoist(c, qual, args)
	}
	// a function of this module: translate it, call it through a temporary
	if f.noHoist {
		return f.unknownE(c, "call in a position that is evaluated repeatedly")
	}
	callee := f.x.g.pkgs[key(fn.Pkg().Path())]
	if callee == nil {
		return f.unknownE(c, "package not loaded")
	}
	name := f.x.translate(callee, fn.Name())
	if name == "" {
		return f.unknownE(c, "function body not found")
	}
	f.pr.callees = append(f.pr.callees, name)
	return f.hoist(c, name, args)
}

// callArgs translates the arguments of a call to a translated or linked function.
func (f *k2Fn) callArgs(c *ast.CallExpr, sig *types.Signature) ([]string, bool) {
	if sig.Variadic() || len(c.Args) != sig.Params().Len() {
		return nil, false
	}
	var args []string
	for _, a := range c.Args {
		if isNamed(f.typ(a), "hash", "Hash") {
			f.x.g.failf("kdfir2: %s: hash object passed to a function (aliasing)", f.x.g.pos(a.Pos()))
		}
		args = append(args, f.expr(a))
	}
	return args, true
}

// ---- statements --------------------------------------------------------------------------------

// block translates a statement list; it returns the IR text (one statement per line, joined by `;;`)
// and the slots of the variables declared directly in the list.
func (f *k2Fn) block(list []ast.Stmt, ind string) (string, []string) {
	var out []string
	var decl []string
	for _, s := range list {
		lines, d := f.stmt(s, ind)
		comment := ind + "-- " + f.x.g.pos(s.Pos()) + ": " + firstLine(f.x.g.src(s))
		for i, l := range lines {
			if i == 0 {
				out = append(out, comment+"\n"+ind+l)
			} else {
				out = append(out, ind+l)
			}
		}
		decl = append(decl, d...)
	}
	if len(out) == 0 {
		return ind + ".skip", nil
	}
	return strings.Join(out, " ;;;\n"), decl
}

func natList(xs []string) string {
	return "[" + strings.Join(xs, ", ") + "]"
}

// nested renders a nested block as one parenthesised statement, scoped when it declares variables
// (temporaries included: they are allocated while the block is translated).
func (f *k2Fn) nested(list []ast.Stmt, ind string) string {
	first := len(f.pr.slotNames)
	body, decl := f.block(list, ind+"  ")
	decl = f.withTemps(decl, first)
	if len(decl) > 0 {
		return fmt.Sprintf("(.scoped %s (\n%s))", natList(decl), body)
	}
	return fmt.Sprintf("(\n%s)", body)
}

// withTemps adds the temporaries allocated since slot `first` to a list of declared slots.
func (f *k2Fn) withTemps(decl []string, first int) []string {
	have := map[string]bool{}
	for _, d := range decl {
		have[d] = true
	}
	if f.scopedTmp == nil {
		f.scopedTmp = map[string]bool{}
	}
	for i := first; i < len(f.pr.slotNames); i++ {
		if n := fmt.Sprintf("%d", i); f.pr.slotNames[i] == "(temporary)" && !have[n] && !f.scopedTmp[n] {
			decl = append(decl, n)
			f.scopedTmp[n] = true
		}
	}
	sort.Slice(decl, func(i, j int) bool {
		var a, b int
		fmt.Sscanf(decl[i], "%d", &a)
		fmt.Sscanf(decl[j], "%d", &b)
		return a < b
	})
	return decl
}

// flush returns the hoisted calls followed by the statement itself.
func (f *k2Fn) flush(s string) []string {
	out := append(f.pre, s)
	f.pre = nil
	return out
}

func (f *k2Fn) zero(t types.Type) (string, bool) {
	switch {
	case isIntType(t):
		return "(.int 0)", true
	case isByteSlice(t):
		return "(.bytes [])", true
	case isByteArray(t):
		n := t.Underlying().(*types.Array).Len()
		return fmt.Sprintf("(.make (.int %d) (.int %d))", n, n), true
	}
	return "", false
}

// assignTo translates `lhs (:)= rhs` for one target.
func (f *k2Fn) assignTo(n ast.Node, lhs ast.Expr, rhs ast.Expr, rhsText string, define bool) (string, []string) {
	switch l := lhs.(type) {
	case *ast.Ident:
		if l.Name == "_" {
			return f.unknownS(n, "blank assignment"), nil
		}
		v := f.varOf(l)
		if v == nil {
			return f.unknownS(n, "assignment to a non-local"), nil
		}
		if f.captured[v] {
			f.x.g.failf("kdfir2: %s: a function literal assigns to a captured variable", f.x.g.pos(n.Pos()))
		}
		if rhs != nil && isNamed(v.Type(), "hash", "Hash") {
			r := rhs
			for {
				pe, ok := r.(*ast.ParenExpr)
				if !ok {
					break
				}
				r = pe.X
			}
			if _, isCall := r.(*ast.CallExpr); !isCall {
				f.x.g.failf("kdfir2: %s: hash object assigned from something other than a call (aliasing)", f.x.g.pos(n.Pos()))
			}
		}
		// `x := f(…)`: the hoisted call writes to x directly instead of going through a temporary
		direct := ""
		if k := len(f.pre); k > 0 && f.lastTmp != "" && rhsText == fmt.Sprintf("(.var %s)", f.lastTmp) &&
			strings.HasPrefix(f.pre[k-1], fmt.Sprintf(".call %s ", f.lastTmp)) {
			_, known := f.names[v]
			if known || f.dropTemp(f.lastTmp) {
				direct = strings.TrimPrefix(f.pre[k-1], fmt.Sprintf(".call %s ", f.lastTmp))
				if known {
					f.dropTemp(f.lastTmp) // only possible when nothing was allocated since; otherwise the slot stays unused
				}
				f.pre = f.pre[:k-1]
				f.lastTmp = ""
			}
		}
		var decl []string
		if define && f.p.TypesInfo.Defs[l] != nil {
			decl = []string{f.name(v)}
		}
		if direct != "" {
			return fmt.Sprintf(".call %s ", f.name(v)) + direct, decl
		}
		return fmt.Sprintf(".assign %s %s", f.name(v), rhsText), decl
	case *ast.IndexExpr:
		if id, ok := l.X.(*ast.Ident); ok && (isByteSlice(f.typ(l.X)) || isByteArray(f.typ(l.X))) && isIntType(f.typ(l.Index)) {
			if v := f.varOf(id); v != nil {
				return fmt.Sprintf(".setIndex %s %s %s", f.name(v), f.expr(l.Index), rhsText), nil
			}
		}
	}
	return f.unknownS(n, "assignment target"), nil
}

var k2OpAssign = map[token.Token]token.Token{
	token.ADD_ASSIGN: token.ADD, token.SUB_ASSIGN: token.SUB, token.MUL_ASSIGN: token.MUL, token.QUO_ASSIGN: token.QUO,
	token.REM_ASSIGN: token.REM, token.AND_ASSIGN: token.AND, token.OR_ASSIGN: token.OR, token.XOR_ASSIGN: token.XOR,
	token.SHL_ASSIGN: token.SHL, token.SHR_ASSIGN: token.SHR,
}

func (f *k2Fn) stmt(s ast.Stmt, ind string) ([]string, []string) {
	switch v := s.(type) {
	case *ast.EmptyStmt:
		return []string{".skip"}, nil
	case *ast.DeclStmt:
		gd, ok := v.Decl.(*ast.GenDecl)
		if !ok || gd.Tok != token.VAR {
			return []string{f.unknownS(s, "declaration")}, nil
		}
		var out, decl []string
		for _, spec := range gd.Specs {
			vs := spec.(*ast.ValueSpec)
			if len(vs.Values) != 0 && len(vs.Values) != len(vs.Names) {
				return []string{f.unknownS(s, "declaration")}, nil
			}
			for i, n := range vs.Names {
				lv := f.varOf(n)
				if lv == nil || n.Name == "_" {
					return []string{f.unknownS(s, "declaration")}, nil
				}
				var rhs string
				var rhsE ast.Expr
				if len(vs.Values) > 0 {
					rhsE = vs.Values[i]
					rhs = f.expr(rhsE)
				} else {
					z, ok := f.zero(lv.Type())
					if !ok {
						return []string{f.unknownS(s, "zero value")}, nil
					}
					rhs = z
				}
				st, d := f.assignTo(s, n, rhsE, rhs, true)
				out = append(out, f.flush(st)...)
				decl = append(decl, d...)
			}
		}
		return out, decl
	case *ast.AssignStmt:
		// bit := func(…) … { … }: lambda-lifted, nothing happens here
		if v.Tok == token.DEFINE && len(v.Lhs) == 1 && len(v.Rhs) == 1 {
			if lit, ok := v.Rhs[0].(*ast.FuncLit); ok {
				if id, ok := v.Lhs[0].(*ast.Ident); ok {
					if lv := f.varOf(id); lv != nil {
						if f.assignedLater(lv, v) {
							return []string{f.unknownS(s, "function variable that is reassigned")}, nil
						}
						f.closures[lv] = f.lift(lv, lit)
						return []string{".skip"}, nil
					}
				}
			}
		}
		// v, err := f(…): the pair is one value
		if len(v.Lhs) == 2 && len(v.Rhs) == 1 && v.Tok == token.DEFINE {
			call, isCall := v.Rhs[0].(*ast.CallExpr)
			vid, ok1 := v.Lhs[0].(*ast.Ident)
			eid, ok2 := v.Lhs[1].(*ast.Ident)
			if isCall && ok1 && ok2 && vid.Name != "_" {
				vv := f.varOf(vid)
				if tup, ok := f.typ(call).(*types.Tuple); ok && tup.Len() == 2 && vv != nil &&
					types.Identical(tup.At(1).Type(), types.Universe.Lookup("error").Type()) && f.p.TypesInfo.Defs[vid] != nil {
					if eid.Name != "_" {
						ev := f.varOf(eid)
						if ev == nil || f.p.TypesInfo.Defs[eid] == nil {
							return []string{f.unknownS(s, "error variable that is not declared here")}, nil
						}
						f.errOf[ev] = vv
					} else {
						// the error is dropped: a failing call leaves an error value in v, on which every later use is stuck
					}
					rhs := f.callExpr(call)
					st, d := f.assignTo(s, vid, call, rhs, true)
					return f.flush(st), d
				}
			}
			return []string{f.unknownS(s, "assignment")}, nil
		}
		if len(v.Lhs) != len(v.Rhs) {
			return []string{f.unknownS(s, "assignment")}, nil
		}
		switch v.Tok {
		case token.DEFINE, token.ASSIGN:
			if len(v.Lhs) > 1 {
				// a parallel assignment evaluates every right-hand side first: only accepted when no
				// right-hand side mentions a target
				targets := map[*types.Var]bool{}
				for _, l := range v.Lhs {
					if id, ok := l.(*ast.Ident); ok {
						if lv := f.varOf(id); lv != nil {
							targets[lv] = true
						}
					} else {
						return []string{f.unknownS(s, "parallel assignment")}, nil
					}
				}
				clash := false
				for _, r := range v.Rhs {
					ast.Inspect(r, func(n ast.Node) bool {
						if id, ok := n.(*ast.Ident); ok {
							if lv := f.varOf(id); lv != nil && targets[lv] {
								clash = true
							}
						}
						return true
					})
				}
				if clash {
					return []string{f.unknownS(s, "parallel assignment reading its own targets")}, nil
				}
			}
			var out, decl []string
			for i := range v.Lhs {
				rhs := f.expr(v.Rhs[i])
				st, d := f.assignTo(s, v.Lhs[i], v.Rhs[i], rhs, v.Tok == token.DEFINE)
				out = append(out, f.flush(st)...)
				decl = append(decl, d...)
			}
			return out, decl
		default:
			// x op= e
			if len(v.Lhs) != 1 {
				return []string{f.unknownS(s, "assignment")}, nil
			}
			op, ok := k2OpAssign[v.Tok]
			id, isId := v.Lhs[0].(*ast.Ident)
			if !ok || !isId || f.varOf(id) == nil {
				return []string{f.unknownS(s, "compound assignment")}, nil
			}
			t := f.typ(id)
			rhs := f.binary(s, op, t, f.expr(id), f.expr(v.Rhs[0]), t)
			st, _ := f.assignTo(s, id, nil, rhs, false)
			return f.flush(st), nil
		}
	case *ast.IncDecStmt:
		id, isId := v.X.(*ast.Ident)
		if !isId || f.varOf(id) == nil || !isIntType(f.typ(id)) {
			return []string{f.unknownS(s, "inc/dec")}, nil
		}
		op := token.ADD
		if v.Tok == token.DEC {
			op = token.SUB
		}
		t := f.typ(id)
		rhs := f.binary(s, op, t, f.expr(id), "(.int 1)", t)
		st, _ := f.assignTo(s, id, nil, rhs, false)
		return f.flush(st), nil
	case *ast.ExprStmt:
		c, ok := v.X.(*ast.CallExpr)
		if !ok {
			return []string{f.unknownS(s, "expression statement")}, nil
		}
		if x, off, width, big, ok := f.putUintCall(c); ok {
			o := "(.int 0)"
			if off != nil {
				o = f.expr(off)
			}
			val := f.expr(c.Args[1])
			be := "false"
			if big {
				be = "true"
			}
			return f.flush(fmt.Sprintf(".putUint %s %s %d %s %s", f.name(f.varOf(x)), o, width, be, val)), nil
		}
		if dst, src, ok := f.cipherEncryptCall(c); ok {
			// c.Encrypt(x[lo:hi], src): the primitive maps (cipher, src) to the 8 bytes written to x[lo:]
			sel := c.Fun.(*ast.SelectorExpr)
			se := c.Args[0].(*ast.SliceExpr)
			x := f.expr(se.X)
			lo, hi := "(.int 0)", fmt.Sprintf("(.len %s)", x)
			if se.Low != nil {
				lo = f.expr(se.Low)
			}
			if se.High != nil {
				hi = f.expr(se.High)
			}
			f.x.prims["blowfish.Cipher.Encrypt"] = "method Encrypt of *golang.org/x/crypto/blowfish.Cipher, as a function (cipher state, src) -> the 8 bytes it writes to dst"
			t := f.hoist(c, "blowfish.Cipher.Encrypt", []string{f.expr(sel.X), f.expr(src)})
			return f.flush(fmt.Sprintf(".setSlice %s %s %s %s", f.name(f.varOf(dst)), lo, hi, t)), nil
		}
		if fn := f.calledFunc(c); fn != nil && fn.Pkg() != nil && fn.Pkg().Path() == "golang.org/x/crypto/blowfish" && fn.Name() == "ExpandKey" && len(c.Args) == 2 {
			// blowfish.ExpandKey(key, c) updates the cipher state *c in place: the primitive maps (key, state) to the new state
			if id, ok := c.Args[1].(*ast.Ident); ok {
				if cv := f.varOf(id); cv != nil {
					f.x.prims["blowfish.ExpandKey"] = "func golang.org/x/crypto/blowfish.ExpandKey, as a function (key, cipher state) -> new cipher state"
					return f.flush(fmt.Sprintf(".call %s %s [%s, %s]", f.name(cv), strLit("blowfish.ExpandKey"), f.expr(c.Args[0]), f.expr(c.Args[1]))), nil
				}
			}
		}
		if sel, ok := c.Fun.(*ast.SelectorExpr); ok && sel.Sel.Name == "Reset" && len(c.Args) == 0 && isNamed(f.typ(sel.X), "hash", "Hash") {
			if id, ok := sel.X.(*ast.Ident); ok {
				if hv := f.varOf(id); hv != nil {
					return []string{fmt.Sprintf(".reset %s", f.name(hv))}, nil
				}
			}
		}
		if sel, ok := c.Fun.(*ast.SelectorExpr); ok && sel.Sel.Name == "Write" && len(c.Args) == 1 && isNamed(f.typ(sel.X), "hash", "Hash") {
			if id, ok := sel.X.(*ast.Ident); ok {
				if hv := f.varOf(id); hv != nil {
					arg := f.expr(c.Args[0])
					return f.flush(fmt.Sprintf(".write %s %s", f.name(hv), arg)), nil
				}
			}
		}
		return []string{f.unknownS(s, "expression statement")}, nil
	case *ast.BlockStmt:
		return []string{f.nested(v.List, ind)}, nil
	case *ast.IfStmt:
		var out []string
		var scopeVars []string
		first := len(f.pr.slotNames)
		if v.Init != nil {
			lines, d := f.stmt(v.Init, ind)
			out = append(out, lines...)
			scopeVars = d
		}
		cond := f.expr(v.Cond)
		pre := f.pre
		f.pre = nil
		tempsEnd := len(f.pr.slotNames)
		els := ".skip"
		switch e := v.Else.(type) {
		case nil:
		case *ast.BlockStmt:
			els = f.nested(e.List, ind)
		case *ast.IfStmt:
			lines, _ := f.stmt(e, ind+"  ")
			els = "(" + strings.Join(lines, " ;;;\n"+ind+"  ") + ")"
		default:
			els = "(" + f.unknownS(e, "else") + ")"
		}
		ite := fmt.Sprintf(".ite %s %s %s", cond, f.nested(v.Body.List, ind), els)
		out = append(out, pre...)
		out = append(out, ite)
		if v.Init != nil {
			// the init statement's variables (and the temporaries of init and condition) end with the if
			var tmps []string
			if f.scopedTmp == nil {
				f.scopedTmp = map[string]bool{}
			}
			for i := first; i < tempsEnd; i++ {
				if n := fmt.Sprintf("%d", i); f.pr.slotNames[i] == "(temporary)" && !f.scopedTmp[n] {
					tmps = append(tmps, n)
					f.scopedTmp[n] = true
				}
			}
			scopeVars = append(scopeVars, tmps...)
		}
		if len(scopeVars) > 0 {
			return []string{fmt.Sprintf(".scoped %s (%s)", natList(scopeVars), strings.Join(out, " ;;;\n"+ind+"  "))}, nil
		}
		return out, nil
	case *ast.SwitchStmt:
		return f.switchStmt(v, ind), nil
	case *ast.ForStmt:
		return f.forStmt(v, ind), nil
	case *ast.RangeStmt:
		return f.rangeStmt(v, ind), nil
	case *ast.ReturnStmt:
		return f.returnStmt(v), nil
	}
	return []string{f.unknownS(s, "statement")}, nil
}

// assignedLater: is the variable assigned anywhere other than in its defining statement?
func (f *k2Fn) assignedLater(lv *types.Var, def *ast.AssignStmt) bool {
	hit := false
	var body *ast.BlockStmt
	if f.fd != nil {
		body = f.fd.Body
	}
	if body == nil {
		return true
	}
	ast.Inspect(body, func(n ast.Node) bool {
		switch a := n.(type) {
		case *ast.AssignStmt:
			if a == def {
				return true
			}
			for _, l := range a.Lhs {
				if id, ok := l.(*ast.Ident); ok && f.varOf(id) == lv {
					hit = true
				}
			}
		case *ast.UnaryExpr:
			if id, ok := a.X.(*ast.Ident); ok && a.Op == token.AND && f.varOf(id) == lv {
				hit = true
			}
		}
		return !hit
	})
	return hit
}

func (f *k2Fn) switchStmt(v *ast.SwitchStmt, ind string) []string {
	if v.Init != nil || v.Tag == nil {
		return []string{f.unknownS(v, "switch with init or without tag")}
	}
	tagId, ok := v.Tag.(*ast.Ident)
	if !ok || f.varOf(tagId) == nil || !isIntType(f.typ(tagId)) {
		return []string{f.unknownS(v, "switch tag that is not an integer variable")}
	}
	tag := f.expr(tagId)
	type clause struct{ cond, body string }
	var clauses []clause
	def := ".skip"
	for _, cs := range v.Body.List {
		cc := cs.(*ast.CaseClause)
		for _, st := range cc.Body {
			if br, ok := st.(*ast.BranchStmt); ok && br.Tok == token.FALLTHROUGH {
				return []string{f.unknownS(v, "fallthrough")}
			}
			bad := false
			ast.Inspect(st, func(n ast.Node) bool {
				if br, ok := n.(*ast.BranchStmt); ok && br.Tok == token.BREAK {
					bad = true
				}
				return true
			})
			if bad {
				return []string{f.unknownS(v, "break in switch")}
			}
		}
		body := f.nested(cc.Body, ind)
		if cc.List == nil {
			def = body
			continue
		}
		cond := ""
		for i := len(cc.List) - 1; i >= 0; i-- {
			eq := f.binary(cc.List[i], token.EQL, types.Typ[types.Bool], tag, f.expr(cc.List[i]), f.typ(tagId))
			if cond == "" {
				cond = eq
			} else {
				cond = fmt.Sprintf("(.lor %s %s)", eq, cond)
			}
		}
		clauses = append(clauses, clause{cond, body})
	}
	s := def
	for i := len(clauses) - 1; i >= 0; i-- {
		if i == 0 {
			s = fmt.Sprintf(".ite %s %s %s", clauses[i].cond, clauses[i].body, parenS(s))
		} else {
			s = fmt.Sprintf("(.ite %s %s %s)", clauses[i].cond, clauses[i].body, parenS(s))
		}
	}
	if len(clauses) == 0 {
		return []string{strings.TrimSuffix(strings.TrimPrefix(s, "("), ")")}
	}
	return []string{s}
}

// loopFuel derives a bound on the number of iterations from the loop header:
//
//	for …; i > e; i -= c / i-- / i >>= c   →  (i − e) + 1
//	for …; i < e; i++ / i += c             →  (e − i) + 1
//
// (for a conjunction `A && B`, from the first conjunct of that shape), evaluated once after the init
// statement. The interpreter does not trust it (exceeding it is `stuck`).
func (f *k2Fn) loopFuel(v *ast.ForStmt) string {
	var conj []ast.Expr
	var split func(e ast.Expr)
	split = func(e ast.Expr) {
		if pe, ok := e.(*ast.ParenExpr); ok {
			split(pe.X)
			return
		}
		if be, ok := e.(*ast.BinaryExpr); ok && be.Op == token.LAND {
			split(be.X)
			split(be.Y)
			return
		}
		conj = append(conj, e)
	}
	split(v.Cond)
	for _, c := range conj {
		if s, ok := f.fuelOf(v, c); ok {
			return s
		}
	}
	return f.unknownE(v, "no loop bound: unrecognised condition / progress")
}

func (f *k2Fn) fuelOf(v *ast.ForStmt, cond ast.Expr) (string, bool) {
	be, ok := cond.(*ast.BinaryExpr)
	if !ok {
		return "", false
	}
	id, ok := be.X.(*ast.Ident)
	lv := (*types.Var)(nil)
	if ok {
		lv = f.varOf(id)
	}
	if lv == nil || !isIntType(lv.Type()) {
		return "", false
	}
	down, up := false, false
	switch p := v.Post.(type) {
	case *ast.IncDecStmt:
		if pid, ok := p.X.(*ast.Ident); ok && f.varOf(pid) == lv {
			up, down = p.Tok == token.INC, p.Tok == token.DEC
		}
	case *ast.AssignStmt:
		if len(p.Lhs) == 1 && len(p.Rhs) == 1 {
			if pid, ok := p.Lhs[0].(*ast.Ident); ok && f.varOf(pid) == lv {
				switch p.Tok {
				case token.ADD_ASSIGN:
					up = true
				case token.SUB_ASSIGN, token.SHR_ASSIGN:
					down = true
				}
			}
		}
	}
	i, e := f.expr(id), f.expr(be.Y)
	switch {
	case down && (be.Op == token.GTR || be.Op == token.GEQ):
		return fmt.Sprintf("(.bin .add (.bin .sub %s %s) (.int 1))", i, e), true
	case up && (be.Op == token.LSS || be.Op == token.LEQ):
		return fmt.Sprintf("(.bin .add (.bin .sub %s %s) (.int 1))", e, i), true
	}
	return "", false
}

func (f *k2Fn) forStmt(v *ast.ForStmt, ind string) []string {
	if v.Cond == nil || hasBranch(v.Body) {
		return []string{f.unknownS(v, "loop without condition or with break/continue/goto")}
	}
	var out, scopeVars []string
	if v.Init != nil {
		lines, d := f.stmt(v.Init, ind)
		out = append(out, lines...)
		scopeVars = d
	}
	saved := f.noHoist
	f.noHoist = true
	fuel := f.loopFuel(v)
	cond := f.expr(v.Cond)
	post := ".skip"
	if v.Post != nil {
		lines, _ := f.stmt(v.Post, ind)
		if len(lines) != 1 {
			post = f.unknownS(v.Post, "post statement")
		} else {
			post = lines[0]
		}
	}
	f.noHoist = saved
	body := f.nested(v.Body.List, ind+"  ")
	loop := fmt.Sprintf(".for_ %s\n%s  %s\n%s  (%s)\n%s  %s", fuel, ind, cond, ind, post, ind, body)
	out = append(out, loop)
	if len(scopeVars) > 0 {
		return []string{fmt.Sprintf(".scoped %s (%s)", natList(scopeVars), strings.Join(out, " ;;;\n"+ind+"  "))}
	}
	return out
}

func (f *k2Fn) rangeStmt(v *ast.RangeStmt, ind string) []string {
	if v.Tok != token.DEFINE || hasBranch(v.Body) {
		return []string{f.unknownS(v, "range without := or with break/continue/goto")}
	}
	t := f.typ(v.X)
	if !isByteSlice(t) && !isIntSlice(t) {
		return []string{f.unknownS(v, "range over something other than []byte / a slice of integers")}
	}
	// the collection is evaluated once and must not change while it is ranged over
	xid, ok := v.X.(*ast.Ident)
	if !ok || f.varOf(xid) == nil || f.stored[f.varOf(xid)] || f.assignedIn(f.varOf(xid), v.Body) {
		return []string{f.unknownS(v, "range over something other than an unmodified variable")}
	}
	opt := func(e ast.Expr) string {
		id, ok := e.(*ast.Ident)
		if e == nil || (ok && id.Name == "_") {
			return "none"
		}
		if ok {
			if lv := f.varOf(id); lv != nil {
				return fmt.Sprintf("(some %s)", f.name(lv))
			}
		}
		return "(some 0)"
	}
	k, val := opt(v.Key), opt(v.Value)
	body := f.nested(v.Body.List, ind)
	// the interpreter scopes the range variables to each iteration (Go 1.22 semantics; the difference to
	// per-loop variables is unobservable without closures or pointers, which are outside the fragment)
	return []string{fmt.Sprintf(".forRange %s %s %s %s", k, val, f.expr(v.X), body)}
}

// assignedIn: is the variable assigned inside the block?
func (f *k2Fn) assignedIn(lv *types.Var, body *ast.BlockStmt) bool {
	hit := false
	ast.Inspect(body, func(n ast.Node) bool {
		if a, ok := n.(*ast.AssignStmt); ok {
			for _, l := range a.Lhs {
				if id, ok := l.(*ast.Ident); ok && f.varOf(id) == lv {
					hit = true
				}
			}
		}
		return !hit
	})
	return hit
}

func (f *k2Fn) returnStmt(v *ast.ReturnStmt) []string {
	res := f.ftype.Results
	nres := 0
	if res != nil {
		nres = res.NumFields()
	}
	isNil := func(e ast.Expr) bool { return isNilIdent(f.p.TypesInfo, e) }
	switch {
	case nres == 1 && len(v.Results) == 1:
		return f.flush(fmt.Sprintf(".ret %s", f.expr(v.Results[0])))
	case nres == 2 && len(v.Results) == 1:
		// return g(…) for a g that returns the same (value, error) pair: one IR value
		if call, ok := v.Results[0].(*ast.CallExpr); ok {
			if tup, ok := f.typ(call).(*types.Tuple); ok && tup.Len() == 2 && types.Identical(tup.At(1).Type(), types.Universe.Lookup("error").Type()) {
				return f.flush(fmt.Sprintf(".ret %s", f.callExpr(call)))
			}
		}
	case nres == 2 && len(v.Results) == 2 && isNil(v.Results[1]):
		return f.flush(fmt.Sprintf(".ret %s", f.expr(v.Results[0])))
	case nres == 2 && len(v.Results) == 2 && isNil(v.Results[0]):
		// return nil, err   (the error half of a pair)
		if slot, ok := f.errPair(v.Results[1]); ok {
			return []string{fmt.Sprintf(".ret (.var %s)", slot)}
		}
		// return nil, errors.New("constant")  /  errors.New("constant" + err.Error())
		if c, ok := v.Results[1].(*ast.CallExpr); ok && len(c.Args) == 1 {
			if fn := f.calledFunc(c); fn != nil && fn.Pkg() != nil && fn.Pkg().Path() == "errors" && fn.Name() == "New" {
				if tv, ok := f.p.TypesInfo.Types[c.Args[0]]; ok && tv.Value != nil && tv.Value.Kind() == constant.String {
					return []string{fmt.Sprintf(".retErr %s", strLit(constant.StringVal(tv.Value)))}
				}
				if be, ok := c.Args[0].(*ast.BinaryExpr); ok && be.Op == token.ADD {
					tv, has := f.p.TypesInfo.Types[be.X]
					if ec, ok := be.Y.(*ast.CallExpr); ok && has && tv.Value != nil && tv.Value.Kind() == constant.String && len(ec.Args) == 0 {
						if sel, ok := ec.Fun.(*ast.SelectorExpr); ok && sel.Sel.Name == "Error" {
							if slot, ok := f.errPair(sel.X); ok {
								return []string{fmt.Sprintf(".ret (.errPrefix %s (.var %s))", strLit(constant.StringVal(tv.Value)), slot)}
							}
						}
					}
				}
			}
		}
	}
	return []string{f.unknownS(v, "return")}
}
