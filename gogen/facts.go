package main

import (
	"fmt"
	"go/ast"
	"go/constant"
	"go/token"
	"go/types"
	"sort"
	"strconv"
	"strings"
)

// genFacts emits structural facts: init-time registrations, documented prefix constants,
// imports of random sources, writes to package-level variables outside init.
func (g *Gen) genFacts() {
	var sb strings.Builder
	sb.WriteString(header("Structural facts about the program."))
	sb.WriteString("import GoCrypt.Base.Bytes\n\nnamespace GoCrypt.Gen.Facts\n\n")

	// registrations: (package, constant name, prefix value, handler, inInit)
	var regs, prefixes []string
	for _, k := range sortedKeys(g.pkgs) {
		p := g.pkgs[k]
		for _, f := range p.Syntax {
			for _, d := range f.Decls {
				fd, ok := d.(*ast.FuncDecl)
				if !ok || fd.Body == nil {
					continue
				}
				ast.Inspect(fd.Body, func(n ast.Node) bool {
					call, ok := n.(*ast.CallExpr)
					if !ok {
						return true
					}
					sel, ok := call.Fun.(*ast.SelectorExpr)
					if !ok || sel.Sel.Name != "RegisterHash" {
						return true
					}
					fn, ok := p.TypesInfo.Uses[sel.Sel].(*types.Func)
					if !ok || fn.Pkg().Path() != modPath {
						return true
					}
					val, okc := g.constStrInfo(p.TypesInfo, call.Args[0])
					cname := g.src(call.Args[0])
					h := g.src(call.Args[1])
					if !okc {
						regs = append(regs, fmt.Sprintf("  (%s, %s, none, %s, %v)", strLit(k), strLit(cname), strLit(h), fd.Name.Name == "init" && fd.Recv == nil))
					} else {
						regs = append(regs, fmt.Sprintf("  (%s, %s, some %s, %s, %v)", strLit(k), strLit(cname), bytesLit([]byte(val)), strLit(h), fd.Name.Name == "init" && fd.Recv == nil))
					}
					return true
				})
			}
		}
		// documented prefixes: exported string constants named Prefix*
		scope := p.Types.Scope()
		names := scope.Names()
		sort.Strings(names)
		for _, n := range names {
			c, ok := scope.Lookup(n).(*types.Const)
			if !ok || !c.Exported() || !strings.HasPrefix(n, "Prefix") || c.Val().Kind() != constant.String {
				continue
			}
			isScheme := false
			for _, s := range schemePkgs {
				if s == k {
					isScheme = true
				}
			}
			if isScheme {
				prefixes = append(prefixes, fmt.Sprintf("  (%s, %s, %s)", strLit(k), strLit(n), bytesLit([]byte(constant.StringVal(c.Val())))))
			}
		}
	}
	sb.WriteString("/-- (package, argument expression, prefix value if constant, handler expression, call is inside `init`). -/\n")
	fmt.Fprintf(&sb, "def registrations : List (String × String × Option Bytes × String × Bool) := [\n%s\n]\n\n", strings.Join(regs, ",\n"))
	sb.WriteString("/-- Exported `Prefix*` string constants of the scheme packages: (package, name, value). -/\n")
	fmt.Fprintf(&sb, "def prefixConsts : List (String × String × Bytes) := [\n%s\n]\n\n", strings.Join(prefixes, ",\n"))

	// rand imports in non-test files
	var rands []string
	for _, k := range sortedKeys(g.pkgs) {
		p := g.pkgs[k]
		for _, f := range p.Syntax {
			for _, im := range f.Imports {
				path, _ := strconv.Unquote(im.Path.Value)
				if path == "rand" || strings.HasSuffix(path, "/rand") || strings.Contains(path, "math/rand") {
					rands = append(rands, fmt.Sprintf("  (%s, %s)", strLit(g.pos(im.Pos())), strLit(path)))
				}
			}
		}
	}
	sb.WriteString("/-- Every import of a package named `rand` in non-test files: (site, import path). -/\n")
	fmt.Fprintf(&sb, "def randImports : List (String × String) := [\n%s\n]\n\n", strings.Join(rands, ",\n"))

	// writes to package-level variables outside init and outside initialisers
	var writes []string
	for _, k := range sortedKeys(g.pkgs) {
		p := g.pkgs[k]
		isPkgVar := func(e ast.Expr) (string, bool) {
			for {
				switch x := e.(type) {
				case *ast.IndexExpr:
					e = x.X
					continue
				case *ast.SelectorExpr:
					if id, ok := x.X.(*ast.Ident); ok {
						if _, isPkg := p.TypesInfo.Uses[id].(*types.PkgName); isPkg {
							e = x.Sel
							continue
						}
					}
					e = x.X
					continue
				case *ast.StarExpr:
					e = x.X
					continue
				case *ast.ParenExpr:
					e = x.X
					continue
				case *ast.SliceExpr:
					e = x.X
					continue
				}
				break
			}
			id, ok := e.(*ast.Ident)
			if !ok {
				return "", false
			}
			v, ok := p.TypesInfo.Uses[id].(*types.Var)
			if !ok || v.Pkg() == nil || v.Parent() != v.Pkg().Scope() {
				return "", false
			}
			return v.Pkg().Name() + "." + v.Name(), true
		}
		for _, f := range p.Syntax {
			for _, d := range f.Decls {
				fd, ok := d.(*ast.FuncDecl)
				if !ok || fd.Body == nil || (fd.Name.Name == "init" && fd.Recv == nil) {
					continue
				}
				ast.Inspect(fd.Body, func(n ast.Node) bool {
					switch s := n.(type) {
					case *ast.AssignStmt:
						if s.Tok == token.DEFINE {
							return true
						}
						for _, l := range s.Lhs {
							if name, ok := isPkgVar(l); ok {
								writes = append(writes, fmt.Sprintf("  (%s, %s, %s)", strLit(g.pos(s.Pos())), strLit(fd.Name.Name), strLit(name)))
							}
						}
					case *ast.IncDecStmt:
						if name, ok := isPkgVar(s.X); ok {
							writes = append(writes, fmt.Sprintf("  (%s, %s, %s)", strLit(g.pos(s.Pos())), strLit(fd.Name.Name), strLit(name)))
						}
					case *ast.UnaryExpr:
						// address-of a package variable escapes it to arbitrary writers
						if s.Op == token.AND {
							if name, ok := isPkgVar(s.X); ok {
								writes = append(writes, fmt.Sprintf("  (%s, %s, %s)", strLit(g.pos(s.Pos())), strLit(fd.Name.Name), strLit("&"+name)))
							}
						}
					}
					return true
				})
			}
		}
	}
	sb.WriteString("/-- Assignments to (or address-of) package-level variables outside `init`: (site, function, variable). -/\n")
	fmt.Fprintf(&sb, "def lateGlobalWrites : List (String × String × String) := [\n%s\n]\n\n", strings.Join(writes, ",\n"))
	// exported encodings: package-level vars initialised as <pkg>.NewEncoding(<const>).WithPadding(<const>)
	var encs []string
	for _, k := range sortedKeys(g.pkgs) {
		p := g.pkgs[k]
		for _, f := range p.Syntax {
			for _, d := range f.Decls {
				gd, ok := d.(*ast.GenDecl)
				if !ok || gd.Tok != token.VAR {
					continue
				}
				for _, spec := range gd.Specs {
					vs := spec.(*ast.ValueSpec)
					if len(vs.Names) != 1 || len(vs.Values) != 1 {
						continue
					}
					outer, ok := vs.Values[0].(*ast.CallExpr)
					if !ok || len(outer.Args) != 1 {
						continue
					}
					osel, ok := outer.Fun.(*ast.SelectorExpr)
					if !ok || osel.Sel.Name != "WithPadding" {
						continue
					}
					inner, ok := osel.X.(*ast.CallExpr)
					if !ok || len(inner.Args) != 1 {
						continue
					}
					isel, ok := inner.Fun.(*ast.SelectorExpr)
					if !ok || isel.Sel.Name != "NewEncoding" {
						continue
					}
					fn, ok := p.TypesInfo.Uses[isel.Sel].(*types.Func)
					if !ok {
						continue
					}
					alpha, ok1 := g.constStrInfo(p.TypesInfo, inner.Args[0])
					padTV, ok2 := p.TypesInfo.Types[outer.Args[0]]
					if !ok1 || !ok2 || padTV.Value == nil {
						g.failf("%s: encoding %s is not built from constants", g.pos(vs.Pos()), vs.Names[0].Name)
						continue
					}
					encs = append(encs, fmt.Sprintf("  (%s, %s, %s, %s, (%s : Int))", strLit(k), strLit(vs.Names[0].Name), strLit(fn.Pkg().Path()),
						bytesLit([]byte(alpha)), padTV.Value.ExactString()))
				}
			}
		}
	}
	sb.WriteString("/-- Package-level encodings `X = <pkg>.NewEncoding(alphabet).WithPadding(pad)`: (package, var, constructor package, alphabet, padding rune; -1 = none). -/\n")
	fmt.Fprintf(&sb, "def encodings : List (String × String × String × Bytes × Int) := [\n%s\n]\n\n", strings.Join(encs, ",\n"))
	sb.WriteString(g.sharedStateFacts())
	sb.WriteString(g.goroutineFacts())
	sb.WriteString("end GoCrypt.Gen.Facts\n")
	g.emit("Facts.lean", sb.String())
}

// sharedStateFacts: (1) every package-level variable whose type can carry shared mutable state by design —
// anything from sync / sync/atomic, maps, channels — as (package, name, type); (2) every use of such a
// variable in a function body as (package, function, "var.Method" | "var[...]=" | "var=" | "&var" | "var (read)"),
// deduplicated and sorted, without line numbers.
func (g *Gen) sharedStateFacts() string {
	var vars, uses []string
	isShared := func(t types.Type) bool {
		switch u := t.Underlying().(type) {
		case *types.Map, *types.Chan:
			return true
		case *types.Pointer:
			t = u.Elem()
		}
		if n, ok := t.(*types.Named); ok && n.Obj().Pkg() != nil {
			pp := n.Obj().Pkg().Path()
			return pp == "sync" || pp == "sync/atomic"
		}
		return false
	}
	for _, k := range sortedKeys(g.pkgs) {
		p := g.pkgs[k]
		scope := p.Types.Scope()
		names := scope.Names()
		sort.Strings(names)
		shared := map[*types.Var]bool{}
		for _, n := range names {
			if v, ok := scope.Lookup(n).(*types.Var); ok && isShared(v.Type()) {
				shared[v] = true
				vars = append(vars, fmt.Sprintf("  (%s, %s, %s)", strLit(k), strLit(n), strLit(types.TypeString(v.Type(), func(q *types.Package) string { return q.Name() }))))
			}
		}
		seen := map[string]bool{}
		add := func(fn, what string) {
			rec := fmt.Sprintf("  (%s, %s, %s)", strLit(k), strLit(fn), strLit(what))
			if !seen[rec] {
				seen[rec] = true
				uses = append(uses, rec)
			}
		}
		for _, f := range p.Syntax {
			if strings.HasSuffix(g.fset.Position(f.Pos()).Filename, "_verif.go") {
				continue // instrumentation under the verif build tag
			}
			for _, d := range f.Decls {
				fd, ok := d.(*ast.FuncDecl)
				if !ok || fd.Body == nil {
					continue
				}
				handled := map[*ast.Ident]bool{}
				varOf := func(e ast.Expr) (*ast.Ident, bool) {
					id, ok := e.(*ast.Ident)
					if !ok {
						return nil, false
					}
					v, ok := p.TypesInfo.Uses[id].(*types.Var)
					return id, ok && shared[v]
				}
				ast.Inspect(fd.Body, func(n ast.Node) bool {
					switch x := n.(type) {
					case *ast.CallExpr:
						if sel, ok := x.Fun.(*ast.SelectorExpr); ok {
							if id, ok := varOf(sel.X); ok {
								handled[id] = true
								add(fd.Name.Name, id.Name+"."+sel.Sel.Name)
							}
						}
					case *ast.AssignStmt:
						for _, l := range x.Lhs {
							if ix, ok := l.(*ast.IndexExpr); ok {
								if id, ok := varOf(ix.X); ok {
									handled[id] = true
									add(fd.Name.Name, id.Name+"[...]=")
								}
							}
							if id, ok := varOf(l); ok {
								handled[id] = true
								add(fd.Name.Name, id.Name+"=")
							}
						}
					case *ast.UnaryExpr:
						if x.Op == token.AND {
							if id, ok := varOf(x.X); ok {
								handled[id] = true
								add(fd.Name.Name, "&"+id.Name)
							}
						}
					case *ast.Ident:
						if id, ok := varOf(x); ok && !handled[id] {
							add(fd.Name.Name, id.Name+" (read)")
						}
					}
					return true
				})
			}
		}
	}
	sort.Strings(uses)
	var sb strings.Builder
	sb.WriteString("/-- Package-level variables of a type that carries shared mutable state by design (sync, sync/atomic, maps, channels): (package, name, type). -/\n")
	fmt.Fprintf(&sb, "def sharedVars : List (String × String × String) := [\n%s\n]\n\n", strings.Join(vars, ",\n"))
	sb.WriteString("/-- Every use of those variables in function bodies (instrumentation files excluded): (package, function, use). -/\n")
	fmt.Fprintf(&sb, "def sharedVarUses : List (String × String × String) := [\n%s\n]\n\n", strings.Join(uses, ",\n"))
	return sb.String()
}

// goroutineFacts: one record per `go` statement of the module's non-test code. For each: where it is,
// what it starts, the headers of the enclosing loops (outermost first), and the WaitGroup discipline
// around it, read off the syntax:
//
//	addBefore   – the statement just before the `go` in the same block is `<wg>.Add(1)`
//	waitAfter   – the statement just after the innermost enclosing loop is `<wg>.Wait()`
//	wgFresh     – `var <wg> sync.WaitGroup` is declared in the same block as that loop and its Wait
//	doneLast    – the started function (a closure bound in the same function) ends with `<wg>.Done()` as
//	              its last top-level statement, or begins with `defer <wg>.Done()`
//	noEarlyExit – that closure contains no `return`, `goto` or `panic(` before the Done
//	goCount     – number of `go` statements in the enclosing function
func (g *Gen) goroutineFacts() string {
	var recs []string
	for _, k := range sortedKeys(g.pkgs) {
		p := g.pkgs[k]
		for _, f := range p.Syntax {
			for _, d := range f.Decls {
				fd, ok := d.(*ast.FuncDecl)
				if !ok || fd.Body == nil {
					continue
				}
				// closures bound to local names
				closures := map[string]*ast.FuncLit{}
				goCount := 0
				ast.Inspect(fd.Body, func(n ast.Node) bool {
					switch v := n.(type) {
					case *ast.AssignStmt:
						for i, r := range v.Rhs {
							if fl, ok := r.(*ast.FuncLit); ok && i < len(v.Lhs) {
								if id, ok := v.Lhs[i].(*ast.Ident); ok {
									closures[id.Name] = fl
								}
							}
						}
					case *ast.GoStmt:
						goCount++
					}
					return true
				})
				if goCount == 0 {
					continue
				}
				var walk func(list []ast.Stmt, loops []string, enclosing []ast.Stmt, loopIdx int, outer []ast.Stmt)
				isCall := func(st ast.Stmt, method string) (string, bool) {
					es, ok := st.(*ast.ExprStmt)
					if !ok {
						return "", false
					}
					call, ok := es.X.(*ast.CallExpr)
					if !ok {
						return "", false
					}
					sel, ok := call.Fun.(*ast.SelectorExpr)
					if !ok || sel.Sel.Name != method {
						return "", false
					}
					return g.src(sel.X), true
				}
				// walk: list = statements of the current block; outer/loopIdx = the block containing the innermost loop and the loop's index in it
				walk = func(list []ast.Stmt, loops []string, _ []ast.Stmt, loopIdx int, outer []ast.Stmt) {
					for i, st := range list {
						switch v := st.(type) {
						case *ast.GoStmt:
							addBefore, waitAfter, wgFresh, doneLast, noEarly := false, false, false, false, true
							wg := ""
							if i > 0 {
								if x, ok := isCall(list[i-1], "Add"); ok {
									addBefore, wg = true, x
								}
							}
							if outer != nil && loopIdx+1 < len(outer) {
								if x, ok := isCall(outer[loopIdx+1], "Wait"); ok && (wg == "" || x == wg) {
									waitAfter = true
									if wg == "" {
										wg = x
									}
								}
							}
							for _, o := range outer {
								if ds, ok := o.(*ast.DeclStmt); ok {
									if gd, ok := ds.Decl.(*ast.GenDecl); ok && gd.Tok == token.VAR {
										for _, sp := range gd.Specs {
											vs := sp.(*ast.ValueSpec)
											if len(vs.Names) == 1 && vs.Names[0].Name == wg && vs.Type != nil && g.src(vs.Type) == "sync.WaitGroup" {
												wgFresh = true
											}
										}
									}
								}
							}
							callee := g.src(v.Call.Fun)
							var body *ast.BlockStmt
							if fl, ok := v.Call.Fun.(*ast.FuncLit); ok {
								body = fl.Body
								callee = "func literal"
							} else if id, ok := v.Call.Fun.(*ast.Ident); ok {
								if fl, ok := closures[id.Name]; ok {
									body = fl.Body
								}
							}
							if body != nil && len(body.List) > 0 {
								wgIn := wg
								// the WaitGroup reaches the closure as a pointer parameter named like the variable
								wgIn = strings.TrimPrefix(wgIn, "&")
								if x, ok := isCall(body.List[len(body.List)-1], "Done"); ok && x == wgIn {
									doneLast = true
								}
								if ds, ok := body.List[0].(*ast.DeferStmt); ok {
									if sel, ok := ds.Call.Fun.(*ast.SelectorExpr); ok && sel.Sel.Name == "Done" && g.src(sel.X) == wgIn {
										doneLast = true
									}
								}
								ast.Inspect(body, func(n ast.Node) bool {
									switch w := n.(type) {
									case *ast.ReturnStmt:
										noEarly = false
									case *ast.BranchStmt:
										if w.Tok == token.GOTO {
											noEarly = false
										}
									case *ast.CallExpr:
										if id, ok := w.Fun.(*ast.Ident); ok && id.Name == "panic" {
											noEarly = false
										}
									case *ast.FuncLit:
										return false
									}
									return true
								})
							}
							var ls []string
							for _, l := range loops {
								ls = append(ls, strLit(l))
							}
							recs = append(recs, fmt.Sprintf("  { site := %s, fn := %s, starts := %s, loops := [%s], addBefore := %v, waitAfter := %v, wgFresh := %v, doneLast := %v, noEarlyExit := %v, goCount := %d }",
								strLit(k), strLit(fd.Name.Name), strLit(callee), strings.Join(ls, ", "), addBefore, waitAfter, wgFresh, doneLast, noEarly, goCount))
						case *ast.ForStmt:
							hdr := strings.Join(strings.Fields(g.src(v.Init)+"; "+g.src(v.Cond)+"; "+g.src(v.Post)), " ")
							walk(v.Body.List, append(append([]string{}, loops...), hdr), nil, i, list)
						case *ast.RangeStmt:
							hdr := "range " + strings.Join(strings.Fields(g.src(v.X)), " ")
							walk(v.Body.List, append(append([]string{}, loops...), hdr), nil, i, list)
						case *ast.BlockStmt:
							walk(v.List, loops, nil, loopIdx, outer)
						case *ast.IfStmt:
							// a `go` under a condition: recorded with the condition as a pseudo-loop header so that it shows
							walk(v.Body.List, append(append([]string{}, loops...), "if "+strings.Join(strings.Fields(g.src(v.Cond)), " ")), nil, loopIdx, outer)
							if eb, ok := v.Else.(*ast.BlockStmt); ok {
								walk(eb.List, append(append([]string{}, loops...), "else of "+strings.Join(strings.Fields(g.src(v.Cond)), " ")), nil, loopIdx, outer)
							}
						}
					}
				}
				walk(fd.Body.List, nil, nil, -1, nil)
			}
		}
	}
	var sb strings.Builder
	sb.WriteString("structure GoStmtFact where\n  site : String\n  fn : String\n  starts : String\n  loops : List String\n  addBefore : Bool\n  waitAfter : Bool\n  wgFresh : Bool\n  doneLast : Bool\n  noEarlyExit : Bool\n  goCount : Nat\n  deriving Repr, DecidableEq\n\n")
	sb.WriteString("/-- Every `go` statement of the module's non-test code with the WaitGroup discipline around it (see gogen/facts.go). -/\n")
	fmt.Fprintf(&sb, "def goStmts : List GoStmtFact := [\n%s\n]\n\n", strings.Join(recs, ",\n"))
	return sb.String()
}

func (g *Gen) constStrInfo(info *types.Info, e ast.Expr) (string, bool) {
	tv, ok := info.Types[e]
	if !ok || tv.Value == nil || tv.Value.Kind() != constant.String {
		return "", false
	}
	return constant.StringVal(tv.Value), true
}
