package main

import (
	"fmt"
	"go/ast"
	"go/constant"
	"go/types"
	"strings"
)

// constInts flattens a composite literal of integer constants (possibly nested arrays) into its
// dimensions and values. ok=false if any element is not a compile-time integer constant.
func (g *Gen) constInts(info *types.Info, e ast.Expr) (dims []int, vals []string, ok bool) {
	cl, isCL := e.(*ast.CompositeLit)
	if !isCL {
		tv, has := info.Types[e]
		if !has || tv.Value == nil || tv.Value.Kind() != constant.Int {
			return nil, nil, false
		}
		return nil, []string{tv.Value.ExactString()}, true
	}
	dims = []int{len(cl.Elts)}
	var sub []int
	for i, el := range cl.Elts {
		if _, isKV := el.(*ast.KeyValueExpr); isKV {
			return nil, nil, false
		}
		d, v, ok := g.constInts(info, el)
		if !ok {
			return nil, nil, false
		}
		if i == 0 {
			sub = d
		} else if fmt.Sprint(d) != fmt.Sprint(sub) {
			return nil, nil, false
		}
		vals = append(vals, v...)
	}
	return append(dims, sub...), vals, true
}

// genTables emits every package-level variable initialised by a composite literal of integer
// constants (permutation tables, DES tables) or by a []byte(<constant string>) conversion.
func (g *Gen) genTables() {
	var sb strings.Builder
	sb.WriteString(header("Package-level tables: flat value arrays plus their dimensions (row-major)."))
	sb.WriteString("import GoCrypt.Base.Bytes\n\nset_option maxRecDepth 100000\n\n")
	for _, k := range sortedKeys(g.pkgs) {
		p := g.pkgs[k]
		var out []string
		for _, f := range p.Syntax {
			for _, d := range f.Decls {
				gd, ok := d.(*ast.GenDecl)
				if !ok || gd.Tok.String() != "var" {
					continue
				}
				for _, spec := range gd.Specs {
					vs := spec.(*ast.ValueSpec)
					if len(vs.Names) != 1 || len(vs.Values) != 1 {
						continue
					}
					name := vs.Names[0].Name
					val := vs.Values[0]
					// []byte("constant")
					if call, ok := val.(*ast.CallExpr); ok && len(call.Args) == 1 {
						if tv, has := p.TypesInfo.Types[call.Args[0]]; has && tv.Value != nil && tv.Value.Kind() == constant.String {
							if at, ok := call.Fun.(*ast.ArrayType); ok && at.Len == nil {
								s := constant.StringVal(tv.Value)
								out = append(out, fmt.Sprintf("def %s : Bytes := %s  -- %s", name, bytesLit([]byte(s)), g.pos(vs.Pos())))
								continue
							}
						}
					}
					dims, vals, ok := g.constInts(p.TypesInfo, val)
					if !ok || len(dims) == 0 {
						continue
					}
					out = append(out, fmt.Sprintf("def %s_dims : List Nat := %v  -- %s", name, strings.ReplaceAll(fmt.Sprint(dims), " ", ", "), g.pos(vs.Pos())))
					// chunk the literal so that elaboration stays shallow
					const chunk = 128
					var parts []string
					for i := 0; i < len(vals); i += chunk {
						j := i + chunk
						if j > len(vals) {
							j = len(vals)
						}
						pn := fmt.Sprintf("%s_part%d", name, i/chunk)
						out = append(out, fmt.Sprintf("def %s : Array Nat := #[%s]", pn, strings.Join(vals[i:j], ", ")))
						parts = append(parts, pn)
					}
					out = append(out, fmt.Sprintf("def %s : Array Nat := %s", name, strings.Join(parts, " ++ ")))
				}
			}
		}
		if len(out) == 0 {
			continue
		}
		fmt.Fprintf(&sb, "namespace GoCrypt.Gen.%s\n", leanNS(k))
		for _, l := range out {
			sb.WriteString(l + "\n")
		}
		fmt.Fprintf(&sb, "end GoCrypt.Gen.%s\n\n", leanNS(k))
	}
	g.emit("Tables.lean", sb.String())
}
