package main

import (
	"fmt"
	"go/ast"
	"go/constant"
	"go/token"
	"go/types"
	"strings"

	"golang.org/x/tools/go/packages"
)

// genB64IR translates the one-shot functions of hash/base64le (Encode, EncodeToString, EncodedLen,
// DecodeString, Decode, decodeQuantum, assemble32, assemble64, DecodedLen) into the buffer IR of
// lean/GoCrypt/Base/B64IRBase.lean.
//
// The translation is syntax-directed and types-driven: every Go statement/expression form has one IR
// form, constants are whatever go/types evaluates them to, wrap-around nodes are placed from the Go
// type of each operation. Variables get CANONICAL names: slot numbers in order of declaration
// (receiver, parameters, named results, locals, then translator temporaries); the source names appear
// in comments only, so renaming a variable in the Go source does not change the program.
// Whatever has no IR form becomes an `unknown` node (the interpreter is stuck on it, so the theorems
// about the program fail).
func (g *Gen) genB64IR() {
	const pkgKey = "hash/base64le"
	p := g.pkg(pkgKey)
	if p == nil {
		return
	}
	fns := []struct{ goName, leanName string }{
		{"Encoding.Encode", "encodeIR"},
		{"Encoding.EncodeToString", "encodeToStringIR"},
		{"Encoding.EncodedLen", "encodedLenIR"},
		{"Encoding.DecodeString", "decodeStringIR"},
		{"Encoding.Decode", "decodeIR"},
		{"Encoding.decodeQuantum", "decodeQuantumIR"},
		{"assemble32", "assemble32IR"},
		{"assemble64", "assemble64IR"},
		{"Encoding.DecodedLen", "decodedLenIR"},
	}
	x := &b64X{g: g, p: p, known: map[*types.Func]string{}}
	var decls []*ast.FuncDecl
	for _, fn := range fns {
		fd := g.funcDecl(p, fn.goName)
		if fd == nil || fd.Body == nil {
			g.failf("b64ir: %s.%s not found", pkgKey, fn.goName)
			return
		}
		obj, _ := p.TypesInfo.Defs[fd.Name].(*types.Func)
		if obj == nil {
			g.failf("b64ir: %s.%s has no type information", pkgKey, fn.goName)
			return
		}
		x.known[obj] = fn.goName
		decls = append(decls, fd)
	}

	var sb strings.Builder
	sb.WriteString(header("Buffer IR of the one-shot functions of hash/base64le (see Base/B64IRBase.lean): one `Proc` per Go\nfunction, variables numbered by order of declaration (source names in comments only)."))
	sb.WriteString("import GoCrypt.Base.B64IRBase\n\nopen GoCrypt.B64IR\n\nnamespace GoCrypt.Gen.base64leIR\n\n")

	// the receiver struct: field order is what `Expr.field` indexes
	if tn, ok := p.Types.Scope().Lookup("Encoding").(*types.TypeName); ok {
		if st, ok := tn.Type().Underlying().(*types.Struct); ok {
			var fs []string
			for i := 0; i < st.NumFields(); i++ {
				fs = append(fs, fmt.Sprintf("(%s, %s)", strLit(st.Field(i).Name()), strLit(types.TypeString(st.Field(i).Type(), func(*types.Package) string { return "" }))))
			}
			fmt.Fprintf(&sb, "/-- Fields of `Encoding`, in declaration order (`Expr.field _ k` is the `k`-th). -/\ndef encodingFields : List (String × String) := [%s]\n\n", strings.Join(fs, ", "))
		} else {
			g.failf("b64ir: Encoding is not a struct")
		}
	} else {
		g.failf("b64ir: type Encoding not found")
	}

	for i, fd := range decls {
		f := &b64Fn{x: x, fd: fd, slots: map[*types.Var]int{}}
		body := f.run()
		fmt.Fprintf(&sb, "/-- %s  (%s)\n%s -/\ndef %s : Proc := {\n  nparams := %d\n  nslots := %d\n  body :=\n%s\n}\n\n",
			fns[i].goName, g.pos(fd.Pos()), f.slotDoc(), fns[i].leanName, f.nparams, len(f.slotNames), body)
	}

	var pl []string
	for _, fn := range fns {
		pl = append(pl, fmt.Sprintf("(%s, %s)", strLit(fn.goName), fn.leanName))
	}
	fmt.Fprintf(&sb, "/-- The translated functions, by Go name. -/\ndef program : Program := {\n  procs := [\n    %s\n  ]\n}\n\n", strings.Join(pl, ",\n    "))
	sb.WriteString("end GoCrypt.Gen.base64leIR\n")
	g.emit("B64IR.lean", sb.String())
}

type b64X struct {
	g     *Gen
	p     *packages.Package
	known map[*types.Func]string // translated functions, by object
	sir   bool                   // stream mode (streamir.go): emit the stream IR of Base/StreamIRBase.lean
}

// b64Fn is the translation of one function body.
type b64Fn struct {
	x         *b64X
	fd        *ast.FuncDecl
	slots     map[*types.Var]int
	slotNames []string // comment text per slot
	nparams   int
	results   []*types.Var // named results (nil entries never occur: all-or-nothing in Go)
	nresults  int
	sliceLens []string // `.len (.var k)` for every slice/string parameter: the loop fuel
	pre       []string // statements hoisted out of the expression being translated
	ctx       []string // enclosing "for" / "switch", innermost last
	noHoist   bool
}

func (f *b64Fn) info() *types.Info { return f.x.p.TypesInfo }

func (f *b64Fn) addSlot(v *types.Var, role string) int {
	k := len(f.slotNames)
	if v != nil {
		f.slots[v] = k
		f.slotNames = append(f.slotNames, fmt.Sprintf("%d = %s%s", k, v.Name(), role))
	} else {
		f.slotNames = append(f.slotNames, fmt.Sprintf("%d =%s", k, role))
	}
	return k
}

func (f *b64Fn) temp(what string) int { return f.addSlot(nil, " (translator temporary: "+what+")") }

func (f *b64Fn) slotDoc() string {
	return "slots: " + strings.Join(f.slotNames, ", ")
}

func (f *b64Fn) where(n ast.Node) string { return f.x.g.pos(n.Pos()) }

func (f *b64Fn) srcLine(n ast.Node) string {
	s := strings.Join(strings.Fields(f.x.g.src(n)), " ")
	if len(s) > 100 {
		s = s[:100] + " …"
	}
	return strings.ReplaceAll(s, "-/", "- /")
}

func (f *b64Fn) unknownE(n ast.Node, why string) string {
	return fmt.Sprintf("(.unknown %s)", strLit(f.where(n)+": "+why+": "+f.srcLine(n)))
}

func (f *b64Fn) unknownS(n ast.Node, why string) string {
	return fmt.Sprintf("(.unknown %s)", strLit(f.where(n)+": "+why+": "+f.srcLine(n)))
}

func (f *b64Fn) typ(e ast.Expr) types.Type {
	if tv, ok := f.info().Types[e]; ok && tv.Type != nil {
		return tv.Type
	}
	if id, ok := e.(*ast.Ident); ok {
		if o := f.info().ObjectOf(id); o != nil {
			return o.Type()
		}
	}
	return types.Typ[types.Invalid]
}

func isErrorType(t types.Type) bool {
	n, ok := t.(*types.Named)
	return ok && n.Obj().Pkg() == nil && n.Obj().Name() == "error"
}

func isStringType(t types.Type) bool {
	b, ok := t.Underlying().(*types.Basic)
	return ok && b.Info()&types.IsString != 0
}

func isBoolType(t types.Type) bool {
	b, ok := t.Underlying().(*types.Basic)
	return ok && b.Info()&types.IsBoolean != 0
}

// localVar resolves an identifier to a variable of this function (receiver, parameter, result, local).
func (f *b64Fn) localVar(id *ast.Ident) *types.Var {
	v, ok := f.info().ObjectOf(id).(*types.Var)
	if !ok || v.IsField() || v.Pkg() == nil || v.Parent() == v.Pkg().Scope() {
		return nil
	}
	return v
}

func (f *b64Fn) run() string {
	info := f.info()
	addParams := func(fl *ast.FieldList, role string) bool {
		if fl == nil {
			return true
		}
		for _, fld := range fl.List {
			if len(fld.Names) == 0 {
				return false
			}
			for _, n := range fld.Names {
				v, _ := info.Defs[n].(*types.Var)
				if v == nil || n.Name == "_" {
					return false
				}
				k := f.addSlot(v, role)
				if isByteSlice(v.Type()) || isStringType(v.Type()) {
					f.sliceLens = append(f.sliceLens, fmt.Sprintf("(.len (.var %d))", k))
				}
			}
		}
		return true
	}
	if !addParams(f.fd.Recv, " (receiver)") || !addParams(f.fd.Type.Params, " (parameter)") {
		return "    " + f.unknownS(f.fd, "unnamed receiver or parameter")
	}
	f.nparams = len(f.slotNames)
	var init []string
	if res := f.fd.Type.Results; res != nil {
		f.nresults = res.NumFields()
		named := false
		for _, fld := range res.List {
			if len(fld.Names) > 0 {
				named = true
			}
		}
		if named {
			for _, fld := range res.List {
				for _, n := range fld.Names {
					v, _ := info.Defs[n].(*types.Var)
					if v == nil || n.Name == "_" {
						return "    " + f.unknownS(f.fd, "blank result name")
					}
					k := f.addSlot(v, " (result)")
					f.results = append(f.results, v)
					z, ok := f.zero(v.Type())
					if !ok {
						z = f.unknownE(n, "zero value of "+v.Type().String())
					}
					init = append(init, fmt.Sprintf("    -- result %s starts as its zero value\n    .assign [.var %d] [%s]", v.Name(), k, z))
				}
			}
		}
	}
	// locals, in order of declaration
	ast.Inspect(f.fd.Body, func(n ast.Node) bool {
		if id, ok := n.(*ast.Ident); ok {
			if v, ok := info.Defs[id].(*types.Var); ok && v != nil && !v.IsField() && id.Name != "_" {
				if _, seen := f.slots[v]; !seen {
					f.addSlot(v, "")
				}
			}
		}
		return true
	})
	if f.x.sir {
		init = append(init, f.clonePrologue()...)
	}
	stmts := append(init, f.block(f.fd.Body.List, "    ")...)
	if len(stmts) == 0 {
		return "    .skip"
	}
	return strings.Join(stmts, " ;;\n")
}

// ---- expressions -----------------------------------------------------------------------------

func b64Int(v constant.Value) string {
	s := v.ExactString()
	if strings.HasPrefix(s, "-") {
		return fmt.Sprintf("(.int (%s))", s)
	}
	return fmt.Sprintf("(.int %s)", s)
}

var b64BinOps = map[token.Token]string{
	token.ADD: "add", token.SUB: "sub", token.MUL: "mul", token.QUO: "div", token.REM: "rem",
	token.AND: "band", token.OR: "bor", token.SHL: "shl", token.SHR: "shr",
	token.LSS: "lt", token.LEQ: "le", token.GTR: "gt", token.GEQ: "ge", token.EQL: "eq", token.NEQ: "ne",
}

// wrap reduces a mathematical result to the range of Go type t.
func (f *b64Fn) wrap(n ast.Node, t types.Type, s string) string {
	bits, unsigned, ok := bitsOf(t)
	if !ok || bits == 0 {
		return f.unknownE(n, "arithmetic at type "+t.String())
	}
	if unsigned {
		return fmt.Sprintf("(.wrapU %d %s)", bits, s)
	}
	return fmt.Sprintf("(.wrapS %d %s)", bits, s)
}

// fits reports whether every value of integer type s is a value of integer type t.
func fits(s, t types.Type) bool {
	sb, su, ok1 := bitsOf(s)
	tb, tu, ok2 := bitsOf(t)
	if !ok1 || !ok2 || sb == 0 || tb == 0 {
		return false
	}
	switch {
	case su == tu:
		return sb <= tb
	case su && !tu:
		return sb < tb
	}
	return false
}

// arith builds `a op b` at result type resT.
func (f *b64Fn) arith(n ast.Node, op token.Token, resT types.Type, a, b string) string {
	name, ok := b64BinOps[op]
	if !ok {
		return f.unknownE(n, "operator "+op.String())
	}
	if !isIntType(resT) {
		return f.unknownE(n, "non-integer operands")
	}
	s := fmt.Sprintf("(.bin .%s %s %s)", name, a, b)
	_, unsigned, _ := bitsOf(resT)
	switch op {
	case token.ADD, token.SUB, token.MUL, token.SHL:
		return f.wrap(n, resT, s)
	case token.QUO:
		if !unsigned {
			return f.wrap(n, resT, s) // MinInt / -1
		}
	}
	return s
}

func (f *b64Fn) expr(e ast.Expr) string {
	if tv, ok := f.info().Types[e]; ok && tv.Value != nil {
		switch tv.Value.Kind() {
		case constant.Int:
			return b64Int(tv.Value)
		case constant.Bool:
			return fmt.Sprintf("(.bool %v)", constant.BoolVal(tv.Value))
		}
		return f.unknownE(e, "constant that is neither an integer nor a boolean")
	}
	if f.x.sir {
		if s, ok := f.sirExpr(e); ok {
			return s
		}
	}
	switch v := e.(type) {
	case *ast.ParenExpr:
		return f.expr(v.X)
	case *ast.Ident:
		switch o := f.info().ObjectOf(v).(type) {
		case *types.Nil:
			if isErrorType(f.typ(v)) {
				return ".nilErr"
			}
			return f.unknownE(v, "nil of type "+f.typ(v).String())
		case *types.Var:
			if lv := f.localVar(v); lv != nil {
				if k, ok := f.slots[lv]; ok {
					return fmt.Sprintf("(.var %d)", k)
				}
			}
			_ = o
			return f.unknownE(v, "variable that is not local to the function")
		}
		return f.unknownE(v, "identifier")
	case *ast.BinaryExpr:
		switch v.Op {
		case token.LAND:
			return fmt.Sprintf("(.land %s %s)", f.expr(v.X), f.expr(v.Y))
		case token.LOR:
			return fmt.Sprintf("(.lor %s %s)", f.expr(v.X), f.expr(v.Y))
		case token.EQL, token.NEQ, token.LSS, token.LEQ, token.GTR, token.GEQ:
			tx, ty := f.typ(v.X), f.typ(v.Y)
			if isErrorType(tx) || isErrorType(ty) {
				// err == nil / err != nil
				var other ast.Expr
				if id, ok := v.Y.(*ast.Ident); ok && f.isNil(id) {
					other = v.X
				} else if id, ok := v.X.(*ast.Ident); ok && f.isNil(id) {
					other = v.Y
				}
				if other == nil || (v.Op != token.EQL && v.Op != token.NEQ) {
					return f.unknownE(v, "comparison of errors other than with nil")
				}
				s := fmt.Sprintf("(.isNil %s)", f.expr(other))
				if v.Op == token.NEQ {
					s = fmt.Sprintf("(.not %s)", s)
				}
				return s
			}
			if !isIntType(tx) || !isIntType(ty) {
				return f.unknownE(v, "comparison of non-integers")
			}
			return fmt.Sprintf("(.bin .%s %s %s)", b64BinOps[v.Op], f.expr(v.X), f.expr(v.Y))
		}
		return f.arith(v, v.Op, f.typ(v), f.expr(v.X), f.expr(v.Y))
	case *ast.UnaryExpr:
		switch v.Op {
		case token.NOT:
			return fmt.Sprintf("(.not %s)", f.expr(v.X))
		case token.SUB:
			if isIntType(f.typ(v)) {
				return f.wrap(v, f.typ(v), fmt.Sprintf("(.bin .sub (.int 0) %s)", f.expr(v.X)))
			}
		case token.ADD:
			if isIntType(f.typ(v)) {
				return f.expr(v.X)
			}
		}
		return f.unknownE(v, "unary operator "+v.Op.String())
	case *ast.IndexExpr:
		t := f.typ(v.X)
		if !(isByteSlice(t) || isByteArray(t) || isStringType(t)) {
			return f.unknownE(v, "index of something that is not a byte slice/array/string")
		}
		return fmt.Sprintf("(.index %s %s)", f.expr(v.X), f.expr(v.Index))
	case *ast.SliceExpr:
		if v.Slice3 || !isByteSlice(f.typ(v.X)) {
			return f.unknownE(v, "slice expression other than s[a:b] on a []byte")
		}
		base := f.expr(v.X)
		lo, hi := "(.int 0)", fmt.Sprintf("(.len %s)", base)
		if v.Low != nil {
			lo = f.expr(v.Low)
		}
		if v.High != nil {
			hi = f.expr(v.High)
		}
		return fmt.Sprintf("(.slice %s %s %s)", base, lo, hi)
	case *ast.SelectorExpr:
		sel := f.info().Selections[v]
		if sel == nil || sel.Kind() != types.FieldVal || len(sel.Index()) != 1 {
			return f.unknownE(v, "selector that is not a direct field")
		}
		// through a pointer or on a value: the IR passes the struct by value (never assigned here)
		return fmt.Sprintf("(.field %s %d)", f.expr(v.X), sel.Index()[0])
	case *ast.CallExpr:
		return f.callExpr(v)
	}
	return f.unknownE(e, "expression form")
}

// exprTo translates e where a value of type target is expected (an untyped `nil` takes that type).
func (f *b64Fn) exprTo(e ast.Expr, target types.Type) string {
	if id, ok := ast.Unparen(e).(*ast.Ident); ok && f.isNil(id) {
		if target != nil && isErrorType(target) {
			return ".nilErr"
		}
		return f.unknownE(e, "nil where no error is expected")
	}
	return f.expr(e)
}

func (f *b64Fn) isNil(id *ast.Ident) bool {
	_, ok := f.info().ObjectOf(id).(*types.Nil)
	return ok
}

// calledFunc resolves a call to a translated function of this package.
func (f *b64Fn) calledFunc(c *ast.CallExpr) (name string, recv ast.Expr, ok bool) {
	switch fun := c.Fun.(type) {
	case *ast.Ident:
		if fn, isF := f.info().ObjectOf(fun).(*types.Func); isF {
			if n, known := f.x.known[fn]; known {
				return n, nil, true
			}
		}
	case *ast.SelectorExpr:
		if sel := f.info().Selections[fun]; sel != nil && sel.Kind() == types.MethodVal {
			if fn, isF := sel.Obj().(*types.Func); isF {
				if n, known := f.x.known[fn]; known {
					return n, fun.X, true
				}
			}
		}
	}
	return "", nil, false
}

// stdFunc recognises pkg.Recv.Method for a standard-library package-level variable (binary.BigEndian.PutUint64).
func (f *b64Fn) stdMethod(c *ast.CallExpr) string {
	sel, ok := c.Fun.(*ast.SelectorExpr)
	if !ok {
		return ""
	}
	s := f.info().Selections[sel]
	if s == nil || s.Kind() != types.MethodVal {
		return ""
	}
	fn, ok := s.Obj().(*types.Func)
	if !ok || fn.Pkg() == nil {
		return ""
	}
	inner, ok := sel.X.(*ast.SelectorExpr)
	if !ok {
		return ""
	}
	v, ok := f.info().ObjectOf(inner.Sel).(*types.Var)
	if !ok || v.Pkg() == nil || v.Parent() != v.Pkg().Scope() {
		return ""
	}
	return v.Pkg().Path() + "." + v.Name() + "." + fn.Name()
}

func (f *b64Fn) callArgs(c *ast.CallExpr, recv ast.Expr) []string {
	var args []string
	if recv != nil {
		args = append(args, f.expr(recv))
	}
	for _, a := range c.Args {
		args = append(args, f.expr(a))
	}
	return args
}

func (f *b64Fn) hoist(n ast.Node, stmt func(tmp int) string, what string) string {
	if f.noHoist {
		return f.unknownE(n, "call or allocation inside a loop header")
	}
	k := f.temp(what)
	f.pre = append(f.pre, stmt(k))
	return fmt.Sprintf("(.var %d)", k)
}

func (f *b64Fn) callExpr(c *ast.CallExpr) string {
	info := f.info()
	// conversion
	if tv, ok := info.Types[c.Fun]; ok && tv.IsType() && len(c.Args) == 1 {
		to, from := tv.Type, f.typ(c.Args[0])
		switch {
		case f.x.sir && !(isIntType(to) && isIntType(from)):
			return f.unknownE(c, "conversion (stream mode has integer conversions only)")
		case isNamed(to, f.x.p.PkgPath, "CorruptInputError") && isIntType(from):
			a := f.expr(c.Args[0])
			if !fits(from, to) {
				a = f.wrap(c, to, a)
			}
			return fmt.Sprintf("(.corrupt %s)", a)
		case isIntType(to) && isIntType(from):
			a := f.expr(c.Args[0])
			if fits(from, to) {
				return a
			}
			return f.wrap(c, to, a)
		case isStringType(to) && isByteSlice(from):
			return fmt.Sprintf("(.toStr %s)", f.expr(c.Args[0]))
		case isByteSlice(to) && isStringType(from):
			a := f.expr(c.Args[0])
			return f.hoist(c, func(k int) string {
				return fmt.Sprintf("-- %s: %s\n.bytesOfStr %d %s", f.where(c), f.srcLine(c), k, a)
			}, f.srcLine(c))
		}
		return f.unknownE(c, "conversion")
	}
	// builtins
	if id, ok := c.Fun.(*ast.Ident); ok {
		if b, ok := info.ObjectOf(id).(*types.Builtin); ok {
			switch b.Name() {
			case "len":
				if len(c.Args) == 1 {
					t := f.typ(c.Args[0])
					if isByteSlice(t) || isByteArray(t) || isStringType(t) {
						return fmt.Sprintf("(.len %s)", f.expr(c.Args[0]))
					}
				}
			case "make":
				if len(c.Args) == 2 && isByteSlice(f.typ(c)) && !f.x.sir {
					n := f.expr(c.Args[1])
					return f.hoist(c, func(k int) string {
						return fmt.Sprintf("-- %s: %s\n.make %d %s", f.where(c), f.srcLine(c), k, n)
					}, f.srcLine(c))
				}
			}
			return f.unknownE(c, "builtin "+b.Name())
		}
	}
	// a translated function with exactly one result, used as an operand
	if name, recv, ok := f.calledFunc(c); ok {
		sig, _ := f.typ(c.Fun).(*types.Signature)
		if sig == nil || sig.Results().Len() != 1 {
			return f.unknownE(c, "multi-value call used as an operand")
		}
		for i := 0; i < sig.Params().Len(); i++ {
			if !isIntType(sig.Params().At(i).Type()) {
				// it could write through a slice argument: keep such calls at statement level only
				return f.unknownE(c, "nested call with a non-integer argument")
			}
		}
		args := f.callArgs(c, recv)
		return f.hoist(c, func(k int) string {
			return fmt.Sprintf("-- %s: %s\n.call [.var %d] %s [%s]", f.where(c), f.srcLine(c), k, strLit(name), strings.Join(args, ", "))
		}, f.srcLine(c))
	}
	return f.unknownE(c, "call")
}

// ---- statements ------------------------------------------------------------------------------

// flush prepends the statements hoisted while translating the expressions of one statement.
func (f *b64Fn) flush(ind string, s string) []string {
	var out []string
	for _, p := range f.pre {
		out = append(out, indent(ind, p))
	}
	f.pre = nil
	return append(out, s)
}

func indent(ind, s string) string {
	lines := strings.Split(s, "\n")
	for i := range lines {
		lines[i] = ind + lines[i]
	}
	return strings.Join(lines, "\n")
}

func (f *b64Fn) block(list []ast.Stmt, ind string) []string {
	var out []string
	for _, s := range list {
		out = append(out, f.stmt(s, ind)...)
	}
	return out
}

// nested renders a statement list as one parenthesised IR statement.
func (f *b64Fn) nested(list []ast.Stmt, ind string) string {
	return f.group(f.block(list, ind+"  "), ind)
}

func (f *b64Fn) group(stmts []string, ind string) string {
	if len(stmts) == 0 {
		return ind + ".skip"
	}
	return ind + "(\n" + strings.Join(stmts, " ;;\n") + "\n" + ind + ")"
}

func (f *b64Fn) zero(t types.Type) (string, bool) {
	switch {
	case isIntType(t):
		return "(.int 0)", true
	case isBoolType(t):
		return "(.bool false)", true
	case isErrorType(t):
		return ".nilErr", true
	case isByteArray(t) && !f.x.sir:
		return fmt.Sprintf("(.zeros %d)", t.Underlying().(*types.Array).Len()), true
	}
	return "", false
}

func (f *b64Fn) lhs(e ast.Expr) string {
	switch v := e.(type) {
	case *ast.ParenExpr:
		return f.lhs(v.X)
	case *ast.Ident:
		if v.Name == "_" {
			return ".blank"
		}
		if lv := f.localVar(v); lv != nil {
			if k, ok := f.slots[lv]; ok {
				return fmt.Sprintf(".var %d", k)
			}
		}
	case *ast.IndexExpr:
		if id, ok := v.X.(*ast.Ident); ok {
			if lv := f.localVar(id); lv != nil && (isByteSlice(lv.Type()) || (isByteArray(lv.Type()) && !f.x.sir)) {
				if k, ok := f.slots[lv]; ok {
					return fmt.Sprintf(".index %d %s", k, f.expr(v.Index))
				}
			}
			return ""
		}
		if f.x.sir && (isByteSlice(f.typ(v.X)) || f.arrayField(v.X)) {
			return fmt.Sprintf(".indexE %s %s", f.base(v.X), f.expr(v.Index))
		}
	case *ast.SelectorExpr:
		if f.x.sir {
			sel := f.info().Selections[v]
			if sel != nil && sel.Kind() == types.FieldVal && len(sel.Index()) == 1 && !isByteArray(f.typ(v)) {
				if _, st, ptr := f.structOf(f.typ(v)); st != nil && !ptr {
					return ""
				}
				// same operand rule as for reading the field
				if s, ok := f.sirExpr(v); ok && strings.HasPrefix(s, "(.field ") {
					return strings.TrimSuffix(strings.TrimPrefix(s, "("), ")")
				}
			}
		}
	}
	return ""
}

func (f *b64Fn) comment(n ast.Node, ind string) string {
	return fmt.Sprintf("%s-- %s: %s\n", ind, f.where(n), f.srcLine(n))
}

func (f *b64Fn) assignStmt(v *ast.AssignStmt, ind string) []string {
	c := f.comment(v, ind)
	switch v.Tok {
	case token.ASSIGN, token.DEFINE:
		var ls []string
		for _, l := range v.Lhs {
			s := f.lhs(l)
			if s == "" {
				return []string{ind + f.unknownS(v, "assignment target")}
			}
			ls = append(ls, s)
		}
		if len(v.Rhs) == 1 {
			if call, ok := v.Rhs[0].(*ast.CallExpr); ok {
				if f.x.sir {
					if out, ok := f.sirCallStmt(v, ls, call, ind); ok {
						return out
					}
				}
				if name, recv, ok := f.calledFunc(call); ok {
					args := f.callArgs(call, recv)
					return f.flush(ind, fmt.Sprintf("%s%s.call [%s] %s [%s]", c, ind, strings.Join(ls, ", "), strLit(name), strings.Join(args, ", ")))
				}
			}
		}
		if len(v.Lhs) != len(v.Rhs) {
			return []string{ind + f.unknownS(v, "multi-value assignment from something that is not a translated function")}
		}
		var rs []string
		for i, r := range v.Rhs {
			rs = append(rs, f.exprTo(r, f.typ(v.Lhs[i])))
		}
		return f.flush(ind, fmt.Sprintf("%s%s.assign [%s] [%s]", c, ind, strings.Join(ls, ", "), strings.Join(rs, ", ")))
	}
	// x op= e
	ops := map[token.Token]token.Token{
		token.ADD_ASSIGN: token.ADD, token.SUB_ASSIGN: token.SUB, token.MUL_ASSIGN: token.MUL, token.QUO_ASSIGN: token.QUO,
		token.REM_ASSIGN: token.REM, token.AND_ASSIGN: token.AND, token.OR_ASSIGN: token.OR, token.SHL_ASSIGN: token.SHL,
		token.SHR_ASSIGN: token.SHR,
	}
	op, ok := ops[v.Tok]
	if !ok || len(v.Lhs) != 1 || len(v.Rhs) != 1 {
		return []string{ind + f.unknownS(v, "assignment operator")}
	}
	l := f.lhs(v.Lhs[0])
	if l == "" || l == ".blank" {
		return []string{ind + f.unknownS(v, "assignment target")}
	}
	val := f.arith(v, op, f.typ(v.Lhs[0]), f.expr(v.Lhs[0]), f.expr(v.Rhs[0]))
	return f.flush(ind, fmt.Sprintf("%s%s.assign [%s] [%s]", c, ind, l, val))
}

func (f *b64Fn) stmt(s ast.Stmt, ind string) []string {
	switch v := s.(type) {
	case *ast.EmptyStmt:
		return nil
	case *ast.BlockStmt:
		return f.block(v.List, ind)
	case *ast.AssignStmt:
		return f.assignStmt(v, ind)
	case *ast.IncDecStmt:
		l := f.lhs(v.X)
		if l == "" || l == ".blank" {
			return []string{ind + f.unknownS(v, "target of ++/--")}
		}
		op := token.ADD
		if v.Tok == token.DEC {
			op = token.SUB
		}
		val := f.arith(v, op, f.typ(v.X), f.expr(v.X), "(.int 1)")
		return f.flush(ind, fmt.Sprintf("%s%s.assign [%s] [%s]", f.comment(v, ind), ind, l, val))
	case *ast.DeclStmt:
		gd, ok := v.Decl.(*ast.GenDecl)
		if !ok || gd.Tok != token.VAR {
			return []string{ind + f.unknownS(v, "declaration")}
		}
		var out []string
		for _, sp := range gd.Specs {
			vs := sp.(*ast.ValueSpec)
			if len(vs.Values) != 0 && len(vs.Values) != len(vs.Names) {
				out = append(out, ind+f.unknownS(v, "multi-value var declaration"))
				continue
			}
			for i, n := range vs.Names {
				l := f.lhs(n)
				if l == "" {
					out = append(out, ind+f.unknownS(v, "declared name"))
					continue
				}
				var val string
				if len(vs.Values) > 0 {
					val = f.exprTo(vs.Values[i], f.typ(n))
				} else if z, ok := f.zero(f.typ(n)); ok {
					val = z
				} else {
					val = f.unknownE(n, "zero value of "+f.typ(n).String())
				}
				out = append(out, f.flush(ind, fmt.Sprintf("%s%s.assign [%s] [%s]", f.comment(v, ind), ind, l, val))...)
			}
		}
		return out
	case *ast.ExprStmt:
		call, ok := v.X.(*ast.CallExpr)
		if !ok {
			return []string{ind + f.unknownS(v, "expression statement")}
		}
		if f.x.sir {
			if out, ok := f.sirCallStmt(v, nil, call, ind); ok {
				return out
			}
		}
		if name, recv, ok := f.calledFunc(call); ok {
			args := f.callArgs(call, recv)
			// results, if any, are discarded
			sig, _ := f.typ(call.Fun).(*types.Signature)
			var ls []string
			if sig != nil {
				for i := 0; i < sig.Results().Len(); i++ {
					ls = append(ls, ".blank")
				}
			}
			return f.flush(ind, fmt.Sprintf("%s%s.call [%s] %s [%s]", f.comment(v, ind), ind, strings.Join(ls, ", "), strLit(name), strings.Join(args, ", ")))
		}
		if f.x.sir {
			return []string{ind + f.unknownS(v, "call statement")}
		}
		switch f.stdMethod(call) {
		case "encoding/binary.BigEndian.PutUint64":
			if len(call.Args) == 2 {
				return f.flush(ind, fmt.Sprintf("%s%s.putBE 8 %s %s", f.comment(v, ind), ind, f.expr(call.Args[0]), f.expr(call.Args[1])))
			}
		case "encoding/binary.BigEndian.PutUint32":
			if len(call.Args) == 2 {
				return f.flush(ind, fmt.Sprintf("%s%s.putBE 4 %s %s", f.comment(v, ind), ind, f.expr(call.Args[0]), f.expr(call.Args[1])))
			}
		}
		return []string{ind + f.unknownS(v, "call statement")}
	case *ast.IfStmt:
		var out []string
		if v.Init != nil {
			out = append(out, f.stmt(v.Init, ind)...)
		}
		cond := f.expr(v.Cond)
		out = append(out, f.flush(ind, "")...)
		out = out[:len(out)-1]
		th := f.nested(v.Body.List, ind+"  ")
		el := ind + "  .skip"
		if v.Else != nil {
			el = f.group(f.stmt(v.Else, ind+"    "), ind+"  ")
		}
		return append(out, fmt.Sprintf("%s%s.ite %s\n%s\n%s", f.comment1(v, "if "+f.srcLine(v.Cond), ind), ind, cond, th, el))
	case *ast.ForStmt:
		return f.forStmt(v, ind)
	case *ast.RangeStmt:
		if f.x.sir {
			return f.rangeStmt(v, ind)
		}
	case *ast.SwitchStmt:
		return f.switchStmt(v, ind)
	case *ast.ReturnStmt:
		c := f.comment(v, ind)
		if len(v.Results) == 0 {
			var rs []string
			for _, r := range f.results {
				rs = append(rs, fmt.Sprintf("(.var %d)", f.slots[r]))
			}
			if len(rs) != f.nresults {
				return []string{ind + f.unknownS(v, "bare return with unnamed results")}
			}
			return []string{fmt.Sprintf("%s%s.ret [%s]", c, ind, strings.Join(rs, ", "))}
		}
		if len(v.Results) != f.nresults {
			return []string{ind + f.unknownS(v, "return of a multi-value call")}
		}
		var rs []string
		sig, _ := f.info().Defs[f.fd.Name].Type().(*types.Signature)
		for i, r := range v.Results {
			var t types.Type
			if sig != nil && i < sig.Results().Len() {
				t = sig.Results().At(i).Type()
			}
			rs = append(rs, f.exprTo(r, t))
		}
		return f.flush(ind, fmt.Sprintf("%s%s.ret [%s]", c, ind, strings.Join(rs, ", ")))
	case *ast.BranchStmt:
		if v.Label != nil || len(f.ctx) == 0 {
			return []string{ind + f.unknownS(v, "labelled or stray branch")}
		}
		switch v.Tok {
		case token.BREAK:
			if f.ctx[len(f.ctx)-1] != "for" {
				return []string{ind + f.unknownS(v, "break out of a switch")}
			}
			return []string{f.comment(v, ind) + ind + ".brk"}
		case token.CONTINUE:
			for _, c := range f.ctx {
				if c == "for" {
					return []string{f.comment(v, ind) + ind + ".cont"}
				}
			}
		}
		return []string{ind + f.unknownS(v, "branch statement")}
	}
	return []string{ind + f.unknownS(s, "statement form")}
}

func (f *b64Fn) comment1(n ast.Node, text string, ind string) string {
	return fmt.Sprintf("%s-- %s: %s\n", ind, f.where(n), text)
}

// forStmt: `init ;; for_ fuel cond post body`. The fuel is 1 + the lengths of all slice/string
// parameters + the integer constants of the condition; the interpreter does not trust it.
func (f *b64Fn) forStmt(v *ast.ForStmt, ind string) []string {
	var out []string
	if v.Init != nil {
		out = append(out, f.stmt(v.Init, ind)...)
	}
	saved := f.noHoist
	f.noHoist = true
	cond := "(.bool true)"
	fuel := "(.int 1)"
	for _, l := range f.sliceLens {
		fuel = fmt.Sprintf("(.bin .add %s %s)", fuel, l)
	}
	if v.Cond != nil {
		cond = f.expr(v.Cond)
		ast.Inspect(v.Cond, func(n ast.Node) bool {
			if e, ok := n.(ast.Expr); ok {
				if tv, ok := f.info().Types[e]; ok && tv.Value != nil {
					if tv.Value.Kind() == constant.Int {
						if a, exact := constant.Int64Val(tv.Value); exact {
							if a < 0 {
								a = -a
							}
							fuel = fmt.Sprintf("(.bin .add %s (.int %d))", fuel, a)
						}
					}
					return false
				}
			}
			return true
		})
	}
	if f.x.sir && f.hasIfaceCall(v.Body) {
		fuel = fmt.Sprintf("(.bin .add %s .extPending)", fuel)
	}
	post := ind + "  .skip"
	if v.Post != nil {
		post = f.group(f.stmt(v.Post, ind+"    "), ind+"  ")
	}
	f.noHoist = saved
	f.ctx = append(f.ctx, "for")
	body := f.nested(v.Body.List, ind+"  ")
	f.ctx = f.ctx[:len(f.ctx)-1]
	hdr := "for"
	if v.Cond != nil {
		hdr = "for " + f.srcLine(v.Cond)
	}
	return append(out, fmt.Sprintf("%s%s.for_ %s\n%s  %s\n%s\n%s", f.comment1(v, hdr, ind), ind, fuel, ind, cond, post, body))
}

// switchStmt: the tag goes to a fresh slot, the clauses are tested in source order, a clause ending in
// `fallthrough` continues with the statements of the next clause.
func (f *b64Fn) switchStmt(v *ast.SwitchStmt, ind string) []string {
	var out []string
	if v.Init != nil {
		out = append(out, f.stmt(v.Init, ind)...)
	}
	tag := ""
	if v.Tag != nil {
		if !isIntType(f.typ(v.Tag)) {
			return append(out, ind+f.unknownS(v, "switch on a non-integer"))
		}
		t := f.expr(v.Tag)
		k := f.temp("tag of the switch at " + f.where(v))
		out = append(out, f.flush(ind, fmt.Sprintf("%s%s.assign [.var %d] [%s]", f.comment1(v, "switch "+f.srcLine(v.Tag), ind), ind, k, t))...)
		tag = fmt.Sprintf("(.var %d)", k)
	}
	clauses := v.Body.List
	n := len(clauses)
	f.ctx = append(f.ctx, "switch")
	defer func() { f.ctx = f.ctx[:len(f.ctx)-1] }()
	// bodies, with fallthrough resolved from the last clause backwards
	bodyInd := ind + "    "
	bodies := make([][]string, n)
	for i := n - 1; i >= 0; i-- {
		cc := clauses[i].(*ast.CaseClause)
		list := cc.Body
		ft := false
		if len(list) > 0 {
			if br, ok := list[len(list)-1].(*ast.BranchStmt); ok && br.Tok == token.FALLTHROUGH {
				ft = true
				list = list[:len(list)-1]
			}
		}
		b := f.block(list, bodyInd)
		if ft {
			if i == n-1 {
				b = append(b, bodyInd+f.unknownS(cc, "fallthrough in the last clause"))
			} else {
				b = append(b, bodyInd+"-- fallthrough: the statements of the next clause")
				nb := bodies[i+1]
				if len(nb) == 0 {
					nb = []string{bodyInd + ".skip"}
				}
				// the comment line must be attached to the statement that follows it
				b[len(b)-1] = b[len(b)-1] + "\n" + nb[0]
				b = append(b, nb[1:]...)
			}
		}
		bodies[i] = b
	}
	// matching chain
	chain := ind + "  .skip"
	dflt := -1
	for i, c := range clauses {
		if c.(*ast.CaseClause).List == nil {
			if dflt >= 0 {
				return append(out, ind+f.unknownS(v, "two default clauses"))
			}
			dflt = i
		}
	}
	if dflt >= 0 {
		chain = f.group(bodies[dflt], ind+"  ")
	}
	saved := f.noHoist
	f.noHoist = true
	result := ""
	for i := n - 1; i >= 0; i-- {
		cc := clauses[i].(*ast.CaseClause)
		if cc.List == nil {
			continue
		}
		cond := ""
		for j := len(cc.List) - 1; j >= 0; j-- {
			var one string
			if tag != "" {
				if !isIntType(f.typ(cc.List[j])) {
					one = f.unknownE(cc.List[j], "case of a non-integer")
				} else {
					one = fmt.Sprintf("(.bin .eq %s %s)", tag, f.expr(cc.List[j]))
				}
			} else {
				one = f.expr(cc.List[j])
			}
			if cond == "" {
				cond = one
			} else {
				cond = fmt.Sprintf("(.lor %s %s)", one, cond)
			}
		}
		var texts []string
		for _, e := range cc.List {
			texts = append(texts, f.srcLine(e))
		}
		// every clause but the first sits in the else-branch of the previous one: indent accordingly
		result = fmt.Sprintf("%s%s.ite %s\n%s\n%s", f.comment1(cc, "case "+strings.Join(texts, ", "), ind), ind, cond, f.group(bodies[i], ind+"  "), chain)
		chain = ind + "  (\n" + result + "\n" + ind + "  )"
	}
	f.noHoist = saved
	if result == "" {
		// only a default clause (or nothing)
		if dflt >= 0 {
			return append(out, bodies[dflt]...)
		}
		return out
	}
	return append(out, result)
}
