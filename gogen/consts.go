package main

import (
	"fmt"
	"go/constant"
	"go/types"
	"sort"
	"strings"
)

// genConsts emits every package-level constant of every package, evaluated by go/types
// (so `1<<32 - 1 - BasicRounds` is computed by the Go type checker, not by this translator).
func (g *Gen) genConsts() {
	var sb strings.Builder
	sb.WriteString(header("Package-level constants, evaluated by go/types."))
	sb.WriteString("import GoCrypt.Base.Bytes\n\n")
	for _, k := range sortedKeys(g.pkgs) {
		p := g.pkgs[k]
		scope := p.Types.Scope()
		names := scope.Names()
		sort.Strings(names)
		var lines []string
		for _, n := range names {
			c, ok := scope.Lookup(n).(*types.Const)
			if !ok {
				continue
			}
			v := c.Val()
			switch v.Kind() {
			case constant.Int:
				if constant.Sign(v) >= 0 {
					lines = append(lines, fmt.Sprintf("def %s : Nat := %s  -- %s", n, v.ExactString(), g.pos(c.Pos())))
				} else {
					lines = append(lines, fmt.Sprintf("def %s : Int := %s  -- %s", n, v.ExactString(), g.pos(c.Pos())))
				}
			case constant.String:
				s := constant.StringVal(v)
				lines = append(lines, fmt.Sprintf("def %s : Bytes := %s  -- %s %s", n, bytesLit([]byte(s)), strLit(s), g.pos(c.Pos())))
			}
		}
		if len(lines) == 0 {
			continue
		}
		fmt.Fprintf(&sb, "namespace GoCrypt.Gen.%s\n", leanNS(k))
		for _, l := range lines {
			sb.WriteString(l + "\n")
		}
		fmt.Fprintf(&sb, "end GoCrypt.Gen.%s\n\n", leanNS(k))
	}
	g.emit("Consts.lean", sb.String())
}
