package main

import (
	"fmt"
	"go/ast"
	"go/constant"
	"go/token"
	"go/types"
	"strings"
)

// genStreamIR translates the constructors and the streaming encoder/decoder of hash/base64le
// (NewEncoding, Encoding.WithPadding, Encoding.Strict, encoder.Write, encoder.Close, NewEncoder,
// decoder.Read, newlineFilteringReader.Read, NewDecoder) into the stream IR of
// lean/GoCrypt/Base/StreamIRBase.lean. It is the translator of genB64IR (same b64Fn, same rules for
// expressions, loops, switches, wrap-around, slot numbering) run in "stream" mode (b64X.sir), which
// adds: structs behind pointers (field reads and stores, array fields as windows), new(T) / &T{…},
// value receivers that are cloned on entry, copy, panic, range over a slice, io.EOF / error equality,
// and calls through an interface (external scripted writer/reader, or dynamic dispatch to a translated
// method). Calls to the one-shot functions (Encode, EncodedLen, Decode) stay calls by name: the Lean
// side resolves them in the regenerated buffer-IR program.
func (g *Gen) genStreamIR() {
	const pkgKey = "hash/base64le"
	p := g.pkg(pkgKey)
	if p == nil {
		return
	}
	fns := []struct{ goName, leanName string }{
		{"NewEncoding", "newEncodingIR"},
		{"Encoding.WithPadding", "withPaddingIR"},
		{"Encoding.Strict", "strictIR"},
		{"encoder.Write", "encoderWriteIR"},
		{"encoder.Close", "encoderCloseIR"},
		{"NewEncoder", "newEncoderIR"},
		{"decoder.Read", "decoderReadIR"},
		{"newlineFilteringReader.Read", "nfrReadIR"},
		{"NewDecoder", "newDecoderIR"},
	}
	// library: the functions of Gen/B64IR.lean these bodies may call
	libFns := []string{"Encoding.Encode", "Encoding.EncodedLen", "Encoding.Decode", "Encoding.DecodedLen"}
	x := &b64X{g: g, p: p, known: map[*types.Func]string{}, sir: true}
	for _, name := range libFns {
		fd := g.funcDecl(p, name)
		if fd == nil {
			g.failf("streamir: %s.%s not found", pkgKey, name)
			return
		}
		if obj, _ := p.TypesInfo.Defs[fd.Name].(*types.Func); obj != nil {
			x.known[obj] = name
		}
	}
	var decls []*ast.FuncDecl
	for _, fn := range fns {
		fd := g.funcDecl(p, fn.goName)
		if fd == nil || fd.Body == nil {
			g.failf("streamir: %s.%s not found", pkgKey, fn.goName)
			return
		}
		obj, _ := p.TypesInfo.Defs[fd.Name].(*types.Func)
		if obj == nil {
			g.failf("streamir: %s.%s has no type information", pkgKey, fn.goName)
			return
		}
		x.known[obj] = fn.goName
		decls = append(decls, fd)
	}

	var sb strings.Builder
	sb.WriteString(header("Stream IR of the constructors and the streaming encoder/decoder of hash/base64le (see\nBase/StreamIRBase.lean): one `Proc` per Go function, variables numbered by order of declaration (source\nnames in comments only)."))
	sb.WriteString("import GoCrypt.Base.StreamIRBase\n\nopen GoCrypt.SIR\nopen GoCrypt.B64IR (BinOp)\n\nnamespace GoCrypt.Gen.base64leStream\n\n")

	// struct layouts: `Expr.field _ k` is the k-th
	for _, tn := range []string{"Encoding", "encoder", "decoder", "newlineFilteringReader"} {
		o, ok := p.Types.Scope().Lookup(tn).(*types.TypeName)
		if !ok {
			g.failf("streamir: type %s not found", tn)
			continue
		}
		st, ok := o.Type().Underlying().(*types.Struct)
		if !ok {
			g.failf("streamir: %s is not a struct", tn)
			continue
		}
		var fs []string
		for i := 0; i < st.NumFields(); i++ {
			fs = append(fs, fmt.Sprintf("(%s, %s)", strLit(st.Field(i).Name()), strLit(types.TypeString(st.Field(i).Type(), func(*types.Package) string { return "" }))))
		}
		fmt.Fprintf(&sb, "/-- Fields of `%s`, in declaration order. -/\ndef %sFields : List (String × String) := [%s]\n\n", tn, tn, strings.Join(fs, ", "))
	}

	for i, fd := range decls {
		f := &b64Fn{x: x, fd: fd, slots: map[*types.Var]int{}}
		body := f.run()
		fmt.Fprintf(&sb, "/-- %s  (%s)\n%s -/\ndef %s : Proc := {\n  nparams := %d\n  nslots := %d\n  body :=\n%s\n}\n\n",
			fns[i].goName, g.pos(fd.Pos()), f.slotDoc(), fns[i].leanName, f.nparams, len(f.slotNames), body)
	}

	var pl []string
	for _, fn := range fns {
		pl = append(pl, fmt.Sprintf("(%s, %s)", strLit(fn.goName), fn.leanName))
	}
	fmt.Fprintf(&sb, "/-- The translated functions, by Go name. -/\ndef program : Program := {\n  procs := [\n    %s\n  ]\n}\n\n", strings.Join(pl, ",\n    "))
	fmt.Fprintf(&sb, "/-- The functions of `Gen/B64IR.lean` the bodies above may call (resolved in the library). -/\ndef libraryFunctions : List String := [%s]\n\n", strings.Join(mapStr(libFns, strLit), ", "))
	sb.WriteString("end GoCrypt.Gen.base64leStream\n")
	g.emit("StreamIR.lean", sb.String())
}

func mapStr(xs []string, f func(string) string) []string {
	var out []string
	for _, x := range xs {
		out = append(out, f(x))
	}
	return out
}

// ---- stream mode: types ------------------------------------------------------------------------

// structOf returns the struct type behind t when t is a named struct of the translated package or a
// pointer to one.
func (f *b64Fn) structOf(t types.Type) (*types.Named, *types.Struct, bool) {
	ptr := false
	if p, ok := t.(*types.Pointer); ok {
		t = p.Elem()
		ptr = true
	}
	n, ok := t.(*types.Named)
	if !ok || n.Obj().Pkg() == nil || n.Obj().Pkg().Path() != f.x.p.PkgPath {
		return nil, nil, false
	}
	st, ok := n.Underlying().(*types.Struct)
	if !ok {
		return nil, nil, false
	}
	return n, st, ptr
}

func isInterfaceType(t types.Type) bool {
	_, ok := t.Underlying().(*types.Interface)
	return ok && !isErrorType(t)
}

// ioErr recognises io.EOF / io.ErrUnexpectedEOF (by object, not by spelling).
func (f *b64Fn) ioErr(e ast.Expr) (int, bool) {
	var id *ast.Ident
	switch v := ast.Unparen(e).(type) {
	case *ast.SelectorExpr:
		id = v.Sel
	case *ast.Ident:
		id = v
	default:
		return 0, false
	}
	v, ok := f.info().ObjectOf(id).(*types.Var)
	if !ok || v.Pkg() == nil || v.Pkg().Path() != "io" || v.Parent() != v.Pkg().Scope() {
		return 0, false
	}
	switch v.Name() {
	case "EOF":
		return 1, true
	case "ErrUnexpectedEOF":
		return 2, true
	}
	return 0, false
}

// arrayField reports whether e is a byte-array field reached through a struct pointer/variable: the
// IR holds such a field as a full window of its own buffer.
func (f *b64Fn) arrayField(e ast.Expr) bool {
	sel, ok := ast.Unparen(e).(*ast.SelectorExpr)
	if !ok {
		return false
	}
	s := f.info().Selections[sel]
	return s != nil && s.Kind() == types.FieldVal && len(s.Index()) == 1 && isByteArray(f.typ(e))
}

// base translates the operand of an index / slice / len: a slice, a string or an array field.
func (f *b64Fn) base(e ast.Expr) string {
	if f.x.sir && f.arrayField(e) {
		sel := ast.Unparen(e).(*ast.SelectorExpr)
		return fmt.Sprintf("(.field %s %d)", f.structOperand(sel.X), f.info().Selections[sel].Index()[0])
	}
	return f.expr(e)
}

// structOperand translates the operand of a field selection: a pointer to a struct, or a struct
// variable (which is itself held through a pointer to its object).
func (f *b64Fn) structOperand(x ast.Expr) string {
	if id, ok := ast.Unparen(x).(*ast.Ident); ok {
		if lv := f.localVar(id); lv != nil {
			if _, st, _ := f.structOf(lv.Type()); st != nil {
				if k, ok := f.slots[lv]; ok {
					return fmt.Sprintf("(.var %d)", k)
				}
			}
		}
	}
	return f.expr(x)
}

// zeroInit is the initialiser of a struct field that is not mentioned in a composite literal.
func (f *b64Fn) zeroInit(n ast.Node, t types.Type) string {
	switch {
	case isIntType(t):
		return "(.val (.int 0))"
	case isBoolType(t):
		return "(.val (.bool false))"
	case isErrorType(t):
		return "(.val .nilErr)"
	case isByteSlice(t):
		return "(.val .nilSlice)"
	case isByteArray(t):
		return fmt.Sprintf("(.zeroArr %d)", t.Underlying().(*types.Array).Len())
	}
	return fmt.Sprintf("(.val %s)", f.unknownE(n, "zero value of a field of type "+t.String()))
}

// newObject hoists `new(T)` / `&T{…}` into a `new_` statement and returns the temporary holding the pointer.
func (f *b64Fn) newObject(n ast.Node, named *types.Named, st *types.Struct, lit *ast.CompositeLit) string {
	inits := make([]string, st.NumFields())
	given := make([]bool, st.NumFields())
	if lit != nil {
		for i, el := range lit.Elts {
			if kv, ok := el.(*ast.KeyValueExpr); ok {
				id, ok := kv.Key.(*ast.Ident)
				idx := -1
				if ok {
					for j := 0; j < st.NumFields(); j++ {
						if st.Field(j).Name() == id.Name {
							idx = j
						}
					}
				}
				if idx < 0 {
					return f.unknownE(n, "composite literal key")
				}
				inits[idx] = fmt.Sprintf("(.val %s)", f.exprTo(kv.Value, st.Field(idx).Type()))
				given[idx] = true
			} else {
				if i >= st.NumFields() {
					return f.unknownE(n, "composite literal with too many elements")
				}
				inits[i] = fmt.Sprintf("(.val %s)", f.exprTo(el, st.Field(i).Type()))
				given[i] = true
			}
		}
	}
	for i := range inits {
		if given[i] {
			if isByteArray(st.Field(i).Type()) || func() bool {
				_, s, _ := f.structOf(st.Field(i).Type())
				return s != nil && !isPointer(st.Field(i).Type())
			}() {
				return f.unknownE(n, "array or struct value in a composite literal")
			}
			continue
		}
		inits[i] = f.zeroInit(n, st.Field(i).Type())
	}
	tag := named.Obj().Name()
	return f.hoist(n, func(k int) string {
		return fmt.Sprintf("-- %s: %s\n.new_ %d %s [%s]", f.where(n), f.srcLine(n), k, strLit(tag), strings.Join(inits, ", "))
	}, f.srcLine(n))
}

func isPointer(t types.Type) bool {
	_, ok := t.(*types.Pointer)
	return ok
}

// ---- stream mode: expressions --------------------------------------------------------------------

// sirExpr handles the expression forms only the stream IR has; ok=false: use the common rules.
func (f *b64Fn) sirExpr(e ast.Expr) (string, bool) {
	if code, ok := f.ioErr(e); ok {
		return fmt.Sprintf("(.errConst %d)", code), true
	}
	switch v := e.(type) {
	case *ast.Ident:
		if f.isNil(v) && isByteSlice(f.typ(v)) {
			return ".nilSlice", true
		}
		if lv := f.localVar(v); lv != nil {
			// a struct VARIABLE is held through a pointer to its object; as a value it cannot be used
			if _, st, ptr := f.structOf(lv.Type()); st != nil && !ptr {
				return f.unknownE(v, "struct used as a value"), true
			}
		}
	case *ast.BinaryExpr:
		if (v.Op == token.EQL || v.Op == token.NEQ) && isErrorType(f.typ(v.X)) && isErrorType(f.typ(v.Y)) {
			xn, yn := false, false
			if id, ok := ast.Unparen(v.X).(*ast.Ident); ok && f.isNil(id) {
				xn = true
			}
			if id, ok := ast.Unparen(v.Y).(*ast.Ident); ok && f.isNil(id) {
				yn = true
			}
			if !xn && !yn {
				s := fmt.Sprintf("(.errEq %s %s)", f.expr(v.X), f.expr(v.Y))
				if v.Op == token.NEQ {
					s = fmt.Sprintf("(.not %s)", s)
				}
				return s, true
			}
		}
	case *ast.SelectorExpr:
		sel := f.info().Selections[v]
		if sel != nil && sel.Kind() == types.FieldVal && len(sel.Index()) == 1 {
			t := f.typ(v)
			if isByteArray(t) {
				return f.unknownE(v, "array used as a value"), true
			}
			if _, st, ptr := f.structOf(t); st != nil && !ptr {
				return f.unknownE(v, "struct field used as a value"), true
			}
			// the operand is a pointer to a struct, or a struct variable (itself held through a pointer)
			return fmt.Sprintf("(.field %s %d)", f.structOperand(v.X), sel.Index()[0]), true
		}
	case *ast.SliceExpr:
		if !v.Slice3 && f.arrayField(v.X) {
			base := f.base(v.X)
			lo, hi := "(.int 0)", fmt.Sprintf("(.int %d)", f.typ(v.X).Underlying().(*types.Array).Len())
			if v.Low != nil {
				lo = f.expr(v.Low)
			}
			if v.High != nil {
				hi = f.expr(v.High)
			}
			return fmt.Sprintf("(.slice %s %s %s)", base, lo, hi), true
		}
	case *ast.IndexExpr:
		if f.arrayField(v.X) {
			return fmt.Sprintf("(.index %s %s)", f.base(v.X), f.expr(v.Index)), true
		}
	case *ast.UnaryExpr:
		if v.Op == token.AND {
			switch x := ast.Unparen(v.X).(type) {
			case *ast.Ident:
				// &enc for a struct variable: the pointer the variable is held through
				if lv := f.localVar(x); lv != nil {
					if _, st, ptr := f.structOf(lv.Type()); st != nil && !ptr {
						if k, ok := f.slots[lv]; ok {
							return fmt.Sprintf("(.var %d)", k), true
						}
					}
				}
			case *ast.CompositeLit:
				if named, st, ptr := f.structOf(f.typ(x)); st != nil && !ptr {
					return f.newObject(v, named, st, x), true
				}
			}
			return f.unknownE(v, "address of something that is not a struct variable or literal"), true
		}
	case *ast.CallExpr:
		if id, ok := v.Fun.(*ast.Ident); ok {
			if b, ok := f.info().ObjectOf(id).(*types.Builtin); ok && b.Name() == "new" && len(v.Args) == 1 {
				if tv, ok := f.info().Types[v.Args[0]]; ok && tv.IsType() {
					if named, st, ptr := f.structOf(tv.Type); st != nil && !ptr {
						return f.newObject(v, named, st, nil), true
					}
				}
				return f.unknownE(v, "new of a non-struct"), true
			}
		}
	}
	return "", false
}

// ifaceCall recognises `recv.Method(args…)` with recv of interface type.
func (f *b64Fn) ifaceCall(c *ast.CallExpr) (meth string, recv ast.Expr, ok bool) {
	sel, isSel := c.Fun.(*ast.SelectorExpr)
	if !isSel {
		return "", nil, false
	}
	s := f.info().Selections[sel]
	if s == nil || s.Kind() != types.MethodVal || !isInterfaceType(f.typ(sel.X)) {
		return "", nil, false
	}
	return sel.Sel.Name, sel.X, true
}

func (f *b64Fn) builtinCall(c *ast.CallExpr, name string) bool {
	id, ok := c.Fun.(*ast.Ident)
	if !ok {
		return false
	}
	b, ok := f.info().ObjectOf(id).(*types.Builtin)
	return ok && b.Name() == name
}

// sirCallStmt translates `lhs… = call` / `call` for the call forms only the stream IR has.
func (f *b64Fn) sirCallStmt(n ast.Node, ls []string, c *ast.CallExpr, ind string) ([]string, bool) {
	cm := f.comment(n, ind)
	switch {
	case f.builtinCall(c, "copy") && len(c.Args) == 2:
		l := ".blank"
		if len(ls) == 1 {
			l = ls[0]
		} else if len(ls) != 0 {
			return []string{ind + f.unknownS(n, "copy with several targets")}, true
		}
		ts := f.typ(c.Args[1])
		if !(isByteSlice(f.typ(c.Args[0])) && (isByteSlice(ts) || isStringType(ts))) {
			return []string{ind + f.unknownS(n, "copy of something that is not bytes")}, true
		}
		return f.flush(ind, fmt.Sprintf("%s%s.copy (%s) %s %s", cm, ind, l, f.expr(c.Args[0]), f.expr(c.Args[1]))), true
	case f.builtinCall(c, "panic") && len(c.Args) == 1 && len(ls) == 0:
		if tv, ok := f.info().Types[c.Args[0]]; ok && tv.Value != nil && tv.Value.Kind() == constant.String {
			return []string{fmt.Sprintf("%s%s.panic_ %s", cm, ind, strLit(constant.StringVal(tv.Value)))}, true
		}
		return []string{ind + f.unknownS(n, "panic with a non-constant argument")}, true
	}
	if meth, recv, ok := f.ifaceCall(c); ok {
		sig, _ := f.typ(c.Fun).(*types.Signature)
		if len(ls) == 0 && sig != nil {
			for i := 0; i < sig.Results().Len(); i++ {
				ls = append(ls, ".blank")
			}
		}
		var args []string
		for _, a := range c.Args {
			args = append(args, f.expr(a))
		}
		return f.flush(ind, fmt.Sprintf("%s%s.icall [%s] %s %s [%s]", cm, ind, strings.Join(ls, ", "), strLit(meth), f.expr(recv), strings.Join(args, ", "))), true
	}
	return nil, false
}

// hasIfaceCall reports whether a statement contains a call through an interface.
func (f *b64Fn) hasIfaceCall(n ast.Node) bool {
	found := false
	ast.Inspect(n, func(m ast.Node) bool {
		if c, ok := m.(*ast.CallExpr); ok {
			if _, _, ok := f.ifaceCall(c); ok {
				found = true
			}
		}
		return !found
	})
	return found
}

// clonePrologue: a receiver/parameter of struct type (a VALUE) is copied on entry.
func (f *b64Fn) clonePrologue() []string {
	var out []string
	add := func(fl *ast.FieldList) {
		if fl == nil {
			return
		}
		for _, fld := range fl.List {
			for _, n := range fld.Names {
				v, _ := f.info().Defs[n].(*types.Var)
				if v == nil {
					continue
				}
				if _, st, ptr := f.structOf(v.Type()); st != nil && !ptr {
					var arrs []string
					for i := 0; i < st.NumFields(); i++ {
						if isByteArray(st.Field(i).Type()) {
							arrs = append(arrs, fmt.Sprint(i))
						} else if _, s2, p2 := f.structOf(st.Field(i).Type()); s2 != nil && !p2 {
							out = append(out, "    "+f.unknownS(n, "struct value with a struct-valued field"))
						}
					}
					k := f.slots[v]
					out = append(out, fmt.Sprintf("    -- %s is a value of type %s: the callee works on a copy\n    .clone %d (.var %d) [%s]", v.Name(), types.TypeString(v.Type(), func(*types.Package) string { return "" }), k, k, strings.Join(arrs, ", ")))
				}
			}
		}
	}
	add(f.fd.Recv)
	add(f.fd.Type.Params)
	return out
}

// rangeStmt: `for i, b := range s { body }` over a byte slice: the slice is evaluated once into a
// temporary, a hidden counter runs over its indexes, `i`/`b` are assigned at the start of each iteration.
func (f *b64Fn) rangeStmt(v *ast.RangeStmt, ind string) []string {
	if !isByteSlice(f.typ(v.X)) {
		return []string{ind + f.unknownS(v, "range over something that is not a []byte")}
	}
	x := f.expr(v.X)
	ts := f.temp("operand of the range loop")
	tk := f.temp("index of the range loop")
	out := f.flush(ind, fmt.Sprintf("%s%s.assign [.var %d, .var %d] [%s, (.int 0)]", f.comment1(v, "range "+f.srcLine(v.X), ind), ind, ts, tk, x))
	var ls, rs []string
	if v.Key != nil {
		l := f.lhs(v.Key)
		if l == "" {
			return append(out, ind+f.unknownS(v, "range key"))
		}
		ls = append(ls, l)
		rs = append(rs, fmt.Sprintf("(.var %d)", tk))
	}
	if v.Value != nil {
		l := f.lhs(v.Value)
		if l == "" {
			return append(out, ind+f.unknownS(v, "range value"))
		}
		ls = append(ls, l)
		rs = append(rs, fmt.Sprintf("(.index (.var %d) (.var %d))", ts, tk))
	}
	fuel := fmt.Sprintf("(.bin .add (.int 1) (.len (.var %d)))", ts)
	if f.hasIfaceCall(v.Body) {
		fuel = fmt.Sprintf("(.bin .add %s .extPending)", fuel)
	}
	cond := fmt.Sprintf("(.bin .lt (.var %d) (.len (.var %d)))", tk, ts)
	post := fmt.Sprintf("%s  (\n%s    -- next index\n%s    .assign [.var %d] [(.wrapS 64 (.bin .add (.var %d) (.int 1)))]\n%s  )", ind, ind, ind, tk, tk, ind)
	f.ctx = append(f.ctx, "for")
	body := f.block(v.Body.List, ind+"    ")
	f.ctx = f.ctx[:len(f.ctx)-1]
	if len(ls) > 0 {
		body = append([]string{fmt.Sprintf("%s    -- key, value of this iteration\n%s    .assign [%s] [%s]", ind, ind, strings.Join(ls, ", "), strings.Join(rs, ", "))}, body...)
	}
	return append(out, fmt.Sprintf("%s%s.for_ %s\n%s  %s\n%s\n%s", f.comment1(v, "for … range", ind), ind, fuel, ind, cond, post, f.group(body, ind+"  ")))
}
