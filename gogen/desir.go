package main

import (
	"fmt"
	"go/ast"
	"go/constant"
	"go/token"
	"go/types"
	"sort"
	"strings"

	"golang.org/x/tools/go/packages"
)

// genDesIR translates the DES core of des/descrypt/des.go (permute816, permute1616, keySchedules,
// Encrypt) into the word IR of lean/GoCrypt/Base/DesIR.lean.
//
// The translation is syntax-directed and types-driven: every Go statement/expression form has one IR
// form; constants are whatever go/types evaluates them to, with the type go/types gave them. Variables
// get slot numbers in order of declaration (parameters first); source names and file:line appear in
// comments only. Package-level variables are referenced by name; their values are emitted in `globals`
// from their initialisers (tables of constants refer to the arrays of Gen/Tables.lean; a composite
// literal of table names becomes `Val.arr`; a scalar with a constant initialiser becomes its value) —
// but only when no statement of the package assigns to the variable or takes its address.
// Whatever has no IR form becomes an `unknown` node (the interpreter is stuck on it, so the theorems
// about the program fail).
func (g *Gen) genDesIR() {
	const pkgKey = "des/descrypt"
	p := g.pkg(pkgKey)
	if p == nil {
		return
	}
	fns := []struct{ goName, leanName string }{
		{"permute816", "proc_permute816"},
		{"permute1616", "proc_permute1616"},
		{"keySchedules", "proc_keySchedules"},
		{"Encrypt", "proc_Encrypt"},
	}
	x := &desX{g: g, p: p, known: map[*types.Func]string{}, globals: map[string]*types.Var{}}
	var decls []*ast.FuncDecl
	for _, fn := range fns {
		fd := g.funcDecl(p, fn.goName)
		if fd == nil || fd.Body == nil {
			g.failf("desir: %s.%s not found", pkgKey, fn.goName)
			return
		}
		obj, _ := p.TypesInfo.Defs[fd.Name].(*types.Func)
		if obj == nil {
			g.failf("desir: %s.%s has no type information", pkgKey, fn.goName)
			return
		}
		x.known[obj] = fn.goName
		decls = append(decls, fd)
	}

	var sb strings.Builder
	sb.WriteString(header("Word IR of the DES core of des/descrypt/des.go (see Base/DesIR.lean): one `Proc` per Go function,\nvariables numbered by order of declaration (source names in comments only), package-level variables by name."))
	sb.WriteString("import GoCrypt.Base.DesIR\nimport GoCrypt.Gen.Tables\n\nopen GoCrypt.DesIR\n\nnamespace GoCrypt.Gen.DesIR\n\n")

	for i, fd := range decls {
		f := &desFn{x: x, fd: fd, slots: map[*types.Var]int{}}
		body := f.run()
		fmt.Fprintf(&sb, "/-- %s  (%s)\n%s -/\ndef %s : Proc := {\n  nparams := %d\n  nslots := %d\n  body :=\n%s\n}\n\n",
			fns[i].goName, g.pos(fd.Pos()), f.slotDoc(), fns[i].leanName, f.nparams, len(f.slotNames), body)
	}

	var pl []string
	for _, fn := range fns {
		pl = append(pl, fmt.Sprintf("(%s, %s)", strLit(fn.goName), fn.leanName))
	}
	fmt.Fprintf(&sb, "/-- The translated functions, by Go name. -/\ndef program : Program := {\n  procs := [\n    %s\n  ]\n}\n\n", strings.Join(pl, ",\n    "))

	// package-level variables referenced by the translated bodies
	var names []string
	for n := range x.globals {
		names = append(names, n)
	}
	sort.Strings(names)
	sb.WriteString("/-- The package-level variables the bodies refer to, from their initialisers in the source (none of\nthem is assigned to anywhere in the package — checked by the translator). -/\ndef globals : Globals\n")
	for _, n := range names {
		v, why := x.globalValue(x.globals[n])
		if v == "" {
			fmt.Fprintf(&sb, "  -- %s: no value emitted (%s)\n", n, why)
			continue
		}
		fmt.Fprintf(&sb, "  | %s => some %s  -- %s\n", strLit(n), v, g.pos(x.globals[n].Pos()))
	}
	sb.WriteString("  | _ => none\n\n")
	fmt.Fprintf(&sb, "/-- Names of the package-level variables the bodies refer to. -/\ndef globalNames : List String := [%s]\n\n", strings.Join(mapStr(names, strLit), ", "))
	sb.WriteString("end GoCrypt.Gen.DesIR\n")
	g.emit("DesIR.lean", sb.String())
}

type desX struct {
	g       *Gen
	p       *packages.Package
	known   map[*types.Func]string
	globals map[string]*types.Var // package-level variables referenced
}

// mutated reports whether any statement of the package may change package-level variable v:
// an assignment / inc-dec whose target is rooted at v, `&v…`, a slice of it, or a range clause assigning to it.
func (x *desX) mutated(v *types.Var) bool {
	info := x.p.TypesInfo
	root := func(e ast.Expr) *types.Var {
		for {
			switch t := e.(type) {
			case *ast.ParenExpr:
				e = t.X
			case *ast.IndexExpr:
				e = t.X
			case *ast.SelectorExpr:
				e = t.X
			case *ast.StarExpr:
				e = t.X
			case *ast.SliceExpr:
				e = t.X
			case *ast.Ident:
				o, _ := info.ObjectOf(t).(*types.Var)
				return o
			default:
				return nil
			}
		}
	}
	found := false
	for _, f := range x.p.Syntax {
		ast.Inspect(f, func(n ast.Node) bool {
			switch s := n.(type) {
			case *ast.AssignStmt:
				if s.Tok != token.DEFINE {
					for _, l := range s.Lhs {
						if root(l) == v {
							found = true
						}
					}
				}
			case *ast.IncDecStmt:
				if root(s.X) == v {
					found = true
				}
			case *ast.UnaryExpr:
				if s.Op == token.AND && root(s.X) == v {
					found = true
				}
			case *ast.SliceExpr:
				if root(s.X) == v {
					found = true
				}
			case *ast.RangeStmt:
				if s.Tok == token.ASSIGN {
					if (s.Key != nil && root(s.Key) == v) || (s.Value != nil && root(s.Value) == v) {
						found = true
					}
				}
			}
			return !found
		})
	}
	return found
}

// uint64Dims returns the dimensions of an array type [d0][d1]…uint64.
func uint64Dims(t types.Type) ([]int64, bool) {
	var dims []int64
	for {
		switch u := t.Underlying().(type) {
		case *types.Array:
			dims = append(dims, u.Len())
			t = u.Elem()
		case *types.Basic:
			if u.Kind() == types.Uint64 && len(dims) > 0 {
				return dims, true
			}
			return nil, false
		default:
			return nil, false
		}
	}
}

func dimsLit(d []int64) string {
	var s []string
	for _, n := range d {
		s = append(s, fmt.Sprint(n))
	}
	return "[" + strings.Join(s, ", ") + "]"
}

func desTy(t types.Type) (string, bool) {
	b, ok := t.Underlying().(*types.Basic)
	if !ok {
		return "", false
	}
	switch b.Kind() {
	case types.Uint64:
		return ".u64", true
	case types.Uint32:
		return ".u32", true
	case types.Int, types.UntypedInt:
		return ".int", true
	}
	return "", false
}

// valueSpecOf finds the declaration and initialiser of a package-level variable.
func (x *desX) initOf(v *types.Var) ast.Expr {
	for _, f := range x.p.Syntax {
		for _, d := range f.Decls {
			gd, ok := d.(*ast.GenDecl)
			if !ok || gd.Tok != token.VAR {
				continue
			}
			for _, spec := range gd.Specs {
				vs := spec.(*ast.ValueSpec)
				for i, n := range vs.Names {
					if x.p.TypesInfo.Defs[n] == v && len(vs.Values) == len(vs.Names) {
						return vs.Values[i]
					}
				}
			}
		}
	}
	return nil
}

// globalValue renders the value of a package-level variable as a `Val`, or "" with a reason.
func (x *desX) globalValue(v *types.Var) (string, string) { return x.varValue(v, 0) }

func (x *desX) varValue(v *types.Var, depth int) (string, string) {
	if x.mutated(v) {
		return "", "the package assigns to " + v.Name() + " or takes its address"
	}
	init := x.initOf(v)
	if init == nil {
		return "", v.Name() + " has no initialiser"
	}
	// a table of integer constants: the flat array of Gen/Tables.lean under the same name
	if dims, ok := uint64Dims(v.Type()); ok {
		if d2, _, isConst := x.g.constInts(x.p.TypesInfo, init); isConst && fmt.Sprint(d2) == fmt.Sprint(dims) {
			return fmt.Sprintf("(.tab %s 0 GoCrypt.Gen.%s.%s)", dimsLit(dims), leanNS(key(x.p.PkgPath)), v.Name()), ""
		}
	}
	return x.initValue(init, v.Type(), depth+1)
}

func (x *desX) initValue(e ast.Expr, t types.Type, depth int) (string, string) {
	info := x.p.TypesInfo
	if depth > 8 {
		return "", "initialiser nested too deeply"
	}
	// scalar constant
	if tv, ok := info.Types[e]; ok && tv.Value != nil && tv.Value.Kind() == constant.Int {
		ty, ok := desTy(t)
		if !ok || constant.Sign(tv.Value) < 0 {
			return "", "constant of type " + t.String()
		}
		return fmt.Sprintf("(litVal %s %s)", ty, tv.Value.ExactString()), ""
	}
	if id, ok := e.(*ast.Ident); ok {
		w, _ := info.ObjectOf(id).(*types.Var)
		if w == nil || w.Pkg() == nil || w.Parent() != w.Pkg().Scope() {
			return "", "initialiser refers to " + id.Name
		}
		return x.varValue(w, depth)
	}
	if cl, ok := e.(*ast.CompositeLit); ok {
		at, isArr := t.Underlying().(*types.Array)
		if !isArr || int64(len(cl.Elts)) != at.Len() {
			return "", "composite literal that does not list every element"
		}
		var parts []string
		for _, el := range cl.Elts {
			if _, isKV := el.(*ast.KeyValueExpr); isKV {
				return "", "keyed composite literal"
			}
			s, why := x.initValue(el, at.Elem(), depth+1)
			if s == "" {
				return "", why
			}
			parts = append(parts, s)
		}
		return "(.arr [" + strings.Join(parts, ", ") + "])", ""
	}
	return "", "initialiser outside the fragment"
}

// desFn is the translation of one function body.
type desFn struct {
	x         *desX
	fd        *ast.FuncDecl
	slots     map[*types.Var]int
	slotNames []string
	nparams   int
}

func (f *desFn) info() *types.Info { return f.x.p.TypesInfo }

func (f *desFn) addSlot(v *types.Var, role string) int {
	k := len(f.slotNames)
	f.slots[v] = k
	f.slotNames = append(f.slotNames, fmt.Sprintf("%d = %s%s", k, v.Name(), role))
	return k
}

func (f *desFn) slotDoc() string { return "slots: " + strings.Join(f.slotNames, ", ") }

func (f *desFn) srcText(n ast.Node) string {
	s := strings.Join(strings.Fields(f.x.g.src(n)), " ")
	if len(s) > 120 {
		s = s[:120] + " …"
	}
	return s
}

func (f *desFn) unknown(n ast.Node, why string) string {
	return fmt.Sprintf("(.unknown %s)", strLit(why+": "+f.srcText(n)))
}

func (f *desFn) typ(e ast.Expr) types.Type {
	if tv, ok := f.info().Types[e]; ok && tv.Type != nil {
		return tv.Type
	}
	if id, ok := e.(*ast.Ident); ok {
		if o := f.info().ObjectOf(id); o != nil {
			return o.Type()
		}
	}
	return types.Typ[types.Invalid]
}

func (f *desFn) run() string {
	info := f.info()
	if f.fd.Recv != nil {
		return "    " + f.unknown(f.fd.Name, "method")
	}
	for _, fld := range f.fd.Type.Params.List {
		if len(fld.Names) == 0 {
			return "    " + f.unknown(f.fd.Name, "unnamed parameter")
		}
		for _, n := range fld.Names {
			v, _ := info.Defs[n].(*types.Var)
			if v == nil || n.Name == "_" {
				return "    " + f.unknown(f.fd.Name, "blank parameter")
			}
			f.addSlot(v, " (parameter)")
		}
	}
	f.nparams = len(f.slotNames)
	if res := f.fd.Type.Results; res == nil || res.NumFields() != 1 || len(res.List[0].Names) != 0 {
		return "    " + f.unknown(f.fd.Name, "function without exactly one unnamed result")
	}
	ast.Inspect(f.fd.Body, func(n ast.Node) bool {
		if id, ok := n.(*ast.Ident); ok {
			if v, ok := info.Defs[id].(*types.Var); ok && v != nil && !v.IsField() && id.Name != "_" {
				if _, seen := f.slots[v]; !seen {
					f.addSlot(v, "")
				}
			}
		}
		return true
	})
	return f.block(f.fd.Body.List, "    ")
}

// ---- expressions -----------------------------------------------------------------------------

var desBinOps = map[token.Token]string{
	token.AND: "and", token.OR: "or", token.XOR: "xor", token.ADD: "add", token.SUB: "sub",
	token.SHL: "shl", token.SHR: "shr",
	token.EQL: "eq", token.NEQ: "ne", token.LSS: "lt", token.LEQ: "le", token.GTR: "gt", token.GEQ: "ge",
}

var desAssignOps = map[token.Token]token.Token{
	token.AND_ASSIGN: token.AND, token.OR_ASSIGN: token.OR, token.XOR_ASSIGN: token.XOR,
	token.ADD_ASSIGN: token.ADD, token.SUB_ASSIGN: token.SUB, token.SHL_ASSIGN: token.SHL, token.SHR_ASSIGN: token.SHR,
}

// localVar resolves an identifier to a variable of this function.
func (f *desFn) localVar(id *ast.Ident) (int, bool) {
	v, ok := f.info().ObjectOf(id).(*types.Var)
	if !ok || v == nil {
		return 0, false
	}
	k, ok := f.slots[v]
	return k, ok
}

func (f *desFn) expr(e ast.Expr) string {
	info := f.info()
	if tv, ok := info.Types[e]; ok && tv.Value != nil {
		if tv.Value.Kind() == constant.Int && constant.Sign(tv.Value) >= 0 {
			if ty, ok := desTy(tv.Type); ok {
				return fmt.Sprintf("(.lit %s %s)", ty, tv.Value.ExactString())
			}
			// a constant shift count has Go type `uint`: only its value matters
			if b, ok := tv.Type.Underlying().(*types.Basic); ok && b.Kind() == types.Uint {
				return fmt.Sprintf("(.lit .int %s)", tv.Value.ExactString())
			}
		}
		return f.unknown(e, "constant of type "+tv.Type.String())
	}
	switch t := e.(type) {
	case *ast.ParenExpr:
		return f.expr(t.X)
	case *ast.Ident:
		if k, ok := f.localVar(t); ok {
			return fmt.Sprintf("(.var %d)", k)
		}
		if v, ok := info.ObjectOf(t).(*types.Var); ok && v.Pkg() != nil && v.Parent() == v.Pkg().Scope() && v.Pkg() == f.x.p.Types {
			f.x.globals[v.Name()] = v
			return fmt.Sprintf("(.global %s)", strLit(v.Name()))
		}
		return f.unknown(e, "identifier")
	case *ast.BinaryExpr:
		op, ok := desBinOps[t.Op]
		if !ok {
			return f.unknown(e, "operator "+t.Op.String())
		}
		lt := f.typ(t.X)
		if _, ok := desTy(lt); !ok || desIsIntKind(lt) {
			return f.unknown(e, "operand type "+lt.String())
		}
		if t.Op != token.SHL && t.Op != token.SHR && !types.Identical(lt, f.typ(t.Y)) {
			return f.unknown(e, "operand types differ")
		}
		return fmt.Sprintf("(.bin .%s %s %s)", op, f.expr(t.X), f.expr(t.Y))
	case *ast.IndexExpr:
		if _, ok := f.typ(t.X).Underlying().(*types.Array); !ok {
			return f.unknown(e, "index of a non-array")
		}
		return fmt.Sprintf("(.index %s %s)", f.expr(t.X), f.expr(t.Index))
	case *ast.CallExpr:
		// conversion uint64(x) / uint32(x)
		if tv, ok := info.Types[t.Fun]; ok && tv.IsType() && len(t.Args) == 1 {
			to, ok1 := desTy(tv.Type)
			_, ok2 := desTy(f.typ(t.Args[0]))
			if ok1 && ok2 && to != ".int" && !desIsIntKind(f.typ(t.Args[0])) {
				return fmt.Sprintf("(.conv %s %s)", to, f.expr(t.Args[0]))
			}
			return f.unknown(e, "conversion")
		}
		return f.unknown(e, "call inside an expression")
	}
	return f.unknown(e, "expression")
}

func desIsIntKind(t types.Type) bool {
	b, ok := t.Underlying().(*types.Basic)
	return ok && (b.Kind() == types.Int || b.Kind() == types.UntypedInt)
}

func (f *desFn) exprs(es []ast.Expr) string {
	var out []string
	for _, e := range es {
		out = append(out, f.expr(e))
	}
	return "[" + strings.Join(out, ", ") + "]"
}

// knownCall recognises a call of a translated function.
func (f *desFn) knownCall(e ast.Expr) (string, []ast.Expr, bool) {
	c, ok := e.(*ast.CallExpr)
	if !ok {
		return "", nil, false
	}
	id, ok := c.Fun.(*ast.Ident)
	if !ok {
		return "", nil, false
	}
	fn, _ := f.info().ObjectOf(id).(*types.Func)
	name, ok := f.x.known[fn]
	if !ok || c.Ellipsis.IsValid() {
		return "", nil, false
	}
	return name, c.Args, true
}

// ---- statements ------------------------------------------------------------------------------

func (f *desFn) block(list []ast.Stmt, ind string) string {
	var out []string
	for _, s := range list {
		out = append(out, f.stmt(s, ind)...)
	}
	if len(out) == 0 {
		return ind + ".skip"
	}
	return strings.Join(out, " ;;;\n")
}

func (f *desFn) comment(n ast.Node, ind string) string {
	s := strings.ReplaceAll(f.srcText(n), "-/", "- /")
	if i := strings.Index(s, "{"); i >= 0 {
		s = s[:i+1] + " …"
	}
	return fmt.Sprintf("%s-- %s: %s\n", ind, f.x.g.pos(n.Pos()), s)
}

// storeTarget recognises x[i]…[j] with x a local variable.
func (f *desFn) storeTarget(e ast.Expr) (int, []ast.Expr, bool) {
	var idx []ast.Expr
	for {
		switch t := e.(type) {
		case *ast.ParenExpr:
			e = t.X
		case *ast.IndexExpr:
			if _, ok := f.typ(t.X).Underlying().(*types.Array); !ok {
				return 0, nil, false
			}
			idx = append([]ast.Expr{t.Index}, idx...)
			e = t.X
		case *ast.Ident:
			k, ok := f.localVar(t)
			return k, idx, ok && len(idx) > 0
		default:
			return 0, nil, false
		}
	}
}

func (f *desFn) stmt(s ast.Stmt, ind string) []string {
	c := f.comment(s, ind)
	one := func(body string) []string { return []string{c + ind + body} }
	switch t := s.(type) {
	case *ast.EmptyStmt:
		return nil
	case *ast.BlockStmt:
		return []string{c + ind + "(\n" + f.block(t.List, ind+"  ") + ")"}
	case *ast.DeclStmt:
		gd, ok := t.Decl.(*ast.GenDecl)
		if !ok || gd.Tok != token.VAR {
			return one(f.unknown(s, "declaration"))
		}
		var out []string
		for _, spec := range gd.Specs {
			vs := spec.(*ast.ValueSpec)
			if len(vs.Values) != 0 {
				out = append(out, c+ind+f.unknown(s, "var with initialiser"))
				continue
			}
			for _, n := range vs.Names {
				k, ok := f.localVar(n)
				if !ok {
					out = append(out, c+ind+f.unknown(s, "blank var"))
					continue
				}
				vt := f.typ(n)
				if ty, ok := desTy(vt); ok && !desIsIntKind(vt) {
					out = append(out, fmt.Sprintf("%s%s.decl %d (.scalar %s)", c, ind, k, ty))
				} else if dims, ok := uint64Dims(vt); ok {
					out = append(out, fmt.Sprintf("%s%s.decl %d (.array %s)", c, ind, k, dimsLit(dims)))
				} else {
					out = append(out, c+ind+f.unknown(s, "zero value of "+vt.String()))
				}
			}
		}
		return out
	case *ast.IncDecStmt:
		id, ok := t.X.(*ast.Ident)
		k, ok2 := 0, false
		if ok {
			k, ok2 = f.localVar(id)
		}
		ty, ok3 := desTy(f.typ(t.X))
		if !ok || !ok2 || !ok3 || desIsIntKind(f.typ(t.X)) {
			return one(f.unknown(s, "inc/dec"))
		}
		op := "add"
		if t.Tok == token.DEC {
			op = "sub"
		}
		return one(fmt.Sprintf(".assign [%d] [(.bin .%s (.var %d) (.lit %s 1))]", k, op, k, ty))
	case *ast.AssignStmt:
		if bop, isOp := desAssignOps[t.Tok]; isOp {
			if len(t.Lhs) != 1 || len(t.Rhs) != 1 {
				return one(f.unknown(s, "assignment"))
			}
			id, ok := t.Lhs[0].(*ast.Ident)
			if !ok {
				return one(f.unknown(s, "operator assignment to a non-variable"))
			}
			k, ok := f.localVar(id)
			lt := f.typ(id)
			if _, okT := desTy(lt); !ok || !okT || desIsIntKind(lt) {
				return one(f.unknown(s, "operator assignment"))
			}
			if bop != token.SHL && bop != token.SHR && !types.Identical(lt, f.typ(t.Rhs[0])) {
				return one(f.unknown(s, "operand types differ"))
			}
			return one(fmt.Sprintf(".assign [%d] [(.bin .%s (.var %d) %s)]", k, desBinOps[bop], k, f.expr(t.Rhs[0])))
		}
		if t.Tok != token.ASSIGN && t.Tok != token.DEFINE {
			return one(f.unknown(s, "assignment operator"))
		}
		if len(t.Lhs) != len(t.Rhs) {
			return one(f.unknown(s, "assignment count"))
		}
		// x = f(args)
		if len(t.Lhs) == 1 {
			if name, args, ok := f.knownCall(t.Rhs[0]); ok {
				if id, ok := t.Lhs[0].(*ast.Ident); ok {
					if k, ok := f.localVar(id); ok {
						return one(fmt.Sprintf(".call %d %s %s", k, strLit(name), f.exprs(args)))
					}
				}
				return one(f.unknown(s, "call assigned to a non-variable"))
			}
			if k, idx, ok := f.storeTarget(t.Lhs[0]); ok && t.Tok == token.ASSIGN {
				return one(fmt.Sprintf(".store %d %s %s", k, f.exprs(idx), f.expr(t.Rhs[0])))
			}
		}
		var xs []string
		for _, l := range t.Lhs {
			id, ok := l.(*ast.Ident)
			if !ok {
				return one(f.unknown(s, "assignment target"))
			}
			k, ok := f.localVar(id)
			if !ok {
				return one(f.unknown(s, "assignment target"))
			}
			xs = append(xs, fmt.Sprint(k))
		}
		return one(fmt.Sprintf(".assign [%s] %s", strings.Join(xs, ", "), f.exprs(t.Rhs)))
	case *ast.IfStmt:
		if t.Init != nil {
			return one(f.unknown(s, "if with init"))
		}
		els := ind + "  .skip"
		if t.Else != nil {
			els = strings.Join(f.stmt(t.Else, ind+"  "), " ;;;\n")
		}
		return []string{fmt.Sprintf("%s%s.ite %s (\n%s) (\n%s)", c, ind, f.expr(t.Cond), f.block(t.Body.List, ind+"  "), els)}
	case *ast.ForStmt:
		if t.Init != nil || t.Cond == nil || t.Post == nil {
			return one(f.unknown(s, "for form"))
		}
		fuel := f.fuel(t)
		post := strings.Join(f.stmt(t.Post, ind+"  "), " ;;;\n")
		return []string{fmt.Sprintf("%s%s.for_ %s %s (\n%s) (\n%s)", c, ind, fuel, f.expr(t.Cond), post, f.block(t.Body.List, ind+"  "))}
	case *ast.RangeStmt:
		if t.Tok != token.DEFINE {
			return one(f.unknown(s, "range without :="))
		}
		if _, ok := f.typ(t.X).Underlying().(*types.Array); !ok {
			return one(f.unknown(s, "range over a non-array"))
		}
		slotOf := func(e ast.Expr) (string, bool) {
			if e == nil {
				return "none", true
			}
			id, ok := e.(*ast.Ident)
			if !ok {
				return "", false
			}
			if id.Name == "_" {
				return "none", true
			}
			k, ok := f.localVar(id)
			return fmt.Sprintf("(some %d)", k), ok
		}
		ks, ok1 := slotOf(t.Key)
		vs, ok2 := slotOf(t.Value)
		if !ok1 || !ok2 {
			return one(f.unknown(s, "range variables"))
		}
		return []string{fmt.Sprintf("%s%s.range %s %s %s (\n%s)", c, ind, ks, vs, f.expr(t.X), f.block(t.Body.List, ind+"  "))}
	case *ast.ReturnStmt:
		if len(t.Results) != 1 {
			return one(f.unknown(s, "return count"))
		}
		if name, args, ok := f.knownCall(t.Results[0]); ok {
			return one(fmt.Sprintf(".retCall %s %s", strLit(name), f.exprs(args)))
		}
		return one(fmt.Sprintf(".ret %s", f.expr(t.Results[0])))
	}
	return one(f.unknown(s, "statement"))
}

// fuel derives an iteration bound for `for ; x > 0; x--` (the value of x on entry); the interpreter
// does not trust it.
func (f *desFn) fuel(t *ast.ForStmt) string {
	be, ok := t.Cond.(*ast.BinaryExpr)
	if ok && be.Op == token.GTR {
		if id, ok := be.X.(*ast.Ident); ok {
			if tv, ok := f.info().Types[be.Y]; ok && tv.Value != nil && constant.Sign(tv.Value) == 0 {
				if inc, ok := t.Post.(*ast.IncDecStmt); ok && inc.Tok == token.DEC {
					if id2, ok := inc.X.(*ast.Ident); ok && f.info().ObjectOf(id2) == f.info().ObjectOf(id) {
						if k, ok := f.localVar(id); ok {
							return fmt.Sprintf("(.var %d)", k)
						}
					}
				}
			}
		}
	}
	return f.unknown(t.Cond, "no iteration bound derived")
}
