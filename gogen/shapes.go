package main

import (
	"fmt"
	"go/ast"
	"go/constant"
	"go/token"
	"go/types"
	"reflect"
	"sort"
	"strings"

	"golang.org/x/tools/go/packages"
)

var schemePkgs = []string{"argon2", "bcrypt", "des", "desext", "md5", "nthash", "sha1", "sha256", "sha512", "sunmd5"}

func indirectT(t types.Type) (types.Type, int) {
	n := 0
	for {
		p, ok := t.Underlying().(*types.Pointer)
		if !ok {
			return t, n
		}
		t = p.Elem()
		n++
	}
}

func (g *Gen) kindOf(t types.Type, structs map[string]*types.Named) string {
	switch u := t.Underlying().(type) {
	case *types.Basic:
		switch u.Kind() {
		case types.String:
			return ".string"
		case types.Int:
			return ".int 64"
		case types.Int8:
			return ".int 8"
		case types.Int16:
			return ".int 16"
		case types.Int32:
			return ".int 32"
		case types.Int64:
			return ".int 64"
		case types.Uint:
			return ".uint 64"
		case types.Uint8:
			return ".uint 8"
		case types.Uint16:
			return ".uint 16"
		case types.Uint32:
			return ".uint 32"
		case types.Uint64:
			return ".uint 64"
		}
	case *types.Slice:
		if b, ok := u.Elem().Underlying().(*types.Basic); ok && b.Kind() == types.Uint8 {
			return ".bytes"
		}
	case *types.Array:
		if b, ok := u.Elem().Underlying().(*types.Basic); ok && b.Kind() == types.Uint8 {
			return fmt.Sprintf(".byteArray %d", u.Len())
		}
	case *types.Struct:
		if n, ok := t.(*types.Named); ok {
			structs[n.Obj().Name()] = n
			return fmt.Sprintf(".structRef %s", strLit(n.Obj().Name()))
		}
	}
	return fmt.Sprintf(".other %s", strLit(t.String()))
}

// method finds method `name` declared on named type T (value or pointer receiver) in package p.
func (g *Gen) method(p *packages.Package, t types.Type, name string) *ast.FuncDecl {
	n, ok := t.(*types.Named)
	if !ok || n.Obj().Pkg() != p.Types {
		return nil
	}
	return g.funcDecl(p, n.Obj().Name()+"."+name)
}

func (g *Gen) constStr(p *packages.Package, e ast.Expr) (string, bool) {
	tv, ok := p.TypesInfo.Types[e]
	if !ok || tv.Value == nil || tv.Value.Kind() != constant.String {
		return "", false
	}
	return constant.StringVal(tv.Value), true
}

// recogniseUnmarshalText matches the body of an UnmarshalText method against the translated
// patterns; anything else is `.opaque`.
func (g *Gen) recogniseUnmarshalText(p *packages.Package, fd *ast.FuncDecl) string {
	opaque := fmt.Sprintf(".opaque %s", strLit(g.pos(fd.Pos())))
	if fd.Body == nil || len(fd.Recv.List) != 1 || len(fd.Recv.List[0].Names) != 1 || len(fd.Type.Params.List) != 1 || len(fd.Type.Params.List[0].Names) != 1 {
		return opaque
	}
	recv := fd.Recv.List[0].Names[0].Name
	arg := fd.Type.Params.List[0].Names[0].Name
	b := fd.Body.List
	isIdent := func(e ast.Expr, n string) bool { id, ok := e.(*ast.Ident); return ok && id.Name == n }
	isNilReturn := func(s ast.Stmt) bool {
		r, ok := s.(*ast.ReturnStmt)
		return ok && len(r.Results) == 1 && isIdent(r.Results[0], "nil")
	}
	isConv := func(e ast.Expr, argName string) bool { // T(arg)
		c, ok := e.(*ast.CallExpr)
		if !ok || len(c.Args) != 1 || !isIdent(c.Args[0], argName) {
			return false
		}
		tv, ok := p.TypesInfo.Types[c.Fun]
		return ok && tv.IsType()
	}
	isErrReturn := func(s ast.Stmt, v string) bool { // return SomeError(v)
		r, ok := s.(*ast.ReturnStmt)
		if !ok || len(r.Results) != 1 {
			return false
		}
		c, ok := r.Results[0].(*ast.CallExpr)
		if !ok || len(c.Args) != 1 || !isIdent(c.Args[0], v) {
			return false
		}
		tv, ok := p.TypesInfo.Types[c.Fun]
		return ok && tv.IsType()
	}
	isStarRecvAssign := func(s ast.Stmt) (ast.Expr, bool) { // *h = X
		a, ok := s.(*ast.AssignStmt)
		if !ok || a.Tok != token.ASSIGN || len(a.Lhs) != 1 || len(a.Rhs) != 1 {
			return nil, false
		}
		st, ok := a.Lhs[0].(*ast.StarExpr)
		if !ok || !isIdent(st.X, recv) {
			return nil, false
		}
		return a.Rhs[0], true
	}
	// pattern A: if s := string(text); s != C { return Err(s) }; *h = C; return nil
	if len(b) == 3 {
		if ifs, ok := b[0].(*ast.IfStmt); ok && ifs.Else == nil && ifs.Init != nil {
			if as, ok := ifs.Init.(*ast.AssignStmt); ok && as.Tok == token.DEFINE && len(as.Lhs) == 1 && len(as.Rhs) == 1 && isConv(as.Rhs[0], arg) {
				v := as.Lhs[0].(*ast.Ident).Name
				if be, ok := ifs.Cond.(*ast.BinaryExpr); ok && be.Op == token.NEQ && isIdent(be.X, v) {
					if c, ok := g.constStr(p, be.Y); ok && len(ifs.Body.List) == 1 && isErrReturn(ifs.Body.List[0], v) {
						if rhs, ok := isStarRecvAssign(b[1]); ok {
							if c2, ok := g.constStr(p, rhs); ok && c2 == c && isNilReturn(b[2]) {
								return fmt.Sprintf(".whitelist [%s]", bytesLit([]byte(c)))
							}
						}
					}
				}
			}
		}
	}
	// pattern B: switch s := T(text); s { case C1, C2: *h = s; return nil; default: return Err(s) }
	if len(b) == 1 {
		if sw, ok := b[0].(*ast.SwitchStmt); ok && sw.Init != nil && sw.Tag != nil {
			if as, ok := sw.Init.(*ast.AssignStmt); ok && as.Tok == token.DEFINE && len(as.Lhs) == 1 && len(as.Rhs) == 1 && isConv(as.Rhs[0], arg) {
				v := as.Lhs[0].(*ast.Ident).Name
				if isIdent(sw.Tag, v) && len(sw.Body.List) == 2 {
					c1 := sw.Body.List[0].(*ast.CaseClause)
					c2 := sw.Body.List[1].(*ast.CaseClause)
					if c1.List != nil && c2.List == nil && len(c1.Body) == 2 && len(c2.Body) == 1 && isErrReturn(c2.Body[0], v) && isNilReturn(c1.Body[1]) {
						if rhs, ok := isStarRecvAssign(c1.Body[0]); ok && isIdent(rhs, v) {
							var lits []string
							good := true
							for _, e := range c1.List {
								c, ok := g.constStr(p, e)
								if !ok {
									good = false
								}
								lits = append(lits, bytesLit([]byte(c)))
							}
							if good {
								return fmt.Sprintf(".whitelist [%s]", strings.Join(lits, ", "))
							}
						}
					}
				}
			}
		}
	}
	// pattern C: *r = T(descrypt.DecodeInt(text)); return nil
	if len(b) == 2 && isNilReturn(b[1]) {
		if rhs, ok := isStarRecvAssign(b[0]); ok {
			if c, ok := rhs.(*ast.CallExpr); ok && len(c.Args) == 1 {
				if tv, ok := p.TypesInfo.Types[c.Fun]; ok && tv.IsType() {
					if inner, ok := c.Args[0].(*ast.CallExpr); ok && len(inner.Args) == 1 && isIdent(inner.Args[0], arg) {
						if sel, ok := inner.Fun.(*ast.SelectorExpr); ok && sel.Sel.Name == "DecodeInt" {
							if fn, ok := p.TypesInfo.Uses[sel.Sel].(*types.Func); ok && fn.Pkg().Path() == modPath+"/des/descrypt" {
								return ".desInt"
							}
						}
					}
				}
			}
		}
	}
	return opaque
}

func (g *Gen) recogniseMarshalText(p *packages.Package, fd *ast.FuncDecl) string {
	opaque := fmt.Sprintf(".opaque %s", strLit(g.pos(fd.Pos())))
	if fd.Body == nil || len(fd.Recv.List) != 1 || len(fd.Recv.List[0].Names) != 1 {
		return opaque
	}
	recv := fd.Recv.List[0].Names[0].Name
	src := g.src(fd.Body)
	norm := strings.Join(strings.Fields(src), " ")
	// pattern: return descrypt.EncodeInt(uint32(r)), nil
	if norm == fmt.Sprintf("{ return descrypt.EncodeInt(uint32(%s)), nil }", recv) {
		return ".desInt"
	}
	// pattern: two-digit decimal (bcrypt cost)
	want := fmt.Sprintf("{ b := make([]byte, 0, 2) if %[1]s < 10 { b = strconv.AppendUint(append(b, '0'), uint64(%[1]s), 10) } else { b = strconv.AppendUint(b, uint64(%[1]s), 10) } return b, nil }", recv)
	if norm == want {
		return ".twoDigit"
	}
	return opaque
}

// src returns the source text of a node.
func (g *Gen) src(n ast.Node) string {
	start := g.fset.Position(n.Pos())
	end := g.fset.Position(n.End())
	b, err := readFileCached(start.Filename)
	if err != nil {
		return ""
	}
	return string(b[start.Offset:end.Offset])
}

func (g *Gen) textCodecs(p *packages.Package, t types.Type) (m, u string) {
	base, _ := indirectT(t)
	m, u = ".none", ".none"
	tm := lookupIface("encoding", "TextMarshaler")
	tu := lookupIface("encoding", "TextUnmarshaler")
	_ = tm
	_ = tu
	// Marshal: indirect(value).Type().Implements(TextMarshaler)  => method set of the base (non-pointer) type
	if hasMethod(base, "MarshalText", false) {
		if fd := g.method(p, base, "MarshalText"); fd != nil {
			m = g.recogniseMarshalText(p, fd)
		} else {
			m = fmt.Sprintf(".opaque %s", strLit(base.String()))
		}
	}
	// Unmarshal: indirectType(T).Implements(TextUnmarshaler) || PtrTo(indirectType(T)).Implements(...)
	if hasMethod(base, "UnmarshalText", true) {
		if fd := g.method(p, base, "UnmarshalText"); fd != nil {
			u = g.recogniseUnmarshalText(p, fd)
		} else {
			u = fmt.Sprintf(".opaque %s", strLit(base.String()))
		}
	}
	return
}

// hasMethod reports whether T (ptr=false) or *T (ptr=true) has a method of that name.
func hasMethod(t types.Type, name string, ptr bool) bool {
	if ptr {
		t = types.NewPointer(t)
	}
	ms := types.NewMethodSet(t)
	for i := 0; i < ms.Len(); i++ {
		if ms.At(i).Obj().Name() == name {
			return true
		}
	}
	return false
}

func lookupIface(pkg, name string) *types.Interface { return nil }

func (g *Gen) structFields(p *packages.Package, n *types.Named, structs map[string]*types.Named) string {
	st := n.Underlying().(*types.Struct)
	var fs []string
	for i := 0; i < st.NumFields(); i++ {
		f := st.Field(i)
		base, depth := indirectT(f.Type())
		tag := reflect.StructTag(st.Tag(i)).Get("hash")
		tn := ""
		if nn, ok := base.(*types.Named); ok {
			tn = nn.Obj().Name()
		}
		m, u := g.textCodecs(p, f.Type())
		fs = append(fs, fmt.Sprintf("    { name := %s, exported := %v, anonymous := %v, ptrDepth := %d, kind := %s, typeName := %s,\n      tag := %s, marshalText := %s, unmarshalText := %s }",
			strLit(f.Name()), f.Exported(), f.Embedded(), depth, g.kindOf(base, structs), strLit(tn), bytesLit([]byte(tag)), m, u))
	}
	return fmt.Sprintf("  { name := %s, fields := [\n%s ] }", strLit(n.Obj().Name()), strings.Join(fs, ",\n"))
}

// genShapes emits, for each scheme package, every struct type passed to hash.Marshal/hash.Unmarshal
// (and the structs they embed).
func (g *Gen) genShapes() {
	var sb strings.Builder
	sb.WriteString(header("Struct shapes handed to hash.Marshal / hash.Unmarshal by the scheme packages."))
	sb.WriteString("import GoCrypt.Base.GoType\n\nopen GoCrypt\n\n")
	for _, k := range schemePkgs {
		p := g.pkg(k)
		if p == nil {
			continue
		}
		structs := map[string]*types.Named{}
		var uses []string
		for _, f := range p.Syntax {
			ast.Inspect(f, func(n ast.Node) bool {
				call, ok := n.(*ast.CallExpr)
				if !ok {
					return true
				}
				sel, ok := call.Fun.(*ast.SelectorExpr)
				if !ok {
					return true
				}
				fn, ok := p.TypesInfo.Uses[sel.Sel].(*types.Func)
				if !ok || fn.Pkg() == nil || fn.Pkg().Path() != modPath+"/hash" {
					return true
				}
				var arg ast.Expr
				switch fn.Name() {
				case "Marshal":
					arg = call.Args[0]
				case "Unmarshal":
					arg = call.Args[1]
				default:
					return true
				}
				t := p.TypesInfo.Types[arg].Type
				base, _ := indirectT(t)
				nn, ok := base.(*types.Named)
				if !ok {
					g.failf("%s: argument of hash.%s is not a named struct", g.pos(call.Pos()), fn.Name())
					return true
				}
				structs[nn.Obj().Name()] = nn
				uses = append(uses, fmt.Sprintf("(%s, %s, %s)", strLit(fn.Name()), strLit(nn.Obj().Name()), strLit(g.pos(call.Pos()))))
				return true
			})
		}
		// close under embedding / struct-typed fields
		var defs []string
		done := map[string]bool{}
		for changed := true; changed; {
			changed = false
			var names []string
			for n := range structs {
				names = append(names, n)
			}
			sort.Strings(names)
			for _, n := range names {
				if done[n] {
					continue
				}
				done[n] = true
				changed = true
				defs = append(defs, g.structFields(p, structs[n], structs))
			}
		}
		sort.Strings(defs)
		fmt.Fprintf(&sb, "namespace GoCrypt.Gen.%s\n", leanNS(k))
		fmt.Fprintf(&sb, "def structs : List GoStruct := [\n%s ]\n", strings.Join(defs, ",\n"))
		fmt.Fprintf(&sb, "/-- (function, struct, call site) for every hash.Marshal / hash.Unmarshal call. -/\ndef codecCalls : List (String × String × String) := [%s]\n", strings.Join(uses, ", "))
		fmt.Fprintf(&sb, "end GoCrypt.Gen.%s\n\n", leanNS(k))
	}
	g.emit("Shapes.lean", sb.String())
}
