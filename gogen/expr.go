package main

import (
	"fmt"
	"go/ast"
	"go/constant"
	"go/token"
	"go/types"
	"strings"

	"golang.org/x/tools/go/packages"
)

// Translation of Go integer/boolean expressions and straight-line statements to Lean terms over Nat.
//
// Unsigned fixed-width arithmetic is made exact by reducing modulo 2^bits after every operation
// that can overflow (+, *, <<, -). Expressions of type `int` are translated as plain Nat
// arithmetic; they are only accepted where the source keeps them non-negative (lengths, indices,
// constants) and subtraction on `int` is rejected.
//
// Anything outside the fragment returns an error; the caller then fails the run or emits an
// explicit `other` node.

type xlat struct {
	g    *Gen
	p    *packages.Package
	env  map[string]string               // Go identifier -> Lean term
	hook func(e ast.Expr) (string, bool) // caller-specific leaves (index expressions, calls, selectors)
}

func bitsOf(t types.Type) (bits int, unsigned bool, ok bool) {
	b, isB := t.Underlying().(*types.Basic)
	if !isB {
		return 0, false, false
	}
	switch b.Kind() {
	case types.Uint8:
		return 8, true, true
	case types.Uint16:
		return 16, true, true
	case types.Uint32:
		return 32, true, true
	case types.Uint64, types.Uint, types.Uintptr:
		return 64, true, true
	case types.Int8:
		return 8, false, true
	case types.Int16:
		return 16, false, true
	case types.Int32:
		return 32, false, true
	case types.Int64, types.Int:
		return 64, false, true
	case types.UntypedInt, types.UntypedRune:
		return 0, false, true
	}
	return 0, false, false
}

func (x *xlat) typeOf(e ast.Expr) types.Type {
	if tv, ok := x.p.TypesInfo.Types[e]; ok {
		return tv.Type
	}
	return nil
}

func (x *xlat) wrap(e ast.Expr, s string) string {
	t := x.typeOf(e)
	if t == nil {
		return s
	}
	bits, unsigned, ok := bitsOf(t)
	if ok && unsigned && bits > 0 {
		return fmt.Sprintf("((%s) %% %s)", s, pow2(bits))
	}
	return s
}

func pow2(bits int) string {
	switch bits {
	case 8:
		return "256"
	case 16:
		return "65536"
	case 32:
		return "4294967296"
	case 64:
		return "18446744073709551616"
	}
	return fmt.Sprintf("(2^%d)", bits)
}

func (x *xlat) expr(e ast.Expr) (string, error) {
	// compile-time constants are evaluated by go/types
	if tv, ok := x.p.TypesInfo.Types[e]; ok && tv.Value != nil {
		switch tv.Value.Kind() {
		case constant.Int:
			if constant.Sign(tv.Value) < 0 {
				return "", fmt.Errorf("%s: negative constant", x.g.pos(e.Pos()))
			}
			return tv.Value.ExactString(), nil
		case constant.Bool:
			if constant.BoolVal(tv.Value) {
				return "true", nil
			}
			return "false", nil
		}
	}
	if x.hook != nil {
		if s, ok := x.hook(e); ok {
			return s, nil
		}
	}
	switch v := e.(type) {
	case *ast.ParenExpr:
		return x.expr(v.X)
	case *ast.Ident:
		if s, ok := x.env[v.Name]; ok {
			return s, nil
		}
		return "", fmt.Errorf("%s: unbound identifier %s", x.g.pos(e.Pos()), v.Name)
	case *ast.UnaryExpr:
		a, err := x.expr(v.X)
		if err != nil {
			return "", err
		}
		switch v.Op {
		case token.NOT:
			return fmt.Sprintf("(!%s)", a), nil
		}
		return "", fmt.Errorf("%s: unary %s", x.g.pos(e.Pos()), v.Op)
	case *ast.BinaryExpr:
		a, err := x.expr(v.X)
		if err != nil {
			return "", err
		}
		b, err := x.expr(v.Y)
		if err != nil {
			return "", err
		}
		_, unsigned, _ := bitsOf(x.typeOf(v.X))
		switch v.Op {
		case token.ADD:
			return x.wrap(e, fmt.Sprintf("(%s + %s)", a, b)), nil
		case token.MUL:
			return x.wrap(e, fmt.Sprintf("(%s * %s)", a, b)), nil
		case token.SUB:
			bits, uns, _ := bitsOf(x.typeOf(e))
			if !uns || bits == 0 {
				return "", fmt.Errorf("%s: subtraction on a signed/untyped integer", x.g.pos(e.Pos()))
			}
			return fmt.Sprintf("((%s + %s - %s) %% %s)", a, pow2(bits), b, pow2(bits)), nil
		case token.QUO:
			return fmt.Sprintf("(%s / %s)", a, b), nil
		case token.REM:
			return fmt.Sprintf("(%s %% %s)", a, b), nil
		case token.SHL:
			return x.wrap(e, fmt.Sprintf("(%s <<< %s)", a, b)), nil
		case token.SHR:
			if !unsigned {
				if bits, _, _ := bitsOf(x.typeOf(v.X)); bits != 0 {
					return "", fmt.Errorf("%s: >> on a signed integer", x.g.pos(e.Pos()))
				}
			}
			return fmt.Sprintf("(%s >>> %s)", a, b), nil
		case token.AND:
			return fmt.Sprintf("(%s &&& %s)", a, b), nil
		case token.OR:
			return fmt.Sprintf("(%s ||| %s)", a, b), nil
		case token.XOR:
			return fmt.Sprintf("(%s ^^^ %s)", a, b), nil
		case token.LAND:
			return fmt.Sprintf("(%s && %s)", a, b), nil
		case token.LOR:
			return fmt.Sprintf("(%s || %s)", a, b), nil
		case token.EQL:
			return fmt.Sprintf("(%s == %s)", a, b), nil
		case token.NEQ:
			return fmt.Sprintf("(%s != %s)", a, b), nil
		case token.LSS:
			return fmt.Sprintf("(decide (%s < %s))", a, b), nil
		case token.LEQ:
			return fmt.Sprintf("(decide (%s ≤ %s))", a, b), nil
		case token.GTR:
			return fmt.Sprintf("(decide (%s > %s))", a, b), nil
		case token.GEQ:
			return fmt.Sprintf("(decide (%s ≥ %s))", a, b), nil
		}
		return "", fmt.Errorf("%s: binary %s", x.g.pos(e.Pos()), v.Op)
	case *ast.CallExpr:
		// conversions T(x)
		if tv, ok := x.p.TypesInfo.Types[v.Fun]; ok && tv.IsType() && len(v.Args) == 1 {
			a, err := x.expr(v.Args[0])
			if err != nil {
				return "", err
			}
			toBits, toUns, ok1 := bitsOf(tv.Type)
			fromBits, fromUns, ok2 := bitsOf(x.typeOf(v.Args[0]))
			if !ok1 || !ok2 {
				return "", fmt.Errorf("%s: conversion between non-integers", x.g.pos(e.Pos()))
			}
			if !fromUns && fromBits != 0 && toUns {
				// int -> unsigned: only non-negative ints are in the fragment
				if toBits < fromBits {
					return fmt.Sprintf("(%s %% %s)", a, pow2(toBits)), nil
				}
				return a, nil
			}
			if toUns && fromUns && toBits < fromBits {
				return fmt.Sprintf("(%s %% %s)", a, pow2(toBits)), nil
			}
			if !toUns && fromUns && toBits <= fromBits {
				return "", fmt.Errorf("%s: unsigned -> narrower/equal signed conversion", x.g.pos(e.Pos()))
			}
			return a, nil
		}
		if id, ok := v.Fun.(*ast.Ident); ok && id.Name == "len" && len(v.Args) == 1 {
			if aid, ok := v.Args[0].(*ast.Ident); ok {
				if s, ok := x.env["len("+aid.Name+")"]; ok {
					return s, nil
				}
				if s, ok := x.env[aid.Name]; ok {
					return fmt.Sprintf("(%s).length", s), nil
				}
			}
		}
		return "", fmt.Errorf("%s: call %s", x.g.pos(e.Pos()), x.g.src(v.Fun))
	}
	return "", fmt.Errorf("%s: expression %T", x.g.pos(e.Pos()), e)
}

// stmts translates a straight-line block (assignments, if-with-assignments, return) into the body
// of a Lean `Id.run do` block with `let mut` variables. declared tracks variables already bound.
func (x *xlat) stmts(list []ast.Stmt, declared map[string]bool, indent string, sb *strings.Builder) error {
	for _, s := range list {
		switch v := s.(type) {
		case *ast.AssignStmt:
			if len(v.Lhs) != len(v.Rhs) {
				return fmt.Errorf("%s: multi-value assignment", x.g.pos(s.Pos()))
			}
			var rhs []string
			for i, r := range v.Rhs {
				rs, err := x.expr(r)
				if err != nil {
					return err
				}
				switch v.Tok {
				case token.ASSIGN, token.DEFINE:
				case token.ADD_ASSIGN, token.OR_ASSIGN, token.AND_ASSIGN, token.XOR_ASSIGN, token.SHL_ASSIGN, token.SHR_ASSIGN, token.MUL_ASSIGN:
					op := map[token.Token]token.Token{token.ADD_ASSIGN: token.ADD, token.OR_ASSIGN: token.OR, token.AND_ASSIGN: token.AND,
						token.XOR_ASSIGN: token.XOR, token.SHL_ASSIGN: token.SHL, token.SHR_ASSIGN: token.SHR, token.MUL_ASSIGN: token.MUL}[v.Tok]
					be := &ast.BinaryExpr{X: v.Lhs[i], Op: op, Y: r}
					// type info for the synthetic node: same as the lhs
					x.p.TypesInfo.Types[be] = x.p.TypesInfo.Types[v.Lhs[i]]
					var err error
					rs, err = x.expr(be)
					if err != nil {
						return err
					}
				default:
					return fmt.Errorf("%s: assignment operator %s", x.g.pos(s.Pos()), v.Tok)
				}
				rhs = append(rhs, rs)
			}
			// simultaneous assignment: evaluate all right-hand sides first
			if len(v.Lhs) > 1 {
				for i := range rhs {
					fmt.Fprintf(sb, "%slet tmp%d_ := %s\n", indent, i, rhs[i])
					rhs[i] = fmt.Sprintf("tmp%d_", i)
				}
			}
			for i, l := range v.Lhs {
				id, ok := l.(*ast.Ident)
				if !ok {
					return fmt.Errorf("%s: assignment to non-identifier", x.g.pos(s.Pos()))
				}
				if id.Name == "_" {
					continue
				}
				name := leanIdent(id.Name)
				if !declared[id.Name] {
					fmt.Fprintf(sb, "%slet mut %s := %s\n", indent, name, rhs[i])
					declared[id.Name] = true
					x.env[id.Name] = name
				} else {
					fmt.Fprintf(sb, "%s%s := %s\n", indent, name, rhs[i])
				}
			}
		case *ast.IncDecStmt:
			id, ok := v.X.(*ast.Ident)
			if !ok {
				return fmt.Errorf("%s: inc/dec of non-identifier", x.g.pos(s.Pos()))
			}
			bits, uns, _ := bitsOf(x.typeOf(v.X))
			name := leanIdent(id.Name)
			if v.Tok == token.INC {
				if uns {
					fmt.Fprintf(sb, "%s%s := (%s + 1) %% %s\n", indent, name, name, pow2(bits))
				} else {
					fmt.Fprintf(sb, "%s%s := %s + 1\n", indent, name, name)
				}
			} else {
				if !uns {
					return fmt.Errorf("%s: decrement of a signed integer", x.g.pos(s.Pos()))
				}
				fmt.Fprintf(sb, "%s%s := (%s + %s - 1) %% %s\n", indent, name, name, pow2(bits), pow2(bits))
			}
		case *ast.IfStmt:
			if v.Init != nil {
				return fmt.Errorf("%s: if with init", x.g.pos(s.Pos()))
			}
			c, err := x.expr(v.Cond)
			if err != nil {
				return err
			}
			fmt.Fprintf(sb, "%sif %s then\n", indent, c)
			inner := map[string]bool{}
			for k, b := range declared {
				inner[k] = b
			}
			if err := x.stmts(v.Body.List, inner, indent+"  ", sb); err != nil {
				return err
			}
			for k := range inner {
				if !declared[k] {
					return fmt.Errorf("%s: variable %s declared inside if", x.g.pos(s.Pos()), k)
				}
			}
			if v.Else != nil {
				eb, ok := v.Else.(*ast.BlockStmt)
				if !ok {
					return fmt.Errorf("%s: else-if", x.g.pos(s.Pos()))
				}
				fmt.Fprintf(sb, "%selse\n", indent)
				if err := x.stmts(eb.List, inner, indent+"  ", sb); err != nil {
					return err
				}
			}
		case *ast.ReturnStmt:
			var rs []string
			for _, r := range v.Results {
				e, err := x.expr(r)
				if err != nil {
					return err
				}
				rs = append(rs, e)
			}
			if len(rs) == 1 {
				fmt.Fprintf(sb, "%sreturn %s\n", indent, rs[0])
			} else {
				fmt.Fprintf(sb, "%sreturn (%s)\n", indent, strings.Join(rs, ", "))
			}
		default:
			return fmt.Errorf("%s: statement %T outside the straight-line fragment", x.g.pos(s.Pos()), s)
		}
	}
	return nil
}

func leanIdent(n string) string {
	switch n {
	case "end", "at", "from", "to", "in", "then", "else", "do", "let", "fun", "where", "with", "match", "type", "prefix", "open", "by", "show", "have", "rand":
		return n + "_"
	}
	return n
}

// funcToLean translates a whole function with integer parameters and a straight-line body.
func (g *Gen) funcToLean(p *packages.Package, name, leanName string, retType string) (string, error) {
	fd := g.funcDecl(p, name)
	if fd == nil {
		return "", fmt.Errorf("function %s not found in %s", name, p.PkgPath)
	}
	x := &xlat{g: g, p: p, env: map[string]string{}}
	declared := map[string]bool{}
	var params []string
	for _, f := range fd.Type.Params.List {
		for _, n := range f.Names {
			ln := leanIdent(n.Name)
			x.env[n.Name] = ln
			declared[n.Name] = true
			params = append(params, ln)
		}
	}
	x.hook = func(e ast.Expr) (string, bool) {
		// calls to other translated functions of the same package
		if c, ok := e.(*ast.CallExpr); ok {
			if id, ok := c.Fun.(*ast.Ident); ok {
				if fn, ok := p.TypesInfo.Uses[id].(*types.Func); ok && fn.Pkg() == p.Types {
					var args []string
					for _, a := range c.Args {
						s, err := x.expr(a)
						if err != nil {
							return "", false
						}
						args = append(args, s)
					}
					return fmt.Sprintf("(%s %s)", fn.Name(), strings.Join(args, " ")), true
				}
			}
		}
		return "", false
	}
	var body strings.Builder
	// parameters are assignable in Go: rebind them as mutable locals
	for _, pn := range params {
		fmt.Fprintf(&body, "  let mut %s := %s\n", pn, pn)
	}
	if err := x.stmts(fd.Body.List, declared, "  ", &body); err != nil {
		return "", err
	}
	var sig []string
	for _, pn := range params {
		sig = append(sig, fmt.Sprintf("(%s : Nat)", pn))
	}
	return fmt.Sprintf("/-- %s  (%s) -/\ndef %s %s : %s := Id.run do\n%s", name, g.pos(fd.Pos()), leanName, strings.Join(sig, " "), retType, body.String()), nil
}
