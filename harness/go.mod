module verif/harness

go 1.17

require github.com/sergeymakinen/go-crypt v0.0.0

replace github.com/sergeymakinen/go-crypt => /repo
