module verif/harness

go 1.17

require github.com/sergeymakinen/go-crypt v0.0.0

require (
	golang.org/x/crypto v0.31.0 // indirect
	golang.org/x/sys v0.28.0 // indirect
)

replace github.com/sergeymakinen/go-crypt => /repo
