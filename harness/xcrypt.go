package main

/*
#cgo LDFLAGS: -lcrypt
#include <crypt.h>
#include <stdlib.h>
#include <string.h>

// xcrypt_hash runs libxcrypt's crypt_r; returns 0 and copies the result on success.
static int xcrypt_hash(const char *pw, const char *setting, char *out, int outlen) {
	struct crypt_data *d = calloc(1, sizeof *d);
	if (!d) return -1;
	char *r = crypt_r(pw, setting, d);
	int rc = -1;
	if (r && r[0] != '*' && (int)strlen(r) < outlen) {
		strcpy(out, r);
		rc = 0;
	}
	free(d);
	return rc;
}
*/
import "C"

import (
	"fmt"
	"strings"
	"unsafe"

	crypt "github.com/sergeymakinen/go-crypt"
)

func init() {
	suites["xcrypt"] = suiteXcrypt
}

// xcrypt returns libxcrypt's crypt(pw, setting), or "" when libxcrypt refuses the setting.
func xcrypt(pw []byte, setting string) string {
	cpw := C.CString(string(pw))
	cs := C.CString(setting)
	defer C.free(unsafe.Pointer(cpw))
	defer C.free(unsafe.Pointer(cs))
	var out [512]C.char
	if C.xcrypt_hash(cpw, cs, &out[0], 512) != 0 {
		return ""
	}
	return C.GoString(&out[0])
}

// suiteXcrypt (C03): the system's libxcrypt 4.4 as the reference crypt(3), both directions, on the
// shared domain (NUL-free passwords; DES ≤ 8 bytes; NT hash on ASCII; no `$2$`, no Argon2).
//   - "there → here": libxcrypt hashes a password under a setting built here (every legal salt length,
//     rounds near the minimum); <scheme>.Check and crypt.Check must verify it and reject a near-miss
//     password; the Lean model is asked the same question (ops).
//   - "here → there": NewHash output given to libxcrypt as the setting must be reproduced byte for byte.
func suiteXcrypt(c *Ctx) {
	if xcrypt([]byte("x"), "$1$abcdefgh$") == "" {
		c.Fail("no-reference", "libxcrypt refuses md5-crypt: the reference oracle is not usable", map[string]string{"suite": "xcrypt"})
		return
	}
	apis := map[string]schemeAPI{}
	for _, a := range schemeAPIs {
		apis[a.name] = a
	}
	salt := func(n int) string { return string(c.genText(cryptAlpha, n)) }
	type setting struct{ scheme, s string }
	mk := func(scheme string, i int) setting {
		switch scheme {
		case "md5":
			return setting{scheme, "$1$" + salt(i%9) + "$"}
		case "sha256", "sha512":
			id := map[string]string{"sha256": "$5$", "sha512": "$6$"}[scheme]
			r := ""
			if i%3 != 0 {
				r = fmt.Sprintf("rounds=%d$", []int{1000, 1001, 1002, 1003, 1007, 1999, 5000, 4999, 5001}[c.Rng.Intn(9)])
			}
			return setting{scheme, id + r + salt(i%17) + "$"}
		case "sha1":
			return setting{scheme, fmt.Sprintf("$sha1$%d$%s$", []int{1, 2, 3, 4, 7, 24, 100, 1000}[c.Rng.Intn(8)], salt([]int{0, 1, 7, 8, 9, 16, 32, 63, 64}[i%9]))}
		case "sunmd5":
			// go-crypt's MaxSaltLength is 8: longer salts are outside the shared domain; so are empty salts
			// (C03 lists them under documented legacy behaviour: the two libraries place the separator differently)
			n := []int{1, 1, 2, 3, 7, 8, 8}[i%7]
			switch (i / 7) % 3 {
			case 0:
				return setting{scheme, "$md5$" + salt(n) + "$"}
			case 1:
				return setting{scheme, fmt.Sprintf("$md5,rounds=%d$%s$", 1+c.Rng.Intn(40), salt(n))}
			}
			return setting{scheme, fmt.Sprintf("$md5,rounds=%d$%s$$", 1+c.Rng.Intn(40), salt(n))}
		case "des":
			return setting{scheme, salt(2)}
		case "desext":
			// rounds: four symbols, 24 bits little-endian 6-bit groups; keep them small (cost)
			r := 1 + c.Rng.Intn(600)
			rs := []byte{cryptAlpha[r&63], cryptAlpha[(r>>6)&63], cryptAlpha[0], cryptAlpha[0]}
			return setting{scheme, "_" + string(rs) + salt(4)}
		case "bcrypt":
			// 22 symbols of the bcrypt alphabet; the last one carries 4 bits only
			s := []byte(c.genText(cryptAlpha, 22))
			s[21] = ".Oeu"[c.Rng.Intn(4)]
			return setting{scheme, []string{"$2a$", "$2b$"}[i%2] + []string{"04", "05"}[c.Rng.Intn(2)] + "$" + string(s)}
		case "nthash":
			return setting{scheme, "$3$$"}
		}
		return setting{}
	}
	lensFor := func(scheme string) []int {
		switch scheme {
		case "des":
			return []int{0, 1, 2, 7, 8}
		case "sunmd5":
			return []int{0, 1, 8, 15, 16, 17, 55, 56, 63, 64, 65, 127, 128, 253, 254, 255}
		case "nthash":
			return []int{0, 1, 2, 15, 16, 17, 63, 64, 127, 128}
		case "bcrypt":
			return []int{0, 1, 8, 55, 56, 70, 71, 72, 73, 74, 100, 253}
		}
		return []int{0, 1, 2, 7, 8, 9, 15, 16, 17, 31, 32, 33, 55, 56, 57, 63, 64, 65, 71, 72, 73, 127, 128, 129, 253}
	}
	reps := 2
	if c.Thorough() {
		reps = 30
	}
	nulFree := func(n int, ascii bool) []byte {
		b := c.randPw(n, true)
		for i := range b {
			if ascii {
				b[i] = 0x20 + b[i]%0x5f
			}
			if b[i] == 0 {
				b[i] = 1
			}
		}
		return b
	}
	// NT hash outside libxcrypt's domain (it only widens bytes): non-ASCII text is transcoded to UTF-16LE; the reference
	// is the model, proved equal to "MD4 of the UTF-16LE encoding of the scalar values" (C03b.nthash_eq_spec)
	for _, pw := range []string{"é", "€uro", "中文密码", "\U0001F600", "a\U0001F4A9b", "\U00010000", "\U0010FFFF", "\uFFFD", "\uD7FF\uE000", "x\xffy", "\xed\xa0\x80", "\xf0\x9f\x98", "\xc0\xaf"} {
		h := apis["nthash"]
		out, err := h.newHash(pw, 0, 0)
		if err != nil {
			continue
		}
		c.Op(fmt.Sprintf("newhash nthash %s 0 0 -", hx([]byte(pw))), fmt.Sprintf("ok %s 0", hx([]byte(out))))
		c.Op(fmt.Sprintf("check nthash %s %s 0", hx([]byte(out)), hx([]byte(pw))), goCheck(h, out, pw, 0))
	}
	for _, scheme := range []string{"md5", "sha256", "sha512", "sha1", "sunmd5", "des", "desext", "bcrypt", "nthash"} {
		api := apis[scheme]
		k := 0
		for rep := 0; rep < reps; rep++ {
			for _, n := range lensFor(scheme) {
				k++
				pw := nulFree(n, scheme == "nthash")
				// there → here
				st := mk(scheme, k)
				x := xcrypt(pw, st.s)
				in := map[string]string{"suite": "xcrypt", "scheme": scheme, "setting": hx([]byte(st.s)), "password": hx(pw), "libxcrypt": hx([]byte(x))}
				if x == "" {
					c.Count(scheme + ":setting-refused-by-libxcrypt")
				} else {
					c.Direct++
					r := goCheck(api, x, string(pw), 0)
					c.Op(fmt.Sprintf("check %s %s %s 0", scheme, hx([]byte(x)), hx(pw)), r)
					if scheme == "sunmd5" && !strings.Contains(x, "rounds=") {
						in["class"] = "sunmd5-zero-rounds-form" // libxcrypt writes zero rounds as "$md5$salt$$digest"
					}
					if r != "nil" {
						c.Fail("their-hash-rejected", fmt.Sprintf("%s.Check(libxcrypt's hash, password) = %s", scheme, r), in)
					} else if r2 := safely(func() string { return classifyErr(crypt.Check(x, string(pw))) }); r2 != "nil" {
						c.Fail("their-hash-rejected", "crypt.Check(libxcrypt's hash, password) = "+r2, in)
					}
					// a near-miss password must be refused by both
					bad := append([]byte{}, pw...)
					if len(bad) == 0 {
						bad = []byte("x")
					} else {
						bad[c.Rng.Intn(min(len(bad), 8))] ^= 0x01
						if bad[0] == 0 {
							bad[0] = 2
						}
					}
					if r == "nil" && !strings.Contains(string(bad), "\x00") && string(bad) != string(pw) {
						if xb := xcrypt(bad, x); xb != "" && xb != x {
							if r3 := goCheck(api, x, string(bad), 0); r3 != "mismatch" {
								c.Fail("their-mismatch-accepted", fmt.Sprintf("%s.Check(libxcrypt's hash, other password) = %s although libxcrypt derives a different hash", scheme, r3), in)
							}
							c.Direct++
						}
					}
					c.Count(scheme + ":there-here")
				}
				// here → there
				cost := api.costs[k%len(api.costs)]
				if scheme == "sunmd5" && cost[0] == 0 {
					// NewHash(pw, 0) writes "$md5$rounds=0$…": the "$md5$rounds=N$" spelling is documented legacy
					// behaviour outside the domain shared with libxcrypt (C03's second sentence)
					cost = api.costs[(k+1)%len(api.costs)]
				}
				if scheme == "bcrypt" {
					cost = api.costs[0]
				}
				if scheme == "sha1" && cost[0] == 0 {
					cost = api.costs[(k+1)%len(api.costs)]
				}
				h, err := api.newHash(string(pw), cost[0], cost[1])
				if err != nil || h == "" {
					c.Count(scheme + ":newhash-refused")
					continue
				}
				y := xcrypt(pw, h)
				in2 := map[string]string{"suite": "xcrypt", "scheme": scheme, "hash": hx([]byte(h)), "password": hx(pw), "libxcrypt": hx([]byte(y))}
				c.Direct++
				class := ""
				if scheme == "sunmd5" && strings.HasPrefix(h, "$md5$rounds=0$") {
					class = "sunmd5-rounds0"
				}
				if y != h {
					in2["class"] = class
					c.Fail("our-hash-rejected", fmt.Sprintf("libxcrypt derives %q from the %s hash generated here", y, scheme), in2)
				}
				c.Count(scheme + ":here-there")
				c.NonTrivial(fmt.Sprintf("%s:%d:%d", scheme, n, k%7))
			}
		}
	}
}
