// Command harness drives the real go-crypt packages in-process for the correspondence checks.
//
//	harness <suite> -out <dir> -seed <n> -tier quick|thorough
//
// Each suite writes <dir>/<suite>.ops (one operation per line, fed to the Lean driver),
// <dir>/<suite>.go (the implementation's canonicalised result, one line per operation) and
// <dir>/<suite>.json (input distribution, samples, and property failures found on Go alone).
package main

import (
	"bufio"
	"encoding/hex"
	"encoding/json"
	"flag"
	"fmt"
	"math/rand"
	"os"
	"path/filepath"
	"sort"
	"time"
)

type PropFail struct {
	Kind  string            `json:"kind"`
	Desc  string            `json:"desc"`
	Input map[string]string `json:"input"`
}

type Ctx struct {
	Suite    string
	Seed     int64
	Tier     string
	Rng      *rand.Rand
	Replay   map[string]string
	ops, out *bufio.Writer
	Stats    map[string]int
	Samples  []string
	Fails    []PropFail
	NOps     int
	Direct   int // evaluations of the property made directly on the implementation (no model operation)
	Distinct map[string]struct{}
	Extra    map[string]interface{}
	// process-level sharding of the per-scheme suites: shard i of k handles the schemes with index ≡ i (mod k).
	// The per-scheme random stream is re-seeded from (seed, suite, scheme index), so the operations are
	// the same however the suite is sharded.
	ShardI, ShardK int
	pending        *os.File
}

// Pending records what is about to be executed. A panic inside a goroutine that the LIBRARY starts cannot be
// recovered by the harness and kills the process; the runner then reads this file and reports its content as
// the input on which the implementation crashed.
func (c *Ctx) Pending(desc string) {
	if c.pending == nil {
		return
	}
	c.pending.Truncate(0)
	c.pending.WriteAt([]byte(desc+"\n"), 0)
}

// Scheme starts the part of a suite that belongs to the scheme with index idx; false = another shard's.
func (c *Ctx) Scheme(idx int) bool {
	if c.ShardK > 1 && idx%c.ShardK != c.ShardI {
		return false
	}
	h := int64(0)
	for _, b := range []byte(c.Suite) {
		h = h*131 + int64(b)
	}
	c.Rng = rand.New(rand.NewSource(c.Seed*1000003 + h*7919 + int64(idx)*104729 + 17))
	return true
}

func (c *Ctx) Thorough() bool { return c.Tier == "thorough" }

// Op records one operation for the model and the implementation's result for it.
func (c *Ctx) Op(op, result string) {
	fmt.Fprintln(c.ops, op)
	fmt.Fprintln(c.out, result)
	c.NOps++
	if len(c.Samples) < 12 && (c.NOps%97 == 1 || c.NOps < 4) {
		c.Samples = append(c.Samples, op+" => "+result)
	}
}

func (c *Ctx) Count(key string) { c.Stats[key]++ }

// NonTrivial marks a distinct non-trivial case (the rule is suite-specific and reported in evidence).
func (c *Ctx) NonTrivial(key string) { c.Distinct[key] = struct{}{} }

func (c *Ctx) Fail(kind, desc string, input map[string]string) {
	if len(c.Fails) < 50 {
		c.Fails = append(c.Fails, PropFail{kind, desc, input})
	}
	c.Stats["propfail:"+kind]++
}

func hx(b []byte) string {
	if len(b) == 0 {
		return "-"
	}
	return hex.EncodeToString(b)
}

func unhx(s string) []byte {
	if s == "-" {
		return nil
	}
	b, err := hex.DecodeString(s)
	if err != nil {
		panic("bad hex in replay: " + s)
	}
	return b
}

// safely runs f, turning a panic into a "panic" result and a hang into "timeout".
func safely(f func() string) (res string) {
	done := make(chan string, 1)
	go func() {
		defer func() {
			if r := recover(); r != nil {
				done <- fmt.Sprintf("panic")
				lastPanic = fmt.Sprint(r)
			}
		}()
		done <- f()
	}()
	limit := 90 * time.Second // generous: the machine may be shared with other checks
	if hungOps > 0 {
		limit = 15 * time.Second
	}
	select {
	case r := <-done:
		return r
	case <-time.After(limit):
		// an implementation that hangs on a whole family of inputs must not stall the check: after the third
		// operation that did not return the process stops, and the runner reports the pending operation
		hungOps++
		if hungOps >= 3 {
			fmt.Fprintln(os.Stderr, "fatal error: operation did not return (third hung operation of this process; stopping)")
			os.Exit(3)
		}
		return "timeout"
	}
}

var hungOps int

var lastPanic string

// activeCtx lets the call helpers (goKey, goCheck, …) record the pending operation without threading the context through.
var activeCtx *Ctx

func pendingOp(desc string) {
	if activeCtx != nil {
		activeCtx.Pending(desc)
	}
}

type Suite func(c *Ctx)

var suites = map[string]Suite{}

func main() {
	if len(os.Args) < 2 {
		fmt.Fprintln(os.Stderr, "usage: harness <suite> [-out dir] [-seed n] [-tier t] [-replay file]")
		var names []string
		for n := range suites {
			names = append(names, n)
		}
		sort.Strings(names)
		fmt.Fprintln(os.Stderr, "suites:", names)
		os.Exit(2)
	}
	name := os.Args[1]
	fs := flag.NewFlagSet("harness", flag.ExitOnError)
	out := fs.String("out", ".", "output directory")
	seed := fs.Int64("seed", 1, "PRNG seed")
	tier := fs.String("tier", "quick", "quick|thorough")
	replay := fs.String("replay", "", "replay file (json object of strings)")
	shard := fs.String("shard", "", "i/k: handle only the schemes with index ≡ i (mod k)")
	fs.Parse(os.Args[2:])
	s, ok := suites[name]
	if !ok {
		fmt.Fprintln(os.Stderr, "unknown suite", name)
		os.Exit(2)
	}
	os.MkdirAll(*out, 0o755)
	fo, err := os.Create(filepath.Join(*out, name+".ops"))
	if err != nil {
		panic(err)
	}
	fg, err := os.Create(filepath.Join(*out, name+".go"))
	if err != nil {
		panic(err)
	}
	c := &Ctx{
		Suite: name, Seed: *seed, Tier: *tier, Rng: rand.New(rand.NewSource(*seed)),
		ops: bufio.NewWriterSize(fo, 1<<20), out: bufio.NewWriterSize(fg, 1<<20),
		Stats: map[string]int{}, Distinct: map[string]struct{}{}, Extra: map[string]interface{}{},
	}
	if *shard != "" {
		fmt.Sscanf(*shard, "%d/%d", &c.ShardI, &c.ShardK)
	}
	if *replay != "" {
		b, err := os.ReadFile(*replay)
		if err != nil {
			panic(err)
		}
		var m map[string]interface{}
		if err := json.Unmarshal(b, &m); err != nil {
			panic(err)
		}
		c.Replay = map[string]string{}
		if in, ok := m["input"].(map[string]interface{}); ok {
			m = in
		}
		for k, v := range m {
			if sv, ok := v.(string); ok {
				c.Replay[k] = sv
			}
		}
	}
	if pf, err := os.Create(filepath.Join(*out, name+".pending")); err == nil {
		c.pending = pf
		activeCtx = c
	}
	t0 := time.Now()
	s(c)
	if c.pending != nil {
		c.pending.Close()
		os.Remove(filepath.Join(*out, name+".pending"))
	}
	c.ops.Flush()
	c.out.Flush()
	fo.Close()
	fg.Close()
	meta := map[string]interface{}{
		"suite": name, "seed": *seed, "tier": *tier, "ops": c.NOps,
		"distinct_nontrivial": len(c.Distinct), "stats": c.Stats, "samples": c.Samples,
		"propfails": c.Fails, "wall_s": time.Since(t0).Seconds(), "extra": c.Extra, "direct": c.Direct,
	}
	b, _ := json.MarshalIndent(meta, "", " ")
	if err := os.WriteFile(filepath.Join(*out, name+".json"), b, 0o644); err != nil {
		panic(err)
	}
}

func newRng(seed int64) *rand.Rand { return rand.New(rand.NewSource(seed)) }
