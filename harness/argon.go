package main

import (
	"encoding/binary"
	"fmt"
	"runtime"
	"sync"
	"time"

	"github.com/sergeymakinen/go-crypt/argon2/argon2crypto"
)

func init() {
	suites["argon"] = suiteArgon
	suites["argonsched"] = suiteArgonSched
}

func blockBytes(b *[128]uint64) []byte {
	out := make([]byte, 1024)
	for i, w := range b {
		binary.LittleEndian.PutUint64(out[i*8:], w)
	}
	return out
}

func (c *Ctx) randBlock() *[128]uint64 {
	var b [128]uint64
	for i := range b {
		b[i] = c.Rng.Uint64()
		if c.Rng.Intn(16) == 0 {
			b[i] = []uint64{0, ^uint64(0), 0xFFFFFFFF, 0xFFFFFFFF00000000, 1}[c.Rng.Intn(5)]
		}
	}
	return &b
}

// suiteArgon (C04): keys against the Lean model and the Lean RFC 9106 reference; the block function
// of every code path on random and aliased blocks; SSE4.1 on/off in this binary (the purego build
// of this harness runs the same suite on the portable path).
func suiteArgon(c *Ctx) {
	type cfg struct {
		name string
		set  func() func()
	}
	cfgs := []cfg{{"default", func() func() { return func() {} }}}
	old := argon2crypto.SetUseSSE4(false)
	argon2crypto.SetUseSSE4(old)
	if old {
		cfgs = append(cfgs, cfg{"sse4-off", func() func() {
			argon2crypto.SetUseSSE4(false)
			return func() { argon2crypto.SetUseSSE4(true) }
		}})
	}
	c.Extra["useSSE4"] = old
	c.Extra["configs"] = len(cfgs)
	npoints := 60
	if c.Thorough() {
		npoints = 1200
	}
	lanesPool := []uint8{1, 1, 2, 3, 4, 5, 6, 7, 8}
	for i := 0; i < npoints; i++ {
		mode := i % 3
		ver := []int{0x10, 0x13}[(i/3)%2]
		p := lanesPool[c.Rng.Intn(len(lanesPool))]
		if i%6 == 5 {
			// many lanes: the 8-bit lane count times the 4 sync points crosses 256 at 64 lanes
			p = []uint8{63, 64, 65, 127, 128, 129, 191, 192, 193, 254, 255}[(i/6)%11]
		}
		m := uint32(p) * uint32([]int{8, 8, 9, 12, 16, 33}[c.Rng.Intn(6)])
		if c.Rng.Intn(3) == 0 {
			m += uint32(c.Rng.Intn(4*int(p) + 1)) // not a multiple of 4*lanes
		}
		if p >= 63 {
			m = uint32(p) * uint32([]int{8, 8, 9}[c.Rng.Intn(3)])
			if c.Rng.Intn(2) == 0 {
				m = uint32(8 + c.Rng.Intn(8*int(p))) // below the 8·lanes minimum: rounded up by Key
			}
		}
		t := uint32(1 + c.Rng.Intn(4))
		pw := c.randPw(c.Rng.Intn(201), false)
		salt := make([]byte, 8+c.Rng.Intn(57))
		c.Rng.Read(salt)
		kl := uint32([]int{4, 16, 32, 33, 64, 65, 100, 128}[c.Rng.Intn(8)])
		var keys []string
		for _, cf := range cfgs {
			restore := cf.set()
			pendingOp(fmt.Sprintf("argon2key %d %d %s %s %d %d %d %d (%s)", mode, ver, hx(pw), hx(salt), t, m, p, kl, cf.name))
			k := safely(func() string { return hx(argon2crypto.Key(mode, ver, pw, salt, t, m, p, kl)) })
			restore()
			keys = append(keys, k)
		}
		in := map[string]string{"suite": "argon", "mode": fmt.Sprint(mode), "version": fmt.Sprint(ver), "password": hx(pw), "salt": hx(salt),
			"time": fmt.Sprint(t), "memory": fmt.Sprint(m), "threads": fmt.Sprint(p), "keylen": fmt.Sprint(kl)}
		for j := 1; j < len(keys); j++ {
			if keys[j] != keys[0] {
				c.Fail("code-paths-differ", fmt.Sprintf("key with %s differs from %s", cfgs[j].name, cfgs[0].name), in)
			}
		}
		args := fmt.Sprintf("%d %d %s %s %d %d %d %d", mode, ver, hx(pw), hx(salt), t, m, p, kl)
		c.Op("argon2key "+args, keys[0])
		if (i%2 == 0 || c.Thorough()) && m >= 8*uint32(p) {
			c.Op("argon2rfc "+args, keys[0]) // the RFC reference has no rounding-up rule: only on its own domain
		}
		c.NonTrivial(fmt.Sprintf("%d:%d:%d:%d:%d", mode, ver, p, m, t))
		c.Direct += len(cfgs)
	}
	// H' lengths
	for _, n := range []int{1, 4, 31, 32, 33, 63, 64, 65, 66, 95, 96, 97, 127, 128, 129, 1024} {
		inp := c.randPw(c.Rng.Intn(80), false)
		out := make([]byte, n)
		argon2crypto.Blake2bHash(out, inp)
		c.Op(fmt.Sprintf("hprime %d %s", n, hx(inp)), hx(out))
	}
	// block function: every code path on random 1 KiB triples, including aliased out == in
	nb := 300
	if c.Thorough() {
		nb = 20000
	}
	for i := 0; i < nb; i++ {
		in1, in2, out0 := c.randBlock(), c.randBlock(), c.randBlock()
		xor := i%2 == 1
		alias := i % 5 // 0: none, 1: out==in1, 2: out==in2, 3: in1==in2, 4: all three
		run := func(f func(out, a, b *[128]uint64, xor bool)) []byte {
			o, a, b := *out0, *in1, *in2
			po, pa, pb := &o, &a, &b
			switch alias {
			case 1:
				po = pa
			case 2:
				po = pb
			case 3:
				pb = pa
			case 4:
				po, pb = pa, pa
			}
			f(po, pa, pb, xor)
			return blockBytes(po)
		}
		ref := run(argon2crypto.ProcessBlockGeneric)
		for _, cf := range cfgs {
			restore := cf.set()
			got := run(argon2crypto.ProcessBlockActive)
			restore()
			if string(got) != string(ref) {
				c.Fail("block-paths-differ", fmt.Sprintf("block function (%s, xor=%v, alias=%d) differs from the portable one", cf.name, xor, alias),
					map[string]string{"suite": "argon", "in1": hx(blockBytes(in1)), "in2": hx(blockBytes(in2)), "out": hx(blockBytes(out0)), "xor": fmt.Sprint(xor), "alias": fmt.Sprint(alias)})
			}
			c.Direct++
		}
		if i%10 == 0 && alias == 0 {
			x := "0"
			if xor {
				x = "1"
			}
			c.Op(fmt.Sprintf("block %s %s %s %s", x, hx(blockBytes(out0)), hx(blockBytes(in1)), hx(blockBytes(in2))), hx(ref))
		}
	}
	// indexAlpha on the domain of the reference-set theorem
	ni := 3000
	if c.Thorough() {
		ni = 100000
	}
	for i := 0; i < ni; i++ {
		threads := uint32(1 + c.Rng.Intn(8))
		segments := uint32(2 + c.Rng.Intn(40))
		lanes := 4 * segments
		n := uint32(c.Rng.Intn(3))
		slice := uint32(c.Rng.Intn(4))
		lane := uint32(c.Rng.Intn(int(threads)))
		index := uint32(c.Rng.Intn(int(segments)))
		if n == 0 && slice == 0 && index < 2 {
			index = 2 % segments
			if index < 2 {
				continue
			}
		}
		r := c.Rng.Uint64()
		if i%7 == 0 {
			r = []uint64{0, ^uint64(0), 0xFFFFFFFF, 1 << 32, 0xFFFFFFFF00000000}[c.Rng.Intn(5)]
		}
		got := argon2crypto.IndexAlpha(r, lanes, segments, threads, n, slice, lane, index)
		c.Op(fmt.Sprintf("ialpha %d %d %d %d %d %d %d %d", r, lanes, segments, threads, n, slice, lane, index), fmt.Sprint(got))
		// the reference-set property, directly
		refLane, pos := got/lanes, got%lanes
		cur := lane*lanes + slice*segments + index
		bad := ""
		switch {
		case got >= threads*lanes:
			bad = "reference outside the memory"
		case refLane != lane && pos/segments == slice:
			bad = "cross-lane reference into the slice being written"
		case refLane == lane && pos/segments == slice && pos%segments >= index:
			bad = "same-lane reference at or after the block being written"
		case got == cur:
			bad = "reference to the block being written"
		}
		if bad != "" {
			c.Fail("reference-set", bad, map[string]string{"suite": "argon", "op": fmt.Sprintf("ialpha %d %d %d %d %d %d %d %d", r, lanes, segments, threads, n, slice, lane, index)})
		}
	}
}

// suiteArgonSched (C09): multi-lane derivations under perturbed scheduling and varying GOMAXPROCS;
// keys must equal the sequential Lean model; goroutines must be gone afterwards. Run under the race
// detector with the purego build so that block accesses are instrumented.
func suiteArgonSched(c *Ctx) {
	runs := 12
	if c.Thorough() {
		runs = 300
	}
	stop := make(chan struct{})
	var noise sync.WaitGroup
	for g := 0; g < 4; g++ {
		noise.Add(1)
		go func() {
			defer noise.Done()
			for {
				select {
				case <-stop:
					return
				default:
					runtime.Gosched()
				}
			}
		}()
	}
	g0 := runtime.NumGoroutine()
	for i := 0; i < runs; i++ {
		p := uint8(2 + c.Rng.Intn(7))
		mode := i % 3
		ver := []int{0x10, 0x13}[(i/3)%2]
		m := uint32(p) * uint32([]int{8, 8, 32}[c.Rng.Intn(3)])
		if c.Rng.Intn(2) == 0 {
			m += 3
		}
		t := uint32(1 + c.Rng.Intn(3))
		pw := c.randPw(c.Rng.Intn(40), false)
		salt := make([]byte, 16)
		c.Rng.Read(salt)
		var first string
		for rep, procs := range []int{1, 2, 3, 16, 2} {
			old := runtime.GOMAXPROCS(procs)
			pendingOp(fmt.Sprintf("argon2key %d %d %s %s %d %d %d 32 (GOMAXPROCS=%d)", mode, ver, hx(pw), hx(salt), t, m, p, procs))
			k := safely(func() string { return hx(argon2crypto.Key(mode, ver, pw, salt, t, m, p, 32)) })
			runtime.GOMAXPROCS(old)
			if rep == 0 {
				first = k
			} else if k != first {
				c.Fail("schedule-dependent", fmt.Sprintf("key differs between GOMAXPROCS settings (%d)", procs),
					map[string]string{"suite": "argonsched", "mode": fmt.Sprint(mode), "version": fmt.Sprint(ver), "password": hx(pw), "salt": hx(salt), "time": fmt.Sprint(t), "memory": fmt.Sprint(m), "threads": fmt.Sprint(p)})
			}
			c.Direct++
		}
		c.Op(fmt.Sprintf("argon2key %d %d %s %s %d %d %d 32", mode, ver, hx(pw), hx(salt), t, m, p), first)
		c.NonTrivial(fmt.Sprintf("%d:%d:%d:%d", mode, ver, p, m))
	}
	// every worker goroutine has finished when Key returns
	deadline := time.Now().Add(2 * time.Second)
	for runtime.NumGoroutine() > g0 && time.Now().Before(deadline) {
		time.Sleep(time.Millisecond)
	}
	g1 := runtime.NumGoroutine()
	c.Extra["goroutines_before"] = g0
	c.Extra["goroutines_after"] = g1
	if g1 > g0 {
		c.Fail("goroutine-leak", fmt.Sprintf("goroutines %d -> %d after all Key calls returned", g0, g1), map[string]string{"suite": "argonsched"})
	}
	close(stop)
	noise.Wait()
}
