package main

import (
	"errors"
	"fmt"
	"reflect"
	"regexp"
	"runtime"
	"strconv"
	"strings"
	"sync"

	crypt "github.com/sergeymakinen/go-crypt"
	crypthash "github.com/sergeymakinen/go-crypt/hash"
)

func init() {
	suites["conc"] = suiteConc
	suites["cache"] = suiteCache
}

type concOp struct {
	name string
	run  func() string
}

// shared struct types used in value, pointer and pointer-to-pointer form
type concA struct {
	HashPrefix wlPrefix
	Rounds     uint32 `hash:"param:rounds,omitempty"`
	Salt       []byte
	Sum        [4]byte
}
type concB struct {
	A uint8  `hash:"param:a,group"`
	B uint16 `hash:"param:b,group"`
	S string
}
type concBad struct {
	X string `hash:"group"`
}

func marshalForms(tag string, v interface{}) []concOp {
	rv := reflect.ValueOf(v)
	pv := reflect.New(rv.Type())
	pv.Elem().Set(rv)
	ppv := reflect.New(pv.Type())
	ppv.Elem().Set(pv)
	name := rv.Type().Name() + " " + tag
	return []concOp{
		{"marshal " + name, func() string { s, err := crypthash.Marshal(rv.Interface()); return fmt.Sprintf("%q %v", s, err) }},
		{"marshal *" + name, func() string { s, err := crypthash.Marshal(pv.Interface()); return fmt.Sprintf("%q %v", s, err) }},
		{"marshal **" + name, func() string { s, err := crypthash.Marshal(ppv.Interface()); return fmt.Sprintf("%q %v", s, err) }},
	}
}

func unmarshalOps(t reflect.Type, inputs []string) []concOp {
	var ops []concOp
	for _, in := range inputs {
		in := in
		ops = append(ops, concOp{"unmarshal *" + t.Name() + " " + in, func() string {
			pv := reflect.New(t)
			err := crypthash.Unmarshal(in, pv.Interface())
			return fmt.Sprintf("%+v %v", pv.Elem().Interface(), err)
		}})
		ops = append(ops, concOp{"unmarshal **" + t.Name() + " " + in, func() string {
			pv := reflect.New(t)
			ppv := reflect.New(pv.Type())
			ppv.Elem().Set(pv)
			err := crypthash.Unmarshal(in, ppv.Interface())
			return fmt.Sprintf("%+v %v", pv.Elem().Interface(), err)
		}})
	}
	return ops
}

// freshType builds a never-seen struct type behaviourally identical to its siblings (a uniquely
// named ignored field makes the reflect.Type distinct, so the type cache is cold for it).
var freshCounter int

var ignoredRe = regexp.MustCompile(`Ignored[0-9]+ `)

func freshType() reflect.Type {
	freshCounter++
	return reflect.StructOf([]reflect.StructField{
		{Name: "HashPrefix", Type: reflect.TypeOf(""), Tag: `hash:""`},
		{Name: "N", Type: reflect.TypeOf(uint16(0)), Tag: `hash:"param:n"`},
		{Name: "S", Type: reflect.TypeOf([]byte(nil)), Tag: `hash:"length:3"`},
		{Name: fmt.Sprintf("Ignored%d", freshCounter), Type: reflect.TypeOf(0), Tag: `hash:"-"`},
	})
}

func freshOps(t reflect.Type) []concOp {
	mk := func() reflect.Value {
		v := reflect.New(t).Elem()
		v.Field(0).SetString("$t$")
		v.Field(1).SetUint(7)
		v.Field(2).SetBytes([]byte("abc"))
		return v
	}
	// error texts name the (anonymous) struct type, which differs by the unique field: normalise it
	strip := func(s string) string { return ignoredRe.ReplaceAllString(s, "IgnoredK ") }
	return []concOp{
		{"fresh marshal T", func() string {
			s, err := crypthash.Marshal(mk().Interface())
			return strip(fmt.Sprintf("%q %v", s, err))
		}},
		{"fresh marshal *T", func() string {
			pv := reflect.New(t)
			pv.Elem().Set(mk())
			s, err := crypthash.Marshal(pv.Interface())
			return strip(fmt.Sprintf("%q %v", s, err))
		}},
		{"fresh unmarshal ok", func() string {
			pv := reflect.New(t)
			err := crypthash.Unmarshal("$t$n=9$xyz", pv.Interface())
			return strip(fmt.Sprintf("%v %v %v", pv.Elem().Field(1).Uint(), string(pv.Elem().Field(2).Bytes()), err))
		}},
		{"fresh unmarshal bad", func() string {
			pv := reflect.New(t)
			err := crypthash.Unmarshal("$t$n=9$x@z", pv.Interface())
			return strip(fmt.Sprintf("%v", err))
		}},
		{"fresh marshal bad T", func() string {
			v := mk()
			v.Field(2).SetBytes([]byte("toolong"))
			_, err := crypthash.Marshal(v.Interface())
			return strip(fmt.Sprintf("%v", err))
		}},
	}
}

// freshBadOps: a never-seen struct type whose tags are invalid (group without param); every call must
// report the error afresh, naming the type in the form (T, *T, **T) that was passed in THIS call.
func freshBadOps() []concOp {
	freshCounter++
	t := reflect.StructOf([]reflect.StructField{
		{Name: "HashPrefix", Type: reflect.TypeOf(""), Tag: `hash:""`},
		{Name: "S1", Type: reflect.TypeOf(""), Tag: `hash:"group"`},
		{Name: fmt.Sprintf("Ignored%d", freshCounter), Type: reflect.TypeOf(0), Tag: `hash:"-"`},
	})
	strip := func(s string) string { return ignoredRe.ReplaceAllString(s, "IgnoredK ") }
	show := func(err error) string {
		var te *crypthash.TagParamError
		st := "-"
		if errors.As(err, &te) {
			st = fmt.Sprint(te.Struct)
		}
		return strip(fmt.Sprintf("%v | struct=%s", err, st))
	}
	// two fields claiming one parameter name: TagParamError carrying the struct type
	t2 := reflect.StructOf([]reflect.StructField{
		{Name: "A", Type: reflect.TypeOf(""), Tag: `hash:"param:a"`},
		{Name: "B", Type: reflect.TypeOf(""), Tag: `hash:"param:a"`},
		{Name: fmt.Sprintf("Ignored%d", freshCounter), Type: reflect.TypeOf(0), Tag: `hash:"-"`},
	})
	mk := func(tag string, t reflect.Type) []concOp {
		return []concOp{
			{tag + " marshal T", func() string { _, err := crypthash.Marshal(reflect.New(t).Elem().Interface()); return show(err) }},
			{tag + " marshal *T", func() string { _, err := crypthash.Marshal(reflect.New(t).Interface()); return show(err) }},
			{tag + " unmarshal *T", func() string { return show(crypthash.Unmarshal("$t$x", reflect.New(t).Interface())) }},
			{tag + " unmarshal **T", func() string {
				pv := reflect.New(t)
				ppv := reflect.New(pv.Type())
				ppv.Elem().Set(pv)
				return show(crypthash.Unmarshal("$t$x", ppv.Interface()))
			}},
		}
	}
	return append(mk("bad", t), mk("conflict", t2)...)
}

// freshEmbedOps: one never-seen struct type embedded in two different outer types; what is cached
// for one outer type must not leak into (or be damaged by) the other.
func freshEmbedOps() []concOp {
	freshCounter++
	inner := reflect.StructOf([]reflect.StructField{
		{Name: "Rounds", Type: reflect.TypeOf(uint32(0)), Tag: `hash:"param:rounds"`},
		{Name: "Salt", Type: reflect.TypeOf(""), Tag: `hash:""`},
		{Name: fmt.Sprintf("Ignored%d", freshCounter), Type: reflect.TypeOf(0), Tag: `hash:"-"`},
	})
	outerA := reflect.StructOf([]reflect.StructField{
		{Name: "HashPrefix", Type: reflect.TypeOf(""), Tag: `hash:""`},
		{Name: "Inner", Type: inner, Anonymous: true},
		{Name: "Sum", Type: reflect.TypeOf(""), Tag: `hash:""`},
	})
	outerB := reflect.StructOf([]reflect.StructField{
		{Name: "HashPrefix", Type: reflect.TypeOf(""), Tag: `hash:""`},
		{Name: "Cost", Type: reflect.TypeOf(uint8(0)), Tag: `hash:"param:c"`},
		{Name: "Pad", Type: reflect.TypeOf(""), Tag: `hash:""`},
		{Name: "Inner", Type: inner, Anonymous: true},
	})
	mkA := func() reflect.Value {
		v := reflect.New(outerA).Elem()
		v.Field(0).SetString("$a$")
		v.Field(1).Field(0).SetUint(5000)
		v.Field(1).Field(1).SetString("salt")
		v.Field(2).SetString("sum")
		return v
	}
	mkB := func() reflect.Value {
		v := reflect.New(outerB).Elem()
		v.Field(0).SetString("$b$")
		v.Field(1).SetUint(4)
		v.Field(2).SetString("pad")
		v.Field(3).Field(0).SetUint(77)
		v.Field(3).Field(1).SetString("tlas")
		return v
	}
	// an inner struct that declares the HashPrefix itself, used on its own AND embedded (the outer type inherits the prefix)
	innerP := reflect.StructOf([]reflect.StructField{
		{Name: "HashPrefix", Type: reflect.TypeOf(""), Tag: `hash:""`},
		{Name: "V", Type: reflect.TypeOf(uint8(0)), Tag: `hash:"param:v"`},
		{Name: fmt.Sprintf("Ignored%d", freshCounter), Type: reflect.TypeOf(0), Tag: `hash:"-"`},
	})
	outerP := reflect.StructOf([]reflect.StructField{
		{Name: "Inner", Type: innerP, Anonymous: true},
		{Name: "Salt", Type: reflect.TypeOf(""), Tag: `hash:""`},
		{Name: "Sum", Type: reflect.TypeOf(""), Tag: `hash:""`},
	})
	mkInnerP := func() reflect.Value {
		v := reflect.New(innerP).Elem()
		v.Field(0).SetString("$x$")
		v.Field(1).SetUint(3)
		return v
	}
	mkOuterP := func() reflect.Value {
		v := reflect.New(outerP).Elem()
		v.Field(0).Set(mkInnerP())
		v.Field(1).SetString("salt")
		v.Field(2).SetString("sum")
		return v
	}
	prefixOps := []concOp{
		{"embed marshal InnerP alone", func() string {
			s, err := crypthash.Marshal(mkInnerP().Interface())
			return fmt.Sprintf("%q %v", s, err != nil)
		}},
		{"embed marshal OuterP", func() string {
			s, err := crypthash.Marshal(mkOuterP().Interface())
			return fmt.Sprintf("%q %v", s, err != nil)
		}},
		{"embed unmarshal OuterP", func() string {
			pv := reflect.New(outerP)
			err := crypthash.Unmarshal("$x$v=9$ss$dd", pv.Interface())
			return fmt.Sprintf("%v %v %v %v %v", pv.Elem().Field(0).Field(0).String(), pv.Elem().Field(0).Field(1).Uint(), pv.Elem().Field(1).String(), pv.Elem().Field(2).String(), err != nil)
		}},
		{"embed unmarshal InnerP alone", func() string {
			pv := reflect.New(innerP)
			err := crypthash.Unmarshal("$x$v=7", pv.Interface())
			return fmt.Sprintf("%v %v %v", pv.Elem().Field(0).String(), pv.Elem().Field(1).Uint(), err != nil)
		}},
	}
	return append(prefixOps, []concOp{
		{"embed marshal A", func() string {
			s, err := crypthash.Marshal(mkA().Interface())
			return fmt.Sprintf("%q %v", s, err != nil)
		}},
		{"embed marshal B", func() string {
			s, err := crypthash.Marshal(mkB().Interface())
			return fmt.Sprintf("%q %v", s, err != nil)
		}},
		{"embed unmarshal A", func() string {
			pv := reflect.New(outerA)
			err := crypthash.Unmarshal("$a$rounds=9$ss$dd", pv.Interface())
			return fmt.Sprintf("%v %v %v %v", pv.Elem().Field(1).Field(0).Uint(), pv.Elem().Field(1).Field(1).String(), pv.Elem().Field(2).String(), err != nil)
		}},
		{"embed unmarshal B", func() string {
			pv := reflect.New(outerB)
			err := crypthash.Unmarshal("$b$c=3$pp$rounds=8$tt", pv.Interface())
			return fmt.Sprintf("%v %v %v %v %v", pv.Elem().Field(1).Uint(), pv.Elem().Field(2).String(), pv.Elem().Field(3).Field(0).Uint(), pv.Elem().Field(3).Field(1).String(), err != nil)
		}},
	}...)
}

// ptrCost implements the text codec on the POINTER receiver only: whether Marshal honours it must not
// depend on the form (T, *T, **T) in which the struct reaches Marshal.
type ptrCost uint8

func (h *ptrCost) MarshalText() ([]byte, error) {
	if *h > 31 {
		return nil, errors.New("cost out of range")
	}
	return []byte(fmt.Sprintf("%02d", uint8(*h))), nil
}

func (h *ptrCost) UnmarshalText(text []byte) error {
	n, err := strconv.ParseUint(string(text), 10, 8)
	*h = ptrCost(n)
	return err
}

type concPtrCodec struct {
	HashPrefix string
	Cost       ptrCost
	Salt       string
}

func suiteConc(c *Ctx) {
	// fixed valid hashes per scheme (cheap costs)
	var ops []concOp
	for _, api := range schemeAPIs {
		api := api
		cost := api.costs[0]
		pw := "concurrent pw"
		if api.name == "des" {
			pw = "des pw"
		}
		h, err := api.newHash(pw, cost[0], cost[1])
		if err != nil {
			continue
		}
		ops = append(ops,
			concOp{"check ok " + api.name, func() string { return classifyErr(api.check(h, pw)) }},
			concOp{"check bad " + api.name, func() string { return classifyErr(api.check(h, pw+"x")) }},
			concOp{"check malformed " + api.name, func() string { return fmt.Sprint(api.check(h+"$x", pw)) }},
			concOp{"dispatch " + api.name, func() string { return classifyErr(crypt.Check(h, pw)) }},
			concOp{"newhash+check " + api.name, func() string {
				nh, err := api.newHash(pw, cost[0], cost[1])
				if err != nil {
					return "newhash: " + err.Error()
				}
				return classifyErr(api.check(nh, pw))
			}},
		)
		if api.params != nil {
			ops = append(ops, concOp{"params " + api.name, func() string { s, _ := api.params(h); return s }})
		}
	}
	for _, si := range schemeInfos {
		a := c.validArgs(si, 9)
		if si.name == "sha1" {
			a.rounds = 2
		}
		ops = append(ops, concOp{"key " + si.name, func() string { return goKey(a) }})
	}
	ops = append(ops, marshalForms("ok", concA{HashPrefix: "$t$", Rounds: 5, Salt: []byte("ab"), Sum: [4]byte{'w', 'x', 'y', 'z'}})...)
	ops = append(ops, marshalForms("badchar", concA{HashPrefix: "$t$", Salt: []byte("a@"), Sum: [4]byte{'w', 'x', 'y', 'z'}})...) // error: names the struct type
	ops = append(ops, marshalForms("ok", concB{A: 1, B: 2, S: "s"})...)
	ops = append(ops, marshalForms("badtag", concBad{X: "x"})...) // invalid tag: reported on every call
	ops = append(ops, unmarshalOps(reflect.TypeOf(concA{}), []string{"$t$rounds=5$ab$wxyz", "$t$ab$wxyz", "$t$ab$wxy@", "$t$ab", "$q$ab$wxyz"})...)
	ops = append(ops, unmarshalOps(reflect.TypeOf(concB{}), []string{"a=1,b=2$s", "b=2,a=1$s", "a=1$s", "a=1,b=2,c=3$s"})...)
	ops = append(ops, unmarshalOps(reflect.TypeOf(concBad{}), []string{"x"})...)
	// registration of test prefixes while dispatching on them
	regStub := func(id string) func(hash, password string) error {
		return func(hash, password string) error { return fmt.Errorf("stub %s %s", id, hash) }
	}
	crypt.RegisterHash("$conc1$", regStub("one"))
	ops = append(ops,
		concOp{"register same", func() string { crypt.RegisterHash("$conc1$", regStub("one")); return "ok" }},
		concOp{"dispatch stub", func() string { return fmt.Sprint(crypt.Check("$conc1$abc", "pw")) }},
		concOp{"dispatch unknown", func() string { return fmt.Sprint(crypt.Check("$nosuch$abc", "pw")) }},
	)

	// sequential table
	expected := make([]string, len(ops))
	for i, op := range ops {
		expected[i] = safely(op.run)
	}
	c.Extra["operations"] = len(ops)

	rounds := 6
	if c.Thorough() {
		rounds = 60
	}
	mismatches := 0
	for r := 0; r < rounds; r++ {
		n := []int{2, 8, 32}[r%3]
		procs := []int{1, 2, 4, 16}[r%4]
		old := runtime.GOMAXPROCS(procs)
		// fresh types: first use happens concurrently; expected results come from a sibling type used sequentially
		sib := freshType()
		var sibExpected []string
		for _, op := range freshOps(sib) {
			sibExpected = append(sibExpected, safely(op.run))
		}
		ft := freshType()
		fops := freshOps(ft)
		var wg sync.WaitGroup
		start := make(chan struct{})
		type res struct {
			op  string
			got string
			exp string
		}
		results := make(chan res, n*40)
		for g := 0; g < n; g++ {
			seed := c.Rng.Int63()
			wg.Add(1)
			go func(g int, seed int64) {
				defer wg.Done()
				rng := newRng(seed)
				<-start
				for k := 0; k < 30; k++ {
					if rng.Intn(4) == 0 {
						j := rng.Intn(len(fops))
						got := safely(fops[j].run)
						results <- res{fops[j].name, got, sibExpected[j]}
					} else {
						j := rng.Intn(len(ops))
						got := safely(ops[j].run)
						results <- res{ops[j].name, got, expected[j]}
					}
					if rng.Intn(3) == 0 {
						runtime.Gosched()
					}
				}
			}(g, seed)
		}
		close(start)
		wg.Wait()
		close(results)
		runtime.GOMAXPROCS(old)
		for rs := range results {
			c.Count("concurrent-ops")
			c.Direct++
			if rs.got != rs.exp {
				mismatches++
				c.Fail("concurrent-result-differs", fmt.Sprintf("%s: concurrent %q, isolated %q", rs.op, rs.got, rs.exp),
					map[string]string{"suite": "conc", "op": rs.op, "goroutines": fmt.Sprint(n), "gomaxprocs": fmt.Sprint(procs)})
			}
		}
		c.NonTrivial(fmt.Sprintf("round%d:%d:%d", r, n, procs))
	}
	// concurrent registrations of DISTINCT prefixes (RegisterHash racing with RegisterHash): none may be
	// lost, each goroutine must see its own registration at once, and all must still be there afterwards
	regRounds := 40
	if c.Thorough() {
		regRounds = 600
	}
	lost := 0
	for r := 0; r < regRounds; r++ {
		n := []int{2, 8, 16}[r%3]
		old := runtime.GOMAXPROCS([]int{2, 4, 16}[r%3])
		start := make(chan struct{})
		var wg sync.WaitGroup
		own := make([]string, n)
		prefixes := make([]string, n)
		for g := 0; g < n; g++ {
			prefixes[g] = fmt.Sprintf("$creg%dx%d$", r, g)
			wg.Add(1)
			go func(g int) {
				defer wg.Done()
				p := prefixes[g]
				<-start
				crypt.RegisterHash(p, regStub(p))
				own[g] = fmt.Sprint(crypt.Check(p+"abc", "pw"))
			}(g)
		}
		close(start)
		wg.Wait()
		runtime.GOMAXPROCS(old)
		for g := 0; g < n; g++ {
			exp := fmt.Sprintf("stub %s %sabc", prefixes[g], prefixes[g])
			later := fmt.Sprint(crypt.Check(prefixes[g]+"abc", "pw"))
			c.Direct += 2
			if own[g] != exp || later != exp {
				lost++
				c.Fail("concurrent-result-differs", fmt.Sprintf("RegisterHash(%q) concurrent with %d other registrations: Check right after = %q, later = %q, isolated %q", prefixes[g], n-1, own[g], later, exp),
					map[string]string{"suite": "conc", "op": "concurrent registrations", "goroutines": fmt.Sprint(n)})
			}
		}
	}
	c.Extra["rounds"] = rounds
	c.Extra["registration_rounds"] = regRounds
	c.Extra["lost_registrations"] = lost
	c.Extra["result_mismatches"] = mismatches
}

// suiteCache (C18): sequential operation sequences over a pool of struct types in T, *T, **T form;
// every result must equal the result of the same operation's first occurrence and of the same
// operation on a never-seen sibling type.
func suiteCache(c *Ctx) {
	var pool []concOp
	pool = append(pool, marshalForms("ok", concA{HashPrefix: "$t$", Rounds: 5, Salt: []byte("ab"), Sum: [4]byte{'w', 'x', 'y', 'z'}})...)
	pool = append(pool, marshalForms("badchar", concA{HashPrefix: "$t$", Salt: []byte("a@"), Sum: [4]byte{'w', 'x', 'y', 'z'}})...)
	pool = append(pool, marshalForms("ok", concB{A: 1, B: 2, S: "s"})...)
	pool = append(pool, marshalForms("badtag", concBad{X: "x"})...)
	pool = append(pool, unmarshalOps(reflect.TypeOf(concA{}), []string{"$t$rounds=5$ab$wxyz", "$t$ab$wxy@", "$t$ab", "$q$ab$wxyz"})...)
	pool = append(pool, unmarshalOps(reflect.TypeOf(concB{}), []string{"a=1,b=2$s", "a=1$s"})...)
	pool = append(pool, unmarshalOps(reflect.TypeOf(concBad{}), []string{"x"})...)
	{
		// what the cold results look like (evidence; also guards against families that only ever fail)
		var sample []string
		for _, op := range append(freshBadOps(), freshEmbedOps()...) {
			sample = append(sample, op.name+" => "+safely(op.run))
		}
		c.Extra["coldFamilyResults"] = sample
	}
	first := map[string]string{}
	nseq := 40
	if c.Thorough() {
		nseq = 2000
	}
	for s := 0; s < nseq; s++ {
		// a fresh sibling pair per sequence: ops on `ft` interleaved with the pool, compared with `sib` (cold, used once)
		families := []func() []concOp{func() []concOp { return freshOps(freshType()) }, freshBadOps, freshEmbedOps}
		inst := [][]concOp{families[0](), families[1](), families[2]()}
		length := 5 + c.Rng.Intn(196)
		if !c.Thorough() {
			length = 5 + c.Rng.Intn(60)
		}
		for k := 0; k < length; k++ {
			if c.Rng.Intn(3) == 0 {
				fam := c.Rng.Intn(len(families))
				fops := inst[fam]
				j := c.Rng.Intn(len(fops))
				got := safely(fops[j].run)
				exp := safely(families[fam]()[j].run)
				c.Count("fresh-family-" + fmt.Sprint(fam))
				if got != exp {
					c.Fail("history-dependent", fmt.Sprintf("%s after %d operations: %q, on a never-seen identical type: %q", fops[j].name, k, got, exp),
						map[string]string{"suite": "cache", "op": fops[j].name})
				}
			} else {
				j := c.Rng.Intn(len(pool))
				got := safely(pool[j].run)
				if f, ok := first[pool[j].name]; ok {
					if f != got {
						c.Fail("history-dependent", fmt.Sprintf("%s: first occurrence %q, later %q", pool[j].name, f, got),
							map[string]string{"suite": "cache", "op": pool[j].name})
					}
				} else {
					first[pool[j].name] = got
				}
			}
			c.Count("cache-ops")
			c.Direct++
		}
		c.NonTrivial(fmt.Sprint("seq", s))
	}
	// value / pointer / pointer-to-pointer forms marshal to the same string
	for _, forms := range [][]concOp{
		marshalForms("ok", concA{HashPrefix: "$t$", Rounds: 5, Salt: []byte("ab"), Sum: [4]byte{'w', 'x', 'y', 'z'}}),
		marshalForms("ptr-receiver codec", concPtrCodec{HashPrefix: "$t$", Cost: 5, Salt: "salt"}),
		marshalForms("ptr-receiver codec, rejected value", concPtrCodec{HashPrefix: "$t$", Cost: 77, Salt: "salt"}),
	} {
		a, b, d := safely(forms[0].run), safely(forms[1].run), safely(forms[2].run)
		c.Direct += 3
		if a != b || a != d {
			c.Fail("form-dependent", fmt.Sprintf("%s — T: %s, *T: %s, **T: %s", forms[0].name, a, b, d), map[string]string{"suite": "cache", "op": forms[0].name})
		}
	}
	// observed facts about the cache protocol (C08/C18 tie): does getTypeInfo return the cached object?
	t := reflect.TypeOf(concA{})
	crypthash.Marshal(concA{HashPrefix: "$t$", Salt: []byte("ab"), Sum: [4]byte{'w', 'x', 'y', 'z'}})
	cached, returned := crypthash.TypeInfoIdentity(t)
	c.Extra["returnsAlias"] = cached != 0 && cached == returned
	keys := crypthash.TypeCacheKeys()
	ptrKeys := 0
	for _, k := range keys {
		if strings.HasPrefix(k, "*") {
			ptrKeys++
		}
	}
	c.Extra["cacheKeys"] = len(keys)
	c.Extra["pointerTypedCacheKeys"] = ptrKeys
	c.Op(fmt.Sprintf("cache-facts %v %v", cached != 0 && cached == returned, ptrKeys > 0), "protocol-ok")
}
