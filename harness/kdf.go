package main

import (
	"bytes"
	"crypto/rand"
	"encoding/binary"
	"fmt"
	"io"
	"reflect"
	"strings"

	"github.com/sergeymakinen/go-crypt/argon2"
	"github.com/sergeymakinen/go-crypt/bcrypt"
	"github.com/sergeymakinen/go-crypt/des"
	"github.com/sergeymakinen/go-crypt/desext"
	"github.com/sergeymakinen/go-crypt/md5"
	"github.com/sergeymakinen/go-crypt/nthash"
	"github.com/sergeymakinen/go-crypt/sha1"
	"github.com/sergeymakinen/go-crypt/sha256"
	"github.com/sergeymakinen/go-crypt/sha512"
	"github.com/sergeymakinen/go-crypt/sunmd5"
)

func init() {
	suites["kdf"] = suiteKdf
	suites["guards"] = suiteGuards
}

// keyArgs mirrors the Lean record KeyArgs.
type keyArgs struct {
	scheme     string
	pw, salt   []byte
	rounds     uint32
	memory     uint32
	threads    uint8
	optsNil    bool
	optPrefix  string
	optVersion int
	optFlag    bool
	rand       uint32
}

func b01(b bool) string {
	if b {
		return "1"
	}
	return "0"
}

func (a keyArgs) op(word string) string {
	return fmt.Sprintf("%s %s %s %s %d %d %d %s %s %d %s %d", word, a.scheme, hx(a.pw), hx(a.salt), a.rounds, a.memory, a.threads,
		b01(a.optsNil), hx([]byte(a.optPrefix)), a.optVersion, b01(a.optFlag), a.rand)
}

// scriptedRand replaces crypto/rand.Reader for the duration of f.
type scriptedRand struct {
	data []byte
	used int
}

func (s *scriptedRand) Read(p []byte) (int, error) {
	n := copy(p, s.data[s.used:])
	s.used += n
	if n < len(p) {
		return n, io.ErrUnexpectedEOF
	}
	return n, nil
}

func withEntropy(data []byte, f func()) (used int) {
	old := rand.Reader
	sr := &scriptedRand{data: data}
	rand.Reader = sr
	defer func() { rand.Reader = old }()
	f()
	return sr.used
}

func showKeyErr(err error) string {
	v := reflect.ValueOf(err)
	t := v.Type()
	name := t.Name()
	if t.PkgPath() == "" || name == "" {
		if strings.HasPrefix(err.Error(), "failed to create blowfish cipher") {
			return "internal cipher"
		}
		return "internal " + strings.SplitN(strings.ReplaceAll(err.Error(), " ", "-"), ":", 2)[0]
	}
	switch v.Kind() {
	case reflect.Int, reflect.Int8, reflect.Int16, reflect.Int32, reflect.Int64:
		return fmt.Sprintf("err %s %d -", name, v.Int())
	case reflect.Uint, reflect.Uint8, reflect.Uint16, reflect.Uint32, reflect.Uint64:
		return fmt.Sprintf("err %s %d -", name, v.Uint())
	case reflect.String:
		return fmt.Sprintf("err %s 0 %s", name, hx([]byte(v.String())))
	}
	return "err-other " + err.Error()
}

// optsMutation is set by callKey when a Key function changed the options struct it was given (C13).
var optsMutation string

// callKey invokes the real Key function of the scheme.
func callKey(a keyArgs) ([]byte, error) {
	switch a.scheme {
	case "md5":
		return md5.Key(a.pw, a.salt)
	case "sha256":
		return sha256.Key(a.pw, a.salt, a.rounds)
	case "sha512":
		return sha512.Key(a.pw, a.salt, a.rounds)
	case "sha1":
		var k []byte
		var err error
		if a.rounds != 4294967295 {
			return sha1.Key(a.pw, a.salt, a.rounds)
		}
		var rb [4]byte
		binary.BigEndian.PutUint32(rb[:], a.rand)
		withEntropy(rb[:], func() { k, err = sha1.Key(a.pw, a.salt, a.rounds) })
		return k, err
	case "sunmd5":
		var o *sunmd5.CompatibilityOptions
		if !a.optsNil {
			o = &sunmd5.CompatibilityOptions{Prefix: a.optPrefix, DisableSaltSeparator: a.optFlag}
		}
		if o != nil {
			before := *o
			defer func() {
				if *o != before {
					optsMutation = fmt.Sprintf("sunmd5.CompatibilityOptions changed from %+v to %+v", before, *o)
				}
			}()
		}
		return sunmd5.Key(a.pw, a.salt, a.rounds, o)
	case "des":
		return des.Key(a.pw, a.salt)
	case "desext":
		return desext.Key(a.pw, a.salt, a.rounds)
	case "bcrypt":
		var o *bcrypt.CompatibilityOptions
		if !a.optsNil {
			o = &bcrypt.CompatibilityOptions{Prefix: a.optPrefix}
		}
		if o != nil {
			before := *o
			defer func() {
				if *o != before {
					optsMutation = fmt.Sprintf("bcrypt.CompatibilityOptions changed from %+v to %+v", before, *o)
				}
			}()
		}
		return bcrypt.Key(a.pw, a.salt, uint8(a.rounds), o)
	case "nthash":
		return nthash.Key(a.pw)
	case "argon2":
		var o *argon2.CompatibilityOptions
		if !a.optsNil {
			o = &argon2.CompatibilityOptions{Prefix: a.optPrefix, Version: a.optVersion}
		}
		if o != nil {
			before := *o
			defer func() {
				if *o != before {
					optsMutation = fmt.Sprintf("argon2.CompatibilityOptions changed from %+v to %+v", before, *o)
				}
			}()
		}
		return argon2.Key(a.pw, a.salt, a.memory, a.rounds, a.threads, o)
	}
	panic("unknown scheme " + a.scheme)
}

func goKey(a keyArgs) string {
	pendingOp(a.op("key"))
	return safely(func() string {
		// keep the arguments intact for the caller: Key gets private copies (purity is C13's business)
		b := a
		b.pw = append([]byte(nil), a.pw...)
		b.salt = append([]byte(nil), a.salt...)
		k, err := callKey(b)
		if err != nil {
			return showKeyErr(err)
		}
		return "ok " + hx(k)
	})
}

func (c *Ctx) randPw(n int, nulFree bool) []byte {
	b := make([]byte, n)
	for i := range b {
		switch c.Rng.Intn(4) {
		case 0:
			b[i] = byte(0x80 + c.Rng.Intn(0x80))
		default:
			b[i] = byte(0x20 + c.Rng.Intn(0x5f))
		}
		if !nulFree && c.Rng.Intn(40) == 0 {
			b[i] = 0
		}
	}
	return b
}

var boundaryLens = []int{0, 1, 2, 7, 8, 9, 15, 16, 17, 31, 32, 33, 55, 56, 57, 63, 64, 65, 71, 72, 73, 74, 127, 128, 129, 253, 254, 255, 256, 257}

type schemeInfo struct {
	name      string
	saltLens  []int // legal salt lengths to sample
	saltAlpha string
	rounds    []uint32
	maxPw     int
	prefixes  []string
	memory    []uint32
	threads   []uint8
	versions  []int
}

var schemeInfos = []schemeInfo{
	{name: "md5", saltLens: []int{0, 1, 4, 7, 8}, saltAlpha: cryptAlpha, rounds: []uint32{0}, maxPw: 300},
	{name: "sha256", saltLens: []int{0, 1, 8, 15, 16}, saltAlpha: cryptAlpha, rounds: []uint32{1000, 1001, 1002, 1009}, maxPw: 300},
	{name: "sha512", saltLens: []int{0, 1, 8, 15, 16}, saltAlpha: cryptAlpha, rounds: []uint32{1000, 1001, 1003}, maxPw: 300},
	{name: "sha1", saltLens: []int{0, 1, 8, 63, 64}, saltAlpha: cryptAlpha, rounds: []uint32{1, 2, 3, 10, 20, 4294967295}, maxPw: 300},
	{name: "sunmd5", saltLens: []int{0, 1, 4, 8}, saltAlpha: cryptAlpha, rounds: []uint32{0, 1, 2, 7, 20}, maxPw: 255, prefixes: []string{"$md5,", "$md5$"}},
	{name: "des", saltLens: []int{2}, saltAlpha: cryptAlpha, rounds: []uint32{0}, maxPw: 8},
	{name: "desext", saltLens: []int{4}, saltAlpha: cryptAlpha, rounds: []uint32{1, 2, 3, 20, 65537, 262145}, maxPw: 300},
	{name: "bcrypt", saltLens: []int{22}, saltAlpha: cryptAlpha, rounds: []uint32{4, 5}, maxPw: 300, prefixes: []string{"$2$", "$2a$", "$2b$"}},
	{name: "nthash", saltLens: []int{0}, saltAlpha: cryptAlpha, rounds: []uint32{0}, maxPw: 256},
	{name: "argon2", saltLens: []int{11, 12, 13, 14, 16, 22, 43}, saltAlpha: stdAlpha, rounds: []uint32{1, 2, 3}, maxPw: 300,
		prefixes: []string{"$argon2d$", "$argon2i$", "$argon2id$"}, memory: []uint32{8, 9, 16, 31, 33, 64}, threads: []uint8{1, 1, 2, 3, 4, 1, 2, 64, 65, 128, 192, 255}, versions: []int{0x10, 0x13}},
}

func (c *Ctx) validArgs(si schemeInfo, pwLen int) keyArgs {
	a := keyArgs{scheme: si.name, optsNil: true}
	if pwLen > si.maxPw {
		pwLen = si.maxPw
	}
	a.pw = c.randPw(pwLen, si.name != "nthash")
	if si.name == "nthash" && len(a.pw)%2 == 1 {
		a.pw = a.pw[:len(a.pw)-1]
	}
	a.salt = c.genText(si.saltAlpha, si.saltLens[c.Rng.Intn(len(si.saltLens))])
	a.rounds = si.rounds[c.Rng.Intn(len(si.rounds))]
	if si.name == "sha1" && a.rounds == 4294967295 {
		a.rand = c.Rng.Uint32()
	}
	if len(si.prefixes) > 0 && c.Rng.Intn(3) > 0 {
		a.optsNil = false
		a.optPrefix = si.prefixes[c.Rng.Intn(len(si.prefixes))]
		a.optFlag = c.Rng.Intn(2) == 0 && si.name == "sunmd5"
		if len(si.versions) > 0 {
			a.optVersion = si.versions[c.Rng.Intn(len(si.versions))]
		}
	}
	if len(si.memory) > 0 {
		a.threads = si.threads[c.Rng.Intn(len(si.threads))]
		a.memory = si.memory[c.Rng.Intn(len(si.memory))] * uint32(a.threads)
		if c.Rng.Intn(4) == 0 {
			a.memory += uint32(c.Rng.Intn(7))
		}
	}
	return a
}

func suiteKdf(c *Ctx) {
	if s, ok := c.Replay["op"]; ok {
		_ = s
	}
	per := 2
	if c.Thorough() {
		per = 12
	}
	for sidx, si := range schemeInfos {
		if !c.Scheme(sidx) {
			continue
		}
		lens := append([]int{}, boundaryLens...)
		for i := 0; i < 20*per; i++ {
			lens = append(lens, c.Rng.Intn(301))
		}
		for _, l := range lens {
			for k := 0; k < per; k++ {
				a := c.validArgs(si, l)
				if si.name == "sunmd5" && k > 0 && !c.Thorough() {
					continue // ~1 ms per round: keep the quick tier short
				}
				r := goKey(a)
				c.Op(a.op("key"), r)
				c.Count(si.name + ":" + strings.SplitN(r, " ", 2)[0])
				if r == "panic" {
					c.Fail("key-panic", si.name+".Key panicked: "+lastPanic, map[string]string{"suite": "kdf", "op": a.op("key")})
				}
				c.NonTrivial(fmt.Sprintf("%s:%d:%d:%d", si.name, len(a.pw), len(a.salt), a.rounds))
			}
		}
	}
}

// suiteGuards: acceptance exactly within the exported bounds (cheap: rejected calls derive nothing,
// accepted calls use the cheapest cost, or — for huge costs — only the guard verdict is compared).
func suiteGuards(c *Ctx) {
	emit := func(a keyArgs, expensive bool) {
		if expensive {
			// a value inside the exported bounds whose derivation would be expensive: the implementation is not
			// run; the guards regenerated from the current source must accept it
			c.Op(a.op("guards"), "accept")
			c.Op(a.op("accepts"), "accept")
			c.Count(a.scheme + ":accept:not-run")
			return
		}
		r := goKey(a)
		if strings.HasPrefix(r, "ok ") {
			r = "accept"
		}
		c.Op(a.op("guards"), r)
		// the same call against the declarative bounds specification: a disagreement is a concrete input on
		// which the implementation accepts/rejects differently from the exported limits
		c.Op(a.op("accepts"), r)
		c.Count(a.scheme + ":" + strings.SplitN(r, " ", 3)[0] + ":" + strings.SplitN(r+" - -", " ", 3)[1])
	}
	for sidx, si := range schemeInfos {
		if !c.Scheme(sidx) {
			continue
		}
		base := func() keyArgs {
			a := c.validArgs(si, 6)
			a.rounds = si.rounds[0]
			if si.name == "sha1" {
				a.rounds = 2
			}
			return a
		}
		maxSalt := si.saltLens[len(si.saltLens)-1]
		// salt lengths 0..max+3 (exhaustive)
		for l := 0; l <= maxSalt+3; l++ {
			a := base()
			a.salt = c.genText(si.saltAlpha, l)
			emit(a, false)
			c.NonTrivial(fmt.Sprintf("%s:saltlen:%d", si.name, l))
		}
		// each salt position × all 256 byte values (exhaustive)
		for pos := 0; pos < maxSalt; pos++ {
			for v := 0; v < 256; v++ {
				a := base()
				a.salt = c.genText(si.saltAlpha, maxSalt)
				a.salt[pos] = byte(v)
				emit(a, false)
			}
			c.NonTrivial(fmt.Sprintf("%s:saltpos:%d", si.name, pos))
		}
		// rounds / cost boundaries
		var rs []uint32
		switch si.name {
		case "sha256", "sha512":
			rs = []uint32{0, 1, 998, 999, 1000, 1001}
			for _, big := range []uint32{999999998, 999999999} {
				a := base()
				a.rounds = big
				emit(a, true)
			}
			for _, big := range []uint32{1000000000, 1000000001, 4294967295} {
				a := base()
				a.rounds = big
				emit(a, false)
			}
		case "sha1":
			rs = []uint32{0, 1, 2, 3}
		case "sunmd5":
			rs = []uint32{0, 1, 2}
			for _, big := range []uint32{4294963199} {
				a := base()
				a.rounds = big
				emit(a, true)
			}
			for _, big := range []uint32{4294963200, 4294963201, 4294967295} {
				a := base()
				a.rounds = big
				emit(a, false)
			}
		case "desext":
			rs = []uint32{0, 1, 2, 16777216, 16777217, 4294967295}
			a := base()
			a.rounds = 16777215
			emit(a, true)
		case "bcrypt":
			rs = []uint32{0, 1, 3, 4, 5, 32, 33, 255}
			for _, big := range []uint32{30, 31} {
				a := base()
				a.rounds = big
				emit(a, true)
			}
		}
		for _, r := range rs {
			a := base()
			a.rounds = r
			emit(a, false)
			c.NonTrivial(fmt.Sprintf("%s:rounds:%d", si.name, r))
		}
		for i := 0; i < 40; i++ {
			a := base()
			a.rounds = c.Rng.Uint32()
			if si.name == "bcrypt" {
				a.rounds = uint32(c.Rng.Intn(256))
				emit(a, a.rounds >= 7 && a.rounds <= 31)
				continue
			}
			cheap := false
			switch si.name {
			case "md5", "des", "nthash":
				cheap = true
			case "sha256", "sha512":
				cheap = a.rounds > 999999999 || a.rounds < 3000
			case "sha1":
				cheap = a.rounds < 3000
			case "sunmd5":
				cheap = a.rounds > 4294963199 || a.rounds < 50
			case "desext":
				cheap = a.rounds > 16777215 || a.rounds < 3000
			}
			emit(a, !cheap)
		}
		if si.name == "argon2" {
			for _, v := range []int{0, 1, 15, 16, 17, 18, 19, 20, 0x10, 0x13, 0x1013, 255, 256, 275, 1 << 20} {
				for _, pf := range append(append([]string{}, si.prefixes...), "$argon2$", "") {
					a := base()
					a.optsNil = false
					a.optPrefix = pf
					a.optVersion = v
					emit(a, false)
				}
				c.NonTrivial(fmt.Sprintf("argon2:version:%d", v))
			}
			for _, m := range []uint32{0, 1, 7, 8, 9, 15, 16} {
				for _, t := range []uint32{0, 1, 2} {
					for _, p := range []uint8{0, 1, 2, 3, 63, 64, 65, 128, 192, 255} {
						a := base()
						a.memory, a.rounds, a.threads = m, t, p
						emit(a, false)
					}
				}
			}
			for _, l := range []int{0, 1, 8, 9, 10, 11, 12, 13} {
				a := base()
				a.salt = c.genText(si.saltAlpha, l)
				emit(a, false)
			}
		}
		// password length limits
		for _, l := range []int{si.maxPw - 1, si.maxPw, si.maxPw + 1, si.maxPw + 2, 0, 1} {
			if l < 0 || si.maxPw >= 300 {
				continue
			}
			a := base()
			a.pw = c.randPw(l, true)
			emit(a, false)
			c.NonTrivial(fmt.Sprintf("%s:pwlen:%d", si.name, l))
		}
		// prefix / version options: valid, near-valid, arbitrary; nil vs explicit
		if len(si.prefixes) > 0 {
			pool := append([]string{}, si.prefixes...)
			pool = append(pool, "", "$", "$2c$", "$2b", "2b$", "$2B$", "$md5", "$md5;", "$MD5$", "$1$", "_", "$2a$$", "$md5,$", "\x00", "$2$\x00")
			for _, pf := range pool {
				for _, flag := range []bool{false, true} {
					a := base()
					a.optsNil = false
					a.optPrefix = pf
					a.optFlag = flag
					emit(a, false)
				}
				c.NonTrivial(si.name + ":prefix:" + pf)
			}
			a := base()
			a.optsNil = true
			emit(a, false)
		}
		// random tuples with SEVERAL arguments out of range at once: which typed error comes first is part of the
		// contract (the guards are ordered); cheap because every such call is rejected before deriving
		n := 150
		if c.Thorough() {
			n = 6000
		}
		for i := 0; i < n; i++ {
			a := base()
			bad := 0
			if c.Rng.Intn(2) == 0 {
				sl := []int{0, 1, maxSalt - 1, maxSalt, maxSalt + 1, maxSalt + 7}[c.Rng.Intn(6)]
				if sl < 0 {
					sl = 0
				}
				a.salt = c.genText(si.saltAlpha, sl)
				if len(a.salt) > maxSalt {
					bad++
				}
			}
			if c.Rng.Intn(2) == 0 && len(a.salt) > 0 {
				a.salt[c.Rng.Intn(len(a.salt))] = []byte{'@', '$', 0, 0xff, ',', '=', ' ', '\n'}[c.Rng.Intn(8)]
				bad++
			}
			if c.Rng.Intn(2) == 0 {
				a.rounds = []uint32{0, 1, 3, 999, 1000, 1000000000, 4294967295, 32, 31, 16777216}[c.Rng.Intn(10)]
			}
			if si.name == "bcrypt" {
				a.rounds %= 256 // the cost parameter is a uint8: larger values cannot be passed
			}
			if c.Rng.Intn(3) == 0 && si.maxPw < 300 {
				a.pw = c.randPw(si.maxPw+1+c.Rng.Intn(3), true)
				bad++
			}
			if si.name == "argon2" {
				if c.Rng.Intn(2) == 0 {
					a.memory = []uint32{0, 1, 7, 8, 15}[c.Rng.Intn(5)]
				}
				if c.Rng.Intn(2) == 0 {
					a.threads = []uint8{0, 1, 2, 64, 255}[c.Rng.Intn(5)]
				}
				if c.Rng.Intn(3) == 0 {
					a.optsNil, a.optVersion = false, []int{0, 16, 19, 17, 255}[c.Rng.Intn(5)]
					a.optPrefix = append(append([]string{}, si.prefixes...), "$argon2$", "")[c.Rng.Intn(len(si.prefixes)+2)]
				}
			}
			if len(si.prefixes) > 0 && si.name != "argon2" && c.Rng.Intn(3) == 0 {
				a.optsNil = false
				a.optPrefix = append(append([]string{}, si.prefixes...), "$zz$", "")[c.Rng.Intn(len(si.prefixes)+2)]
			}
			// never derive at an in-range cost that is expensive (whatever else is wrong with the tuple: a guard that
			// should have fired first may be the very thing under test)
			expensive := false
			switch si.name {
			case "sha256", "sha512":
				expensive = a.rounds > 5000 && a.rounds <= 999999999
			case "sha1", "sunmd5":
				expensive = a.rounds > 5000
			case "desext":
				expensive = a.rounds > 300000 && a.rounds <= 16777215
			case "bcrypt":
				expensive = a.rounds > 6 && a.rounds <= 31
			case "argon2":
				expensive = a.rounds > 3 || a.memory > 64
			}
			if expensive {
				continue
			}
			emit(a, false)
		}
	}
}

var _ = bytes.Equal
