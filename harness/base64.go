package main

import (
	"bytes"
	"errors"
	"fmt"
	"io"
	"strings"

	"github.com/sergeymakinen/go-crypt/bcrypt"
	crypthash "github.com/sergeymakinen/go-crypt/hash"
	"github.com/sergeymakinen/go-crypt/hash/base64le"
)

func init() {
	suites["b64"] = suiteB64
	suites["stream"] = suiteStream
}

const cryptAlpha = "./0123456789ABCDEFGHIJKLMNOPQRSTUVWXYZabcdefghijklmnopqrstuvwxyz"
const stdAlpha = "ABCDEFGHIJKLMNOPQRSTUVWXYZabcdefghijklmnopqrstuvwxyz0123456789+/"

type encMode struct {
	alpha  string
	pad    rune // base64le.NoPadding or a byte
	strict bool
	enc    *base64le.Encoding
}

func mkMode(alpha string, pad rune, strict bool) encMode {
	e := base64le.NewEncoding(alpha).WithPadding(pad)
	if strict {
		e = e.Strict()
	}
	return encMode{alpha, pad, strict, e}
}

// mkModeStrictFirst builds the same encoding with the options applied in the other order.
func mkModeStrictFirst(alpha string, pad rune) encMode {
	e := base64le.NewEncoding(alpha).Strict().WithPadding(pad)
	return encMode{alpha, pad, true, e}
}

func (m encMode) args() string {
	p := "-"
	if m.pad != base64le.NoPadding {
		p = fmt.Sprintf("%02x", byte(m.pad))
	}
	s := "0"
	if m.strict {
		s = "1"
	}
	return hx([]byte(m.alpha)) + " " + p + " " + s
}

func corruptStr(err error) string {
	if err == nil {
		return "nil"
	}
	var ce base64le.CorruptInputError
	if errors.As(err, &ce) {
		return fmt.Sprintf("corrupt:%d", int64(ce))
	}
	return "other:" + err.Error()
}

// refEncode is the bit-level definition of the statement, written independently of the package:
// symbols are successive 6-bit groups of b0 | b1<<8 | b2<<16 starting from the least significant.
func refEncode(alpha string, pad rune, src []byte) []byte {
	var out []byte
	for len(src) > 0 {
		var w uint32
		n := len(src)
		if n > 3 {
			n = 3
		}
		for i := 0; i < n; i++ {
			w |= uint32(src[i]) << (8 * uint(i))
		}
		nsym := n + 1
		for k := 0; k < nsym; k++ {
			out = append(out, alpha[(w>>(6*uint(k)))&63])
		}
		if pad != base64le.NoPadding {
			for k := nsym; k < 4; k++ {
				out = append(out, byte(pad))
			}
		}
		src = src[n:]
	}
	return out
}

func goEncode(m encMode, src []byte) string {
	return safely(func() string {
		dst := make([]byte, m.enc.EncodedLen(len(src)))
		m.enc.Encode(dst, src)
		return hx(dst)
	})
}

func goDecodeString(m encMode, src []byte) string {
	return safely(func() string {
		b, err := m.enc.DecodeString(string(src))
		return hx(b) + " " + corruptStr(err)
	})
}

func goDecodeInto(m encMode, dstLen int, src []byte) string {
	return safely(func() string {
		dst := make([]byte, dstLen)
		n, err := m.enc.Decode(dst, src)
		return fmt.Sprintf("%d %s %s", n, corruptStr(err), hx(dst))
	})
}

func suiteB64(c *Ctx) {
	modes := []encMode{
		mkMode(cryptAlpha, base64le.NoPadding, false),
		mkMode(cryptAlpha, '=', false),
		mkMode(cryptAlpha, base64le.NoPadding, true),
		mkMode(stdAlpha, '=', true),
		mkModeStrictFirst(cryptAlpha, base64le.NoPadding),
		mkModeStrictFirst(stdAlpha, '='),
	}
	// strict mode rejects non-zero unused bits, whatever the order in which the options were applied (direct check)
	for _, m := range modes {
		if !m.strict {
			continue
		}
		for a := 0; a < 64; a++ {
			for b := 0; b < 64; b++ {
				// two symbols carry 12 bits for one byte: the top 4 bits of the second symbol must be zero
				t := []byte{m.alpha[a], m.alpha[b]}
				if m.pad != base64le.NoPadding {
					t = append(t, byte(m.pad), byte(m.pad))
				}
				_, err := m.enc.DecodeString(string(t))
				c.Direct++
				if b >= 4 && err == nil {
					c.Fail("strict-accepts-unused-bits", "a strict encoding accepted a tail with non-zero unused bits", map[string]string{"suite": "b64", "mode": m.args(), "text": hx(t)})
				}
				if b < 4 && err != nil {
					c.Fail("strict-rejects-valid", "a strict encoding rejected a canonical one-byte tail", map[string]string{"suite": "b64", "mode": m.args(), "text": hx(t)})
				}
			}
		}
	}
	// exported encodings: alphabets and padding (statement's last clause), observed through the API
	exp := func(name, got, want string) {
		if got != want {
			c.Fail("alphabet", fmt.Sprintf("%s encodes 0..63 as %q, want %q", name, got, want), map[string]string{"suite": "b64"})
		}
	}
	all64 := make([]byte, 48)
	// 48 bytes whose 6-bit groups (little-endian) are 0,1,2,...,63
	for i := 0; i < 16; i++ {
		w := uint32(4*i) | uint32(4*i+1)<<6 | uint32(4*i+2)<<12 | uint32(4*i+3)<<18
		all64[3*i], all64[3*i+1], all64[3*i+2] = byte(w), byte(w>>8), byte(w>>16)
	}
	exp("hash.LittleEndianEncoding", crypthash.LittleEndianEncoding.EncodeToString(all64), cryptAlpha)
	be := make([]byte, 48)
	for i := 0; i < 16; i++ {
		w := uint32(4*i)<<18 | uint32(4*i+1)<<12 | uint32(4*i+2)<<6 | uint32(4*i+3)
		be[3*i], be[3*i+1], be[3*i+2] = byte(w>>16), byte(w>>8), byte(w)
	}
	exp("hash.BigEndianEncoding", crypthash.BigEndianEncoding.EncodeToString(be), cryptAlpha)
	exp("bcrypt.Encoding", bcrypt.Encoding.EncodeToString(be), "./ABCDEFGHIJKLMNOPQRSTUVWXYZabcdefghijklmnopqrstuvwxyz0123456789")
	if s := crypthash.LittleEndianEncoding.EncodeToString([]byte{1}); len(s) != 2 {
		c.Fail("padding", "hash.LittleEndianEncoding pads", map[string]string{"suite": "b64"})
	}
	if s := crypthash.BigEndianEncoding.EncodeToString([]byte{1}); len(s) != 2 {
		c.Fail("padding", "hash.BigEndianEncoding pads", map[string]string{"suite": "b64"})
	}
	if s := bcrypt.Encoding.EncodeToString([]byte{1}); len(s) != 2 {
		c.Fail("padding", "bcrypt.Encoding pads", map[string]string{"suite": "b64"})
	}

	encOne := func(m encMode, src []byte) {
		r := goEncode(m, src)
		c.Op("b64enc "+m.args()+" "+hx(src), r)
		want := hx(refEncode(m.alpha, m.pad, src))
		if r != want {
			c.Fail("encode-spec", "Encode differs from the bit-level definition: "+r+" vs "+want, map[string]string{"suite": "b64", "mode": m.args(), "src": hx(src)})
		}
		// decode inverts encode
		enc := refEncode(m.alpha, m.pad, src)
		d := goDecodeString(m, enc)
		c.Op("b64decs "+m.args()+" "+hx(enc), d)
		if d != hx(src)+" nil" {
			c.Fail("decode-encode", "Decode(Encode(x)) = "+d, map[string]string{"suite": "b64", "mode": m.args(), "src": hx(src)})
		}
	}
	if s, ok := c.Replay["src"]; ok {
		for _, m := range modes {
			if m.args() == c.Replay["mode"] {
				encOne(m, unhx(s))
			}
		}
		return
	}
	// length arithmetic
	for n := 0; n <= 300; n++ {
		for _, m := range modes[:2] {
			p := "-"
			if m.pad != base64le.NoPadding {
				p = "3d"
			}
			c.Op(fmt.Sprintf("b64len %s %d", p, n), fmt.Sprintf("%d %d", m.enc.EncodedLen(n), m.enc.DecodedLen(n)))
		}
	}
	// exhaustive tails
	for _, m := range modes[:2] {
		for a := 0; a < 256; a++ {
			encOne(m, []byte{byte(a)})
			c.NonTrivial(fmt.Sprintf("1:%d", a))
		}
		for a := 0; a < 65536; a += 1 {
			if !c.Thorough() && a%7 != 0 && a > 4096 {
				continue
			}
			encOne(m, []byte{byte(a), byte(a >> 8)})
			c.Count("tail2")
		}
	}
	// three-byte groups
	n3 := 1 << 16
	if c.Thorough() {
		n3 = 1 << 21
	}
	for i := 0; i < n3; i++ {
		v := c.Rng.Uint32()
		encOne(modes[0], []byte{byte(v), byte(v >> 8), byte(v >> 16)})
		c.Count("group3")
	}
	c.NonTrivial("group3")
	// random strings, all modes, all decode paths
	nr := 400
	if c.Thorough() {
		nr = 6000
	}
	for i := 0; i < nr; i++ {
		l := c.Rng.Intn(80)
		if i%20 == 0 {
			l = c.Rng.Intn(4097)
		}
		src := make([]byte, l)
		c.Rng.Read(src)
		m := modes[i%len(modes)]
		if m.strict {
			// strict round trips only hold when the unused bits are zero, which encode guarantees
		}
		encOne(m, src)
		// decode into buffers of various sizes to steer the 8-/4-symbol/quantum paths
		enc := refEncode(m.alpha, m.pad, src)
		for _, dl := range []int{len(src), len(src) + 1, len(src) + 2, len(src) + 8, m.enc.DecodedLen(len(enc))} {
			r := goDecodeInto(m, dl, enc)
			c.Op(fmt.Sprintf("b64dec %s %d %s", m.args(), dl, hx(enc)), r)
			if r != "panic" && !strings.HasPrefix(r, fmt.Sprintf("%d nil %s", len(src), strings.TrimSuffix(hx(src), "-"))) {
				c.Fail("decode-paths", "Decode into a "+fmt.Sprint(dl)+"-byte buffer gave "+r[:min(len(r), 60)], map[string]string{"suite": "b64", "mode": m.args(), "src": hx(src)})
			}
			c.Count(fmt.Sprintf("path:%s", pathClass(len(enc), dl)))
		}
		c.NonTrivial(fmt.Sprintf("r%d", i))
	}
	// decode direction: symbol quanta and malformed texts (vs the model only; the reference decoder is Spec-side)
	nq := 60000
	if c.Thorough() {
		nq = 1500000
	}
	extra := []byte("=\n\r@ \x00\xff")
	for i := 0; i < nq; i++ {
		m := modes[c.Rng.Intn(len(modes))]
		l := 2 + c.Rng.Intn(3)
		if i%5 == 0 {
			l = c.Rng.Intn(24)
		}
		t := make([]byte, l)
		for j := range t {
			if c.Rng.Intn(12) == 0 {
				t[j] = extra[c.Rng.Intn(len(extra))]
			} else {
				t[j] = m.alpha[c.Rng.Intn(64)]
			}
		}
		if c.Rng.Intn(4) == 0 && m.pad != base64le.NoPadding && l >= 4 {
			t[l-1] = byte(m.pad)
			if c.Rng.Intn(2) == 0 {
				t[l-2] = byte(m.pad)
			}
		}
		r := goDecodeString(m, t)
		c.Op("b64decs "+m.args()+" "+hx(t), r)
		c.Count("dec:" + strings.SplitN(strings.SplitN(r+" x", " ", 3)[1], ":", 2)[0])
		if r == "panic" {
			c.Fail("decode-panic", "DecodeString panicked: "+lastPanic, map[string]string{"suite": "b64", "mode": m.args(), "text": hx(t)})
		}
	}
	// single edits of valid encodings
	ne := 300
	if c.Thorough() {
		ne = 5000
	}
	for i := 0; i < ne; i++ {
		m := modes[i%len(modes)]
		src := make([]byte, c.Rng.Intn(40))
		c.Rng.Read(src)
		enc := refEncode(m.alpha, m.pad, src)
		for pos := 0; pos <= len(enc); pos++ {
			for _, ed := range extra[:5] {
				var t []byte
				switch c.Rng.Intn(3) {
				case 0: // insert
					t = append(append(append([]byte{}, enc[:pos]...), ed), enc[pos:]...)
				case 1: // substitute
					if pos == len(enc) {
						continue
					}
					t = append([]byte{}, enc...)
					t[pos] = ed
				case 2: // truncate
					t = append([]byte{}, enc[:pos]...)
				}
				r := goDecodeString(m, t)
				c.Op("b64decs "+m.args()+" "+hx(t), r)
				c.Count("edit")
				if r == "panic" {
					c.Fail("decode-panic", "DecodeString panicked: "+lastPanic, map[string]string{"suite": "b64", "mode": m.args(), "text": hx(t)})
				}
			}
		}
	}
}

func pathClass(encLen, dstLen int) string {
	switch {
	case encLen >= 8 && dstLen >= 8:
		return "fast64"
	case encLen >= 4 && dstLen >= 4:
		return "fast32"
	}
	return "quantum"
}

// ---- streaming ----

type scriptWriter struct {
	script []wResp
	got    [][]byte
}
type wResp struct {
	fail bool
	take int
	err  int
}

type idErr int

func (e idErr) Error() string { return fmt.Sprintf("e%d", int(e)) }

func (w *scriptWriter) Write(p []byte) (int, error) {
	if len(w.script) == 0 {
		w.got = append(w.got, append([]byte{}, p...))
		return len(p), nil
	}
	r := w.script[0]
	w.script = w.script[1:]
	if !r.fail {
		w.got = append(w.got, append([]byte{}, p...))
		return len(p), nil
	}
	k := r.take
	if k > len(p) {
		k = len(p)
	}
	w.got = append(w.got, append([]byte{}, p[:k]...))
	return k, idErr(r.err)
}

func errID(err error) string {
	if err == nil {
		return "nil"
	}
	if err == io.EOF {
		return "e1"
	}
	if err == io.ErrUnexpectedEOF {
		return "e2"
	}
	var ce base64le.CorruptInputError
	if errors.As(err, &ce) {
		return fmt.Sprintf("e%d", 1000+int64(ce))
	}
	var ie idErr
	if errors.As(err, &ie) {
		return ie.Error()
	}
	return "other:" + err.Error()
}

type rResp struct {
	data []byte
	err  error
}

type scriptReader struct {
	script []rResp
	sticky error
}

func (r *scriptReader) Read(p []byte) (int, error) {
	if len(r.script) == 0 {
		return 0, r.sticky
	}
	h := r.script[0]
	if len(h.data) <= len(p) {
		r.script = r.script[1:]
		if h.err != nil {
			r.sticky = h.err
		}
		return copy(p, h.data), h.err
	}
	n := copy(p, h.data)
	r.script[0].data = h.data[n:]
	return n, nil
}

func suiteStream(c *Ctx) {
	modes := []encMode{
		mkMode(cryptAlpha, base64le.NoPadding, false),
		mkMode(cryptAlpha, '=', false),
	}
	runEnc := func(m encMode, data []byte, cuts []int, script []wResp) {
		var chunks [][]byte
		prev := 0
		for _, k := range cuts {
			chunks = append(chunks, data[prev:prev+k])
			prev += k
		}
		var sArgs []string
		for _, r := range script {
			if r.fail {
				sArgs = append(sArgs, fmt.Sprintf("w:%d:%d", r.take, r.err))
			} else {
				sArgs = append(sArgs, "ok")
			}
		}
		sa := "-"
		if len(sArgs) > 0 {
			sa = strings.Join(sArgs, ",")
		}
		op := "stream-enc " + m.args() + " " + sa
		for _, ch := range chunks {
			op += " " + hx(ch)
		}
		var firstErr error
		sticky := true
		res := safely(func() string {
			w := &scriptWriter{script: append([]wResp{}, script...)}
			e := base64le.NewEncoder(m.enc, w)
			var out []string
			for _, ch := range chunks {
				n, err := e.Write(ch)
				out = append(out, fmt.Sprintf("%d:%s", n, errID(err)))
				if firstErr != nil && err != firstErr {
					sticky = false
				}
				if err != nil && firstErr == nil {
					firstErr = err
				}
			}
			err := e.Close()
			if firstErr != nil && err != firstErr {
				sticky = false
			}
			out = append(out, "c:"+errID(err))
			var ws []string
			for _, g := range w.got {
				ws = append(ws, hx(g))
			}
			// direct property check
			written := bytes.Join(w.got, nil)
			oneshot := refEncode(m.alpha, m.pad, data)
			in := map[string]string{"suite": "stream", "kind": "enc", "mode": m.args(), "data": hx(data), "cuts": fmt.Sprint(cuts), "script": sa}
			if firstErr == nil && err == nil {
				if !bytes.Equal(written, oneshot) {
					c.Fail("enc-chunking", "streamed output differs from one-shot encoding", in)
				}
			} else {
				if !bytes.HasPrefix(oneshot, written) {
					c.Fail("enc-fault-prefix", "output written before/at the fault is not a prefix of the one-shot encoding", in)
				}
				if !sticky {
					c.Fail("enc-fault-sticky", "a later Write/Close did not return the writer's error", in)
				}
			}
			return strings.Join(out, " ") + " | " + strings.Join(ws, " ")
		})
		if res == "panic" {
			c.Fail("enc-panic", "encoder panicked: "+lastPanic, map[string]string{"suite": "stream", "mode": m.args(), "data": hx(data), "cuts": fmt.Sprint(cuts), "script": sa})
		}
		c.Op(op, res)
	}
	// exhaustive compositions of short data
	maxN := 7
	if c.Thorough() {
		maxN = 9
	}
	for n := 0; n <= maxN; n++ {
		data := make([]byte, n)
		c.Rng.Read(data)
		var comp func(rem int, cuts []int)
		comp = func(rem int, cuts []int) {
			if rem == 0 {
				for _, m := range modes {
					runEnc(m, data, cuts, nil)
				}
				c.NonTrivial(fmt.Sprint("comp", cuts))
				// faults at every underlying call index, two kinds
				if n <= 6 {
					for k := 0; k < 4; k++ {
						for _, take := range []int{0, 2} {
							sc := make([]wResp, k+1)
							sc[k] = wResp{true, take, 10 + k}
							runEnc(modes[0], data, cuts, sc)
						}
					}
				}
				return
			}
			for k := 1; k <= rem; k++ {
				comp(rem-k, append(append([]int{}, cuts...), k))
			}
		}
		comp(n, nil)
		// zero-length writes interleaved
		runEnc(modes[0], data, append([]int{0}, n), nil)
	}
	// random chunkings of long data (exercise the 768-byte interior path)
	nr := 150
	if c.Thorough() {
		nr = 3000
	}
	for i := 0; i < nr; i++ {
		n := c.Rng.Intn(5001)
		data := make([]byte, n)
		c.Rng.Read(data)
		var cuts []int
		rem := n
		for rem > 0 {
			k := 1 + c.Rng.Intn(rem)
			if c.Rng.Intn(3) == 0 {
				k = 1 + c.Rng.Intn(min(rem, 5))
			}
			cuts = append(cuts, k)
			rem -= k
		}
		var sc []wResp
		if i%3 == 0 {
			k := c.Rng.Intn(6)
			sc = make([]wResp, k+1)
			sc[k] = wResp{true, c.Rng.Intn(5), 20}
		}
		runEnc(modes[i%2], data, cuts, sc)
		c.NonTrivial(fmt.Sprint("rand", i))
	}

	// ---- decoder ----
	runDec := func(m encMode, text []byte, frag []int, errs map[int]error, sticky error, sizes []int, want []byte) {
		var script []rResp
		prev := 0
		for i, k := range frag {
			script = append(script, rResp{append([]byte{}, text[prev:prev+k]...), errs[i]})
			prev += k
		}
		var sa []string
		for _, r := range script {
			e := "-"
			if r.err != nil {
				e = strings.TrimPrefix(errID(r.err), "e")
			}
			sa = append(sa, hx(r.data)+":"+e)
		}
		ss := "-"
		if len(sa) > 0 {
			ss = strings.Join(sa, ",")
		}
		st := "-"
		if sticky != nil {
			st = strings.TrimPrefix(errID(sticky), "e")
		}
		var szs []string
		for _, s := range sizes {
			szs = append(szs, fmt.Sprint(s))
		}
		op := fmt.Sprintf("stream-dec %s %s %s %s", m.args(), ss, st, strings.Join(szs, ","))
		in := map[string]string{"suite": "stream", "kind": "dec", "mode": m.args(), "text": hx(text), "frag": fmt.Sprint(frag), "sizes": fmt.Sprint(sizes)}
		res := safely(func() string {
			r := &scriptReader{script: script, sticky: sticky}
			d := base64le.NewDecoder(m.enc, r)
			var out []string
			var got []byte
			var last error
			for _, s := range sizes {
				p := make([]byte, s)
				n, err := d.Read(p)
				out = append(out, hx(p[:n])+":"+errID(err))
				got = append(got, p[:n]...)
				if err != nil {
					last = err
				}
			}
			if want != nil {
				if !bytes.Equal(got, want) && last != nil {
					c.Fail("dec-fragmentation", fmt.Sprintf("delivered %d bytes, one-shot decoding has %d; final error %v", len(got), len(want), last), in)
				}
				if last != nil && bytes.Equal(got, want) {
					// the terminal error must be the reader's
					wantErr := sticky
					for i := range frag {
						if errs[i] != nil {
							wantErr = errs[i]
						}
					}
					if last != wantErr {
						c.Fail("dec-final-error", fmt.Sprintf("final error %v, reader's was %v", last, wantErr), in)
					}
				}
			}
			return strings.Join(out, " ")
		})
		if res == "panic" {
			c.Fail("dec-panic", "decoder panicked: "+lastPanic, in)
		}
		c.Op(op, res)
	}
	nd := 400
	if c.Thorough() {
		nd = 8000
	}
	for i := 0; i < nd; i++ {
		m := modes[i%2]
		n := c.Rng.Intn(40)
		if i%10 == 0 {
			n = c.Rng.Intn(3000)
		}
		data := make([]byte, n)
		c.Rng.Read(data)
		text := refEncode(m.alpha, m.pad, data)
		// a long run of newlines inside one fragment (corpus: a model fuel bug found by proof work)
		if i%25 == 7 && len(text) > 3 {
			k := []int{37, 60, 1500}[c.Rng.Intn(3)]
			text = append(append(append([]byte{}, text[:2]...), bytes.Repeat([]byte{'\n'}, k)...), text[2:]...)
		}
		// embedded newlines
		if i%3 == 0 {
			var t2 []byte
			for _, b := range text {
				if c.Rng.Intn(8) == 0 {
					t2 = append(t2, "\n\r"[c.Rng.Intn(2)])
				}
				t2 = append(t2, b)
			}
			text = t2
		}
		var frag []int
		rem := len(text)
		for rem > 0 {
			k := 1 + c.Rng.Intn(min(rem, 1+c.Rng.Intn(9)))
			if c.Rng.Intn(6) == 0 {
				k = 0 // zero-length read followed by data
			}
			frag = append(frag, k)
			rem -= k
		}
		errs := map[int]error{}
		var sticky error = io.EOF
		switch i % 4 {
		case 1:
			if len(frag) > 0 {
				errs[len(frag)-1] = io.EOF // data together with EOF
			}
		case 2:
			sticky = idErr(30)
		case 3:
			if len(frag) > 0 {
				errs[len(frag)-1] = idErr(31) // data together with an error
				sticky = idErr(31)
			}
		}
		var sizes []int
		bs := 1 + c.Rng.Intn(12)
		if i%7 == 0 {
			bs = 1 + c.Rng.Intn(4096)
		}
		for k := 0; k < n/bs+len(frag)+6; k++ {
			if k > 400 {
				break
			}
			sizes = append(sizes, bs)
		}
		var want []byte = data
		if len(sizes)*bs < n {
			want = nil
		}
		runDec(m, text, frag, errs, sticky, sizes, want)
		c.NonTrivial(fmt.Sprint("dec", i))
	}
}
