package main

import (
	"encoding/base64"
	"fmt"
	"math"
	"strings"

	"github.com/sergeymakinen/go-crypt/bcrypt"
	"github.com/sergeymakinen/go-crypt/sha1"
)

func init() {
	suites["salt"] = suiteSalt
}

// saltOf extracts the salt text of a generated hash through the public Params/Salt functions.
func saltOf(api schemeAPI, h string) (string, uint32, bool) {
	s, err := api.params(h)
	if err != nil {
		return "", 0, false
	}
	f := strings.Fields(s) // ok salt rounds memory threads prefix version flag
	var r uint32
	fmt.Sscan(f[2], &r)
	return string(unhx(f[1])), r, true
}

func suiteSalt(c *Ctx) {
	n := 2000
	if c.Thorough() {
		n = 50000
	}
	for _, api := range schemeAPIs {
		if api.params == nil {
			continue // NT hash has no salt
		}
		cost := api.costs[0]
		if api.name == "sha1" {
			cost = [2]uint32{sha1.RandomRounds, 0}
		}
		calls := n
		if api.name == "sha1" && !c.Thorough() {
			calls = 300 // ~20 000 HMAC rounds per call
		}
		if api.name == "sha1" && c.Thorough() {
			calls = 3000
		}
		alpha := cryptAlpha
		if api.name == "argon2" {
			alpha = stdAlpha
		} else if api.name == "bcrypt" {
			alpha = "./ABCDEFGHIJKLMNOPQRSTUVWXYZabcdefghijklmnopqrstuvwxyz0123456789"
		}
		seen := map[string]bool{}
		var pos [][256]int
		var total [256]int
		var byteSeen [256]bool
		saltLen := -1
		bad := ""
		for i := 0; i < calls; i++ {
			h, err := api.newHash("pw", cost[0], cost[1])
			if err != nil {
				bad = "NewHash failed: " + err.Error()
				break
			}
			s, rounds, ok := saltOf(api, h)
			if !ok {
				bad = "Params failed on a generated hash"
				break
			}
			if saltLen < 0 {
				saltLen = len(s)
				pos = make([][256]int, saltLen)
			}
			if len(s) != saltLen {
				bad = fmt.Sprintf("salt length varies: %d vs %d", len(s), saltLen)
				break
			}
			if seen[s] {
				// a repeat is only evidence against the generator when the salt space makes an honest collision
				// negligible for this many draws (birthday bound below 1e-12)
				bits := 6.0 * float64(len(s))
				if api.name == "bcrypt" {
					bits = 128
				} else if api.name == "argon2" {
					bits = 64
				}
				if float64(calls)*float64(calls)/2/math.Pow(2, bits) < 1e-12 {
					bad = "salt repeated: " + s
				}
			}
			seen[s] = true
			c.Direct++
			for j := 0; j < len(s); j++ {
				if !strings.ContainsRune(alpha, rune(s[j])) {
					bad = fmt.Sprintf("salt symbol %q outside the alphabet", s[j])
				}
				pos[j][s[j]]++
				total[s[j]]++
			}
			if api.name == "sha1" && (rounds < 18511 || rounds > 24680) {
				bad = fmt.Sprintf("sha1 random rounds %d outside [18511, 24680]", rounds)
			}
			var raw []byte
			switch api.name {
			case "bcrypt":
				raw, _ = bcrypt.Encoding.DecodeString(s)
			case "argon2":
				raw, _ = base64.RawStdEncoding.DecodeString(s)
			}
			for _, b := range raw {
				byteSeen[b] = true
			}
		}
		in := map[string]string{"suite": "salt", "scheme": api.name}
		if bad != "" {
			c.Fail("salt", api.name+": "+bad, in)
		}
		// pooled frequency bound (8 sigma; false-alarm probability far below 1e-12 on a uniform source).
		// The last symbol of an encoded-bytes salt carries fewer than 6 random bits and is excluded.
		usable := saltLen
		if api.name == "bcrypt" || api.name == "argon2" {
			usable = saltLen - 1
		}
		N := float64(calls * usable)
		mean := N / 64
		sd := math.Sqrt(N * (1.0 / 64) * (63.0 / 64))
		worst := 0.0
		var tot [256]int
		for j := 0; j < usable; j++ {
			for s := 0; s < 256; s++ {
				tot[s] += pos[j][s]
			}
		}
		for _, a := range []byte(alpha) {
			dev := math.Abs(float64(tot[a])-mean) / sd
			if dev > worst {
				worst = dev
			}
			if tot[a] == 0 {
				c.Fail("salt", fmt.Sprintf("%s: alphabet symbol %q never generated in %d calls", api.name, a, calls), in)
			}
		}
		if worst > 8 {
			c.Fail("salt", fmt.Sprintf("%s: symbol frequency deviates %.1f sigma from uniform", api.name, worst), in)
		}
		// per-position coverage only where the sample makes a false alarm negligible (thorough tier)
		if c.Thorough() {
			for j := 0; j < usable; j++ {
				for _, a := range []byte(alpha) {
					if pos[j][a] == 0 {
						c.Fail("salt", fmt.Sprintf("%s: symbol %q never generated at position %d in %d calls", api.name, a, j, calls), in)
					}
				}
			}
			if api.name == "bcrypt" || api.name == "argon2" {
				for b := 0; b < 256; b++ {
					if !byteSeen[b] {
						c.Fail("salt", fmt.Sprintf("%s: decoded salt byte %#x never seen", api.name, b), in)
					}
				}
			}
		}
		res := "ok"
		if bad != "" {
			res = "fail"
		}
		c.Op(fmt.Sprintf("observed salt %s calls=%d len=%d distinct=%d worst-sigma=%.2f", api.name, calls, saltLen, len(seen), worst), res)
		c.Stats[api.name+":calls"] = calls
		c.NonTrivial(api.name)
		for k := range seen {
			c.NonTrivial(api.name + ":" + k)
			if len(c.Distinct) > 5000 {
				break
			}
		}
	}
}

func init() {
	suites["flowcheck"] = func(c *Ctx) {
		// C19 is a property of programs: the model side evaluates the discipline on the flow IR regenerated
		// from the current source; the expected answer is fixed by the property.
		for _, api := range schemeAPIs {
			c.Op("secretsafe "+api.name, "safe")
			c.NonTrivial(api.name)
		}
	}
}
