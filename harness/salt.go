package main

import (
	"encoding/base64"
	"fmt"
	"math"
	"strings"

	"github.com/sergeymakinen/go-crypt/bcrypt"
	"github.com/sergeymakinen/go-crypt/sha1"
)

func init() {
	suites["salt"] = suiteSalt
}

// saltOf extracts the salt text of a generated hash through the public Params/Salt functions.
func saltOf(api schemeAPI, h string) (string, uint32, bool) {
	s, err := api.params(h)
	if err != nil {
		return "", 0, false
	}
	f := strings.Fields(s) // ok salt rounds memory threads prefix version flag
	var r uint32
	fmt.Sscan(f[2], &r)
	return string(unhx(f[1])), r, true
}

func suiteSalt(c *Ctx) {
	n := 2000
	if c.Thorough() {
		n = 50000
	}
	for _, api := range schemeAPIs {
		if api.params == nil {
			continue // NT hash has no salt
		}
		cost := api.costs[0]
		if api.name == "sha1" {
			cost = [2]uint32{sha1.RandomRounds, 0}
		}
		calls := n
		if api.name == "sha1" && !c.Thorough() {
			calls = 300 // ~20 000 HMAC rounds per call
		}
		if api.name == "sha1" && c.Thorough() {
			calls = 3000
		}
		alpha := cryptAlpha
		if api.name == "argon2" {
			alpha = stdAlpha
		} else if api.name == "bcrypt" {
			alpha = "./ABCDEFGHIJKLMNOPQRSTUVWXYZabcdefghijklmnopqrstuvwxyz0123456789"
		}
		seen := map[string]bool{}
		var pos [][256]int
		var total [256]int
		var byteSeen [256]bool
		saltLen := -1
		bad := ""
		for i := 0; i < calls; i++ {
			h, err := api.newHash("pw", cost[0], cost[1])
			if err != nil {
				bad = "NewHash failed: " + err.Error()
				break
			}
			s, rounds, ok := saltOf(api, h)
			if !ok {
				bad = "Params failed on a generated hash"
				break
			}
			if saltLen < 0 {
				saltLen = len(s)
				pos = make([][256]int, saltLen)
			}
			if len(s) != saltLen {
				bad = fmt.Sprintf("salt length varies: %d vs %d", len(s), saltLen)
				break
			}
			if seen[s] {
				// a repeat is only evidence against the generator when the salt space makes an honest collision
				// negligible for this many draws (birthday bound below 1e-12)
				bits := 6.0 * float64(len(s))
				if api.name == "bcrypt" {
					bits = 128
				} else if api.name == "argon2" {
					bits = 64
				}
				if float64(calls)*float64(calls)/2/math.Pow(2, bits) < 1e-12 {
					bad = "salt repeated: " + s
				}
			}
			seen[s] = true
			c.Direct++
			for j := 0; j < len(s); j++ {
				if !strings.ContainsRune(alpha, rune(s[j])) {
					bad = fmt.Sprintf("salt symbol %q outside the alphabet", s[j])
				}
				pos[j][s[j]]++
				total[s[j]]++
			}
			if api.name == "sha1" && (rounds < 18511 || rounds > 24680) {
				bad = fmt.Sprintf("sha1 random rounds %d outside [18511, 24680]", rounds)
			}
			var raw []byte
			switch api.name {
			case "bcrypt":
				raw, _ = bcrypt.Encoding.DecodeString(s)
			case "argon2":
				raw, _ = base64.RawStdEncoding.DecodeString(s)
			}
			for _, b := range raw {
				byteSeen[b] = true
			}
		}
		in := map[string]string{"suite": "salt", "scheme": api.name}
		if bad != "" {
			c.Fail("salt", api.name+": "+bad, in)
		}
		// pooled frequency bound (8 sigma; false-alarm probability far below 1e-12 on a uniform source).
		// The last symbol of an encoded-bytes salt carries fewer than 6 random bits and is excluded.
		usable := saltLen
		if api.name == "bcrypt" || api.name == "argon2" {
			usable = saltLen - 1
		}
		N := float64(calls * usable)
		mean := N / 64
		sd := math.Sqrt(N * (1.0 / 64) * (63.0 / 64))
		worst := 0.0
		var tot [256]int
		for j := 0; j < usable; j++ {
			for s := 0; s < 256; s++ {
				tot[s] += pos[j][s]
			}
		}
		for _, a := range []byte(alpha) {
			dev := math.Abs(float64(tot[a])-mean) / sd
			if dev > worst {
				worst = dev
			}
			if tot[a] == 0 {
				c.Fail("salt", fmt.Sprintf("%s: alphabet symbol %q never generated in %d calls", api.name, a, calls), in)
			}
		}
		if worst > 8 {
			c.Fail("salt", fmt.Sprintf("%s: symbol frequency deviates %.1f sigma from uniform", api.name, worst), in)
		}
		// per-position coverage only where the sample makes a false alarm negligible (thorough tier)
		if c.Thorough() {
			for j := 0; j < usable; j++ {
				for _, a := range []byte(alpha) {
					if pos[j][a] == 0 {
						c.Fail("salt", fmt.Sprintf("%s: symbol %q never generated at position %d in %d calls", api.name, a, j, calls), in)
					}
				}
			}
			if api.name == "bcrypt" || api.name == "argon2" {
				for b := 0; b < 256; b++ {
					if !byteSeen[b] {
						c.Fail("salt", fmt.Sprintf("%s: decoded salt byte %#x never seen", api.name, b), in)
					}
				}
			}
		}
		res := "ok"
		if bad != "" {
			res = "fail"
		}
		c.Op(fmt.Sprintf("observed salt %s calls=%d len=%d distinct=%d worst-sigma=%.2f", api.name, calls, saltLen, len(seen), worst), res)
		c.Stats[api.name+":calls"] = calls
		c.NonTrivial(api.name)
		for k := range seen {
			c.NonTrivial(api.name + ":" + k)
			if len(c.Distinct) > 5000 {
				break
			}
		}
	}
	mixedHistory(c)
}

// mixedHistory: generation calls of different schemes interleaved in one process (requests of 8 and 16
// raw bytes and of 2..16 symbols alternate in changing proportions), every salt still full-entropy:
// no long run of zero bytes in a decoded salt, no repeats; and the salt as a FUNCTION of the delivered
// entropy compared with the model (`newhash` ops under scripted entropy, also interleaved).
func mixedHistory(c *Ctx) {
	apis := map[string]schemeAPI{}
	for _, a := range schemeAPIs {
		apis[a.name] = a
	}
	rounds := 40
	if c.Thorough() {
		rounds = 1500
	}
	seen := map[string]bool{}
	zeroRun := func(raw []byte) int {
		best, cur := 0, 0
		for _, b := range raw {
			if b == 0 {
				cur++
				if cur > best {
					best = cur
				}
			} else {
				cur = 0
			}
		}
		return best
	}
	for r := 0; r < rounds; r++ {
		// an odd/even number of 8-byte requests shifts the alignment of what follows
		var seq []string
		for k := 0; k < 1+c.Rng.Intn(3); k++ {
			seq = append(seq, "argon2")
		}
		for k := 0; k < 18+c.Rng.Intn(6); k++ {
			seq = append(seq, []string{"bcrypt", "bcrypt", "bcrypt", "md5", "des", "sha256", "argon2"}[c.Rng.Intn(7)])
		}
		for _, name := range seq {
			api := apis[name]
			h, err := api.newHash("pw", api.costs[0][0], api.costs[0][1])
			if err != nil {
				c.Fail("salt", name+": NewHash failed in a mixed history: "+err.Error(), map[string]string{"suite": "salt", "scheme": name})
				continue
			}
			s, _, ok := saltOf(api, h)
			if !ok {
				continue
			}
			c.Direct++
			var raw []byte
			switch name {
			case "bcrypt":
				raw, _ = bcrypt.Encoding.DecodeString(s)
			case "argon2":
				raw, _ = base64.RawStdEncoding.DecodeString(s)
			}
			// a run of 7 zero bytes in an honest 16-byte salt has probability < 2e-16
			if z := zeroRun(raw); z >= 7 {
				c.Fail("salt", fmt.Sprintf("%s: decoded salt %x has %d consecutive zero bytes (history of mixed request sizes)", name, raw, z),
					map[string]string{"suite": "salt", "scheme": name, "salt": hx([]byte(s))})
			}
			if (name == "bcrypt" || name == "argon2") && seen[name+s] {
				c.Fail("salt", name+": salt repeated in a mixed history: "+s, map[string]string{"suite": "salt", "scheme": name})
			}
			seen[name+s] = true
		}
	}
	// salt = f(entropy): scripted entropy, interleaved schemes, compared with the model byte for byte
	n := 60
	if c.Thorough() {
		n = 1500
	}
	order := []string{"argon2", "bcrypt", "md5", "bcrypt", "sha256", "des", "argon2", "argon2", "bcrypt", "sha512", "desext", "sunmd5", "bcrypt"}
	for i := 0; i < n; i++ {
		name := order[i%len(order)]
		api := apis[name]
		ent := make([]byte, 64)
		c.Rng.Read(ent)
		pw := "pw" + fmt.Sprint(i%3)
		var h string
		var err error
		used := withEntropy(ent, func() {
			if r := safely(func() string { h, err = api.newHash(pw, api.costs[0][0], api.costs[0][1]); return "" }); r != "" {
				err = fmt.Errorf("NewHash %s: %s", r, lastPanic)
			}
		})
		res := ""
		if err != nil {
			res = classifyErr(err)
		} else {
			res = fmt.Sprintf("ok %s %d", hx([]byte(h)), used)
		}
		c.Op(fmt.Sprintf("newhash %s %s %d %d %s", name, hx([]byte(pw)), api.costs[0][0], api.costs[0][1], hx(ent)), res)
	}
}

func init() {
	suites["flowcheck"] = func(c *Ctx) {
		// C19 is a property of programs: the model side evaluates the discipline on the flow IR regenerated
		// from the current source; the expected answer is fixed by the property.
		for _, api := range schemeAPIs {
			c.Op("secretsafe "+api.name, "safe")
			c.NonTrivial(api.name)
		}
	}
}
