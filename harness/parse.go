package main

import (
	"fmt"
	"runtime"
	"strings"
	"time"

	"github.com/sergeymakinen/go-crypt/hash/parse"
)

func init() {
	suites["parse"] = suiteParse
}

func showValue(v *parse.ValueNode) string {
	if v == nil {
		return "nil"
	}
	return fmt.Sprintf("v:%d:%d:%s", v.Pos(), v.End(), hx([]byte(v.Value)))
}

func showTree(t *parse.Tree) string {
	p := "~"
	if t.Prefix != nil {
		p = hx([]byte(t.Prefix.Text))
	}
	var fs []string
	for _, f := range t.Fragments {
		switch n := f.(type) {
		case *parse.ValueNode:
			fs = append(fs, showValue(n))
		case *parse.GroupNode:
			var vs []string
			for _, v := range n.Values {
				vs = append(vs, showValue(v))
			}
			fs = append(fs, "g:["+strings.Join(vs, "|")+"]")
		}
	}
	f := "."
	if len(fs) > 0 {
		f = strings.Join(fs, ";")
	}
	return "ok " + p + " " + f
}

func syntaxMsgID(msg string) int {
	switch msg {
	case "":
		return 0
	case "missing prefix identifier":
		return 1
	case "missing prefix end":
		return 2
	}
	return 99
}

func goParse(s string) string {
	return safely(func() string {
		t, err := parse.Parse(s)
		if err != nil {
			if se, ok := err.(*parse.SyntaxError); ok {
				return fmt.Sprintf("err %d %d", se.Offset, syntaxMsgID(se.Msg))
			}
			return "err-other " + err.Error()
		}
		return showTree(t)
	})
}

func goTokens(s string) string {
	return safely(func() string {
		var out []string
		for _, t := range parse.Tokens(s) {
			switch t.Type {
			case 0:
				out = append(out, fmt.Sprintf("e:%d:%d", t.Pos, syntaxMsgID(t.Value)))
			case 1:
				out = append(out, fmt.Sprintf("p:%d:%s", t.Pos, hx([]byte(t.Value))))
			case 2:
				out = append(out, fmt.Sprintf("d:%d", t.Pos))
			case 3:
				out = append(out, fmt.Sprintf("c:%d", t.Pos))
			case 4:
				out = append(out, fmt.Sprintf("v:%d:%s", t.Pos, hx([]byte(t.Value))))
			case 5:
				out = append(out, fmt.Sprintf("z:%d", t.Pos))
			}
		}
		return strings.Join(out, " ")
	})
}

// c11Direct checks the C11 statement on the implementation alone for one input.
func c11Direct(c *Ctx, s string) {
	in := map[string]string{"suite": "parse", "hash": hx([]byte(s))}
	var t *parse.Tree
	var err error
	r := safely(func() string { t, err = parse.Parse(s); return "" })
	if r != "" {
		c.Fail("parse-"+r, "Parse did not return normally", in)
		return
	}
	// fails only for a '$'-prefixed string whose identifier is empty or unterminated
	shouldFail := false
	if strings.HasPrefix(s, "$") {
		i := strings.IndexAny(s[1:], "$,")
		shouldFail = i <= 0
	}
	if (err != nil) != shouldFail {
		c.Fail("error-iff", fmt.Sprintf("Parse error=%v, expected failure=%v", err, shouldFail), in)
		return
	}
	if err != nil {
		c.Count("direct:error")
		return
	}
	// rendering reconstructs the input up to at most one trailing delimiter
	var sb strings.Builder
	if t.Prefix != nil {
		sb.WriteString(t.Prefix.Text)
		if t.Prefix.Pos() != 0 || int(t.Prefix.End()) != len(t.Prefix.Text) || !strings.HasPrefix(s, t.Prefix.Text) {
			c.Fail("prefix-span", "prefix span is not the substring holding its text", in)
		}
	}
	for i, f := range t.Fragments {
		if i > 0 {
			sb.WriteByte('$')
		}
		switch n := f.(type) {
		case *parse.ValueNode:
			sb.WriteString(n.Value)
			if int(n.Pos()) > len(s) || int(n.End()) > len(s) || n.Pos() > n.End() || s[n.Pos():n.End()] != n.Value {
				c.Fail("span", "value span is not the substring holding its text", in)
			}
			if strings.Contains(n.Value, ",") {
				c.Fail("group-surface", "comma-joined values did not surface as a group", in)
			}
		case *parse.GroupNode:
			if len(n.Values) == 0 {
				c.Fail("empty-group", "group without values", in)
			}
			for j, v := range n.Values {
				if j > 0 {
					sb.WriteByte(',')
				}
				if v == nil {
					c.Fail("nil-in-group", "nil value in group", in)
					continue
				}
				sb.WriteString(v.Value)
				if int(v.Pos()) > len(s) || int(v.End()) > len(s) || v.Pos() > v.End() || s[v.Pos():v.End()] != v.Value {
					c.Fail("span", "group value span is not the substring holding its text", in)
				}
			}
		}
	}
	got := sb.String()
	if !(got == s || got+"$" == s || got+"," == s) {
		c.Fail("lossless", fmt.Sprintf("tree renders to %q", got), in)
	}
	c.Count("direct:ok")
}

func suiteParse(c *Ctx) {
	if h, ok := c.Replay["hash"]; ok {
		s := string(unhx(h))
		c.Op("parse "+h, goParse(s))
		c.Op("refparse "+h, goParse(s))
		c.Op("tokens "+h, goTokens(s))
		c11Direct(c, s)
		return
	}
	alpha := []byte("$,_=a")
	maxLen := 7
	if c.Thorough() {
		maxLen = 9
	}
	g0 := runtime.NumGoroutine()
	var rec func(prefix []byte)
	rec = func(prefix []byte) {
		s := string(prefix)
		h := hx(prefix)
		r := goParse(s)
		c.Op("parse "+h, r)
		c.Op("refparse "+h, r)
		if len(prefix) <= 6 {
			c.Op("tokens "+h, goTokens(s))
		}
		c11Direct(c, s)
		c.Count(fmt.Sprintf("len:%d", len(prefix)))
		c.NonTrivial(r)
		if len(prefix) < maxLen {
			for _, a := range alpha {
				rec(append(prefix, a))
			}
		}
	}
	rec(nil)
	c.Extra["exhaustive_alphabet"] = string(alpha)
	c.Extra["exhaustive_max_len"] = maxLen
	// random strings over all 256 byte values, delimiter-rich
	n := 3000
	if c.Thorough() {
		n = 60000
	}
	for i := 0; i < n; i++ {
		l := c.Rng.Intn(60)
		if i%50 == 0 {
			l = c.Rng.Intn(4096)
		}
		b := make([]byte, l)
		for j := range b {
			switch c.Rng.Intn(6) {
			case 0:
				b[j] = '$'
			case 1:
				b[j] = ','
			case 2:
				b[j] = "_=a0"[c.Rng.Intn(4)]
			default:
				b[j] = byte(c.Rng.Intn(256))
			}
		}
		if c.Rng.Intn(3) == 0 && l > 0 {
			b[0] = '$'
		}
		s := string(b)
		h := hx(b)
		r := goParse(s)
		c.Op("parse "+h, r)
		c.Op("refparse "+h, r)
		if i%10 == 0 {
			c.Op("tokens "+h, goTokens(s))
		}
		c11Direct(c, s)
		c.Count("random")
		c.NonTrivial(r)
	}
	// goroutine leak: the lexer goroutine must be gone once calls have returned
	deadline := time.Now().Add(2 * time.Second)
	for runtime.NumGoroutine() > g0 && time.Now().Before(deadline) {
		runtime.Gosched()
		time.Sleep(time.Millisecond)
	}
	g1 := runtime.NumGoroutine()
	c.Extra["goroutines_before"] = g0
	c.Extra["goroutines_after"] = g1
	if g1 > g0 {
		c.Fail("goroutine-leak", fmt.Sprintf("goroutines %d -> %d after all Parse calls returned", g0, g1), map[string]string{"suite": "parse"})
	}
}
