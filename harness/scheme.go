package main

import (
	"encoding/base64"
	"encoding/binary"
	"fmt"
	"github.com/sergeymakinen/go-crypt/des/descrypt"
	"regexp"
	"strings"

	crypt "github.com/sergeymakinen/go-crypt"
	"github.com/sergeymakinen/go-crypt/argon2"
	"github.com/sergeymakinen/go-crypt/bcrypt"
	"github.com/sergeymakinen/go-crypt/des"
	"github.com/sergeymakinen/go-crypt/desext"
	crypthash "github.com/sergeymakinen/go-crypt/hash"
	"github.com/sergeymakinen/go-crypt/md5"
	"github.com/sergeymakinen/go-crypt/nthash"
	"github.com/sergeymakinen/go-crypt/sha1"
	"github.com/sergeymakinen/go-crypt/sha256"
	"github.com/sergeymakinen/go-crypt/sha512"
	"github.com/sergeymakinen/go-crypt/sunmd5"
)

func init() {
	suites["scheme"] = suiteScheme
	suites["classify"] = suiteClassify
}

type schemeAPI struct {
	name    string
	check   func(hash, pw string) error
	newHash func(pw string, rounds, memory uint32) (string, error)
	params  func(hash string) (string, error) // "salt rounds memory threads prefix version flag"
	// canonical layout of a generated hash (C12), written independently from the documentation
	canonical *regexp.Regexp
	costs     [][2]uint32 // (rounds, memory) requests for NewHash at the cheap end and bounds
	maxPw     int
}

func fmtParams(salt []byte, rounds, memory uint32, threads uint8, prefix string, version int, flag bool) string {
	return fmt.Sprintf("ok %s %d %d %d %s %d %s", hx(salt), rounds, memory, threads, hx([]byte(prefix)), version, b01(flag))
}

var schemeAPIs = []schemeAPI{
	{"md5", md5.Check, func(pw string, r, m uint32) (string, error) { return md5.NewHash(pw), nil },
		func(h string) (string, error) {
			s, err := md5.Salt(h)
			return fmtParams(s, 0, 0, 0, "", 0, false), err
		}, regexp.MustCompile(`^\$1\$[./0-9A-Za-z]{8}\$[./0-9A-Za-z]{22}$`), [][2]uint32{{0, 0}}, 300},
	{"sha256", sha256.Check, func(pw string, r, m uint32) (string, error) { return sha256.NewHash(pw, r) },
		func(h string) (string, error) {
			s, r, err := sha256.Params(h)
			return fmtParams(s, r, 0, 0, "", 0, false), err
		}, regexp.MustCompile(`^\$5\$rounds=[1-9][0-9]*\$[./0-9A-Za-z]{16}\$[./0-9A-Za-z]{43}$`), [][2]uint32{{1000, 0}, {1001, 0}, {5000, 0}}, 300},
	{"sha512", sha512.Check, func(pw string, r, m uint32) (string, error) { return sha512.NewHash(pw, r) },
		func(h string) (string, error) {
			s, r, err := sha512.Params(h)
			return fmtParams(s, r, 0, 0, "", 0, false), err
		}, regexp.MustCompile(`^\$6\$rounds=[1-9][0-9]*\$[./0-9A-Za-z]{16}\$[./0-9A-Za-z]{86}$`), [][2]uint32{{1000, 0}, {1001, 0}, {5000, 0}}, 300},
	{"sha1", sha1.Check, func(pw string, r, m uint32) (string, error) { return sha1.NewHash(pw, r) },
		func(h string) (string, error) {
			s, r, err := sha1.Params(h)
			return fmtParams(s, r, 0, 0, "", 0, false), err
		}, regexp.MustCompile(`^\$sha1\$[1-9][0-9]*\$[./0-9A-Za-z]{8}\$[./0-9A-Za-z]{28}$`), [][2]uint32{{1, 0}, {2, 0}, {3, 0}, {4294967295, 0}}, 300},
	{"sunmd5", sunmd5.Check, func(pw string, r, m uint32) (string, error) { return sunmd5.NewHash(pw, r) },
		func(h string) (string, error) {
			s, r, o, err := sunmd5.Params(h)
			if err != nil {
				return "", err
			}
			return fmtParams(s, r, 0, 0, o.Prefix, 0, o.DisableSaltSeparator), nil
		}, regexp.MustCompile(`^(\$md5\$rounds=0\$[./0-9A-Za-z]{8}\$[./0-9A-Za-z]{22}|\$md5,rounds=[1-9][0-9]*\$[./0-9A-Za-z]{8}\$\$[./0-9A-Za-z]{22})$`), [][2]uint32{{0, 0}, {1, 0}, {2, 0}}, 255},
	{"des", des.Check, func(pw string, r, m uint32) (string, error) { return des.NewHash(pw), nil },
		func(h string) (string, error) {
			s, err := des.Salt(h)
			return fmtParams(s, 0, 0, 0, "", 0, false), err
		}, regexp.MustCompile(`^[./0-9A-Za-z]{2}[./0-9A-Za-z]{11}$`), [][2]uint32{{0, 0}}, 8},
	{"desext", desext.Check, func(pw string, r, m uint32) (string, error) { return desext.NewHash(pw, r) },
		func(h string) (string, error) {
			s, r, err := desext.Params(h)
			return fmtParams(s, r, 0, 0, "", 0, false), err
		}, regexp.MustCompile(`^_[./0-9A-Za-z]{4}[./0-9A-Za-z]{4}[./0-9A-Za-z]{11}$`), [][2]uint32{{1, 0}, {2, 0}, {5001, 0}, {65536, 0}, {65537, 0}, {327681, 0}, {1048577, 0}}, 300},
	{"bcrypt", bcrypt.Check, func(pw string, r, m uint32) (string, error) { return bcrypt.NewHash(pw, uint8(r)) },
		func(h string) (string, error) {
			s, c, o, err := bcrypt.Params(h)
			if err != nil {
				return "", err
			}
			return fmtParams(s, uint32(c), 0, 0, o.Prefix, 0, false), nil
		}, regexp.MustCompile(`^\$2b\$[0-9]{2}\$[./A-Za-z0-9]{22}[./A-Za-z0-9]{31}$`), [][2]uint32{{4, 0}, {5, 0}}, 300},
	{"nthash", nthash.Check, func(pw string, r, m uint32) (string, error) { return nthash.NewHash(pw) },
		nil, regexp.MustCompile(`^\$3\$\$[0-9a-f]{32}$`), [][2]uint32{{0, 0}}, 120},
	{"argon2", argon2.Check, func(pw string, r, m uint32) (string, error) { return argon2.NewHash(pw, m, r) },
		func(h string) (string, error) {
			s, m, t, p, o, err := argon2.Params(h)
			if err != nil {
				return "", err
			}
			return fmtParams(s, t, m, p, o.Prefix, o.Version, false), nil
		}, regexp.MustCompile(`^\$argon2id\$v=19\$m=[1-9][0-9]*,t=[1-9][0-9]*,p=1\$[A-Za-z0-9+/]{11}\$[A-Za-z0-9+/]{43}$`), [][2]uint32{{1, 8}, {2, 9}, {1, 16}, {2, 31}}, 300},
}

func classifyErr(err error) string {
	if err == nil {
		return "nil"
	}
	if err == crypt.ErrPasswordMismatch {
		return "mismatch"
	}
	if err == crypt.ErrHash {
		return "errhash"
	}
	s := showCodecErr(err)
	if strings.HasPrefix(s, "err other") {
		k := showKeyErr(err)
		if strings.HasPrefix(k, "err ") {
			return "k" + k
		}
		return k
	}
	return s
}

func goCheck(api schemeAPI, hash, pw string, rnd uint32) string {
	pendingOp(fmt.Sprintf("check %s %s %s", api.name, hx([]byte(hash)), hx([]byte(pw))))
	return safely(func() string {
		var err error
		var rb [4]byte
		binary.BigEndian.PutUint32(rb[:], rnd)
		withEntropy(rb[:], func() { err = api.check(hash, pw) })
		return classifyErr(err)
	})
}

// tooCostly: Params (cheap: parsing only) reports an accepted cost beyond the suite's budget.
func tooCostly(scheme, ps string) bool {
	f := strings.Fields(ps)
	if len(f) < 5 || f[0] != "ok" {
		return false
	}
	var rounds, memory uint64
	fmt.Sscan(f[2], &rounds)
	fmt.Sscan(f[3], &memory)
	switch scheme {
	case "bcrypt":
		return rounds > 8
	case "argon2":
		return memory > 1<<14 || rounds*memory > 1<<16
	case "desext":
		return rounds > 1<<18
	}
	return rounds > 20000
}

func goParams(api schemeAPI, hash string) string {
	return safely(func() string {
		s, err := api.params(hash)
		if err != nil {
			return classifyErr(err)
		}
		return s
	})
}

// nearMisses: passwords not equivalent to p under any scheme's documented truncation rules
// (they differ within the first 8 bytes' low 7 bits, or are NUL-free variants of different length ≤ limits).
func (c *Ctx) nearMisses(p []byte) [][]byte {
	var out [][]byte
	add := func(q []byte) { out = append(out, append([]byte{}, q...)) }
	for i := range p {
		if i >= 12 && i < len(p)-2 && c.Rng.Intn(8) != 0 {
			continue
		}
		for _, bit := range []uint{0, 3, 6} {
			q := append([]byte{}, p...)
			q[i] ^= 1 << bit
			if q[i] != 0 {
				add(q)
			}
		}
	}
	add(append(append([]byte{}, p...), 'x'))
	if len(p) > 0 {
		add(p[:len(p)-1])
		add(append([]byte{'x'}, p...))
		q := append([]byte{}, p...)
		if q[0] >= 'a' && q[0] <= 'z' {
			q[0] -= 32
			add(q)
		}
	}
	for _, k := range []int{8, 16, 32, 64, 72} {
		if len(p) > k {
			add(p[:k])
		}
	}
	return out
}

// desIntOps: the BSDi rounds/salt field coding (descrypt.EncodeInt / DecodeInt) against the model on
// every boundary of the four 6-bit groups, and decode∘encode = id directly (C12: NewHash writes the
// rounds through EncodeInt, Params reads them back through DecodeInt).
func desIntOps(c *Ctx) {
	var vals []uint32
	for sh := uint(0); sh <= 24; sh += 6 {
		for _, d := range []int64{-2, -1, 0, 1, 2} {
			v := int64(1)<<sh + d
			if v >= 0 && v < 1<<24 {
				vals = append(vals, uint32(v))
			}
		}
	}
	for _, v := range []uint32{0, 63, 64, 4095, 4096, 5001, 65535, 65536, 65537, 262143, 262144, 327680, 798915, 1<<24 - 1} {
		vals = append(vals, v)
	}
	n := 300
	if c.Thorough() {
		n = 20000
	}
	for i := 0; i < n; i++ {
		vals = append(vals, uint32(c.Rng.Intn(1<<24)))
	}
	for _, v := range vals {
		e := descrypt.EncodeInt(v)
		c.Op(fmt.Sprintf("desenc %d", v), hx(e))
		d := descrypt.DecodeInt(e)
		c.Op("desdec "+hx(e), fmt.Sprint(d))
		c.Direct++
		if d != v {
			c.Fail("not-canonical", fmt.Sprintf("descrypt.DecodeInt(EncodeInt(%d)) = %d: a generated BSDi hash would carry other rounds than requested", v, d),
				map[string]string{"suite": "scheme", "scheme": "desext", "rounds": fmt.Sprint(v), "encoded": hx(e)})
		}
	}
	for _, t := range []string{"", ".", "z", "..", "zzzz", "zzzzz", "a@..", "/...", "./..0"} {
		c.Op("desdec "+hx([]byte(t)), fmt.Sprint(descrypt.DecodeInt([]byte(t))))
	}
}

// coherenceOps (C12, second half): for accepted NON-canonical spellings — implicit rounds, absent / explicit Argon2
// version, Sun MD5 with either prefix and with or without the separator — Check succeeds exactly when Key with the
// parameters Params extracts re-encodes to the stored digest.
func coherenceOps(c *Ctx) {
	pw := []byte("coherence pw")
	type form struct {
		scheme, hash string
		rederive     func() (string, error) // digest text re-derived from Params(hash)
	}
	var forms []form
	last := func(h string) string { return h[strings.LastIndex(h, "$")+1:] }
	// SHA-crypt: explicit and implicit rounds=5000
	for _, id := range []string{"sha256", "sha512"} {
		id := id
		newHash := map[string]func(string, uint32) (string, error){"sha256": sha256.NewHash, "sha512": sha512.NewHash}[id]
		h, err := newHash(string(pw), 5000)
		if err != nil {
			continue
		}
		for _, spelled := range []string{h, strings.Replace(h, "rounds=5000$", "", 1)} {
			spelled := spelled
			forms = append(forms, form{id, spelled, func() (string, error) {
				if id == "sha256" {
					salt, r, err := sha256.Params(spelled)
					if err != nil {
						return "", err
					}
					k, err := sha256.Key(pw, salt, r)
					return string(crypthash.LittleEndianEncoding.EncodeToString(k)), err
				}
				salt, r, err := sha512.Params(spelled)
				if err != nil {
					return "", err
				}
				k, err := sha512.Key(pw, salt, r)
				return string(crypthash.LittleEndianEncoding.EncodeToString(k)), err
			}})
		}
	}
	// Argon2: version absent (1.0), v=16, v=19 — each with the digest of its own version
	for _, ver := range []int{argon2.Version10, argon2.Version13} {
		salt := []byte(base64.RawStdEncoding.EncodeToString([]byte("saltsalt"))) // Key takes the salt as its base64 text
		k, err := argon2.Key(pw, salt, 16, 2, 2, &argon2.CompatibilityOptions{Prefix: argon2.Prefix2i, Version: ver})
		if err != nil {
			c.Fail("incoherent", "argon2.Key failed while preparing a reference hash: "+err.Error(), map[string]string{"suite": "scheme", "scheme": "argon2"})
			continue
		}
		body := "m=16,t=2,p=2$" + string(salt) + "$" + base64.RawStdEncoding.EncodeToString(k)
		spellings := []string{fmt.Sprintf("$argon2i$v=%d$%s", ver, body)}
		if ver == argon2.Version10 {
			spellings = append(spellings, "$argon2i$"+body)
		}
		for _, spelled := range spellings {
			spelled := spelled
			forms = append(forms, form{"argon2", spelled, func() (string, error) {
				s, m, t, p, o, err := argon2.Params(spelled)
				if err != nil {
					return "", err
				}
				k, err := argon2.Key(pw, s, m, t, p, o)
				return base64.RawStdEncoding.EncodeToString(k), err
			}})
		}
	}
	// Sun MD5: rounds 0 and 7; NewHash's own spelling and the one without the separator
	for _, r := range []uint32{0, 7} {
		h, err := sunmd5.NewHash(string(pw), r)
		if err != nil {
			continue
		}
		for _, spelled := range []string{h} {
			spelled := spelled
			forms = append(forms, form{"sunmd5", spelled, func() (string, error) {
				s, rr, o, err := sunmd5.Params(spelled)
				if err != nil {
					return "", err
				}
				k, err := sunmd5.Key(pw, s, rr, o)
				return string(crypthash.LittleEndianEncoding.EncodeToString(k)), err
			}})
		}
	}
	apis := map[string]schemeAPI{}
	for _, a := range schemeAPIs {
		apis[a.name] = a
	}
	for _, f := range forms {
		verdict := goCheck(apis[f.scheme], f.hash, string(pw), 0)
		d, err := f.rederive()
		c.Direct++
		in := map[string]string{"suite": "scheme", "scheme": f.scheme, "hash": hx([]byte(f.hash)), "password": hx(pw)}
		switch {
		case err != nil:
			c.Fail("incoherent", fmt.Sprintf("%s: Params/Key fail on an accepted spelling (%v) while Check = %s", f.scheme, err, verdict), in)
		case (d == last(f.hash)) != (verdict == "nil"):
			c.Fail("incoherent", fmt.Sprintf("%s: Check = %s but Key(Params(hash)) re-encodes to %q, stored digest %q", f.scheme, verdict, d, last(f.hash)), in)
		case verdict != "nil":
			c.Fail("incoherent", fmt.Sprintf("%s: a hash built from Key's own result does not verify: Check = %s", f.scheme, verdict), in)
		}
		c.Op(fmt.Sprintf("check %s %s %s 0", f.scheme, hx([]byte(f.hash)), hx(pw)), verdict)
	}
}

// inherentEquivalences (C02): password pairs that are NOT equivalent under the documented truncation rules as C02
// words them, yet verify against each other's hashes because of how the ALGORITHM (not this library's glue) uses
// its key — proved in Props/C02b.lean (desext_twin_checks, bcryptEquiv_coarser) and confirmed on libxcrypt. They are
// replayed here on the real code and reported as known findings; anything else that verifies is a new violation.
func inherentEquivalences(c *Ctx) {
	// BSDi: the folded 64-bit key is used as a DES key, and DES ignores the low bit of every key byte: the
	// 8 bytes "upper seven bits of each byte of the folded key" are a twin of every longer password
	fold := func(pw []byte) uint64 {
		mn := func(a, b int) int {
			if a < b {
				return a
			}
			return b
		}
		k := descrypt.Key(pw[:mn(len(pw), 8)])
		for i := 8; i < len(pw); i += 8 {
			k = descrypt.Encrypt(k, k, 0, 1) ^ descrypt.Key(pw[i:mn(i+8, len(pw))])
		}
		return k
	}
	for _, pw := range []string{"correct horse battery staple", "passwordpassword1", "0123456789abcdef0123"} {
		k := fold([]byte(pw))
		twin := make([]byte, 8)
		for i := range twin {
			twin[i] = 0x80 | byte(k>>(56-8*uint(i)))>>1 // bit 7 is masked off again by descrypt.Key; avoids NUL bytes
		}
		h, err := desext.NewHash(pw, 725)
		if err != nil {
			continue
		}
		c.Direct++
		if r := classifyErr(desext.Check(h, string(twin))); r == "nil" {
			c.Fail("wrong-password-accepted", fmt.Sprintf("desext.Check(hash of %q, % x) = nil: the 8-byte twin built from the folded key verifies", pw, twin),
				map[string]string{"suite": "scheme", "scheme": "desext", "hash": hx([]byte(h)), "made-from": hx([]byte(pw)), "password": hx(twin), "class": "bsdi-folded-key-twin"})
		}
	}
	// bcrypt: the Blowfish key schedule reads the key cyclically: "a" ≡ "a\x00a" under $2a$/$2b$ (key bytes a,NUL repeat),
	// "ab" ≡ "abab" under $2$ (no terminator)
	type pair struct{ prefix, a, b string }
	for _, p := range []pair{{bcrypt.Prefix2b, "a", "a\x00a"}, {bcrypt.Prefix2a, "a", "a\x00a"}, {bcrypt.Prefix2, "ab", "abab"}} {
		salt := []byte("R1lJ2gkNaoPGdafE.H.16.")
		k, err := bcrypt.Key([]byte(p.a), salt, 4, &bcrypt.CompatibilityOptions{Prefix: p.prefix})
		if err != nil {
			continue
		}
		h := p.prefix + "04$" + string(salt) + bcrypt.Encoding.EncodeToString(k)[:31]
		c.Direct++
		if r := classifyErr(bcrypt.Check(h, p.a)); r != "nil" {
			c.Fail("fresh-hash-rejected", "bcrypt.Check of a hash assembled from Key's own result = "+r, map[string]string{"suite": "scheme", "scheme": "bcrypt", "hash": hx([]byte(h)), "password": hx([]byte(p.a))})
			continue
		}
		if r := classifyErr(bcrypt.Check(h, p.b)); r == "nil" {
			c.Fail("wrong-password-accepted", fmt.Sprintf("bcrypt.Check(hash of %q under %s, %q) = nil: the key schedule reads the key bytes cyclically", p.a, p.prefix, p.b),
				map[string]string{"suite": "scheme", "scheme": "bcrypt", "hash": hx([]byte(h)), "made-from": hx([]byte(p.a)), "password": hx([]byte(p.b)), "class": "bcrypt-cyclic-key"})
		}
	}
}

func suiteScheme(c *Ctx) {
	if c.Scheme(0) { // scheme-independent part: first shard
		desIntOps(c)
		coherenceOps(c)
		inherentEquivalences(c)
	}
	if h, ok := c.Replay["hash"]; ok {
		for _, api := range schemeAPIs {
			if api.name == c.Replay["scheme"] {
				pw := string(unhx(c.Replay["password"]))
				c.Op(fmt.Sprintf("check %s %s %s 0", api.name, h, hx([]byte(pw))), goCheck(api, string(unhx(h)), pw, 0))
			}
		}
		return
	}
	pwLens := []int{0, 1, 7, 8, 9, 16, 31, 32, 33, 63, 64, 65, 72, 73, 128, 254, 255, 256}
	if c.Thorough() {
		for l := 0; l <= 300; l += 1 {
			pwLens = append(pwLens, l)
		}
	}
	for sidx, api := range schemeAPIs {
		if !c.Scheme(sidx) {
			continue
		}
		if api.name == "desext" {
			// the exported upper bound itself (2^24-1 rounds ≈ 7 s): what NewHash writes must be what Params reads back
			max := uint32(desext.MaxRounds)
			h, err := api.newHash("bound", max, 0)
			in := map[string]string{"suite": "scheme", "scheme": "desext", "rounds": fmt.Sprint(max), "password": hx([]byte("bound"))}
			c.Direct++
			if err != nil {
				c.Fail("newhash-failed", "desext.NewHash failed at the exported MaxRounds: "+err.Error(), in)
			} else {
				in["hash"] = hx([]byte(h))
				ps := strings.Fields(goParams(api, h))
				if len(ps) < 3 || ps[0] != "ok" || ps[2] != fmt.Sprint(max) {
					c.Fail("not-canonical", fmt.Sprintf("desext.NewHash(pw, MaxRounds=%d) = %q but Params reads back %v", max, h, ps), in)
				} else if r := goCheck(api, h, "bound", 0); r != "nil" {
					c.Fail("fresh-hash-rejected", "desext.Check(NewHash(p, MaxRounds), p) = "+r, in)
				}
			}
		}
		for li, l := range pwLens {
			if l > api.maxPw {
				l = api.maxPw - (li % 3)
				if l < 0 {
					l = 0
				}
			}
			pw := c.randPw(l, true)
			if api.name == "nthash" {
				pw = []byte(strings.ToValidUTF8(string(pw), "é"))
				if len(pw) > 120 {
					pw = pw[:120]
					pw = []byte(strings.ToValidUTF8(string(pw), ""))
				}
				switch li % 3 {
				case 1:
					// the UTF-8 → UTF-16LE step on every plane: BMP, surrogate pairs, the extremes
					pool := []rune{'a', 'é', '€', '中', 0xD7FF, 0xE000, 0xFFFD, 0xFFFF, 0x10000, 0x1F600, 0x1F4A9, 0x2F800, 0x10FFFF}
					var rs []rune
					for k := 0; k < 1+l%40; k++ {
						rs = append(rs, pool[c.Rng.Intn(len(pool))])
					}
					pw = []byte(string(rs))
				case 2:
					// ill-formed UTF-8: lone continuation / lead bytes, an encoded surrogate, an overlong form, a truncated sequence
					bad := []string{"\x80", "\xff", "\xc3", "\xed\xa0\x80", "\xc0\xaf", "\xf0\x9f\x98", "\xf4\x90\x80\x80", "ok", "é", "\U0001F600"}
					var sb strings.Builder
					for k := 0; k < 1+l%12; k++ {
						sb.WriteString(bad[c.Rng.Intn(len(bad))])
					}
					pw = []byte(sb.String())
				}
			}
			cost := api.costs[li%len(api.costs)]
			if api.name == "sunmd5" {
				cost = api.costs[(li/3)%len(api.costs)] // at quick only every third length runs: still rotate through the costs
			}
			if api.name == "sha1" && cost[0] == 4294967295 && li > 3 && !c.Thorough() {
				cost = api.costs[0] // one random-rounds request per quick run (≈ 20 000 HMAC rounds each)
			}
			if api.name == "sunmd5" && li%3 != 0 && !c.Thorough() {
				continue
			}
			entropy := make([]byte, 32)
			c.Rng.Read(entropy)
			var h string
			var err error
			used := withEntropy(entropy, func() {
				r := safely(func() string { h, err = api.newHash(string(pw), cost[0], cost[1]); return "" })
				if r != "" {
					err = fmt.Errorf("NewHash %s", r)
				}
			})
			in := map[string]string{"suite": "scheme", "scheme": api.name, "password": hx(pw), "rounds": fmt.Sprint(cost[0]), "memory": fmt.Sprint(cost[1]), "entropy": hx(entropy)}
			op := fmt.Sprintf("newhash %s %s %d %d %s", api.name, hx(pw), cost[0], cost[1], hx(entropy))
			if err != nil {
				c.Op(op, classifyErr(err))
				c.Fail("newhash-failed", fmt.Sprintf("%s.NewHash failed for an accepted password/cost: %v", api.name, err), in)
				continue
			}
			c.Op(op, fmt.Sprintf("ok %s %d", hx([]byte(h)), used))
			in["hash"] = hx([]byte(h))
			c.NonTrivial(api.name + h)
			c.Count(api.name + ":newhash")
			// C01: verifies through the package checker and the dispatcher
			r := goCheck(api, h, string(pw), 0)
			c.Op(fmt.Sprintf("check %s %s %s 0", api.name, hx([]byte(h)), hx(pw)), r)
			if r != "nil" {
				c.Fail("fresh-hash-rejected", api.name+".Check(NewHash(p), p) = "+r, in)
			}
			if e := safely(func() string { return classifyErr(crypt.Check(h, string(pw))) }); e != "nil" {
				c.Fail("fresh-hash-rejected-dispatch", "crypt.Check(NewHash(p), p) = "+e, in)
			}
			// C12: canonical layout, Params, byte-for-byte re-assembly
			if !api.canonical.MatchString(h) {
				c.Fail("not-canonical", "generated hash does not have the documented canonical layout: "+h, in)
			}
			if api.params != nil {
				c.Op("params "+api.name+" "+hx([]byte(h)), goParams(api, h))
			}
			// C02: near-miss passwords must not verify
			for i, q := range c.nearMisses(pw) {
				if api.name == "nthash" {
					q = []byte(strings.ToValidUTF8(string(q), "?"))
					if string(q) == string(pw) {
						continue
					}
				}
				if len(q) > api.maxPw || (api.name == "des" && equivDES(q, pw)) || (api.name == "desext" && equivDESExt(q, pw)) {
					continue
				}
				if api.name == "bcrypt" && len(pw) >= 72 && len(q) >= 72 && string(q[:72]) == string(pw[:72]) {
					continue
				}
				rq := goCheck(api, h, string(q), 0)
				if rq == "nil" {
					in2 := map[string]string{"suite": "scheme", "scheme": api.name, "hash": hx([]byte(h)), "password": hx(q), "made-from": hx(pw)}
					c.Fail("wrong-password-accepted", api.name+".Check accepts a password that is not equivalent to the original", in2)
				}
				if i < 6 || c.Thorough() && i < 30 {
					c.Op(fmt.Sprintf("check %s %s %s 0", api.name, hx([]byte(h)), hx(q)), rq)
				}
				c.Count(api.name + ":nearmiss")
				c.Direct++
			}
			// C02: every single-character substitution of every digest position never verifies (Go only: exhaustive)
			digestStart := strings.LastIndex(h, "$") + 1
			if api.name == "des" {
				digestStart = 2
			} else if api.name == "desext" {
				digestStart = 9
			} else if api.name == "bcrypt" {
				digestStart = len(h) - 31
			}
			alpha := cryptAlpha
			if api.name == "argon2" {
				alpha = stdAlpha
			} else if api.name == "nthash" {
				alpha = "0123456789abcdef" + "ABCDEF./gz"
			}
			if li < 1 || c.Thorough() && li < 20 {
				nsub := 0
				for pos := digestStart; pos < len(h); pos++ {
					for _, a := range []byte(alpha) {
						if a == h[pos] {
							continue
						}
						t := h[:pos] + string(a) + h[pos+1:]
						if api.name == "des" || api.name == "desext" || api.name == "bcrypt" || api.name == "argon2" || api.name == "sha1" {
							// the last symbol of a big-endian/partial digest has unused low bits: it can spell the same digest.
							// Such a respelling is a "mismatch" at the encoded-string level anyway, since the comparison is on text.
						}
						rt := goCheck(api, t, string(pw), 0)
						if rt == "nil" {
							c.Fail("tampered-digest-accepted", api.name+".Check accepts a hash whose digest text differs",
								map[string]string{"suite": "scheme", "scheme": api.name, "hash": hx([]byte(t)), "password": hx(pw)})
						}
						nsub++
						c.Direct++
						if nsub%97 == 0 {
							c.Op(fmt.Sprintf("check %s %s %s 0", api.name, hx([]byte(t)), hx(pw)), rt)
						}
					}
				}
				c.Stats[api.name+":digest-substitutions"] += nsub
			}
		}
	}
}

var numRe = regexp.MustCompile(`[0-9]+`)
var groupRe = regexp.MustCompile(`[a-z]+=[0-9]+(,[a-z]+=[0-9]+)+`)

// equivDESExt: BSDi folds the password in 8-byte blocks of 7-bit bytes; two passwords are the same key when they
// have the same number of blocks and the same masked, zero-padded content.
func equivDESExt(a, b []byte) bool {
	blocks := func(n int) int {
		if n <= 8 {
			return 1
		}
		return (n + 7) / 8
	}
	if blocks(len(a)) != blocks(len(b)) {
		return false
	}
	n := blocks(len(a)) * 8
	ka, kb := make([]byte, n), make([]byte, n)
	for i := range a {
		ka[i] = a[i] & 0x7f
	}
	for i := range b {
		kb[i] = b[i] & 0x7f
	}
	return string(ka) == string(kb)
}

func equivDES(a, b []byte) bool {
	// the DES key is the low 7 bits of each of the first 8 bytes, zero-padded: a byte 0x80 (or NUL) counts as absent
	var ka, kb [8]byte
	for i := 0; i < 8 && i < len(a); i++ {
		ka[i] = a[i] & 0x7f
	}
	for i := 0; i < 8 && i < len(b); i++ {
		kb[i] = b[i] & 0x7f
	}
	return ka == kb
}

// suiteClassify (C06): every string at edit distance 1 from a canonical hash under the
// class-representative alphabet, plus splices and short strings; Go's three-way class and Params
// against the model.
func suiteClassify(c *Ctx) {
	editAlpha := []byte("$,=_09aZ./+@\x00\xff")
	for sidx, api := range schemeAPIs {
		if !c.Scheme(sidx) {
			continue
		}
		// canonical hashes: generated, plus accepted non-canonical spellings
		pw := "pa55w0rd"
		var hashes []string
		cost := api.costs[0]
		h, err := api.newHash(pw, cost[0], cost[1])
		if err != nil {
			c.Fail("newhash-failed", api.name+".NewHash failed", map[string]string{"suite": "classify", "scheme": api.name})
			continue
		}
		hashes = append(hashes, h)
		switch api.name {
		case "sha256", "sha512":
			h2, _ := api.newHash(pw, 5000, 0)
			hashes = append(hashes, strings.Replace(h2, "rounds=5000$", "", 1)) // implicit rounds
		case "sunmd5":
			h2, _ := api.newHash(pw, 0, 0)
			hashes = append(hashes, h2)
		case "argon2":
			hashes = append(hashes, strings.Replace(h, "$v=19", "", 1)) // absent version (verifies only by luck: v=16 digest differs)
		case "bcrypt":
			hashes = append(hashes, "$2a$"+h[4:], "$2$"+h[4:])
		}
		// an explicitly written zero cost/version is out of range (C06): it must not verify, and it must not
		// be reported as a mere mismatch when the digest is the right one for the defaulted value
		switch api.name {
		case "sha256", "sha512":
			implicit := hashes[len(hashes)-1]
			id := implicit[:3]
			t := id + "rounds=0$" + implicit[3:]
			c.Direct++
			if r := goCheck(api, t, pw, 0); r == "nil" || r == "mismatch" {
				c.Fail("out-of-range-cost-accepted", fmt.Sprintf("%s.Check(%q, correct password) = %s: rounds=0 is below MinRounds, yet it is read as \"absent\" (default 5000)", api.name, t, r),
					map[string]string{"suite": "classify", "scheme": api.name, "hash": hx([]byte(t)), "password": hx([]byte(pw)), "class": "explicit-zero-rounds"})
			}
		case "argon2":
			saltText := base64.RawStdEncoding.EncodeToString([]byte("saltsalt")) // Key takes the salt as its base64 text
			k, kerr := argon2.Key([]byte(pw), []byte(saltText), 8, 1, 1, &argon2.CompatibilityOptions{Prefix: argon2.Prefix2id, Version: argon2.Version10})
			if kerr != nil {
				c.Fail("newhash-failed", "argon2.Key failed while preparing a v1.0 reference hash: "+kerr.Error(), map[string]string{"suite": "classify", "scheme": "argon2"})
			} else {
				body := "m=8,t=1,p=1$" + saltText + "$" + base64.RawStdEncoding.EncodeToString(k)
				c.Direct += 2
				if r := goCheck(api, "$argon2id$"+body, pw, 0); r != "nil" {
					c.Fail("wellformed-rejected", "argon2.Check of a version-less (v1.0) hash with the correct password = "+r,
						map[string]string{"suite": "classify", "scheme": "argon2", "hash": hx([]byte("$argon2id$" + body)), "password": hx([]byte(pw))})
				}
				// the same hash with the version spelled out must verify too (Check must use the parsed version)
				if r := goCheck(api, "$argon2id$v=16$"+body, pw, 0); r != "nil" {
					c.Fail("wellformed-rejected", "argon2.Check of a v=16 hash with the correct password = "+r+" although the version-less spelling of the same hash verifies",
						map[string]string{"suite": "classify", "scheme": "argon2", "hash": hx([]byte("$argon2id$v=16$" + body)), "password": hx([]byte(pw))})
				}
				if r := goCheck(api, "$argon2id$v=19$"+body, pw, 0); r != "mismatch" {
					c.Fail("misclassified", "argon2.Check of a v1.0 digest relabelled v=19 with the correct password = "+r+" (expected the mismatch sentinel: the version changes the digest)",
						map[string]string{"suite": "classify", "scheme": "argon2", "hash": hx([]byte("$argon2id$v=19$" + body)), "password": hx([]byte(pw))})
				}
				c.Direct += 2
				t := "$argon2id$v=0$" + body
				if r := goCheck(api, t, pw, 0); r == "nil" || r == "mismatch" {
					c.Fail("out-of-range-cost-accepted", fmt.Sprintf("argon2.Check(%q, correct password) = %s: version 0 is unsupported, yet v=0 is read as \"absent\" (version 1.0)", t, r),
						map[string]string{"suite": "classify", "scheme": "argon2", "hash": hx([]byte(t)), "password": hx([]byte(pw)), "class": "explicit-zero-version"})
				}
			}
		}
		maxOps := 1500
		if api.name == "sunmd5" || api.name == "bcrypt" {
			maxOps = 500
		}
		if c.Thorough() {
			maxOps *= 12
		}
		for hi, h := range hashes {
			var muts []string
			muts = append(muts, h)
			for pos := 0; pos <= len(h); pos++ {
				for _, a := range editAlpha {
					muts = append(muts, h[:pos]+string(a)+h[pos:])
					if pos < len(h) && h[pos] != a {
						muts = append(muts, h[:pos]+string(a)+h[pos+1:])
					}
				}
				if pos < len(h) {
					muts = append(muts, h[:pos]+h[pos+1:], h[:pos])
				}
			}
			// field-level splices
			frs := strings.Split(h, "$")
			for i := range frs {
				for j := range frs {
					if i < j {
						sw := append([]string{}, frs...)
						sw[i], sw[j] = sw[j], sw[i]
						muts = append(muts, strings.Join(sw, "$"))
					}
				}
				dup := append(append([]string{}, frs[:i+1]...), frs[i:]...)
				muts = append(muts, strings.Join(dup, "$"))
				drop := append(append([]string{}, frs[:i]...), frs[i+1:]...)
				muts = append(muts, strings.Join(drop, "$"))
			}
			muts = append(muts, h+"$junk", h+"$a=1,b=2", h+"$garbage,", h+"$", h+"$$", h+",", "$x$"+h, "_"+h, h+h)
			// numeric fields: values that wrap around the field width, huge values, signs (out-of-range costs)
			var must []string
			for _, loc := range numRe.FindAllStringIndex(h, -1) {
				num := h[loc[0]:loc[1]]
				if loc[0] > 0 && strings.ContainsRune(cryptAlpha[2:]+"+/", rune(h[loc[0]-1])) && h[loc[0]-1] != '=' {
					continue // digits inside a salt / digest text
				}
				var v uint64
				fmt.Sscan(num, &v)
				for _, alt := range []string{fmt.Sprint(v + 256), fmt.Sprint(v + 65536), fmt.Sprint(v + 1<<32), fmt.Sprintf("%d", v) + "0000000000", "18446744073709551616",
					"18446744073709551615", "4294967296", "4294967295", "256", "255", "0", "00" + num, "+" + num, "-" + num, "0x" + num, num + "_", " " + num} {
					must = append(must, h[:loc[0]]+alt+h[loc[1]:])
				}
			}
			// parameter groups: a member duplicated (same value, and a different value first)
			for _, loc := range groupRe.FindAllStringIndex(h, -1) {
				g := h[loc[0]:loc[1]]
				ms := strings.Split(g, ",")
				for i, m := range ms {
					dup := append(append(append([]string{}, ms[:i+1]...), m), ms[i+1:]...)
					must = append(must, h[:loc[0]]+strings.Join(dup, ",")+h[loc[1]:])
					if eq := strings.Index(m, "="); eq > 0 {
						other := m[:eq+1] + "7" + m[eq+1:]
						dup2 := append(append(append([]string{}, ms[:i]...), other), ms[i:]...)
						must = append(must, h[:loc[0]]+strings.Join(dup2, ",")+h[loc[1]:])
						dup3 := append(append(append([]string{}, ms[:i+1]...), other), ms[i+1:]...)
						must = append(must, h[:loc[0]]+strings.Join(dup3, ",")+h[loc[1]:])
					}
				}
			}
			// the last two digest positions against every alphabet symbol (unused-bit respellings of the digest)
			{
				alpha := cryptAlpha
				if api.name == "argon2" {
					alpha = stdAlpha
				}
				for pos := len(h) - 2; pos < len(h); pos++ {
					for _, a := range []byte(alpha) {
						if pos >= 0 && a != h[pos] {
							t := h[:pos] + string(a) + h[pos+1:]
							must = append(must, t)
							if r := goCheck(api, t, pw, 0); r == "nil" {
								c.Fail("tampered-digest-accepted", api.name+".Check accepts a hash whose digest text differs in its last symbols",
									map[string]string{"suite": "classify", "scheme": api.name, "hash": hx([]byte(t)), "password": hx([]byte(pw))})
							}
							c.Direct++
						}
					}
				}
			}
			// sample when there are too many (malformed ones are cheap; well-formed ones run the KDF)
			stride := 1
			if len(muts) > maxOps {
				stride = len(muts)/maxOps + 1
			}
			off := 0
			if stride > 1 {
				off = c.Rng.Intn(stride)
			}
			seen := map[string]bool{}
			// the structured edits above are never sampled away
			idx := []int{}
			for i := off; i < len(muts); i += stride {
				idx = append(idx, i)
			}
			base := len(muts)
			muts = append(muts, must...)
			for i := base; i < len(muts); i++ {
				idx = append(idx, i)
			}
			for _, i := range idx {
				m := muts[i]
				if seen[m] {
					continue
				}
				seen[m] = true
				ps := ""
				if api.params != nil {
					ps = goParams(api, m)
					c.Op("params "+api.name+" "+hx([]byte(m)), ps)
				}
				if tooCostly(api.name, ps) {
					// a well-formed hash whose (in-range) cost would take minutes or terabytes: acceptance is
					// compared through Params only
					c.Count(api.name + ":costly-skipped")
					continue
				}
				for _, p := range []string{pw, "wrong"} {
					if p == "wrong" && i%5 != 0 {
						continue
					}
					r := goCheck(api, m, p, 0)
					c.Op(fmt.Sprintf("check %s %s %s 0", api.name, hx([]byte(m)), hx([]byte(p))), r)
					c.Count(api.name + ":" + strings.SplitN(r, " ", 2)[0])
					if r == "panic" || r == "timeout" {
						c.Fail("check-"+r, api.name+".Check did not return normally: "+lastPanic, map[string]string{"suite": "classify", "scheme": api.name, "hash": hx([]byte(m)), "password": hx([]byte(p))})
					}
				}
			}
			c.NonTrivial(fmt.Sprintf("%s:%d", api.name, hi))
			c.Stats[api.name+":mutations"] += len(muts)
		}
		// all short strings over the delimiter-rich alphabet
		maxLen := 4
		if c.Thorough() {
			maxLen = 6
		}
		alpha := []byte("$,=_a0")
		var rec func(p []byte)
		rec = func(p []byte) {
			r := goCheck(api, string(p), "x", 0)
			c.Op(fmt.Sprintf("check %s %s %s 0", api.name, hx(p), hx([]byte("x"))), r)
			if r == "nil" {
				c.Fail("short-string-accepted", api.name+".Check accepts a short junk string", map[string]string{"suite": "classify", "scheme": api.name, "hash": hx(p)})
			}
			if len(p) < maxLen {
				for _, a := range alpha {
					rec(append(p, a))
				}
			}
		}
		rec(nil)
	}
}
