package main

import (
	"bytes"
	"fmt"
	"strings"
)

func init() {
	suites["purity"] = suitePurity
}

// sentinelSlice returns data as a sub-slice of a larger sentinel-filled buffer (len < cap), plus
// the whole backing buffer for the before/after comparison.
func sentinelSlice(data []byte, lead, spare int) (view, whole []byte) {
	whole = make([]byte, lead+len(data)+spare)
	for i := range whole {
		whole[i] = 0xA5 ^ byte(i*7)
	}
	copy(whole[lead:], data)
	view = whole[lead : lead+len(data) : len(whole)]
	return
}

func suitePurity(c *Ctx) {
	// the property over programs: the model side evaluates the points-to analysis on the slice-effect
	// IR regenerated from the current source and names the offending statement
	for _, api := range schemeAPIs {
		c.Op("sliceeffects "+api.name, "pure")
	}
	lensFor := func(name string) []int {
		switch name {
		case "bcrypt":
			return []int{0, 1, 8, 70, 71, 72, 73, 74, 100, 253, 254, 255, 256}
		case "des":
			return []int{0, 1, 7, 8}
		case "desext":
			return []int{0, 7, 8, 9, 15, 16, 17, 40}
		case "sunmd5":
			return []int{0, 1, 16, 254, 255}
		case "nthash":
			return []int{0, 2, 16, 254, 256}
		}
		return []int{0, 1, 15, 16, 17, 31, 32, 33, 63, 64, 65, 128}
	}
	var prevResult []byte
	var prevArgs keyArgs
	for _, si := range schemeInfos {
		for _, l := range lensFor(si.name) {
			variants := 2
			if len(si.prefixes) > 0 {
				variants = 2 + len(si.prefixes)
			}
			extra := 0
			if len(si.prefixes) > 0 {
				extra = 3 // option values Key rejects or defaults: they must not be written either
			}
			for v := 0; v < variants+extra; v++ {
				a := c.validArgs(si, l)
				if v >= 2 && v < variants {
					a.optsNil = false
					a.optPrefix = si.prefixes[v-2]
					a.optFlag = v%2 == 0 && si.name == "sunmd5"
					if len(si.versions) > 0 {
						a.optVersion = si.versions[v%len(si.versions)]
					}
				}
				if v >= variants {
					a.optsNil = false
					a.optPrefix = si.prefixes[l%len(si.prefixes)]
					switch v - variants {
					case 0:
						a.optVersion = 0 // zero value of the struct
					case 1:
						a.optPrefix = ""
						if len(si.versions) > 0 {
							a.optVersion = si.versions[0]
						}
					case 2:
						a.optPrefix = "$zz$"
						a.optVersion = 7
					}
				}
				optsMutation = ""
				if si.name == "sha1" && a.rounds == 4294967295 {
					a.rounds = 3
				}
				if si.name == "sunmd5" && !c.Thorough() && v > 2 {
					continue
				}
				in := map[string]string{"suite": "purity", "op": a.op("key")}
				pwView, pwWhole := sentinelSlice(a.pw, 3, 9)
				saltView, saltWhole := sentinelSlice(a.salt, 2, 7)
				pwBefore := append([]byte{}, pwWhole...)
				saltBefore := append([]byte{}, saltWhole...)
				b := a
				b.pw, b.salt = pwView, saltView
				var k1 []byte
				var err1 error
				r := safely(func() string { k1, err1 = callKey(b); return "" })
				if r != "" {
					c.Fail("key-"+r, si.name+".Key did not return normally: "+lastPanic, in)
					continue
				}
				// arguments untouched, including spare capacity
				if !bytes.Equal(pwWhole, pwBefore) {
					i := 0
					for i < len(pwWhole) && pwWhole[i] == pwBefore[i] {
						i++
					}
					in["detail"] = fmt.Sprintf("password buffer byte %d (len %d, slice starts at 3) changed from %#x to %#x", i, len(a.pw), pwBefore[i], pwWhole[i])
					c.Fail("argument-modified", si.name+".Key wrote to the password argument's backing array: "+in["detail"], in)
				}
				if !bytes.Equal(saltWhole, saltBefore) {
					c.Fail("argument-modified", si.name+".Key wrote to the salt argument's backing array", in)
				}
				if optsMutation != "" {
					in["detail"] = optsMutation
					c.Fail("argument-modified", si.name+".Key wrote to the options argument: "+optsMutation, in)
				}
				res := "ok " + hx(k1)
				if err1 != nil {
					res = showKeyErr(err1)
				}
				c.Op(a.op("key"), res)
				c.Count(si.name + ":" + strings.SplitN(res, " ", 2)[0])
				if err1 != nil {
					continue
				}
				// determinism + result not aliased: mutate the first result, derive again, compare with a pristine copy
				k1copy := append([]byte{}, k1...)
				for i := range k1 {
					k1[i] ^= 0xFF
				}
				if cap(k1) > len(k1) {
					full := k1[:cap(k1)]
					for i := len(k1); i < len(full); i++ {
						full[i] ^= 0xFF
					}
				}
				k2, err2 := callKey(b)
				if err2 != nil || !bytes.Equal(k2, k1copy) {
					c.Fail("not-deterministic-or-aliased", si.name+".Key gave a different key on an identical second call after the first result was mutated", in)
				}
				// the previous call's result (another scheme / other arguments) must be unaffected by this call
				if prevResult != nil {
					k3, err3 := callKey(prevArgs)
					if err3 == nil && !bytes.Equal(k3, prevResult) {
						c.Fail("cross-call-interference", "a Key call changed the result of an earlier, different call", in)
					}
				}
				if si.name != "sunmd5" || c.Thorough() {
					prevArgs = a
					prevArgs.pw = append([]byte{}, a.pw...)
					prevArgs.salt = append([]byte{}, a.salt...)
					prevResult = k1copy
				}
				// arguments still untouched after the second call
				if !bytes.Equal(pwWhole, pwBefore) || !bytes.Equal(saltWhole, saltBefore) {
					c.Fail("argument-modified", si.name+".Key wrote to an argument's backing array on the second call", in)
				}
				c.NonTrivial(fmt.Sprintf("%s:%d:%d", si.name, l, v))
			}
		}
	}
}
