package main

import (
	"errors"
	"fmt"

	crypt "github.com/sergeymakinen/go-crypt"
	"github.com/sergeymakinen/go-crypt/argon2"
	"github.com/sergeymakinen/go-crypt/bcrypt"
	"github.com/sergeymakinen/go-crypt/des"
	"github.com/sergeymakinen/go-crypt/desext"
	"github.com/sergeymakinen/go-crypt/md5"
	"github.com/sergeymakinen/go-crypt/nthash"
	"github.com/sergeymakinen/go-crypt/sha1"
	"github.com/sergeymakinen/go-crypt/sha256"
	"github.com/sergeymakinen/go-crypt/sha512"
	"github.com/sergeymakinen/go-crypt/sunmd5"
)

func init() {
	suites["dispatch"] = suiteDispatch
}

type docPrefix struct {
	pkg, name, val string
	check          func(hash, password string) error
}

// documentedPrefixes lists every exported Prefix* constant of the ten scheme packages.
var documentedPrefixes = []docPrefix{
	{"argon2", "Prefix2d", argon2.Prefix2d, argon2.Check},
	{"argon2", "Prefix2i", argon2.Prefix2i, argon2.Check},
	{"argon2", "Prefix2id", argon2.Prefix2id, argon2.Check},
	{"bcrypt", "Prefix2", bcrypt.Prefix2, bcrypt.Check},
	{"bcrypt", "Prefix2a", bcrypt.Prefix2a, bcrypt.Check},
	{"bcrypt", "Prefix2b", bcrypt.Prefix2b, bcrypt.Check},
	{"des", "Prefix", des.Prefix, des.Check},
	{"desext", "Prefix", desext.Prefix, desext.Check},
	{"md5", "Prefix", md5.Prefix, md5.Check},
	{"nthash", "Prefix", nthash.Prefix, nthash.Check},
	{"sha1", "Prefix", sha1.Prefix, sha1.Check},
	{"sha256", "Prefix", sha256.Prefix, sha256.Check},
	{"sha512", "Prefix", sha512.Prefix, sha512.Check},
	{"sunmd5", "PrefixNonZeroRounds", sunmd5.PrefixNonZeroRounds, sunmd5.Check},
	{"sunmd5", "PrefixZeroRounds", sunmd5.PrefixZeroRounds, sunmd5.Check},
}

type callRec struct {
	id, hash, pw string
}

var lastCall *callRec

func stub(id string) func(hash, password string) error {
	e := errors.New("ret:" + id)
	return func(hash, password string) error {
		lastCall = &callRec{id, hash, password}
		return e
	}
}

// goDispatch runs crypt.Check and reports which stub was invoked with which arguments and that
// its result came back unchanged.
func goDispatch(h, pw string) string {
	return safely(func() string {
		lastCall = nil
		err := crypt.Check(h, pw)
		if lastCall == nil {
			if err == crypt.ErrHash {
				return "errhash"
			}
			return fmt.Sprintf("no-call-but %v", err)
		}
		if err == nil || err.Error() != "ret:"+lastCall.id {
			return fmt.Sprintf("result-changed %v", err)
		}
		return fmt.Sprintf("call %s %s %s", lastCall.id, hx([]byte(lastCall.hash)), hx([]byte(lastCall.pw)))
	})
}

// refDispatchPrefix is the statement's prefix rule, written independently (for the direct check).
func refDispatchPrefix(h string) (string, bool) {
	if len(h) > 0 && h[0] == '$' {
		for i := 1; i < len(h); i++ {
			if h[i] == '$' || h[i] == ',' {
				if i == 1 {
					return "", false
				}
				return h[:i+1], true
			}
		}
		return "", false
	}
	if len(h) > 0 && h[0] == '_' {
		return "_", true
	}
	return "", true
}

func suiteDispatch(c *Ctx) {
	// Phase 1: importing a scheme package registers every documented prefix with that package's Check.
	for _, d := range documentedPrefixes {
		probe := d.val + "x"
		if d.val == "" {
			probe = "x"
		}
		r := safely(func() string {
			err := crypt.Check(probe, "pw")
			if err == crypt.ErrHash {
				return "errhash"
			}
			return "registered " + d.pkg + ".Check"
		})
		c.Op("dispatch-builtin "+hx([]byte(probe)), r)
		// and it is that package's Check: same error text as calling it directly
		e1 := crypt.Check(probe, "pw")
		e2 := d.check(probe, "pw")
		if fmt.Sprint(e1) != fmt.Sprint(e2) {
			c.Fail("builtin-handler", fmt.Sprintf("crypt.Check(%q) = %v but %s.Check = %v", probe, e1, d.pkg, e2),
				map[string]string{"suite": "dispatch", "hash": hx([]byte(probe))})
		}
		c.Count("builtin")
	}

	model := map[string]string{} // the map model, for the direct check
	reg := func(p, id string) {
		crypt.RegisterHash(p, stub(id))
		model[p] = id
		c.Op("reg "+hx([]byte(p))+" "+id, "ok")
	}
	direct := func(h, pw, got string) {
		p, ok := refDispatchPrefix(h)
		want := "errhash"
		if ok {
			if id, has := model[p]; has {
				want = fmt.Sprintf("call %s %s %s", id, hx([]byte(h)), hx([]byte(pw)))
			}
		}
		if got != want {
			c.Fail("routing", fmt.Sprintf("crypt.Check gave %q, map model says %q", got, want),
				map[string]string{"suite": "dispatch", "hash": hx([]byte(h)), "password": hx([]byte(pw))})
		}
	}
	// every built-in prefix gets a recording stub (part of the history the model sees)
	for i, d := range documentedPrefixes {
		reg(d.val, fmt.Sprintf("b%d", i))
	}
	// Phase 2: the prefix rule, exhaustively, against a registry holding a few test prefixes
	for i, p := range []string{"$a$", "$a,", "$b$", "$ab$", "$aa,", "$ba$", "$_$", "$a_,"} {
		reg(p, fmt.Sprintf("t%d", i))
	}
	alpha := []byte("$,_ab")
	maxLen := 6
	if c.Thorough() {
		maxLen = 8
	}
	var rec func(prefix []byte)
	rec = func(prefix []byte) {
		s := string(prefix)
		r := goDispatch(s, "pw")
		c.Op("dispatch "+hx(prefix)+" "+hx([]byte("pw")), r)
		direct(s, "pw", r)
		c.NonTrivial(r[:min(len(r), 12)] + fmt.Sprint(len(prefix)))
		if len(prefix) < maxLen {
			for _, a := range alpha {
				rec(append(prefix, a))
			}
		}
	}
	rec(nil)
	c.Extra["exhaustive_alphabet"] = string(alpha)
	c.Extra["exhaustive_max_len"] = maxLen
	for _, d := range documentedPrefixes {
		for _, tail := range []string{"", "x", "$", ",", "x$y"} {
			h := d.val + tail
			r := goDispatch(h, "p\x00w")
			c.Op("dispatch "+hx([]byte(h))+" "+hx([]byte("p\x00w")), r)
			direct(h, "p\x00w", r)
		}
	}
	// Phase 3: registration histories up to length 4 over six prefixes, fresh identifiers per history
	nhist := 0
	var hist func(k int, seq []int)
	probeAll := func(ps []string) {
		for _, p := range ps {
			h := p + "tail"
			r := goDispatch(h, "pw")
			c.Op("dispatch "+hx([]byte(h))+" "+hx([]byte("pw")), r)
			direct(h, "pw", r)
		}
	}
	maxHist := 3
	if c.Thorough() {
		maxHist = 4
	}
	var runHist func(seq []int)
	runHist = func(seq []int) {
		nhist++
		tag := fmt.Sprintf("h%dq", nhist)
		ps := []string{"$" + tag + "x$", "$" + tag + "x,", "$" + tag + "y$", "_", "", "$1$"}
		probeAll(ps)
		for j, pi := range seq {
			reg(ps[pi], fmt.Sprintf("%s.%d", tag, j))
			probeAll(ps)
		}
		c.NonTrivial(fmt.Sprint(seq))
	}
	hist = func(k int, seq []int) {
		if len(seq) > 0 {
			runHist(seq)
		}
		if k == 0 {
			return
		}
		for p := 0; p < 6; p++ {
			hist(k-1, append(append([]int{}, seq...), p))
		}
	}
	hist(maxHist, nil)
	c.Extra["histories"] = nhist
	// random longer strings and histories
	n := 2000
	if c.Thorough() {
		n = 40000
	}
	pool := []string{"$a$", "$r1$", "$r2,", "_", "", "$2b$", "$argon2id$", "$md5,", "$longer-prefix$"}
	for i := 0; i < n; i++ {
		if c.Rng.Intn(10) == 0 {
			reg(pool[c.Rng.Intn(len(pool))], fmt.Sprintf("r%d", i))
		}
		l := c.Rng.Intn(24)
		b := make([]byte, l)
		for j := range b {
			switch c.Rng.Intn(5) {
			case 0:
				b[j] = '$'
			case 1:
				b[j] = ','
			case 2:
				b[j] = '_'
			default:
				b[j] = byte(c.Rng.Intn(256))
			}
		}
		h := string(b)
		if c.Rng.Intn(2) == 0 {
			h = pool[c.Rng.Intn(len(pool))] + h
		}
		pw := make([]byte, c.Rng.Intn(6))
		c.Rng.Read(pw)
		r := goDispatch(h, string(pw))
		c.Op("dispatch "+hx([]byte(h))+" "+hx(pw), r)
		direct(h, string(pw), r)
		c.Count("random")
	}
}

func min(a, b int) int {
	if a < b {
		return a
	}
	return b
}
