package main

import (
	"errors"
	"fmt"
	"reflect"
	"regexp"
	"strconv"
	"strings"

	"github.com/sergeymakinen/go-crypt/des/descrypt"
	crypthash "github.com/sergeymakinen/go-crypt/hash"
	"github.com/sergeymakinen/go-crypt/hash/parse"
)

func init() {
	suites["codec"] = suiteCodec
}

// ---- static field types with text codecs (mirrors of the ones the scheme packages use) ----

type wlPrefix string

func (h *wlPrefix) UnmarshalText(text []byte) error {
	switch s := wlPrefix(text); s {
	case "$t$", "$t,", "_":
		*h = s
		return nil
	default:
		return errors.New("unsupported prefix " + strconv.Quote(string(s)))
	}
}

type desRounds uint32

func (r desRounds) MarshalText() ([]byte, error) { return descrypt.EncodeInt(uint32(r)), nil }
func (r *desRounds) UnmarshalText(text []byte) error {
	*r = desRounds(descrypt.DecodeInt(text))
	return nil
}

type twoCost uint8

func (h twoCost) MarshalText() ([]byte, error) {
	b := make([]byte, 0, 2)
	if h < 10 {
		b = strconv.AppendUint(append(b, '0'), uint64(h), 10)
	} else {
		b = strconv.AppendUint(b, uint64(h), 10)
	}
	return b, nil
}

var (
	tWlPrefix  = reflect.TypeOf(wlPrefix(""))
	tDesRounds = reflect.TypeOf(desRounds(0))
	tTwoCost   = reflect.TypeOf(twoCost(0))
)

// ---- describing a reflect.Type to the model ----

func kindCode(t reflect.Type, structs map[string]reflect.Type) string {
	switch t.Kind() {
	case reflect.String:
		return "s"
	case reflect.Slice:
		if t.Elem().Kind() == reflect.Uint8 {
			return "b"
		}
	case reflect.Array:
		if t.Elem().Kind() == reflect.Uint8 {
			return fmt.Sprintf("a%d", t.Len())
		}
	case reflect.Int, reflect.Int8, reflect.Int16, reflect.Int32, reflect.Int64:
		return fmt.Sprintf("i%d", t.Bits())
	case reflect.Uint, reflect.Uint8, reflect.Uint16, reflect.Uint32, reflect.Uint64:
		return fmt.Sprintf("u%d", t.Bits())
	case reflect.Struct:
		n := structName(t)
		structs[n] = t
		return "S" + n
	}
	return "o"
}

var anonCounter int
var anonNames = map[reflect.Type]string{}

func structName(t reflect.Type) string {
	if t.Name() != "" {
		return t.Name()
	}
	if n, ok := anonNames[t]; ok {
		return n
	}
	anonCounter++
	n := fmt.Sprintf("anon%d", anonCounter)
	anonNames[t] = n
	return n
}

func codecCodes(base reflect.Type) (m, u string) {
	m, u = "-", "-"
	switch base {
	case tWlPrefix:
		return "-", "w" + hx([]byte("$t$")) + "/" + hx([]byte("$t,")) + "/" + hx([]byte("_"))
	case tDesRounds:
		return "d", "d"
	case tTwoCost:
		return "t", "-"
	}
	return
}

func describeStruct(t reflect.Type, structs map[string]reflect.Type) string {
	var fs []string
	for i := 0; i < t.NumField(); i++ {
		sf := t.Field(i)
		ft := sf.Type
		depth := 0
		for ft.Kind() == reflect.Ptr {
			ft = ft.Elem()
			depth++
		}
		b := func(v bool) string {
			if v {
				return "1"
			}
			return "0"
		}
		m, u := codecCodes(ft)
		fs = append(fs, fmt.Sprintf("%s|%s|%s|%d|%s|%s|%s|%s", sf.Name, b(sf.PkgPath == ""), b(sf.Anonymous), depth,
			kindCode(ft, structs), hx([]byte(sf.Tag.Get("hash"))), m, u))
	}
	return structName(t) + "{" + strings.Join(fs, ";") + "}"
}

// describeType returns "<root> <structdef>..." for a struct type (closing over struct-typed fields).
func describeType(t reflect.Type) string {
	structs := map[string]reflect.Type{}
	root := structName(t)
	defs := []string{describeStruct(t, structs)}
	done := map[string]bool{root: true}
	for changed := true; changed; {
		changed = false
		for n, st := range structs {
			if !done[n] {
				done[n] = true
				changed = true
				defs = append(defs, describeStruct(st, structs))
			}
		}
	}
	return root + " " + strings.Join(defs, " ")
}

// ---- canonical results ----

func msgClass(msg string) string {
	switch msg {
	case "prefix not found":
		return "nopfx"
	case "unexpected EOF":
		return "eof"
	case "excessive fragment":
		return "excess"
	case "excessive prefix":
		return "xpfx"
	case "value not found":
		return "nf:value"
	case "param not found":
		return "nf:param"
	case "grouped param not found":
		return "nf:grouped-param"
	case "length mismatch":
		return "len"
	case "unsupported type":
		return "utype"
	}
	if strings.HasPrefix(msg, "invalid character ") {
		q := strings.TrimPrefix(msg, "invalid character ")
		if len(q) >= 2 {
			r, _, _, err := strconv.UnquoteChar(q[1:len(q)-1], '\'')
			if err == nil {
				return fmt.Sprintf("char:%d", r)
			}
		}
		return "char:?"
	}
	if strings.Contains(msg, "invalid syntax") && strings.HasPrefix(msg, "strconv.") {
		return "numsyn"
	}
	if strings.Contains(msg, "value out of range") && strings.HasPrefix(msg, "strconv.") {
		return "numrange"
	}
	if strings.HasPrefix(msg, "unsupported prefix ") {
		return "text:unsupported-prefix"
	}
	return "text:" + strings.ReplaceAll(msg, " ", "-")
}

func showCodecErr(err error) string {
	switch e := err.(type) {
	case *parse.SyntaxError:
		return fmt.Sprintf("err syntax %d %d", e.Offset, syntaxMsgID(e.Msg))
	case *crypthash.UnmarshalTypeError:
		f := e.Field
		if f == "" {
			f = "-"
		}
		return fmt.Sprintf("err ute %s %d %s %s", strings.ReplaceAll(e.Value, " ", "-"), e.Offset, f, msgClass(e.Msg))
	case *crypthash.UnsupportedTypeError:
		if e.Struct == "" {
			return "err top"
		}
		return "err utype " + e.Field
	case *crypthash.UnsupportedValueError:
		return "err uval " + e.Field + " " + msgClass(e.Str)
	case *crypthash.TagParamError:
		return "err tag conflict " + e.Field1 + " " + e.Field2
	case *crypthash.InvalidUnmarshalError:
		return "err invalid"
	}
	if strings.HasPrefix(err.Error(), "invalid tag in field ") {
		rest := strings.TrimPrefix(err.Error(), "invalid tag in field ")
		// "<Struct>.<Field>: "<tag>""
		if i := strings.Index(rest, ": "); i >= 0 {
			rest = rest[:i]
		}
		if j := strings.LastIndex(rest, "."); j >= 0 {
			rest = rest[j+1:]
		}
		return "err tag invalid " + rest
	}
	return "err other " + strings.ReplaceAll(err.Error(), " ", "-")
}

// leaf fields in typeinfo order are addressed by index path; values are read from a reflect.Value.
type leaf struct {
	index []int
	t     reflect.Type // declared type (may be pointer)
}

func leaves(t reflect.Type, prefix []int, out *[]leaf) {
	for i := 0; i < t.NumField(); i++ {
		sf := t.Field(i)
		if (sf.PkgPath != "" && !sf.Anonymous) || sf.Tag.Get("hash") == "-" {
			continue
		}
		idx := append(append([]int{}, prefix...), i)
		if sf.Anonymous {
			st := sf.Type
			for st.Kind() == reflect.Ptr {
				st = st.Elem()
			}
			if st.Kind() == reflect.Struct {
				leaves(st, idx, out)
				continue
			}
		}
		*out = append(*out, leaf{idx, sf.Type})
	}
}

func idxStr(idx []int) string {
	s := make([]string, len(idx))
	for i, v := range idx {
		s[i] = fmt.Sprint(v)
	}
	return strings.Join(s, ".")
}

func showLeafValue(v reflect.Value) string {
	for v.Kind() == reflect.Ptr {
		if v.IsNil() {
			return "n"
		}
		v = v.Elem()
	}
	switch v.Kind() {
	case reflect.String:
		return "s:" + hx([]byte(v.String()))
	case reflect.Slice:
		return "b:" + hx(v.Bytes())
	case reflect.Array:
		b := make([]byte, v.Len())
		reflect.Copy(reflect.ValueOf(b), v)
		return "b:" + hx(b)
	case reflect.Int, reflect.Int8, reflect.Int16, reflect.Int32, reflect.Int64:
		return fmt.Sprintf("i:%d", v.Int())
	case reflect.Uint, reflect.Uint8, reflect.Uint16, reflect.Uint32, reflect.Uint64:
		return fmt.Sprintf("u:%d", v.Uint())
	}
	return "o"
}

// fieldByIndexAlloc walks an index path allocating nil embedded pointers.
func fieldByIndexSafe(v reflect.Value, idx []int) (reflect.Value, bool) {
	for i, x := range idx {
		if i > 0 {
			for v.Kind() == reflect.Ptr {
				if v.IsNil() {
					return reflect.Value{}, false
				}
				v = v.Elem()
			}
		}
		v = v.Field(x)
	}
	return v, true
}

// ---- the generated type family ----

type genField struct {
	name string
	typ  reflect.Type
	tag  string
}

var scalarTypes = []reflect.Type{
	reflect.TypeOf(""), reflect.TypeOf([]byte(nil)), reflect.TypeOf(uint8(0)), reflect.TypeOf(uint16(0)), reflect.TypeOf(uint32(0)),
	reflect.TypeOf(uint64(0)), reflect.TypeOf(int8(0)), reflect.TypeOf(int16(0)), reflect.TypeOf(int32(0)), reflect.TypeOf(int64(0)),
	reflect.TypeOf(int(0)), reflect.TypeOf(uint(0)),
}

// genLayoutType composes a type from the building blocks the shipped layouts use (optional/required
// parameter, a parameter group, a run of fixed-width inline fields glued to a required field, required
// positional fields, a trailing optional field), so that well-formed combinations of the tag options
// are frequent rather than accidental.
func (c *Ctx) genLayoutType() reflect.Type {
	var fs []reflect.StructField
	k := 0
	add := func(t reflect.Type, opts ...string) {
		c.Rng.Shuffle(len(opts), func(i, j int) { opts[i], opts[j] = opts[j], opts[i] })
		fs = append(fs, reflect.StructField{Name: fmt.Sprintf("F%d", k), Type: t, Tag: reflect.StructTag(`hash:"` + strings.Join(opts, ",") + `"`)})
		k++
	}
	uints := []reflect.Type{reflect.TypeOf(uint8(0)), reflect.TypeOf(uint16(0)), reflect.TypeOf(uint32(0)), reflect.TypeOf(uint64(0)), reflect.TypeOf(int32(0))}
	texts := []reflect.Type{reflect.TypeOf(""), reflect.TypeOf([]byte(nil))}
	omit := func(p int, opts []string) []string {
		if c.Rng.Intn(p) == 0 {
			return append(opts, "omitempty")
		}
		return opts
	}
	pt := reflect.TypeOf("")
	if c.Rng.Intn(3) == 0 {
		pt = tWlPrefix
	}
	fs = append(fs, reflect.StructField{Name: "HashPrefix", Type: pt})
	names := []string{"v", "m", "t", "p", "r", "x"}
	c.Rng.Shuffle(len(names), func(i, j int) { names[i], names[j] = names[j], names[i] })
	if c.Rng.Intn(2) == 0 {
		add(uints[c.Rng.Intn(len(uints))], omit(2, []string{"param:" + names[0]})...)
	}
	if c.Rng.Intn(3) == 0 {
		for g := 0; g < 2+c.Rng.Intn(2); g++ {
			add(uints[c.Rng.Intn(len(uints))], omit(6, []string{"param:" + names[1+g], "group"})...)
		}
	}
	if c.Rng.Intn(3) == 0 {
		add(texts[c.Rng.Intn(2)], omit(2, []string{"param:" + names[5]})...)
	}
	if c.Rng.Intn(2) == 0 {
		for g := 0; g < 1+c.Rng.Intn(2); g++ {
			if c.Rng.Intn(3) == 0 {
				add(tDesRounds, "length:4", "inline")
			} else {
				add(texts[c.Rng.Intn(2)], fmt.Sprintf("length:%d", 1+c.Rng.Intn(4)), "inline")
			}
		}
		if c.Rng.Intn(2) == 0 {
			add(texts[c.Rng.Intn(2)], fmt.Sprintf("length:%d", 1+c.Rng.Intn(4)))
		} else {
			add(texts[c.Rng.Intn(2)])
		}
	}
	for g := 0; g < c.Rng.Intn(3); g++ {
		if c.Rng.Intn(3) == 0 {
			add(reflect.ArrayOf(1+c.Rng.Intn(5), reflect.TypeOf(byte(0))))
		} else {
			add(texts[c.Rng.Intn(2)])
		}
	}
	if c.Rng.Intn(3) == 0 {
		add(texts[c.Rng.Intn(2)], "omitempty")
	}
	if k == 0 {
		add(texts[0])
	}
	return reflect.StructOf(fs)
}

func (c *Ctx) genType(withPrefix bool) reflect.Type {
	if withPrefix && c.Rng.Intn(3) == 0 {
		return c.genLayoutType()
	}
	n := 1 + c.Rng.Intn(5)
	if c.Rng.Intn(8) == 0 {
		n = 1 + c.Rng.Intn(8)
	}
	var fs []reflect.StructField
	if withPrefix {
		pt := reflect.TypeOf("")
		tag := ""
		switch c.Rng.Intn(4) {
		case 0:
			pt = tWlPrefix
		case 1:
			tag = "omitempty"
		}
		fs = append(fs, reflect.StructField{Name: "HashPrefix", Type: pt, Tag: reflect.StructTag(`hash:"` + tag + `"`)})
	}
	params := []string{"a", "b", "ab", "r", "m", "t", "p", "v", "x"}
	c.Rng.Shuffle(len(params), func(i, j int) { params[i], params[j] = params[j], params[i] })
	inGroup := false
	for i := 0; i < n; i++ {
		var t reflect.Type
		desR := false
		custom := false // field type with its own text codec: no enc:/base: options (the codec ignores them on one side)
		switch r := c.Rng.Intn(20); {
		case r < 12:
			t = scalarTypes[c.Rng.Intn(len(scalarTypes))]
		case r < 15:
			t = reflect.ArrayOf(c.Rng.Intn(7), reflect.TypeOf(byte(0)))
		case r < 16:
			t = tDesRounds
			desR = true
			custom = true
		case r < 17:
			t = tTwoCost
			custom = true
		case r < 18:
			t = reflect.PtrTo(reflect.TypeOf(""))
		case r < 19:
			t = reflect.PtrTo(reflect.TypeOf(uint32(0)))
		default:
			t = reflect.PtrTo(reflect.TypeOf([]byte(nil)))
		}
		var opts []string
		if desR {
			// as in desext: the 4-symbol integer is always declared with its length
			opts = append(opts, "length:4")
		}
		// groups come as runs of grouped params
		if inGroup && c.Rng.Intn(3) > 0 {
			opts = append(opts, "param:"+params[i%len(params)], "group")
		} else {
			inGroup = false
			switch c.Rng.Intn(10) {
			case 0, 1:
				opts = append(opts, "param:"+params[i%len(params)])
			case 2:
				opts = append(opts, "param:"+params[i%len(params)], "group")
				inGroup = true
			case 3:
				if c.Rng.Intn(6) == 0 {
					opts = append(opts, "group") // invalid: group without param
				}
			}
		}
		if c.Rng.Intn(4) == 0 {
			opts = append(opts, "omitempty")
		}
		if c.Rng.Intn(5) == 0 && !desR {
			opts = append(opts, fmt.Sprintf("length:%d", c.Rng.Intn(6)))
			if c.Rng.Intn(2) == 0 {
				opts = append(opts, "inline")
			}
		} else if c.Rng.Intn(25) == 0 {
			opts = append(opts, "inline") // invalid unless array
		}
		switch c.Rng.Intn(12) {
		case 0:
			if !custom {
				opts = append(opts, "enc:base64")
			}
		case 1:
			if !custom {
				opts = append(opts, "enc:none")
			}
		}
		if k := t.Kind(); (k >= reflect.Int && k <= reflect.Uint64) && c.Rng.Intn(3) == 0 && !custom {
			opts = append(opts, fmt.Sprintf("base:%d", []int{2, 8, 16, 36, 10, 1, 37, 7}[c.Rng.Intn(8)]))
		}
		c.Rng.Shuffle(len(opts), func(i, j int) { opts[i], opts[j] = opts[j], opts[i] })
		name := fmt.Sprintf("F%d", i)
		fs = append(fs, reflect.StructField{Name: name, Type: t, Tag: reflect.StructTag(`hash:"` + strings.Join(opts, ",") + `"`)})
	}
	return reflect.StructOf(fs)
}

func (c *Ctx) genText(alpha string, n int) []byte {
	b := make([]byte, n)
	for i := range b {
		b[i] = alpha[c.Rng.Intn(len(alpha))]
	}
	return b
}

// fillValue sets a random value; mostly valid for the field's alphabet/length, sometimes not.
func (c *Ctx) fillValue(v reflect.Value, tag string) {
	t := v.Type()
	if t.Kind() == reflect.Ptr {
		if c.Rng.Intn(3) == 0 {
			return // nil
		}
		v.Set(reflect.New(t.Elem()))
		c.fillValue(v.Elem(), tag)
		return
	}
	alpha := cryptAlpha
	if strings.Contains(tag, "enc:base64") {
		alpha = stdAlpha
	}
	if c.Rng.Intn(15) == 0 || strings.Contains(tag, "enc:none") && c.Rng.Intn(3) == 0 {
		alpha = cryptAlpha + "$,=_@\x00\xff+"
	}
	n := c.Rng.Intn(7)
	if c.Rng.Intn(10) == 0 {
		n = c.Rng.Intn(41)
	}
	if i := strings.Index(tag, "length:"); i >= 0 && c.Rng.Intn(5) > 0 {
		fmt.Sscanf(tag[i+7:], "%d", &n)
	}
	switch t.Kind() {
	case reflect.String:
		if t == tWlPrefix {
			v.SetString([]string{"$t$", "$t,", "_", "$u$", ""}[c.Rng.Intn(5)])
			return
		}
		if v.Type().Name() == "" && false {
		}
		v.SetString(string(c.genText(alpha, n)))
	case reflect.Slice:
		if c.Rng.Intn(6) == 0 {
			return
		}
		v.SetBytes(c.genText(alpha, n))
	case reflect.Array:
		b := c.genText(alpha, t.Len())
		reflect.Copy(v, reflect.ValueOf(b))
	case reflect.Int, reflect.Int8, reflect.Int16, reflect.Int32, reflect.Int64:
		bits := uint(t.Bits())
		switch c.Rng.Intn(6) {
		case 0:
			v.SetInt(0)
		case 1:
			v.SetInt(-1 << (bits - 1))
		case 2:
			v.SetInt(1<<(bits-1) - 1)
		case 3:
			v.SetInt(int64(c.Rng.Intn(100)) - 50)
		default:
			v.SetInt(int64(c.Rng.Uint64()) >> (64 - bits))
		}
	case reflect.Uint, reflect.Uint8, reflect.Uint16, reflect.Uint32, reflect.Uint64:
		bits := uint(t.Bits())
		switch c.Rng.Intn(5) {
		case 0:
			v.SetUint(0)
		case 1:
			v.SetUint(^uint64(0) >> (64 - bits))
		case 2:
			v.SetUint(uint64(c.Rng.Intn(100)))
		default:
			v.SetUint(c.Rng.Uint64() >> (64 - bits))
		}
	}
}

func prefixFieldValue(c *Ctx) string {
	return []string{"$t$", "$t,", "_", "$x1$", "", "$y,"}[c.Rng.Intn(6)]
}

func (c *Ctx) showStruct(v reflect.Value, ls []leaf) string {
	if len(ls) == 0 {
		return "."
	}
	var parts []string
	for _, l := range ls {
		fv, ok := fieldByIndexSafe(v, l.index)
		if !ok {
			parts = append(parts, idxStr(l.index)+"=n")
			continue
		}
		parts = append(parts, idxStr(l.index)+"="+showLeafValue(fv))
	}
	return strings.Join(parts, " ")
}

// tiLeaves orders the leaves as finalVals does: HashPrefix first, then ti.Fields order. The harness
// gets that order from DescribeTypeInfo.
func tiOrder(desc string, ls []leaf) []leaf {
	// desc: "ok N <prefix|~> f1 f2 ..." with each "Name@idx:..."
	parts := strings.Fields(desc)
	if len(parts) < 4 || parts[0] != "ok" {
		return nil
	}
	byIdx := map[string]leaf{}
	for _, l := range ls {
		byIdx[idxStr(l.index)] = l
	}
	var out []leaf
	for _, p := range parts[2:] {
		if p == "~" || p == "." {
			continue
		}
		at := strings.Index(p, "@")
		col := strings.Index(p[at:], ":")
		if at < 0 || col < 0 {
			continue
		}
		if l, ok := byIdx[p[at+1:at+col]]; ok {
			out = append(out, l)
		}
	}
	return out
}

func goMarshal(v interface{}) (string, string) {
	var s string
	r := safely(func() string {
		var err error
		s, err = crypthash.Marshal(v)
		if err != nil {
			return showCodecErr(err)
		}
		return "ok " + hx([]byte(s))
	})
	return r, s
}

var codecMemberRe = regexp.MustCompile(`[a-z]+=[0-9A-Za-z./]*`)
var codecNumRe = regexp.MustCompile(`[0-9]+`)

// mutations of a canonical string under the class-representative alphabet
var editAlphabet = []byte("$,=_09aZ./+@\x00\xff")

func (c *Ctx) codecOneType(id string, t reflect.Type, nvals int, exhaustiveEdits bool) {
	desc := safely(func() string {
		d, err := crypthash.DescribeTypeInfo(t)
		if err != nil {
			return showCodecErr(err)
		}
		return d
	})
	c.Op("shape "+id+" "+describeType(t), desc)
	c.Count("shape:" + strings.Fields(desc)[0])
	var ls []leaf
	leaves(t, nil, &ls)
	ordered := tiOrder(desc, ls)
	for k := 0; k < nvals; k++ {
		pv := reflect.New(t)
		v := pv.Elem()
		for _, l := range ordered {
			fv, ok := fieldByIndexSafe(v, l.index)
			if !ok {
				continue
			}
			sf := t.FieldByIndex(l.index)
			if sf.Name == "HashPrefix" && fv.Kind() == reflect.String && fv.Type() != tWlPrefix {
				fv.SetString(prefixFieldValue(c))
				continue
			}
			c.fillValue(fv, sf.Tag.Get("hash"))
		}
		valStr := c.showStruct(v, ls)
		var mres, s string
		switch k % 3 {
		case 0:
			mres, s = goMarshal(v.Interface())
		case 1:
			mres, s = goMarshal(pv.Interface())
		default:
			ppv := reflect.New(pv.Type())
			ppv.Elem().Set(pv)
			mres, s = goMarshal(ppv.Interface())
		}
		c.Op("marshal "+id+" "+valStr, mres)
		c.Count("marshal:" + strings.SplitN(mres, " ", 3)[0] + ":" + strings.SplitN(mres+" - -", " ", 3)[1][:min(5, len(strings.SplitN(mres+" - -", " ", 3)[1]))])
		if !strings.HasPrefix(mres, "ok ") {
			continue
		}
		c.NonTrivial(id + ":" + s)
		// unmarshal of the canonical string, and the round trip (C10)
		c.unmarshalOp(id, t, ordered, s, valStr, ls)
		// edits (C20): every string at edit distance 1 (exhaustive for small strings, sampled otherwise)
		var muts []string
		if exhaustiveEdits && len(s) <= 24 {
			for pos := 0; pos <= len(s); pos++ {
				for _, a := range editAlphabet {
					muts = append(muts, s[:pos]+string(a)+s[pos:])
					if pos < len(s) && s[pos] != a {
						muts = append(muts, s[:pos]+string(a)+s[pos+1:])
					}
				}
				if pos < len(s) {
					muts = append(muts, s[:pos]+s[pos+1:], s[:pos])
				}
			}
		} else {
			for j := 0; j < 12; j++ {
				pos := c.Rng.Intn(len(s) + 1)
				a := editAlphabet[c.Rng.Intn(len(editAlphabet))]
				switch c.Rng.Intn(4) {
				case 0:
					muts = append(muts, s[:pos]+string(a)+s[pos:])
				case 1:
					if pos < len(s) {
						muts = append(muts, s[:pos]+string(a)+s[pos+1:])
					}
				case 2:
					if pos < len(s) {
						muts = append(muts, s[:pos]+s[pos+1:])
					}
				case 3:
					muts = append(muts, s[:pos])
				}
			}
		}
		// structural splices
		frs := strings.Split(s, "$")
		if len(frs) > 1 {
			i, j := c.Rng.Intn(len(frs)), c.Rng.Intn(len(frs))
			sw := append([]string{}, frs...)
			sw[i], sw[j] = sw[j], sw[i]
			muts = append(muts, strings.Join(sw, "$"))
			dup := append(append([]string{}, frs[:i+1]...), frs[i:]...)
			muts = append(muts, strings.Join(dup, "$"))
		}
		muts = append(muts, s+"$junk", s+"$a=1,b=2", s+"$", s+",", s+"$$", "$t$"+s, "_"+s, strings.Replace(s, "=", "", 1),
			strings.Replace(s, ",", "$", 1), strings.Replace(s, "$", ",", 1), strings.TrimPrefix(s, "$t$"), s+"$junk,", s+"$,")
		if i := strings.Index(s, "="); i > 0 {
			muts = append(muts, s[:i]+"x"+s[i:], s[:i-1]+s[i:], s[:i+1]+"0"+s[i+1:], s[:i+1]+"00"+s[i+1:])
		}
		// a parameter duplicated inside its group / as a fragment, with the same and with another value
		for _, loc := range codecMemberRe.FindAllStringIndex(s, -1) {
			m := s[loc[0]:loc[1]]
			eq := strings.Index(m, "=")
			for _, sep := range []string{",", "$"} {
				muts = append(muts, s[:loc[1]]+sep+m+s[loc[1]:], s[:loc[0]]+m[:eq+1]+"7"+sep+s[loc[0]:], s[:loc[1]]+sep+m[:eq+1]+"7"+s[loc[1]:])
			}
		}
		// integers that wrap around the field width or exceed 64 bits
		for _, loc := range codecNumRe.FindAllStringIndex(s, -1) {
			num := s[loc[0]:loc[1]]
			var v uint64
			fmt.Sscan(num, &v)
			for _, alt := range []string{fmt.Sprint(v + 256), fmt.Sprint(v + 65536), fmt.Sprint(v + 1<<32), "18446744073709551616", "340282366920938463463374607431768211456", "-" + num, "+" + num} {
				muts = append(muts, s[:loc[0]]+alt+s[loc[1]:])
			}
		}
		seen := map[string]bool{s: true}
		for _, m := range muts {
			if seen[m] {
				continue
			}
			seen[m] = true
			c.unmarshalOp(id, t, ordered, m, "", ls)
		}
	}
}

// unmarshalOp unmarshals s into a fresh value, records the op, and — when accepted — re-marshals the
// result and asks the model for the respelling verdict (C20) and records the round trip (C10).
func (c *Ctx) unmarshalOp(id string, t reflect.Type, ordered []leaf, s string, origVals string, ls []leaf) {
	pv := reflect.New(t)
	res := safely(func() string {
		if err := crypthash.Unmarshal(s, pv.Interface()); err != nil {
			return showCodecErr(err)
		}
		return "ok " + c.showStruct(pv.Elem(), ordered)
	})
	c.Op("unmarshal "+id+" "+hx([]byte(s)), res)
	c.Count("unmarshal:" + strings.SplitN(res, " ", 2)[0])
	if !strings.HasPrefix(res, "ok") {
		if origVals != "" {
			// Marshal accepted the value but Unmarshal rejects its output: round trip broken unless outside the hypothesis
			c.Op("roundtrip "+id+" "+origVals, "rt-reject")
		}
		return
	}
	got := c.showStruct(pv.Elem(), ls)
	if origVals != "" {
		if normVals(got) == normVals(origVals) {
			c.Op("roundtrip "+id+" "+origVals, "rt-ok")
		} else {
			c.Op("roundtrip "+id+" "+origVals, "rt-diff")
		}
	}
	// re-marshal what was accepted; the model decides whether s is a tolerated respelling of it (C20)
	re, rs := goMarshal(pv.Elem().Interface())
	if strings.HasPrefix(re, "ok ") {
		// the model decides whether s is a tolerated respelling of Marshal(value); the property says yes
		c.Op("respell "+id+" "+hx([]byte(s))+" "+c.showStruct(pv.Elem(), ordered), "yes")
		// remarshal stability (second half of C10)
		pv2 := reflect.New(t)
		if err := crypthash.Unmarshal(rs, pv2.Interface()); err != nil {
			c.Op("restable "+id+" "+hx([]byte(s)), "reject")
		} else if normVals(c.showStruct(pv2.Elem(), ls)) != normVals(got) {
			c.Op("restable "+id+" "+hx([]byte(s)), "diff")
		} else {
			c.Op("restable "+id+" "+hx([]byte(s)), "stable")
		}
	} else {
		c.Op("restable "+id+" "+hx([]byte(s)), "remarshal-failed")
	}
}

// normVals: byte slices compare by content (nil ≡ empty), which showLeafValue already gives.
func normVals(s string) string { return s }

// hand-written shapes: embedding, shadowing, pointers to embedded structs, mirrors of shipped layouts
type innerA struct {
	Salt []byte `hash:"omitempty"`
	R    uint32 `hash:"param:rounds"`
}
type outerEmbed struct {
	HashPrefix wlPrefix
	innerA
	Sum [4]byte
}
type shadowInner struct {
	V uint8 `hash:"param:v"`
	W uint8 `hash:"param:w"`
}
type shadowOuter struct {
	shadowInner
	V uint16 `hash:"param:v"`
	X string
}

// a shadowed parameter next to optional fields: the required-fragment count must count the shadowed name once
type shadowOptOuter struct {
	shadowInner
	V uint16 `hash:"param:v"`
	R uint32 `hash:"param:r,omitempty"`
	X string
}
type mirrorMD5 struct {
	HashPrefix wlPrefix
	Salt       []byte
	Sum        []byte `hash:"length:22"`
}
type mirrorSHA struct {
	HashPrefix wlPrefix
	Rounds     uint32 `hash:"param:rounds,omitempty"`
	Salt       []byte
	Sum        [43]byte
}
type mirrorSunSalt struct {
	HashPrefix wlPrefix
	Rounds     uint32  `hash:"param:rounds"`
	Salt       []byte  `hash:"omitempty"`
	Separator  *string `hash:"length:0,omitempty"`
}
type mirrorSun struct {
	mirrorSunSalt
	Sum [22]byte
}
type mirrorNT struct {
	HashPrefix wlPrefix
	Empty      [0]byte
	Sum        [32]byte
}
type mirrorBcrypt struct {
	HashPrefix wlPrefix
	Cost       twoCost `hash:"length:2"`
	Salt       []byte  `hash:"length:22,inline"`
	Sum        [31]byte
}
type mirrorArgon2 struct {
	HashPrefix wlPrefix
	Version    uint8  `hash:"param:v,omitempty"`
	Memory     uint32 `hash:"param:m,group"`
	Time       uint32 `hash:"param:t,group"`
	Threads    uint8  `hash:"param:p,group"`
	Salt       []byte `hash:"enc:base64"`
	Sum        []byte `hash:"enc:base64"`
}
type mirrorDES struct {
	HashPrefix wlPrefix `hash:"omitempty"`
	Salt       []byte   `hash:"length:2,inline"`
	Sum        [11]byte
}
type mirrorDESExt struct {
	HashPrefix wlPrefix
	Rounds     desRounds `hash:"length:4,inline"`
	Salt       []byte    `hash:"length:4,inline"`
	Sum        [11]byte
}
type mirrorSHA1 struct {
	HashPrefix wlPrefix
	Rounds     uint32
	Salt       []byte
	Sum        [28]byte
}
type noPrefixS struct {
	S string
}
type paramA struct {
	A string `hash:"param:a"`
}
type twoStrings struct {
	A, B string
}
type dupParam struct {
	A uint8 `hash:"param:a"`
	B uint8 `hash:"param:a"`
}
type privateAndDash struct {
	A string
	b string
	C string `hash:"-"`
	D uint8
}

var handShapes = []interface{}{outerEmbed{}, shadowOuter{}, mirrorMD5{}, mirrorSHA{}, mirrorSun{}, mirrorNT{}, mirrorBcrypt{},
	mirrorArgon2{}, mirrorDES{}, mirrorDESExt{}, mirrorSHA1{}, noPrefixS{}, paramA{}, twoStrings{}, dupParam{}, privateAndDash{}, shadowOptOuter{}}

func suiteCodec(c *Ctx) {
	if h, ok := c.Replay["type"]; ok {
		_ = h
	}
	nTypes, nVals := 120, 6
	if c.Thorough() {
		nTypes, nVals = 2500, 20
	}
	for i, hs := range handShapes {
		c.codecOneType(fmt.Sprintf("h%d", i), reflect.TypeOf(hs), nVals*2, true)
	}
	for i := 0; i < nTypes; i++ {
		t := c.genType(c.Rng.Intn(3) > 0)
		c.codecOneType(fmt.Sprintf("g%d", i), t, nVals, i%4 == 0)
	}
	// all short strings over the delimiter-rich alphabet for a few small types
	small := []interface{}{noPrefixS{}, paramA{}, twoStrings{}, mirrorNT{}, mirrorDES{}}
	maxLen := 4
	if c.Thorough() {
		maxLen = 5
	}
	alpha := []byte("$,=a0_")
	for i, hs := range small {
		t := reflect.TypeOf(hs)
		id := fmt.Sprintf("s%d", i)
		desc, _ := crypthash.DescribeTypeInfo(t)
		c.Op("shape "+id+" "+describeType(t), desc)
		var ls []leaf
		leaves(t, nil, &ls)
		ordered := tiOrder(desc, ls)
		var rec func(p []byte)
		rec = func(p []byte) {
			c.unmarshalOp(id, t, ordered, string(p), "", ls)
			if len(p) < maxLen {
				for _, a := range alpha {
					rec(append(p, a))
				}
			}
		}
		rec(nil)
	}
}
