#!/bin/bash
# seed_run_alt.sh <patch.diff> <property-id>...  — like seed_run.sh, but leaves /repo alone: the change is applied
# in a scratch worktree and the checks run against it through VERIF_REPO (used while something else needs /repo).
p=$1; shift
cd /verif
wt=/tmp/seed_alt_$$
git -C /repo worktree add -q --detach $wt HEAD || exit 2
trap 'git -C /repo worktree remove --force '$wt' >/dev/null 2>&1' EXIT
(cd $wt && git apply $p) || { echo APPLY-FAILED; exit 2; }
for id in "$@"; do VERIF_REPO=$wt ./check $id 2>&1 | grep -E "^(OK|VIOLATION|KNOWN|  failing|  broken)" | cut -c1-400 | head -12; done
