#!/usr/bin/env python3
"""Writes /verif/seeded/<id>/meta.json from the table below (what each seeded change is, what it needs
to manifest, what was run to confirm it, and which checks report it).  Results are the outcomes of
`lib/seed_run.sh <patch> <ids…>` (quick tier) recorded by hand after each run."""
import json, os
ROOT = os.path.dirname(os.path.dirname(os.path.abspath(__file__)))
CONFIRM = ("lib/seed_confirm.sh: scratch worktree of /repo at HEAD, `git apply patch.diff`, `go build ./... && go vet ./...`, "
           "the pinned test command (401 tests) passes, demo_test.go copied into its package FAILS with the patch and PASSES without it; worktree removed")
T = {
 "C01-m1": ("C01", "bcrypt.Key with nil options skips the $2b$ truncation branch: NewHash (nil options) and Check (explicit $2b$) disagree",
            "a password of 254 bytes or more given to bcrypt.NewHash", {"C01": "VIOLATION with input (fresh-hash-rejected)", "C12": "VIOLATION with input", "C14": "VIOLATION no-failing-input-found (guards translator: source no longer fits)"}),
 "C01-m2": ("C01", "crypt.Check finds the prefix end with IndexByte('$') instead of IndexAny(\"$,\")",
            "a Sun MD5 hash with non-zero rounds ($md5,rounds=N$…) passed to the top-level crypt.Check", {"C01": "VIOLATION with input (fresh-hash-rejected-dispatch) — missed before the scheme suite rotated Sun-MD5 costs at quick", "C07": "VIOLATION with input"}),
 "C06-m1": ("C06", "bcrypt.Check decodes the stored digest and compares raw bytes", "a bcrypt hash whose last digest symbol differs only in the unused low bits",
            {"C06": "VIOLATION with input (tampered-digest-accepted) — was no-failing-input-found before the last-symbol sweep was added", "C02": "VIOLATION with input", "C19": "VIOLATION (flow IR: digest reaches Decode)"}),
 "C06-m2": ("C06", "hash.Unmarshal parses integers at 64 bits and stores them truncated", "a numeric field written as value + 2^bits (e.g. p=257, rounds=4294968296)",
            {"C06": "VIOLATION no-failing-input-found (classification correspondence breaks on the wrap-around edits; missed before those edits were added)", "C20": "VIOLATION with input (not-a-respelling)", "C10": "VIOLATION no-failing-input-found"}),
 "C10-m1": ("C10", "Marshal skips the alphabet check for integer fields", "a negative value in a signed integer field",
            {"C10": "VIOLATION with input (roundtrip: Marshal accepts, Unmarshal rejects) — was no-failing-input-found before the marshal-accepts-unreadable rule", "C20": "VIOLATION no-failing-input-found"}),
 "C10-m2": ("C10", "normalize counts inline fields in NumReqValues", "a layout with an inline field and an optional field that is set",
            {"C10": "VIOLATION with input (roundtrip, dom=in) — was no-failing-input-found before the layout-type generator and the relaxed Unambiguous predicate", "C20": "VIOLATION no-failing-input-found"}),
 "C11-m1": ("C11", "Parse keeps a stale value after closing a group", "a group followed by a fragment separator and another group / EOF", {"C11": "VIOLATION with input", "C20": "VIOLATION no-failing-input-found"}),
 "C11-m2": ("C11", "lexPrefix loses a return: the lexer goroutine blocks forever after 'missing prefix end'", "an input starting with $ without a second delimiter", {"C11": "VIOLATION (goroutine-leak)"}),
 "C14-m1": ("C14", "argon2.Key silently accepts CompatibilityOptions.Version == 0", "Key called directly with Version 0", {"C14": "VIOLATION with input (bounds)"}),
 "C14-m2": ("C14", "bcrypt.Key validates the salt through the base64 decoder (CR/LF skipped)", "a 22-symbol salt containing \\r or \\n", {"C14": "VIOLATION with input (bounds)"}),
 "C16-m1": ("C16", "decodeMap initialised from a 240-byte constant: 0xF0..0xFF decode as symbol 0", "encoded text containing a byte ≥ 0xF0",
            {"C16": "VIOLATION with input (malformed-accepted) — was no-failing-input-found before the rule"}),
 "C16-m2": ("C16", "WithPadding rebuilds the encoding and drops the strict flag", "an encoding built as Strict().WithPadding(p) and a tail with non-zero unused bits",
            {"C16": "VIOLATION with input (strict-accepts-unused-bits) — missed entirely before modes were also built in that order"}),
 "C17-m1": ("C17", "encoder: failure while flushing the buffered triple is not latched", "an underlying writer failing exactly at the leading-fringe flush, followed by another Write", {"C17": "VIOLATION with input"}),
 "C17-m2": ("C17", "decoder: the newline filter is skipped when data arrives together with an error/EOF", "an underlying reader returning text that contains a newline in the same call as EOF or an error", {"C17": "VIOLATION with input"}),
 "C20-m1": ("C20", "unsigned overflow wraps in Unmarshal", "an unsigned field written as value + 2^bits", {"C20": "VIOLATION with input", "C06": "VIOLATION no-failing-input-found (after wrap-around edits; missed before)", "C10": "VIOLATION no-failing-input-found"}),
 "C20-m2": ("C20", "a duplicated parameter inside a group is accepted (last wins)", "an Argon2-style group with one member written twice",
            {"C20": "VIOLATION with input (not-a-respelling) — missed entirely before duplicated-member splices were generated", "C06": "VIOLATION no-failing-input-found"}),
 "C02-m1": ("C02", "desext key folding loop stops at the last full 8-byte block (i+8 <= len)", "a BSDi (_) hash of a password longer than 8 bytes whose length is not a multiple of 8; the near miss differs only in the trailing partial block",
            {"C02": "VIOLATION with input (wrong-password-accepted)", "C03": "VIOLATION with input (libxcrypt disagrees in both directions)"}),
 "C02-m2": ("C02", "bcrypt.Check compares decoded digest bytes", "last digest symbol replaced by another symbol with the same upper bits", {"C02": "VIOLATION with input (tampered-digest-accepted)", "C06": "VIOLATION with input", "C19": "flow IR breaks"}),
 "C03-m1": ("C03", "SHA-crypt: `16 + da[0]` computed in a byte (wraps at 256)", "a (password, salt) pair whose digest A starts with a byte ≥ 240 (about 1 in 16)", {"C03": "VIOLATION with input (kdf model mismatch + our-hash-rejected by libxcrypt)", "C01": "VIOLATION no-failing-input-found"}),
 "C03-m2": ("C03", "descrypt.Key packs bytes without masking bit 7; desext folds the value as DES plaintext", "desext, password > 8 bytes with a byte ≥ 0x80 at offset 1..7 of a non-final block", {"C03": "VIOLATION with input (libxcrypt both directions)", "C02": "VIOLATION no-failing-input-found"}),
 "C04-m1": ("C04", "memory rounding `memory -= memory % syncPoints * threads` (precedence)", "lanes ≥ 2 and memory not a multiple of 4·lanes", {"C04": "VIOLATION with input (differs-from-rfc) — was no-failing-input-found before the spec-backed direct ops", "C09": "VIOLATION (differs-from-sequential)"}),
 "C04-m2": ("C04", "H' final digest length `outLen/32 - 1`", "tag length > 64 with length % 64 == 32 (96, 160, …)", {"C04": "VIOLATION with input (hprime 96: differs-from-rfc) — was no-failing-input-found before"}),
 "C05-m1": ("C05", "Parse appends a nil value when a group is closed right after a comma at end of input", "a hash whose last byte is ','", {"C05": "VIOLATION with input (check-panic)", "C11": "VIOLATION with input (nil-in-group)"}),
 "C05-m2": ("C05", "argon2crypto.Key: `uint32(syncPoints * threads)` wraps in uint8", "thread count ≥ 64 (64/128/192: divide by zero; others: index out of range or wrong key)", {"C05": "VIOLATION with input (key-panic) — missed before many-lane points were added to the kdf/argon grids", "C04": "VIOLATION with input"}),
 "C07-m1": ("C07", "crypt.Check: collapsed ifs lose the early ErrHash for an empty/unterminated identifier", "a handler registered for \"\" (des imported) and a hash like $, $$ab, $abc", {"C07": "VIOLATION with input (routing)"}),
 "C07-m2": ("C07", "bcrypt init registers only $2a$ and $2b$", "a $2$ hash through crypt.Check", {"C07": "VIOLATION with input (builtin-handler) + regenerated registration facts break builtins_registered", "C01": "VIOLATION no-failing-input-found"}),
 "C08-m1": ("C08", "type cache publishes an entry before it is normalized", "first use of a struct type from two goroutines at once", {"C08": "VIOLATION with input (data-race reports; concurrent-result-differs)", "C18": "OK (sequential behaviour identical)"}),
 "C08-m2": ("C08", "prefix registry made copy-on-write without a writer lock", "two RegisterHash calls overlapping in time (no data race: all accesses atomic)", {"C08": "VIOLATION with input (concurrent-result-differs: lost registration) — missed before the concurrent-registration phase was added", "C07": "OK"}),
 "C09-m1": ("C09", "worker cap by GOMAXPROCS drops remainder lanes", "1 < GOMAXPROCS < lanes and lanes % GOMAXPROCS != 0", {"C09": "VIOLATION with input (schedule-dependent)", "C04": "OK at default GOMAXPROCS"}),
 "C09-m2": ("C09", "single-P fast path loops lane outside slice", "GOMAXPROCS == 1 and lanes ≥ 2", {"C09": "VIOLATION with input (schedule-dependent, differs-from-sequential)"}),
 "C12-m1": ("C12", "descrypt.EncodeInt unrolled with `val >> 16` for the fourth symbol", "desext.NewHash with rounds ≥ 65536", {"C12": "VIOLATION with input (not-canonical: DecodeInt(EncodeInt(v)) ≠ v) — missed before desenc/desdec ops and high-round costs", "C01": "VIOLATION with input"}),
 "C12-m2": ("C12", "argon2.Check compares decoded tags", "digest differing in the two low bits of its last symbol", {"C12": "VIOLATION with input (tampered-digest-accepted)", "C02": "VIOLATION with input"}),
 "C13-m1": ("C13", "sha1.Key builds the HMAC message with append(salt, …)", "a salt slice with ≥ 6 spare bytes of capacity", {"C13": "VIOLATION with input (argument-modified) + argSafe_sha1 no longer provable"}),
 "C13-m2": ("C13", "argon2.Key assigns opts.Version = Version10 through the caller's pointer", "non-nil options with Version == 0", {"C13": "VIOLATION with input (argument-modified: options struct) + argSafe_argon2 — missed before pointer stores entered the IR and option structs the purity suite", "C14": "VIOLATION with input"}),
 "C15-m1": ("C15", "Encoding.Rand rejection test off by one: the last alphabet symbol is never drawn", "per-symbol coverage over many calls", {"C15": "VIOLATION with input (symbol never generated, frequency)"}),
 "C15-m2": ("C15", "pooled cryptoutil.Rand short-copies at the pool boundary", "mixed history: an odd number of 8-byte (Argon2) requests followed by 16-byte (bcrypt) requests reaching offset 248", {"C15": "VIOLATION with input (8 zero bytes in a decoded bcrypt salt; salt not the specified function of entropy) — missed before mixed histories"}),
 "C18-m1": ("C18", "tag-validation errors cached with the first caller's type form", "an invalid-tag struct type used twice in different value/pointer forms", {"C18": "VIOLATION with input (history-dependent) — missed before the invalid-tag family compared against cold siblings"}),
 "C18-m2": ("C18", "embedded struct field lists memoized and then rewritten in place", "one struct type embedded in two outer types, both processed", {"C18": "VIOLATION with input (history-dependent: panic) — missed before the shared-embedding family", "C10": "OK"}),
 "C19-m1": ("C19", "argon2.Check compares raw tags with bytes.Equal", "static: the Key result reaches an early-exit comparison", {"C19": "VIOLATION (offending statement named)", "C02": "VIOLATION with input"}),
 "C19-m2": ("C19", "nthash.Check uses bytes.EqualFold", "static; functional witness: upper-case hex digest", {"C19": "VIOLATION (offending statement named)", "C06": "VIOLATION with input"}),
}
for d, (prop, what, needs, res) in T.items():
    p = os.path.join(ROOT, "seeded", d)
    if not os.path.isdir(p):
        continue
    json.dump({"id": d, "property": prop, "change": what, "needs_to_manifest": needs, "confirmed_by": CONFIRM,
               "still_compiles_and_passes_pinned_tests": True, "demonstration": "demo_test.go (fails with the change, passes without)",
               "author": "fresh sub-agent given only the property text and a scratch worktree; see AUTHOR-README.md",
               "checks_run": "lib/seed_run.sh seeded/%s/patch.diff <ids> (git -C /repo apply; ./check <id>; git -C /repo checkout -- .)" % d,
               "results_quick_tier": res}, open(os.path.join(p, "meta.json"), "w"), indent=1)
    print("wrote", d)
