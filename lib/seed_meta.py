#!/usr/bin/env python3
"""Writes /verif/seeded/<id>/meta.json from the table below (what each seeded change is, what it needs
to manifest, what was run to confirm it, and which checks report it).  Results are the outcomes of
`lib/seed_run.sh <patch> <ids…>` (quick tier) recorded by hand after each run."""
import json, os
ROOT = os.path.dirname(os.path.dirname(os.path.abspath(__file__)))
CONFIRM = ("lib/seed_confirm.sh: scratch worktree of /repo at HEAD, `git apply patch.diff`, `go build ./... && go vet ./...`, "
           "the pinned test command (401 tests) passes, demo_test.go copied into its package FAILS with the patch and PASSES without it; worktree removed")
T = {
 "C01-m1": ("C01", "bcrypt.Key with nil options skips the $2b$ truncation branch: NewHash (nil options) and Check (explicit $2b$) disagree",
            "a password of 254 bytes or more given to bcrypt.NewHash", {"C01": "VIOLATION with input (fresh-hash-rejected)", "C12": "VIOLATION with input", "C14": "VIOLATION no-failing-input-found (guards translator: source no longer fits)"}),
 "C01-m2": ("C01", "crypt.Check finds the prefix end with IndexByte('$') instead of IndexAny(\"$,\")",
            "a Sun MD5 hash with non-zero rounds ($md5,rounds=N$…) passed to the top-level crypt.Check", {"C01": "VIOLATION with input (fresh-hash-rejected-dispatch) — missed before the scheme suite rotated Sun-MD5 costs at quick", "C07": "VIOLATION with input"}),
 "C06-m1": ("C06", "bcrypt.Check decodes the stored digest and compares raw bytes", "a bcrypt hash whose last digest symbol differs only in the unused low bits",
            {"C06": "VIOLATION with input (tampered-digest-accepted) — was no-failing-input-found before the last-symbol sweep was added", "C02": "VIOLATION with input", "C19": "VIOLATION (flow IR: digest reaches Decode)"}),
 "C06-m2": ("C06", "hash.Unmarshal parses integers at 64 bits and stores them truncated", "a numeric field written as value + 2^bits (e.g. p=257, rounds=4294968296)",
            {"C06": "VIOLATION no-failing-input-found (classification correspondence breaks on the wrap-around edits; missed before those edits were added)", "C20": "VIOLATION with input (not-a-respelling)", "C10": "VIOLATION no-failing-input-found"}),
 "C10-m1": ("C10", "Marshal skips the alphabet check for integer fields", "a negative value in a signed integer field",
            {"C10": "VIOLATION with input (roundtrip: Marshal accepts, Unmarshal rejects) — was no-failing-input-found before the marshal-accepts-unreadable rule", "C20": "VIOLATION no-failing-input-found"}),
 "C10-m2": ("C10", "normalize counts inline fields in NumReqValues", "a layout with an inline field and an optional field that is set",
            {"C10": "VIOLATION with input (roundtrip, dom=in) — was no-failing-input-found before the layout-type generator and the relaxed Unambiguous predicate", "C20": "VIOLATION no-failing-input-found"}),
 "C11-m1": ("C11", "Parse keeps a stale value after closing a group", "a group followed by a fragment separator and another group / EOF", {"C11": "VIOLATION with input", "C20": "VIOLATION no-failing-input-found"}),
 "C11-m2": ("C11", "lexPrefix loses a return: the lexer goroutine blocks forever after 'missing prefix end'", "an input starting with $ without a second delimiter", {"C11": "VIOLATION (goroutine-leak)"}),
 "C14-m1": ("C14", "argon2.Key silently accepts CompatibilityOptions.Version == 0", "Key called directly with Version 0", {"C14": "VIOLATION with input (bounds)"}),
 "C14-m2": ("C14", "bcrypt.Key validates the salt through the base64 decoder (CR/LF skipped)", "a 22-symbol salt containing \\r or \\n", {"C14": "VIOLATION with input (bounds)"}),
 "C16-m1": ("C16", "decodeMap initialised from a 240-byte constant: 0xF0..0xFF decode as symbol 0", "encoded text containing a byte ≥ 0xF0",
            {"C16": "VIOLATION with input (malformed-accepted) — was no-failing-input-found before the rule"}),
 "C16-m2": ("C16", "WithPadding rebuilds the encoding and drops the strict flag", "an encoding built as Strict().WithPadding(p) and a tail with non-zero unused bits",
            {"C16": "VIOLATION with input (strict-accepts-unused-bits) — missed entirely before modes were also built in that order"}),
 "C17-m1": ("C17", "encoder: failure while flushing the buffered triple is not latched", "an underlying writer failing exactly at the leading-fringe flush, followed by another Write", {"C17": "VIOLATION with input"}),
 "C17-m2": ("C17", "decoder: the newline filter is skipped when data arrives together with an error/EOF", "an underlying reader returning text that contains a newline in the same call as EOF or an error", {"C17": "VIOLATION with input"}),
 "C20-m1": ("C20", "unsigned overflow wraps in Unmarshal", "an unsigned field written as value + 2^bits", {"C20": "VIOLATION with input", "C06": "VIOLATION no-failing-input-found (after wrap-around edits; missed before)", "C10": "VIOLATION no-failing-input-found"}),
 "C20-m2": ("C20", "a duplicated parameter inside a group is accepted (last wins)", "an Argon2-style group with one member written twice",
            {"C20": "VIOLATION with input (not-a-respelling) — missed entirely before duplicated-member splices were generated", "C06": "VIOLATION no-failing-input-found"}),
}
for d, (prop, what, needs, res) in T.items():
    p = os.path.join(ROOT, "seeded", d)
    if not os.path.isdir(p):
        continue
    json.dump({"id": d, "property": prop, "change": what, "needs_to_manifest": needs, "confirmed_by": CONFIRM,
               "still_compiles_and_passes_pinned_tests": True, "demonstration": "demo_test.go (fails with the change, passes without)",
               "author": "fresh sub-agent given only the property text and a scratch worktree; see AUTHOR-README.md",
               "checks_run": "lib/seed_run.sh seeded/%s/patch.diff <ids> (git -C /repo apply; ./check <id>; git -C /repo checkout -- .)" % d,
               "results_quick_tier": res}, open(os.path.join(p, "meta.json"), "w"), indent=1)
    print("wrote", d)
