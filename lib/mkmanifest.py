#!/usr/bin/env python3
"""Regenerate MANIFEST.json from lib/props.py (claimed checks) and properties.jsonl (everything else)."""
import json, os, subprocess, sys
ROOT = os.path.dirname(os.path.dirname(os.path.abspath(__file__)))
sys.path.insert(0, os.path.join(ROOT, "lib"))
from props import PROPS

ids = [json.loads(l)["id"] for l in open(os.path.join(ROOT, "properties.jsonl"))]
hooks = subprocess.run(["git", "-C", "/repo", "log", "--format=%H %s"], capture_output=True, text=True).stdout.splitlines()
hook_commits = [l.split()[0] for l in hooks if " verif hook" in l]

checks = []
for pid in ids:
    if pid not in PROPS or PROPS[pid].get("unclaimed"):
        continue
    c = PROPS[pid]
    checks.append({
        "property_id": pid,
        "quick_cmd": "./check %s --tier quick" % pid,
        "thorough_cmd": "./check %s --tier thorough" % pid,
        "evidence_file": "/verif/evidence/%s.json" % pid,
        "replay_cmd_template": "./check %s --replay {path}" % pid,
        "engine": "lean+gogen+harness",
        "level_claimed": {"category": c.get("level", "proof"), "text": c["claim"], "design_ref": "DESIGN.md §7 " + pid},
        "level_note": c["note"],
        "technique": c["technique"],
    })
na = [{"property_id": pid, "reason": PROPS.get(pid, {}).get("unclaimed", "check not built yet in this session; see DESIGN.md §7 for the plan")}
      for pid in ids if pid not in PROPS or PROPS[pid].get("unclaimed")]
m = {
    "version": 1,
    "setup_cmd": "./setup.sh",
    "hooks": {
        "guard": "verif",
        "enable": "go build -tags verif (the harness module replaces github.com/sergeymakinen/go-crypt by /repo)",
        "baseline_off_cmd": "cd /repo && go test -mod=mod -vet=off -count=1 ./...",
        "source_commits": hook_commits,
        "add_only": True,
    },
    "engines": [
        {"name": "lean", "path": "lean/", "serves_properties": [c["property_id"] for c in checks],
         "kind_free_text": "Lean 4.33 models (GoCrypt/Model), specifications (GoCrypt/Spec), lemmas (GoCrypt/Proofs) and property theorems (GoCrypt/Props); kernel-checked, axioms audited with #print axioms"},
        {"name": "gogen", "path": "gogen/", "serves_properties": [c["property_id"] for c in checks],
         "kind_free_text": "translator: regenerates lean/GoCrypt/Gen (constants, tables, struct shapes, guards, kernels, flow IR, facts) from /repo's current source on every run"},
        {"name": "harness", "path": "harness/", "serves_properties": [c["property_id"] for c in checks],
         "kind_free_text": "Go correspondence harness (built with -tags verif against /repo): runs the real code and the compiled Lean driver on the same operations and diffs them; also searches the implementation for failing inputs"},
    ],
    "checks": checks,
    "not_applicable": na,
    "notes": "Technique family: machine-checked proof in Lean 4. Every check = regenerate Gen from source + build/audit the property's theorems + model/implementation correspondence + implementation-level search. See DESIGN.md.",
}
with open(os.path.join(ROOT, "MANIFEST.json"), "w") as f:
    json.dump(m, f, indent=1)
    f.write("\n")
try:
    import jsonschema
    jsonschema.validate(m, json.load(open("/root/.vp/MANIFEST.schema.json")))
    print("MANIFEST.json valid:", len(checks), "checks,", len(na), "not_applicable")
except ImportError:
    print("MANIFEST.json written (jsonschema not available to validate)")
