"""Per-property configuration of the check runner."""

COMMON_TRUST = [
    "gogen translator (go/packages, go/types) for everything under lean/GoCrypt/Gen",
    "correspondence harness: hand-written model parts are tied to the Go code by differential runs, not for all inputs",
]

PROPS = {
    "C11": {
        "suites": ["parse"],
        "level": "proof",
        "technique": "Lean 4 proof (induction over the input with a loop invariant on the parser state) + Go/Lean correspondence + exhaustive small-scope search on Go",
        "claim": "Kernel-checked theorems about the lexer/parser model for ALL byte strings: failure iff empty/unterminated '$' identifier, lexer lossless, "
                 "tree renders to the input up to one trailing delimiter, every span is the substring holding its text, groups non-empty, "
                 "the lexer's terminal token is its last (never blocked). The hand-written model is tied to hash/parse by exhaustive small-scope "
                 "and random differential runs (tokens and trees incl. positions) against the real code, and against an independent split-based reference parser.",
        "note": "The whole lexer and parser ARE the current code: lexPrefix, lexFragment, emit, errorf, run, NextToken, lex and Parse are regenerated from the source into a structured IR (loops, switch, `go`, the channel as a producer list consumed in order) and ParseFlow.lexerFlow_eq_model / parseFlow_eq_model prove that it evaluates to the model for EVERY input — token stream, tree with all spans, or the syntax error — never panics, terminates, and leaves the channel closed and drained (parseFlow_returns); proofs are written against canonical variable names, so renaming in the Go source does not break them. Trusted: Lean kernel + propext/Classical.choice/Quot.sound; the model↔code tie is differential (not for all inputs); channel = rendezvous; goroutine exit observed, not proved.",
        "rule": "parse: every string up to length 7 (quick) / 9 (thorough) over {$ , _ = a} (exhaustive) plus random byte strings up to 4 KiB; "
                "each is parsed by Go, by the Lean model and by the Lean reference parser, token streams compared up to length 6; "
                "non-trivial/distinct = distinct result trees (including spans) or errors",
        "trusted": COMMON_TRUST + ["Go channel/goroutine runtime (the channel is modelled as a rendezvous)"],
        "assumptions": ["unbuffered channel modelled as rendezvous; goroutine exit observed by runtime.NumGoroutine"],
    },
    "C07": {
        "suites": ["dispatch"],
        "level": "proof",
        "technique": "Lean 4 proof (refinement of the dispatcher to a last-writer-wins map over all registration histories; prefix rule = lexer rule) + regenerated init-registration facts decided by `decide` + Go/Lean correspondence with recording stub handlers",
        "claim": "Kernel-checked for ALL hashes, passwords and registration histories: crypt.Check's model refines a last-writer-wins map keyed by the statement's prefix rule, "
                 "passes hash/password through unchanged, returns ErrHash without a call exactly for ill-formed or unregistered prefixes, registering one prefix leaves others untouched, "
                 "the dispatcher's prefix equals the parse tree's prefix (and fails exactly when the lexer fails); every documented Prefix* constant is registered in its package's init "
                 "(facts regenerated from the source). crypt.go's 15-line Check is hand-modelled and tied by exhaustive small-scope runs with recording stubs.",
        "note": "The dispatcher IS the current code: crypt.Check and RegisterHash are regenerated into a structured IR and DispatchFlow.checkFlow_eq_model / registerFlow_eq_model prove that its value semantics (bounds-checked slicing, strings.HasPrefix / IndexAny, sync.Map as a last-writer-wins map) equals the hand model for all registries, hashes and passwords — in particular no slice in Check can panic and Check never changes the registry; lexPrefixFlow_prefix_eq_dispatch ties the lexer's regenerated prefix rule to the same model. Trusted: sync.Map as an atomic map; gogen's extraction of init registrations; correspondence is differential.",
        "rule": "dispatch: 15 documented prefixes probed through the real registry; then recording stubs: every string up to length 6 (quick) / 8 (thorough) over {$ , _ a b} (exhaustive), "
                "every registration history up to length 3 (quick) / 4 (thorough) over 6 prefixes incl. re-registration, '_', '' and a built-in prefix, probing all 6 after each step; random strings/histories; "
                "non-trivial/distinct = distinct (outcome kind, handler, length) classes and distinct histories",
        "trusted": COMMON_TRUST + ["sync.Map modelled as an atomic last-writer-wins map"],
        "assumptions": ["registry histories are cumulative within the harness process; fresh prefix identifiers make each history start from an unregistered state"],
    },
    "C16": {
        "suites": ["b64"],
        "level": "proof",
        "technique": "Lean 4 proof over kernels regenerated from base64le.go (OR-decomposition of the shift/mask expressions + exhaustive per-byte kernel evaluation + induction over 3-byte groups and over the three decode loops) + Go/Lean/bit-level-reference correspondence",
        "claim": "Kernel-checked for ALL byte strings / texts and every padding/strict mode: Encode = the bit-level definition (symbols are successive 6-bit groups of b0|b1<<8|b2<<16), every alphabet index < 64, length arithmetic, decodeMap inverts the alphabet, Decode(Encode(x)) = x, and the model's Decode — 64-bit, 32-bit and per-quantum paths, padding, newline skipping, strict mode — equals an independent declarative reference decoder in result bytes AND error offset (C16Decode.decode_eq_ref), so accepted texts are canonical up to the tolerated unused bits, nothing is ever silently decoded from a foreign byte, and Decode never stores outside its buffer; the exported crypt(3) alphabets are the documented ones (regenerated). The BODIES of Encode, EncodeToString, EncodedLen, DecodeString, Decode, decodeQuantum, assemble32/64 and DecodedLen are regenerated from the Go source on every run as structured programs over byte buffers and proved equal to the hand model for every input (Props/B64IR.lean), so the theorems speak about the loops the source has now; the constructors and the whole are also tied to Go by ~300 000 differential operations incl. exhaustive tails and malformed edits.",
        "note": "Decode is characterised for ALL texts (Props/C16Decode.lean): decode_eq_ref — the model's Decode (three paths, padding, newline skipping, strict mode) equals an independent declarative reference decoder (Spec/Base64Ref.lean) in result bytes AND error offset; accepted_is_canonical_or_tolerated, never_silent_garbage, malformed_rejected, nothing_after_padding, incomplete_rejected, decode_never_panics. Props/B64IR.lean: the regenerated bodies (loops, switch/fallthrough, break/continue, slicing, PutUint64/32, wrap-around) interpreted over a heap of byte buffers equal the hand model, panics included; `stuck` (unknown node, loop bound) equals neither side. Trusted: gogen's buffer-IR translator and the interpreter Base/B64IRBase.lean; NewEncoding/WithPadding/Strict are tied by correspondence only.",
        "rule": "b64: EncodedLen/DecodedLen for n ≤ 300; all 256 one-byte tails, two-byte tails (all 65536 at thorough), 2^16 (quick) / 2^21 (thorough) random three-byte groups, "
                "random strings up to 4096 bytes in four modes decoded into buffers of five sizes (8-symbol, 4-symbol and quantum paths counted), random symbol quanta with injected bad symbols/padding/newlines, single edits of valid encodings; "
                "Go vs Lean model, plus Go vs an independent bit-level reference encoder and Decode∘Encode = id directly on Go; non-trivial/distinct = distinct one-/two-byte tails and random strings",
        "trusted": COMMON_TRUST + ["Go's encoding/base64 (BigEndianEncoding, bcrypt.Encoding) is stdlib and only observed"],
        "assumptions": ["EncodedLen/DecodedLen arithmetic is modelled over Nat (no int overflow for inputs below 2^60 bytes)"],
    },
    "C17": {
        "suites": ["stream"],
        "level": "proof",
        "technique": "Lean 4 proof (state-machine invariants over arbitrary chunkings, reader scripts and writer fault scripts; induction over the operation list) + Go/Lean correspondence with scripted io.Writer/io.Reader faults",
        "claim": "Kernel-checked for ALL chunkings, ALL writer fault scripts and ALL reader fragmentations (short reads, embedded newlines, zero-length reads, data delivered together with EOF or an error) and all caller buffer sizes ≥ 1: "
                 "encoder+Close = one-shot Encode; under a writer fault the bytes written are a prefix of the one-shot encoding, the failing call returns the error and every later Write/Close returns it; "
                 "the decoder delivers exactly the one-shot decoding and then the reader's error (EOF stays EOF), never a (0, nil) read. Model functions are total, so nothing panics in the model. "
                 "The state machines (Write/Close/Read/newline filter) are hand-modelled and tied to base64le.go by differential runs incl. exhaustive compositions of short data and faults at every underlying call index.",
        "note": "Trusted: the scripted reader/writer are well-behaved io.Reader/io.Writer (a reader that returns (0,nil) forever makes the Go decoder spin; outside the property); model↔code tie is differential.",
        "rule": "stream: all compositions of data of length ≤ 7 (quick) / ≤ 9 (thorough) in two padding modes; writer faults (error only / partial write + error) at every underlying call index 0..3 for data ≤ 6; "
                "random chunkings of data up to 5000 bytes (768-byte interior path) with random faults; decoder: random fragmentations with zero-length reads, embedded newlines (incl. runs of 37..1500 newlines), "
                "data+EOF, data+error, sticky non-EOF errors, caller buffers 1..4096; each run checked on Go directly against one-shot Encode/Decode and diffed with the Lean state machines; "
                "non-trivial/distinct = distinct compositions / random runs",
        "trusted": COMMON_TRUST,
        "assumptions": ["underlying writer/reader follow the io contracts (accept-all or fail; data never longer than requested)"],
    },
    "C01": {
        "suites": ["scheme"],
        "fail_kinds": ["newhash-failed", "fresh-hash-rejected", "fresh-hash-rejected-dispatch", "not-canonical", "crash", "op-panic", "op-timeout"],
        "level": "proof",
        "technique": "Lean 4 proof (KDF totality for every password length by induction over the loops; generated salt always passes the regenerated guards; dispatcher facts) + Go/Lean byte-identical NewHash/Check correspondence under scripted entropy",
        "claim": "Kernel-checked END TO END on the scheme-level model, for all ten schemes and EVERY request: the string NewHash returns verifies with the password it was made from (EndToEnd.newHash_then_check_<scheme>; Key treated as an opaque function, so this holds for every password length and byte content), NewHash succeeds with a non-empty hash on the scheme's domain (newHash_ok/total_<scheme>), a salt drawn by Encoding.Rand violates no guard clause, the KDF skeletons return a key for every password length and every hash function (the loop arithmetic that panicked for long passwords), every documented prefix is registered with its package's Check and the dispatcher routes by prefix (C07). On the real code NewHash→Check→crypt.Check is run on every boundary length, and the generated hash string is byte-identical with the model's under scripted crypto/rand.",
        "note": "The scheme pipeline the theorems speak about IS the current code: FlowModel.flowCheck/flowParams/flowNewHash_eq_model_<scheme> — a value semantics of the flow IR (Spec/FlowVal.lean), instantiated with the model's own unmarshal / key / encoders / ctEq, evaluates the IR REGENERATED from the current source to exactly Scheme.check / params / newHash, for all inputs (all ten schemes; no statement of the IR is left untranslated). Kernel-checked END TO END on the model for all ten schemes and EVERY request: EndToEnd.newHash_then_check_<scheme> (newHash S r = ok h → check S h r.password = nil; Key treated as an opaque function), newHash_ok_<scheme> / newHash_total_<scheme> (NewHash returns a non-empty hash on the scheme's domain; for md5/sha*/sunmd5/nthash under the named hypothesis that the hash primitive returns digests of its size; bcrypt: success given a 23-byte key), newHash_empty_iff_md5/des (the documented quirk: md5/des NewHash ignore Key's error). "
                "Hypotheses forced by the proofs and checked on Go: sunmd5 with rounds ≠ 0 needs at least one entropy byte (a failing entropy read panics in Go); sha1/argon2 costs < 2^32 (typing). Partial: the tie of the scheme-level model to Go is the byte-for-byte correspondence of NewHash/Check/Params under scripted entropy.",
        "rule": "scheme: per scheme 18 password lengths at quick (0,1,7,8,9,16,31,32,33,63,64,65,72,73,128,254,255,256 clipped to the scheme's maximum; every length 0..300 at thorough) with 8-bit NUL-free content, "
                "costs at the cheap end of [Min,Max]; NewHash under scripted entropy (Go string must equal the model's byte for byte, same number of entropy bytes consumed), Check and crypt.Check must return nil, Params compared; "
                "near-miss passwords and digest substitutions (C02) ride along; non-trivial/distinct = distinct generated hashes",
        "trusted": COMMON_TRUST + ["Go stdlib / x-crypto primitives (MD5, SHA-1/2, HMAC, MD4, Blowfish, BLAKE2b): Lean copies validated differentially"],
        "assumptions": ["crypto/rand.Reader is replaced by a scripted reader in the harness process"],
    },
    "C02": {
        "suites": ["scheme"],
        "fail_kinds": ["wrong-password-accepted", "tampered-digest-accepted", "crash"],
        "level": "proof",
        "technique": "Lean 4 proof (exact characterisation of Check success on the pipeline model; digest tampering; absorption reductions to hash collisions by walking the round chain backwards) + exhaustive digest-substitution and near-miss-password search on Go",
        "claim": "Kernel-checked for ALL hashes/passwords and every scheme instance of the pipeline: Check returns nil iff Unmarshal succeeds, Key succeeds on the hash's own salt/cost/variant and the COMPLETE encoded digest equals the stored text; "
                 "Unmarshal/Key errors are returned, never swallowed; two hashes differing only in digest text never both verify. Absorption for all H: equal md5-crypt / SHA-crypt / Sun-MD5 keys imply equal passwords or an explicitly located hash collision; sha1-crypt up to HMAC key equivalence. "
                 "On Go: every single-symbol substitution at every digest position and near-miss passwords (bit flips, append/remove, case, truncation at 8/16/32/64/72) never verify.",
        "note": "The scheme pipeline the theorems speak about IS the current code: FlowModel.flowCheck/flowParams/flowNewHash_eq_model_<scheme> — a value semantics of the flow IR (Spec/FlowVal.lean), instantiated with the model's own unmarshal / key / encoders / ctEq, evaluates the IR REGENERATED from the current source to exactly Scheme.check / params / newHash, for all inputs (all ten schemes; no statement of the IR is left untranslated). Every scheme now has its reduction (Props/KdfProps.lean, Props/C02b.lean): the documented password equivalence as an explicit predicate, 'equivalent passwords get the same verdict', and 'if both verify against one hash they are equivalent OR a named statement about the primitive alone holds' (Collision H / KeyedCollision HMAC / DesCryptCollision / BcryptCollision / Collision blake2b ∨ Argon2CoreCollision) — the cryptographic non-collision assumption is an explicit disjunct, never an axiom. Two places where the ALGORITHM identifies more passwords than C02's wording were found by these proofs, reproduced on the real code (and on libxcrypt) and recorded as known findings: F16 (every BSDi password over 8 bytes has an 8-byte twin: the folded key's 7-bit bytes; the fold also collides) and F17 (bcrypt's key schedule reads the key cyclically: \"a\" ≡ \"a\\0a\"). NT hash is not injective on ill-formed UTF-8 (every bad byte ↦ U+FFFD) but is on well-formed input.",
        "rule": "scheme: for each generated hash: near-miss passwords (single-bit flips at byte positions, one byte appended/removed/prepended, case change, truncations at 8/16/32/64/72) — all must not verify; "
                "for the first 3 (quick) / 20 (thorough) hashes per scheme EVERY substitution of EVERY digest position by every other alphabet symbol (exhaustive; Go only) plus a 1/97 sample through the model; "
                "non-trivial/distinct = distinct generated hashes",
        "trusted": COMMON_TRUST + ["collision resistance of the primitives is a hypothesis of the absorption theorems"],
        "assumptions": ["passwords are NUL-free (C-string / HMAC zero-padding equivalences excluded, as the property states)"],
    },
    "C03": {
        "suites": ["kdf", "xcrypt"],
        "fail_kinds": ["their-hash-rejected", "our-hash-rejected", "their-mismatch-accepted", "no-reference", "differs-from-spec", "key-panic", "crash"],
        "level": "proof",
        "technique": "Lean 4 proof (code-shaped KDF skeleton = reference written from the published algorithm, for all inputs and all hash functions; loop closed forms by induction) + Go/Lean key correspondence on all ten schemes",
        "claim": "Kernel-checked for ALL passwords, salts, round counts (and ALL hash functions where the scheme has one): every scheme's code-shaped model equals a reference written from the published algorithm — md5-crypt (PHK), SHA-crypt (Drepper), sha1-crypt (iterated HMAC), Sun MD5 (coin-toss rounds), NT hash (MD4 of UTF-16LE), bcrypt (EksBlowfish with the per-prefix key rules), DES-crypt and BSDi (salted DES iterated 25 / n times, key folding) — and the table-driven DES of des/descrypt, whose tables are regenerated from const.go on every run, equals FIPS 46-3 DES with the crypt(3) salt swap for every 64-bit key and block (C03b.encrypt_eq_fips). Final permutation tables are permutations; the digest encoding = the bit-level base64 spec (C16). Go is tied to the models key for key (kdf suite) and to the system's libxcrypt in both directions (xcrypt suite).",
        "note": "The KDF bodies ARE the current code for md5-crypt, SHA-crypt (with duplicate), cryptoutil.Permute and the HMAC loop of sha1-crypt: gogen regenerates a hash-transcript IR from md5crypt.Encrypt / sha2crypt.Encrypt / sha1.Key on every run, and KdfIR.*_ir_eq_model prove that interpreting it (generically in H; Go panics included) gives exactly the hand-written skeletons, for all inputs. The proof exposed one difference outside Key's domain: at rounds = 0 the exported sha2crypt.Encrypt returns Permute(H(password × len)) (a reused variable), the skeleton returns the permuted digest A — unreachable through Key, whose guards enforce rounds ≥ 1000 (stated as sha2crypt_ir_zero_rounds). Sun MD5, DES/BSDi and bcrypt bodies remain hand models tied by correspondence. Every scheme now has a reference written from the published algorithm and a kernel-checked model = reference theorem for all inputs (Props/C03b.lean): sha1crypt_eq_spec (iterated HMAC), sunmd5_eq_spec(_wrap) (coin-toss rounds), nthash_eq_spec (MD4 of UTF-16LE; Go's one-U+FFFD-per-bad-byte rule), bcrypt_eq_spec (EksBlowfish, key‖NUL rules per prefix) with bcrypt_long_password_deviation stating the documented pre-2b ≥254-byte rule exactly, descrypt/desext_layer_eq_spec (25 / n salted DES iterations, BSDi key folding, 11-symbol output), and encrypt_eq_fips — the table-driven DES of des/descrypt, with its tables REGENERATED from const.go, equals FIPS 46-3 DES with the crypt(3) salt swap for every 64-bit key and block (table facts ie3264_is_IP_then_E, spe_is_E_P_S, pc_tables_are_PC1_shifts_PC2, cf6464_is_IPinv, salt_is_E_swap decided by the kernel). "
                "Partial: hash/cipher primitives (MD4/MD5/SHA/HMAC/Blowfish) are parameters or hand copies validated differentially; Go is tied to the system's libxcrypt 4.4 (cgo, crypt_r) in both directions on the shared domain by the xcrypt suite (a test, labelled as such). Known finding F11: libxcrypt's zero-rounds Sun MD5 form \"$md5$salt$$digest\" is rejected here.",
        "rule": "kdf: per scheme passwords of 30 boundary lengths (0..257 around 8/16/32/56/64/72/128/254/256) plus random lengths ≤ 300, 8-bit content, every legal salt length class, rounds dense near the minimum, all prefix/option variants; "
                "Go Key vs Lean model (hand-written skeleton over Lean primitives), results compared byte for byte; "
                "xcrypt: 9 schemes × NUL-free 8-bit passwords at 5..25 boundary lengths × 2 (quick) / 30 (thorough) repetitions; there→here: settings built over every legal salt length and rounds near the minimum, hashed by libxcrypt, verified by <scheme>.Check and crypt.Check (and by the Lean model), near-miss password refused; "
                "here→there: NewHash output re-derived by libxcrypt byte for byte; excluded as outside the shared domain: $2$, Argon2, DES passwords > 8, NT hash of non-ASCII, Sun MD5 empty salts / salts > 8 / the \"$md5$rounds=0$\" spelling; non-trivial/distinct = distinct (scheme, password length, salt length, rounds)",
        "trusted": COMMON_TRUST + ["the hash/cipher primitives are parameters of the theorems; their Lean copies are validated differentially", "the system's libxcrypt 4.4.33 as the reference crypt(3)"],
        "assumptions": [],
    },
    "C05": {
        "suites": ["kdf", "classify", "parse", "dispatch", "b64", "stream", "codec"],
        "fail_kinds": ["check-panic", "check-timeout", "key-panic", "key-timeout", "newhash-failed", "op-panic", "op-timeout", "crash", "decode-panic", "enc-panic", "dec-panic", "goroutine-leak"],
        "level": "proof",
        "technique": "Lean 4 proof (totality of every model function by kernel-checked recursion; explicit panic values proved unreachable) + outcome-class correspondence with recover and watchdog on structured mutations and short junk strings",
        "claim": "Kernel-checked: the parser model always returns (error or tree), never stores a nil value, groups are non-empty; the KDF skeletons return a key for EVERY password length and hash function; every base64 alphabet index is < 64; the lexer's terminal token is its last. "
                 "Go side: every Check/Params/Key call in the suites runs under recover + 90 s watchdog; the outcome class (ok / typed error / panic / timeout) must equal the model's, on every edit-distance-1 mutation of valid hashes of all ten schemes and all short strings over {$ , = _ a 0}.",
        "note": "KdfIR.md5crypt_ir_eq_model and companions include the panic outcomes of the regenerated KDF code (d[:i], password[:1], Permute out of range): the regenerated program panics exactly where the hand model does, i.e. never on Key's domain. Partial: panics inside reflect/strconv/stdlib crypto for inputs the model considers fine are only sampled; Go-side termination is observed by watchdog, proved only for the model; no coverage-guided fuzzing in this revision.",
        "rule": "kdf + classify + parse + dispatch + b64 + stream + codec: see the C03, C06, C11, C07, C16, C17, C10 rules; every call wrapped in recover and a watchdog; any operation on which the implementation panics or hangs is a failing input; non-trivial/distinct as in those suites",
        "trusted": COMMON_TRUST,
        "assumptions": ["cost fields of generated inputs are capped so that each call is cheap"],
    },
    "C14": {
        "suites": ["guards"],
        "level": "proof",
        "technique": "Lean 4 proof that the guard clauses translated from each Key function by gogen equal a declarative bounds specification written over the exported constants, for all arguments (with error type and payload) + Go/Lean acceptance correspondence",
        "claim": "Kernel-checked for ALL arguments of all ten Key functions: the guards regenerated from the current source reject exactly when a clause of the declarative specification (salt length fixed/max/min, salt alphabet, rounds/cost/time/memory/threads ranges, password length, prefix and version sets — all in terms of the exported constants) is violated, "
                 "with exactly the typed error and payload of the FIRST violated clause; what the guards hand to the derivation is the defaulted/rewritten argument record. The guards precede the derivation (the translator stops at the first derivation statement and rejects any later error return).",
        "note": "Trusted: gogen's guard translator (also exercised through the driver against the real Key on the guards grid). Acceptance of expensive in-range values (e.g. rounds = 999999999) is decided on the regenerated guards without running the derivation.",
        "rule": "guards: per scheme salt lengths 0..max+3 (exhaustive), every salt position × all 256 byte values (exhaustive), rounds/cost at min-1, min, max, max+1 and random values, password lengths at limit±1, "
                "a pool of valid/near-valid/arbitrary prefix options × flag, nil vs explicit options; verdict + error type + payload compared; non-trivial/distinct = distinct (scheme, dimension, value) cases",
        "trusted": COMMON_TRUST,
        "assumptions": [],
    },
    "C15": {
        "suites": ["salt"],
        "level": "proof",
        "technique": "Lean 4 proof of the deterministic half (salt as a function of entropy: length, alphabet, unbiased symbol map, randomised-rounds window, source purity and per-call freshness decided on regenerated facts) + statistical exploration of real NewHash output",
        "claim": "Kernel-checked: a salt drawn from n entropy bytes has n symbols, all in the alphabet; the symbol map is a bijection [0,64)→alphabet and each index has exactly 4 byte pre-images (no bias, no starved symbol); bcrypt/Argon2 salts are the 22/11-symbol encodings of 16/8 raw bytes; "
                 "sha1 random rounds ∈ [18511, 24680] for every 32-bit draw; every `rand` import in non-test sources is crypto/rand and every NewHash body calls the generator itself (regenerated facts). "
                 "Scripted-entropy correspondence: Go's salt equals the model's for the same entropy. Statistical run on real output: length, alphabet, 8-sigma pooled frequency bound, distinctness where the birthday bound is < 1e-12.",
        "note": "Partial by nature: that the OS source is unpredictable and non-repeating is outside any model; the statistical run is a test, labelled as such.",
        "rule": "salt: 2000 (quick) / 50000 (thorough) NewHash calls per scheme at the cheapest cost (sha1: 300/3000): constant salt length, alphabet, pooled per-symbol frequency within 8 sigma of uniform, every symbol generated, "
                "per-position coverage and decoded-byte coverage at thorough, sha1 rounds window, no repeated salt where an honest collision has probability < 1e-12; scheme: scripted entropy (see C01); non-trivial/distinct = distinct salts observed",
        "trusted": COMMON_TRUST + ["crypto/rand and the OS entropy source"],
        "assumptions": ["statistical bounds are chosen so that a uniform source fails with probability < 1e-12"],
    },
    "C18": {
        "suites": ["cache"],
        "level": "proof",
        "technique": "Lean 4 proof (invariant over arbitrary call histories of the type-cache protocol: entries are a function of the dereferenced type, results never depend on cache contents) tied by measured protocol facts + sequential history exploration on Go",
        "claim": "Kernel-checked for ALL call histories: getTypeInfo's result (type info and the struct name reported in errors) equals its cold-cache result; T, *T, **T get the same type info and report their own argument type; a failing tag analysis is never cached, so invalid tags are reported on every call. "
                 "Marshal/Unmarshal are functions of that type info and their argument in the model. The two protocol facts the theorems assume (private copy returned; entries keyed by the dereferenced type) are MEASURED on every run through the verif hook.",
        "note": "Trusted: reflect; the protocol model is tied to typeinfo.go by the measured facts and by the history suite (each result compared with its first occurrence and with the same call on a never-seen identical type).",
        "rule": "cache: 40 (quick) / 2000 (thorough) random operation sequences of up to 65 / 200 operations over a pool of struct types each used as T, *T and **T in success and failure cases (incl. an invalid-tag type), "
                "interleaved with operations on a fresh type compared with a never-seen sibling; protocol facts measured; non-trivial/distinct = distinct sequences",
        "trusted": COMMON_TRUST + ["reflect"],
        "assumptions": [],
    },
    "C19": {
        "suites": ["flowcheck"],
        "level": "proof",
        "technique": "Lean 4: syntactic-dataflow discipline decided by `decide` on the flow IR of every Check regenerated from the current source (secret = Key result, stored digest, encoder outputs; only sinks: encoders, len, whole-buffer subtle.ConstantTimeCompare)",
        "claim": "Kernel-checked on the IR regenerated from the current source, for all ten schemes: the value returned by Key and the stored digest reach only encoders, len() and subtle.ConstantTimeCompare (whole buffers); the mismatch sentinel is returned by exactly one statement, guarded solely by that call's result == 0; "
                 "no ==, bytes.Equal, indexing or other call touches secret-derived data; no statement falls outside the IR. A property over programs: the 'failing input' reported on violation is the offending statement.",
        "note": "Trusted: gogen's statement translator (unclassifiable statements become `.other`, which fails the discipline); crypto/subtle and the encoders being constant-time at machine level. The discipline's meaning is proved (Props/C19Sound.lean): secretSafe'_sound and mismatch_cost_independent_of_position / _of_key — in a cost semantics where only encoders, len and whole-buffer ConstantTimeCompare touch secrets, two runs that both end in the mismatch sentinel execute the same statements at the same cost wherever the digests differ; instantiated per scheme (<scheme>_mismatch_cost).",
        "rule": "flowcheck: the ten Check functions; the Lean side evaluates secretSafe on the regenerated IR and names the first offending statement; non-trivial/distinct = the ten programs",
        "trusted": COMMON_TRUST,
        "assumptions": [],
    },
    "C10": {
        "suites": ["codec"],
        "fail_kinds": ["roundtrip", "remarshal-unstable"],
        "level": "proof",
        "technique": "Lean 4 proof (strconv Format/Parse round trips for every base and bit size; parse∘render; per-field step lemmas of the Unmarshal loop composed by induction over the field list; all ten shipped layouts over shapes regenerated from the Go structs) + Go/Lean codec correspondence on run-time generated struct types",
        "claim": "Kernel-checked IN GENERAL (C10General.roundtrip_L6): for an arbitrary struct type and every value inside an explicit decidable hypothesis (type info as getTypeInfo builds it — discharged for every type with supported field types by TiWf.typeInfoOf_tiWf —, Unambiguous layout with separated parameter groups, typed and Representable value whose last text is not empty and which does not mimic an omitted parameter) Unmarshal(Marshal v) = v — covering params, inline fields, text codecs, groups in any order, omitempty and trailing optional fields; each clause of the hypothesis is shown necessary by a counterexample theorem; ParseUint(FormatUint n b) = n and the Int analogue for every base 2..36 and bit size; parse∘render = id; and the ten shipped scheme layouts as instances over shapes regenerated from the current Go struct tags. Inside the hypothesis the round trip is also checked directly on Go for run-time generated types (the suite's domain test is the theorem's hypothesis). The Marshal/Unmarshal/TagInfo models are hand-written and tied by ~100 000 differential operations per run incl. error kinds, offsets and field names.",
        "note": "The GENERAL theorem is kernel-checked (Props/C10General.lean, roundtrip_L6 / roundtrip_general): for an arbitrary struct type and value inside the explicit decidable hypothesis — type info as getTypeInfo builds it (tiWf), Unambiguous, parameter groups separated by something that is always written, value typed and Representable, last text not empty (F12), no positional text that mimics an omitted optional parameter — Unmarshal(Marshal v) = v, covering params, inline, text codecs, groups, omitempty and trailing optionals; needs_* theorems show each added clause is necessary (two were holes in the earlier hand-calibrated predicate, found by the proof: merged group runs, a value stealing an omitted parameter's name). The proof also forced numReqValues = number of required fields, which exposed a genuine defect (a shadowed param counted twice), repaired in d4f4d57. The suite's in-domain direct check uses exactly the theorem's hypothesis. Trusted: reflect's view of a type; the codec model is tied to Go differentially.",
        "rule": "codec: 16 hand-written shapes (embedding, shadowing, pointers, mirrors of the ten shipped layouts) + 120 (quick) / 2500 (thorough) struct types generated with reflect.StructOf over kinds × tag options (1..8 fields), 6..20 values each over/outside each field's alphabet, lengths 0..40, integer extremes; "
                "for each: typeinfo, Marshal in T/*T/**T form, Unmarshal of the canonical string and of its edit-distance-1 neighbourhood/splices, round trip, re-marshal stability, respelling verdict; "
                "non-trivial/distinct = distinct (type, marshalled string) pairs",
        "trusted": COMMON_TRUST + ["reflect (visibility, promotion, Implements)"],
        "assumptions": ["[]byte values compare by content (nil ≡ empty)", "generated types use only the text codecs the shipped schemes use, with the tag options those use"],
    },
    "C20": {
        "suites": ["codec"],
        "fail_kinds": ["not-a-respelling", "accepted-unwritable"],
        "level": "proof",
        "technique": "Lean 4: decidable Respell specification evaluated on every string the real Unmarshal accepts (against Marshal of the very value it returned) + kernel-checked lossless/exact parsing so that nothing is dropped before the codec sees it",
        "claim": 'Kernel-checked IN GENERAL (C10General.accepted_respell_all): for an arbitrary struct type whose tag options are consistent, every string Unmarshal accepts is a tolerated respelling (one trailing delimiter; integer spellings of equal value; order inside a parameter group; explicitly written zero/empty optional field) of the string Marshal writes for the very value read; the excluded option combinations are shown necessary by counterexample theorems and are reported as known findings when they occur. The parser is lossless and equals the split-based reference on every input, so nothing is dropped before the codec sees it. On Go: EVERY string accepted by the real Unmarshal in the suites (edit-distance-1 neighbourhoods, splices incl. duplicated parameters and wrap-around integers, all short strings) is checked to be a respelling of the real Marshal of the returned value, and an accepted string whose value Marshal refuses is reported — a disagreement is a concrete failing input.',
        "note": "Kernel-checked in general (Props/C10General.lean, accepted_respell_all): for an ARBITRARY struct type whose options are consistent (no length on integers or the prefix, [n]byte of length n, the 4-symbol integer with length:4, optional fields not inline / not non-empty arrays / not whitelist-typed, distinct group names) every string Unmarshal accepts is a tolerated respelling of what Marshal writes for the value read; needs_intNoLength / needs_arrayLength / needs_desIntLength / needs_optOk show the exclusions are necessary (option combinations no shipped scheme uses; F13 is one of them). Per shipped layout also Accept.accepts_only_respellings_<scheme>. Known findings F10 (param+inline) and F13 (omitempty on non-empty arrays) are reported as such.",
        "rule": "codec: see C10; for every (type, value): every string at edit distance 1 from the canonical marshalling under the class-representative alphabet {$ , = _ 0 9 a Z . / + @ NUL 0xFF} (exhaustive for strings ≤ 24 bytes on a quarter of the types, sampled otherwise), "
                "structural splices (prefix inserted/removed, name=/= removed, fragments swapped/duplicated, group split/merged, junk fragment/group appended), all strings ≤ 4 (quick) / 5 (thorough) over {$ , = a 0 _} for five small types; "
                "non-trivial/distinct = distinct (type, marshalled string) pairs",
        "trusted": COMMON_TRUST,
        "assumptions": ["an explicit sign on an integer field counts as an alternative digit spelling"],
    },
    "C06": {
        "suites": ["classify"],
        "level": "proof",
        "technique": "Lean 4 proof (three-way classification of Check on the pipeline model; every canonical-domain hash of the ten layouts is accepted with exactly its fields) + exhaustive edit-distance-1 classification correspondence on Go",
        "claim": "Kernel-checked: Check returns nil / mismatch / error exactly according to (Unmarshal result, Key result, digest equality) — errors are never reported as mismatch and never swallowed (C02.check_ok_iff, error-return theorems); for all ten shipped layouts every canonical-domain string is accepted and yields exactly its fields (C10.canonical_*), "
                 "zero-length fields are enforced (regenerated shapes). On Go: every string at edit distance 1 from canonical hashes of every scheme (all substitutions, insertions, deletions, truncations under the class alphabet), field-level splices and all short strings are classified identically by the model, incl. error kind, offset and field; Params compared likewise.",
        "note": "The scheme pipeline the theorems speak about IS the current code: FlowModel.flowCheck/flowParams/flowNewHash_eq_model_<scheme> — a value semantics of the flow IR (Spec/FlowVal.lean), instantiated with the model's own unmarshal / key / encoders / ctEq, evaluates the IR REGENERATED from the current source to exactly Scheme.check / params / newHash, for all inputs (all ten schemes; no statement of the IR is left untranslated). Both directions are kernel-checked per shipped layout: Accept.unmarshal_eq_grammar_<scheme> — Unmarshal accepts h with fields out IFF an independently written recogniser of the documented layout (Spec/Grammar.lean: strip prefix, split on $, lengths, alphabets, decimal numbers) accepts h and reads exactly those fields. Partial: not for arbitrary struct types. Finding 9 candidates (explicit rounds=0 / v=0 read as absent) are classified identically by model and code and surface under C06 only through that reading.",
        "rule": "classify: per scheme 1–3 canonical hashes (incl. implicit rounds, absent Argon2 version, both Sun-MD5 forms, $2$/$2a$), every edit at every position with 14 class-representative bytes (insert, substitute), every deletion and truncation, pairwise fragment swaps/duplications/drops, junk appendices — "
                "sampled with a stride to ≤ 1500 (500 for Sun-MD5/bcrypt) ops per hash at quick, 12× that at thorough; × {correct, wrong} password; all strings ≤ 4/6 over {$ , = _ a 0}; "
                "non-trivial/distinct = canonical hashes mutated",
        "trusted": COMMON_TRUST,
        "assumptions": [],
    },
    "C12": {
        "suites": ["scheme"],
        "fail_kinds": ["not-canonical", "incoherent", "fresh-hash-rejected", "newhash-failed", "tampered-digest-accepted", "crash"],
        "level": "proof",
        "technique": "Lean 4 proof (Params and Check apply the same defaults — decided on the regenerated flow IR; canonical-domain round trips of the ten layouts) + byte-for-byte NewHash correspondence and an independent canonical-layout recogniser on Go",
        "claim": "Kernel-checked END TO END on the model for all ten schemes and every request: the string NewHash returns is accepted by an independently written recogniser of the documented layout with exactly the documented prefix, the requested cost in canonical form, a salt of the (regenerated) default length over the alphabet and a fixed-length digest that is Key's own result re-encoded (EndToEnd.newHash_canonical_<scheme>); Params returns the request and the drawn salt (params_of_newHash_<scheme>); Params and Check of every scheme contain the same default-filling statements (decided on the regenerated flow IR); Check succeeds iff Key on the extracted parameters re-encodes to the stored digest (C02.check_ok_iff). On Go: every generated hash matches an independently written regular expression, Params returns the requested cost/options and the generated salt, the hash equals the model's reassembly byte for byte, the BSDi integer coding is compared on every 6-bit boundary and at the exported bound, and Check ⇔ Key(Params) is checked on the accepted non-canonical spellings.",
        "note": "The scheme pipeline the theorems speak about IS the current code: FlowModel.flowCheck/flowParams/flowNewHash_eq_model_<scheme> — a value semantics of the flow IR (Spec/FlowVal.lean), instantiated with the model's own unmarshal / key / encoders / ctEq, evaluates the IR REGENERATED from the current source to exactly Scheme.check / params / newHash, for all inputs (all ten schemes; no statement of the IR is left untranslated). Kernel-checked END TO END on the model for all ten schemes and every request: EndToEnd.newHash_canonical_<scheme> (the returned string is accepted by the independent recogniser Spec/Grammar.lean with the documented prefix, the requested cost in canonical decimal / two-digit / 4-symbol form, a salt of the regenerated default length over the alphabet, a digest of the fixed length over the alphabet, and Key's own result re-encoded) and params_of_newHash_<scheme> (Params returns the request and the drawn salt). "
                "On Go the same is checked by an independently written regular expression, by byte-identity with the model, and by descrypt.EncodeInt/DecodeInt against the model on every 6-bit boundary. Partial: model↔Go tie is differential.",
        "rule": "scheme: see C01; canonical-layout regular expression per scheme; Params compared with the model; non-trivial/distinct = distinct generated hashes",
        "trusted": COMMON_TRUST,
        "assumptions": [],
    },
    "C13": {
        "suites": ["purity"],
        "level": "proof",
        "technique": "Lean 4: flow-insensitive points-to analysis decided by the kernel (`decide +kernel`) on the slice-effect IR of every Key regenerated from the current source with module-internal callees inlined (no store targets an array reachable from an argument or a package variable; every returned slice is rooted in memory allocated by the call) "
                     "+ sentinel-buffer correspondence on Go; determinism by key-for-key agreement with the Lean model, a function of its arguments",
        "claim": "Kernel-checked on the IR regenerated from the current source, for all ten Key functions and everything they call inside this module: under a flow-insensitive points-to over-approximation (every statement may run, any number of times, in any order) no store (x[i]=, copy, PutUintNN, Encode(dst,…), append into spare capacity, h.Sum(b), cipher.Encrypt(dst,…)) can target an array that may belong to an argument or to a package-level variable, "
                 "and every returned slice is rooted only in arrays allocated during the call. The fixpoint is checked (`stable`), not assumed; statements the translator cannot classify become `.unknown`, which fails the obligation. "
                 "Determinism: each Key's Lean model (Scheme.key) is a function of its arguments and agrees with the Go code key for key (suites kdf, purity); the only entropy consumer is sha1's random-rounds request (Gen.Facts.randImports). "
                 "On Go: every Key called with password and salt as sub-slices (len < cap) of sentinel-filled buffers around each truncation limit, whole backing arrays compared before/after, calls repeated/interleaved, results mutated over full capacity.",
        "note": "A property over programs: on a broken obligation the Lean driver names the offending statement (variable names from the regenerated table) and the purity suite looks for a concrete call. Trusted: gogen's slice-effect translator and its table of library calls (which arguments a stdlib/x-crypto call may write, whether its result is fresh); reflection-based hash.Marshal is treated as a library call (covered dynamically).",
        "rule": "purity: per scheme password lengths around the truncation limits (bcrypt 0,1,8,70..74,100,253..256; DES 0,1,7,8; …) × nil/explicit option variants × 2 salts; "
                "arguments as sub-slices with 9/7 spare bytes; the ten regenerated IR programs evaluated by the Lean driver (first offending statement); non-trivial/distinct = distinct (scheme, length, variant)",
        "trusted": COMMON_TRUST + ["gogen slice-effect translator incl. its library-call table (trustedCalls)", "stdlib/x-crypto calls write only the destinations the table says"],
        "assumptions": [],
    },
    "C08": {
        "suites": ["race:conc", "cache"],
        "level": "proof",
        "fail_kinds": ["data-race", "concurrent-result-differs"],
        "technique": "Lean 4 proof about an interleaving model of the type-cache/registry protocol (results isolated and no plain write to a published object, for every schedule) tied by protocol facts measured through the verif hook + Go race-detector exploration",
        "claim": "Kernel-checked on the protocol model for ANY number of threads and ANY interleaving: every getTypeInfo call returns exactly its isolated result (reporting its own argument type) and no published object is ever written — given the two protocol facts (private copy returned; entries keyed by the dereferenced type) that are MEASURED on the real code on every run. "
                 "Go side: N ∈ {2,8,32} goroutines × GOMAXPROCS ∈ {1,2,4,16} run random mixes of Check/NewHash/Params/Key/RegisterHash/Marshal/Unmarshal over all schemes and over shared and first-use struct types under the race detector; every result incl. error text is compared with a sequentially computed table.",
        "note": "Partial: this is the property where the truth lives most in the runtime. The model's access footprints are a hand abstraction tied only by the measured facts and the race detector; sync.Map, reflect and stdlib internals are trusted. Kernel-checked: conc_results_isolated / conc_reports_own_struct / conc_forms_agree / conc_finishes (every call returns its isolated result under ANY schedule), conc_race_free and conc_published_never_written (no conflicting unsynchronised accesses in the model's traces), alias_has_race / alias_results_not_isolated (the repaired defect reproduced in the model), reg_load_last_store / reg_check_deterministic (registry as an atomic map). The concurrent-registration phase of the conc suite also covers races the detector cannot see (lost updates).",
        "rule": "conc (race build): 6 (quick) / 60 (thorough) rounds, each N goroutines × 30 operations drawn from ~100 operations (all schemes' Check ok/bad/malformed, dispatch, NewHash+Check, Params, Key; Marshal in T/*T/**T, Unmarshal ok/error cases, invalid-tag type; registry store/load) "
                "plus first-use operations on a fresh struct type compared with a sibling type; cache: protocol facts measured; non-trivial/distinct = distinct rounds",
        "trusted": COMMON_TRUST + ["Go memory model (DRF-SC), sync.Map, reflect, the race detector"],
        "assumptions": [],
    },
    "C04": {
        "suites": ["argon", "purego:argon"],
        "level": "proof",
        "technique": "Lean 4 proof: the code-shaped Argon2 model (which calls the indexAlpha/phi kernels regenerated from the Go source) equals an independent RFC 9106 reference for all inputs (key_eq_rfc and component theorems) + key-for-key and block-for-block correspondence with the real code on all three code paths",
        "claim": "The Argon2 model (H0, H', block function, fill schedule, version rule, memory rounding) mirrors argon2crypto function by function and uses the reference-index kernel translated from the current source; an independent Lean reference written from RFC 9106 §3 (explicit reference set W, G via the permutation P on the 8×8 register matrix) agrees with it and with the Go code on every grid point. "
                 "Three code paths of the real block function — amd64 assembly with SSE4.1, assembly with SSE4.1 switched off (verif hook), and the portable Go path (-tags purego build of the harness) — give identical keys and identical block outputs on random 1 KiB triples incl. aliased out==in.",
        "note": "Kernel-checked for ALL inputs on the documented domain (1 ≤ p ≤ 255, 8p ≤ m < 2^32; every mode, version, time, key length): C04.key_eq_rfc — the code-shaped model's key equals the independent RFC 9106 reference; component theorems: H' (blake2bHash_eq_H'), H0 layout + injectivity, G = P rows then columns (gb_eq_GB, P_eq_eight_GB, blamka_eq_P, processBlock_eq_G / _xor_eq_G), memory rounding (key_memory_rule, roundedMemory_eq_rfc), reference set (refSet_closed_form, indexAlpha_eq_refIndex on the regenerated kernel). "
                "Partial: the SSE2/SSE4.1 assembly is not modelled — its equality with the portable path is sampled on random and aliased blocks and on whole keys; the Lean BLAKE2b is a hand copy validated differentially against x/crypto (hprime ops).",
        "rule": "argon: 60 (quick) / 1200 (thorough) parameter tuples over 3 variants × versions {0x10,0x13} × lanes 1..8 and 255 × memory 8p..33p incl. non-multiples of 4p × time 1..4 × password 0..200 × salt 8..64 × tag 4..128 — Go (each code path) vs Lean model vs Lean RFC reference; "
                "H' for 16 output lengths; 300 / 20000 random block triples × {xor, overwrite} × 5 aliasing patterns × code paths; 3000 / 100000 indexAlpha tuples incl. the reference-set property checked directly; purego: the same suite on the portable build; "
                "non-trivial/distinct = distinct (variant, version, lanes, memory, time)",
        "trusted": COMMON_TRUST + ["x/crypto BLAKE2b", "the amd64 assembly is executed and compared, never modelled"],
        "assumptions": [],
    },
    "C09": {
        "suites": ["purego-race:argonsched", "argon"],
        "level": "proof",
        "fail_kinds": ["data-race", "schedule-dependent", "goroutine-leak", "reference-set", "differs-from-sequential", "differs-from-rfc", "crash"],
        "technique": "Lean 4 proof (reference-set theorem about the index kernel regenerated from source; schedule independence of tasks with disjoint write regions, for every schedule) + race-detector exploration of the portable build under perturbed scheduling",
        "claim": "Kernel-checked: (1) reference-set theorems about the indexAlpha kernel regenerated from the source (a cross-lane reference never points into the slice being written; a same-lane reference is strictly earlier; everything inside the memory); (2) for tasks that write only their own region and read only it and a frozen area, EVERY schedule leaves each region exactly as the task's solo run; (3) the link to the concrete model: the model's own fill loop is the sequential run of the instantiated lane tasks (C09Link.model_fill_eq_seqFill), hence for every input on the documented domain and EVERY family of complete schedules the phases followed by extractKey give exactly the model's key, which equals the RFC 9106 reference (C04.key_eq_rfc); (4) the goroutine/WaitGroup structure of processBlocks regenerated from the source equals the shape the phase model assumes (workers_joined_facts). Go side: lanes 2..8 × 3 variants × 2 versions × memory {8p, 8p+3, 32p} × time 1..3 × GOMAXPROCS {1,2,3,16} with competing goroutines, on the purego build under the race detector; keys equal the sequential Lean model; goroutine count restored.",
        "note": "Kernel-checked: the reference-set theorems about the generated indexAlpha (refset_in_memory, refset_cross_lane_completed, refset_same_lane_earlier), the generic phase theorem (schedule_independent, complete_schedules_agree, complete_eq_sequential) and its Argon2 instantiation (argon2_phase_local, argon2_no_read_of_foreign_segment, key_schedule_independent: every complete schedule of all 4·time phases equals the sequential fill). "
                "workers_joined_facts: the goroutine structure of processBlocks regenerated from the source (one `go processSegment` per lane inside the slice loop inside the pass loop, wg.Add(1) just before, wg.Wait() just after the lane loop, a fresh WaitGroup per slice, wg.Done() as the worker's last statement, no early exit) equals the shape the phase model assumes. Partial: that this syntax has the modelled meaning (sync.WaitGroup and goroutine semantics, one block operation as the atomic step) is runtime behaviour, tied by the race detector on the portable build and by the goroutine count, not proved. The abstract system is linked to the CONCRETE model (Props/C09Link.lean): processSegment_is_task, model_fill_eq_seqFill (the model's processBlocks = the sequential run of the instantiated lane tasks, cell for cell) and key_eq_any_complete_schedule — for every input on the documented domain and EVERY family of complete schedules, running the phases and extractKey gives exactly the model's key, which is the RFC 9106 reference by C04.key_eq_rfc.",
        "rule": "argonsched (purego, race): 12 (quick) / 300 (thorough) parameter tuples × 5 GOMAXPROCS settings with 4 yielding noise goroutines; key equal across settings and equal to the sequential model; argon: indexAlpha reference-set property on 3000 / 100000 tuples; non-trivial/distinct = distinct parameter tuples",
        "trusted": COMMON_TRUST + ["sync.WaitGroup / goroutine semantics", "Go memory model"],
        "assumptions": [],
    },
}
