"""Per-property configuration of the check runner."""

COMMON_TRUST = [
    "gogen translator (go/packages, go/types) for everything under lean/GoCrypt/Gen",
    "correspondence harness: hand-written model parts are tied to the Go code by differential runs, not for all inputs",
]

PROPS = {
    "C11": {
        "suites": ["parse"],
        "level": "proof",
        "technique": "Lean 4 proof (induction over the input with a loop invariant on the parser state) + Go/Lean correspondence + exhaustive small-scope search on Go",
        "claim": "Kernel-checked theorems about the lexer/parser model for ALL byte strings: failure iff empty/unterminated '$' identifier, lexer lossless, "
                 "tree renders to the input up to one trailing delimiter, every span is the substring holding its text, groups non-empty, "
                 "the lexer's terminal token is its last (never blocked). The hand-written model is tied to hash/parse by exhaustive small-scope "
                 "and random differential runs (tokens and trees incl. positions) against the real code, and against an independent split-based reference parser.",
        "note": "Trusted: Lean kernel + propext/Classical.choice/Quot.sound; the model↔code tie is differential (not for all inputs); channel = rendezvous; goroutine exit observed, not proved.",
        "rule": "parse: every string up to length 7 (quick) / 9 (thorough) over {$ , _ = a} (exhaustive) plus random byte strings up to 4 KiB; "
                "each is parsed by Go, by the Lean model and by the Lean reference parser, token streams compared up to length 6; "
                "non-trivial/distinct = distinct result trees (including spans) or errors",
        "trusted": COMMON_TRUST + ["Go channel/goroutine runtime (the channel is modelled as a rendezvous)"],
        "assumptions": ["unbuffered channel modelled as rendezvous; goroutine exit observed by runtime.NumGoroutine"],
    },
    "C07": {
        "suites": ["dispatch"],
        "level": "proof",
        "technique": "Lean 4 proof (refinement of the dispatcher to a last-writer-wins map over all registration histories; prefix rule = lexer rule) + regenerated init-registration facts decided by `decide` + Go/Lean correspondence with recording stub handlers",
        "claim": "Kernel-checked for ALL hashes, passwords and registration histories: crypt.Check's model refines a last-writer-wins map keyed by the statement's prefix rule, "
                 "passes hash/password through unchanged, returns ErrHash without a call exactly for ill-formed or unregistered prefixes, registering one prefix leaves others untouched, "
                 "the dispatcher's prefix equals the parse tree's prefix (and fails exactly when the lexer fails); every documented Prefix* constant is registered in its package's init "
                 "(facts regenerated from the source). crypt.go's 15-line Check is hand-modelled and tied by exhaustive small-scope runs with recording stubs.",
        "note": "Trusted: sync.Map as an atomic map; gogen's extraction of init registrations; correspondence is differential.",
        "rule": "dispatch: 15 documented prefixes probed through the real registry; then recording stubs: every string up to length 6 (quick) / 8 (thorough) over {$ , _ a b} (exhaustive), "
                "every registration history up to length 3 (quick) / 4 (thorough) over 6 prefixes incl. re-registration, '_', '' and a built-in prefix, probing all 6 after each step; random strings/histories; "
                "non-trivial/distinct = distinct (outcome kind, handler, length) classes and distinct histories",
        "trusted": COMMON_TRUST + ["sync.Map modelled as an atomic last-writer-wins map"],
        "assumptions": ["registry histories are cumulative within the harness process; fresh prefix identifiers make each history start from an unregistered state"],
    },
    "C16": {
        "suites": ["b64"],
        "level": "proof",
        "technique": "Lean 4 proof over kernels regenerated from base64le.go (OR-decomposition of the shift/mask expressions + exhaustive per-byte kernel evaluation + induction over 3-byte groups and over the three decode loops) + Go/Lean/bit-level-reference correspondence",
        "claim": "Kernel-checked for ALL byte strings and every padding/strict mode: Encode = the bit-level definition (symbols are successive 6-bit groups of b0|b1<<8|b2<<16), "
                 "every alphabet index < 64, length arithmetic, decodeMap inverts the alphabet, the 64-bit/32-bit/per-quantum decode paths compute the same bytes, "
                 "Decode(Encode(x)) = x on the faithful three-loop model, corrupt/strict rejections at quantum level, the exported encodings' alphabets and no-padding (facts regenerated from source). "
                 "The shift/mask expressions are regenerated from the Go source on every run; the loop structure is hand-modelled and tied by differential runs.",
        "note": "Trusted: gogen's expression translator; loop structure of Encode/Decode tied by correspondence only; malformed-text characterisation beyond the quantum level is sampled, not proved.",
        "rule": "b64: EncodedLen/DecodedLen for n ≤ 300; all 256 one-byte tails, two-byte tails (all 65536 at thorough), 2^16 (quick) / 2^21 (thorough) random three-byte groups, "
                "random strings up to 4096 bytes in four modes decoded into buffers of five sizes (8-symbol, 4-symbol and quantum paths counted), random symbol quanta with injected bad symbols/padding/newlines, single edits of valid encodings; "
                "Go vs Lean model, plus Go vs an independent bit-level reference encoder and Decode∘Encode = id directly on Go; non-trivial/distinct = distinct one-/two-byte tails and random strings",
        "trusted": COMMON_TRUST + ["Go's encoding/base64 (BigEndianEncoding, bcrypt.Encoding) is stdlib and only observed"],
        "assumptions": ["EncodedLen/DecodedLen arithmetic is modelled over Nat (no int overflow for inputs below 2^60 bytes)"],
    },
    "C17": {
        "suites": ["stream"],
        "level": "proof",
        "technique": "Lean 4 proof (state-machine invariants over arbitrary chunkings, reader scripts and writer fault scripts; induction over the operation list) + Go/Lean correspondence with scripted io.Writer/io.Reader faults",
        "claim": "Kernel-checked for ALL chunkings, ALL writer fault scripts and ALL reader fragmentations (short reads, embedded newlines, zero-length reads, data delivered together with EOF or an error) and all caller buffer sizes ≥ 1: "
                 "encoder+Close = one-shot Encode; under a writer fault the bytes written are a prefix of the one-shot encoding, the failing call returns the error and every later Write/Close returns it; "
                 "the decoder delivers exactly the one-shot decoding and then the reader's error (EOF stays EOF), never a (0, nil) read. Model functions are total, so nothing panics in the model. "
                 "The state machines (Write/Close/Read/newline filter) are hand-modelled and tied to base64le.go by differential runs incl. exhaustive compositions of short data and faults at every underlying call index.",
        "note": "Trusted: the scripted reader/writer are well-behaved io.Reader/io.Writer (a reader that returns (0,nil) forever makes the Go decoder spin; outside the property); model↔code tie is differential.",
        "rule": "stream: all compositions of data of length ≤ 7 (quick) / ≤ 9 (thorough) in two padding modes; writer faults (error only / partial write + error) at every underlying call index 0..3 for data ≤ 6; "
                "random chunkings of data up to 5000 bytes (768-byte interior path) with random faults; decoder: random fragmentations with zero-length reads, embedded newlines (incl. runs of 37..1500 newlines), "
                "data+EOF, data+error, sticky non-EOF errors, caller buffers 1..4096; each run checked on Go directly against one-shot Encode/Decode and diffed with the Lean state machines; "
                "non-trivial/distinct = distinct compositions / random runs",
        "trusted": COMMON_TRUST,
        "assumptions": ["underlying writer/reader follow the io contracts (accept-all or fail; data never longer than requested)"],
    },
}
