"""Per-property configuration of the check runner."""

COMMON_TRUST = [
    "gogen translator (go/packages, go/types) for everything under lean/GoCrypt/Gen",
    "correspondence harness: hand-written model parts are tied to the Go code by differential runs, not for all inputs",
]

PROPS = {
    "C11": {
        "suites": ["parse"],
        "level": "proof",
        "technique": "Lean 4 proof (induction over the input with a loop invariant on the parser state) + Go/Lean correspondence + exhaustive small-scope search on Go",
        "claim": "Kernel-checked theorems about the lexer/parser model for ALL byte strings: failure iff empty/unterminated '$' identifier, lexer lossless, "
                 "tree renders to the input up to one trailing delimiter, every span is the substring holding its text, groups non-empty, "
                 "the lexer's terminal token is its last (never blocked). The hand-written model is tied to hash/parse by exhaustive small-scope "
                 "and random differential runs (tokens and trees incl. positions) against the real code, and against an independent split-based reference parser.",
        "note": "Trusted: Lean kernel + propext/Classical.choice/Quot.sound; the model↔code tie is differential (not for all inputs); channel = rendezvous; goroutine exit observed, not proved.",
        "rule": "parse: every string up to length 7 (quick) / 9 (thorough) over {$ , _ = a} (exhaustive) plus random byte strings up to 4 KiB; "
                "each is parsed by Go, by the Lean model and by the Lean reference parser, token streams compared up to length 6; "
                "non-trivial/distinct = distinct result trees (including spans) or errors",
        "trusted": COMMON_TRUST + ["Go channel/goroutine runtime (the channel is modelled as a rendezvous)"],
        "assumptions": ["unbuffered channel modelled as rendezvous; goroutine exit observed by runtime.NumGoroutine"],
    },
}
