#!/bin/bash
# seed_regress.sh — applies every seeded change in turn and runs the quick check of ITS OWN property; one line per change.
cd /verif
for d in seeded/*/; do
  id=$(basename $d)
  prop=$(python3 -c "import json;print(json.load(open('$d/meta.json'))['property'])")
  runner=lib/seed_run.sh; [ -n "$SEED_ALT" ] && runner=lib/seed_run_alt.sh   # SEED_ALT=1: leave /repo alone (scratch worktree + VERIF_REPO)
  out=$($runner /verif/$d/patch.diff $prop 2>&1)
  v=$(echo "$out" | grep -E "^(OK|VIOLATION)" | head -1 | cut -c1-90)
  k=$(echo "$out" | grep -E "^  failing-input" | head -1 | sed 's/^  failing-input\[\([^]]*\)\].*/\1/')
  pr=intact; echo "$out" | grep -q "^  broken\[proof\]" && pr=broken
  co=intact; echo "$out" | grep -q "^  broken\[correspondence\]" && co=broken
  echo "$id | $prop | $v | first-failing-kind=${k:--} | proof=$pr | correspondence=$co"
done
git -C /repo status --short | head -3
# leave lean/GoCrypt/Gen describing the unchanged tree again (it is committed)
rm -f run/gogen.stamp; ./run/bin/gogen -repo /repo -out lean/GoCrypt/Gen >/dev/null 2>&1; git -C /repo worktree prune
