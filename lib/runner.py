import argparse, fcntl, glob, hashlib, json, os, re, shutil, subprocess, sys, time

ROOT = os.path.dirname(os.path.dirname(os.path.abspath(__file__)))
REPO = os.environ.get("VERIF_REPO", "/repo")
LEAN = os.path.join(ROOT, "lean")
RUN = os.path.join(ROOT, "run")
BIN = os.path.join(RUN, "bin")

GOENV = dict(os.environ, GOFLAGS="-mod=mod", GOPROXY="off", GOSUMDB="off", GOTOOLCHAIN="local",
             CGO_ENABLED=os.environ.get("CGO_ENABLED", "1"))

ALLOWED_AXIOMS = {"propext", "Classical.choice", "Quot.sound"}
FORBIDDEN = re.compile(r"\b(sorry|admit|native_decide|implemented_by|unsafe)\b|^\s*axiom\s|maxHeartbeats\s+0\b", re.M)

from props import PROPS  # noqa: E402

# operations whose expected answer is fixed by the property (the implementation side always prints the
# answer the property demands); the Lean side evaluates the specification predicate on the implementation's value
# (suite, op) pairs whose Lean side is a SPECIFICATION proved or written independently of the code: a
# disagreement is a concrete input on which the implementation departs from it.
DIRECT_BY_SUITE = {
    ("argon", "argon2rfc"): ("differs-from-rfc", "Key differs from the RFC 9106 reference evaluated in Lean"),
    ("argon", "argon2key"): ("differs-from-rfc", "Key differs from the Lean model (proved equal to the RFC 9106 reference: C04.key_eq_rfc)"),
    ("argon", "hprime"): ("differs-from-rfc", "the variable-length hash H' differs from RFC 9106 §3.3 (model proved equal: C04.blake2bHash_eq_H')"),
    ("argon", "block"): ("differs-from-rfc", "the compression function G differs from RFC 9106 §3.5 (model proved equal: C04.processBlock_eq_G)"),
    ("argon", "ialpha"): ("differs-from-rfc", "the reference index differs from RFC 9106 §3.4 (kernel regenerated from source; C04.indexAlpha_eq_refIndex)"),
    ("argonsched", "argon2key"): ("differs-from-sequential", "the key computed by the concurrent lanes differs from the sequential evaluation (C09.key_schedule_independent)"),
    ("xcrypt", "newhash"): ("differs-from-spec", "NT hash of non-ASCII text differs from MD4 of its UTF-16LE encoding (model proved equal to that reference: C03b.nthash_eq_spec)"),
    ("salt", "newhash"): ("salt", "the generated hash is not the specified function of the entropy delivered by crypto/rand (salt symbols / bytes consumed)"),
}
# suites whose operations the driver answers without any state carried between lines
STATELESS_SUITES = {"scheme", "classify", "kdf", "guards", "xcrypt", "argon", "argonsched", "salt", "purity", "parse", "b64"}
DIRECT_OPS = {"respell": "not-a-respelling", "secretsafe": "secret-dependent-flow", "accepts": "bounds", "sliceeffects": "slice-effect"}


def sh(cmd, cwd=None, env=None, timeout=None, stdin=None, stdout=None):
    t0 = time.time()
    p = subprocess.run(cmd, cwd=cwd, env=env, timeout=timeout, stdin=stdin,
                       stdout=stdout if stdout is not None else subprocess.PIPE, stderr=subprocess.STDOUT, text=(stdout is None))
    return p.returncode, (p.stdout if stdout is None else ""), time.time() - t0


class Lock:
    def __init__(self, path):
        os.makedirs(os.path.dirname(path), exist_ok=True)
        self.f = open(path, "w")

    def __enter__(self):
        fcntl.flock(self.f, fcntl.LOCK_EX)
        return self

    def __exit__(self, *a):
        fcntl.flock(self.f, fcntl.LOCK_UN)
        self.f.close()


def repo_source_digest():
    h = hashlib.sha256()
    files = []
    for dp, dn, fn in os.walk(REPO):
        dn[:] = [d for d in dn if d != ".git"]
        for f in fn:
            if f.endswith(".go") or f.endswith(".s") or f in ("go.mod", "go.sum"):
                files.append(os.path.join(dp, f))
    for f in sorted(files):
        h.update(f.encode())
        with open(f, "rb") as fh:
            h.update(hashlib.sha256(fh.read()).digest())
    return h.hexdigest()


def dir_digest(d, exts):
    h = hashlib.sha256()
    for dp, dn, fn in os.walk(d):
        dn[:] = sorted(x for x in dn if not x.startswith("."))
        for f in sorted(fn):
            if f.endswith(exts):
                p = os.path.join(dp, f)
                h.update(p.encode())
                with open(p, "rb") as fh:
                    h.update(fh.read())
    return h.hexdigest()


def build_go_tool(name, tags=None, race=False, suffix=""):
    """Build /verif/<name> into run/bin/<name><suffix>."""
    src = os.path.join(ROOT, name)
    out = os.path.join(BIN, name + suffix)
    os.makedirs(BIN, exist_ok=True)
    if not os.path.exists(os.path.join(src, "go.sum")) or name == "harness":
        shutil.copyfile(os.path.join(REPO, "go.sum"), os.path.join(src, "go.sum"))
    extra = []
    if name == "harness" and os.path.abspath(REPO) != "/repo":
        # VERIF_REPO points at another checkout (a scratch worktree with a seeded change, a sweep's snapshot):
        # same module file with the replace directive redirected
        alt = os.path.join(RUN, "altmod")
        os.makedirs(alt, exist_ok=True)
        mod = open(os.path.join(src, "go.mod")).read().replace("=> /repo", "=> " + os.path.abspath(REPO))
        with open(os.path.join(alt, "go.mod"), "w") as fh:
            fh.write(mod)
        shutil.copyfile(os.path.join(REPO, "go.sum"), os.path.join(alt, "go.sum"))
        extra = ["-modfile=" + os.path.join(alt, "go.mod")]
    cmd = ["go", "build"] + extra + (["-race"] if race else []) + (["-tags", tags] if tags else []) + ["-o", out, "."]
    rc, outp, dt = sh(cmd, cwd=src, env=GOENV, timeout=900)
    return rc, outp


FLAVORS = {
    "": dict(tags="verif", race=False),
    "race": dict(tags="verif", race=True),
    "purego": dict(tags="verif purego", race=False),
    "purego-race": dict(tags="verif purego", race=True),
}


def split_suite(spec):
    if ":" in spec:
        fl, name = spec.split(":", 1)
        return fl, name
    return "", spec


def run_gogen(log):
    """Regenerate lean/GoCrypt/Gen from /repo. Returns (ok, message)."""
    src_digest = repo_source_digest()
    stamp = os.path.join(RUN, "gogen.stamp")
    tool_digest = dir_digest(os.path.join(ROOT, "gogen"), (".go", ".mod"))
    want = src_digest + ":" + tool_digest
    gen_dir = os.path.join(LEAN, "GoCrypt", "Gen")
    if os.path.exists(stamp) and open(stamp).read().strip() == want and glob.glob(os.path.join(gen_dir, "*.lean")):
        return True, "gogen: up to date (" + src_digest[:12] + ")", src_digest
    rc, outp = build_go_tool("gogen")
    if rc != 0:
        return False, "gogen build failed:\n" + outp, src_digest
    rc, outp, dt = sh([os.path.join(BIN, "gogen"), "-repo", REPO, "-out", gen_dir], env=GOENV, timeout=600)
    log.append("gogen: %.1fs rc=%d" % (dt, rc))
    if rc != 0:
        if os.path.exists(stamp):
            os.remove(stamp)
        return False, "gogen failed (source no longer fits the translated fragment):\n" + outp, src_digest
    with open(stamp, "w") as f:
        f.write(want)
    return True, outp.strip(), src_digest


def strip_lean_comments(s):
    s = re.sub(r"/-.*?-/", "", s, flags=re.S)
    s = re.sub(r"--.*", "", s)
    return s


def forbidden_tokens():
    hits = []
    for p in glob.glob(os.path.join(LEAN, "**", "*.lean"), recursive=True):
        if "/.lake/" in p:
            continue
        body = strip_lean_comments(open(p).read())
        body = re.sub(r'"(?:[^"\\]|\\.)*"', '""', body)
        for m in FORBIDDEN.finditer(body):
            hits.append("%s: %s" % (os.path.relpath(p, LEAN), m.group(0).strip()))
    return hits


def lean_audit(pid, log):
    """Build the property's theorems and audit them. Returns dict."""
    mod = "GoCrypt.Props." + pid
    path = os.path.join(LEAN, "GoCrypt", "Props", pid + ".lean")
    res = {"obligations": 0, "discharged": 0, "theorems": [], "failed": [], "axioms": {}, "errors": [], "bv_axioms": 0}
    if not os.path.exists(path):
        res["errors"].append("no Props file for " + pid)
        return res
    src = open(path).read()
    body = strip_lean_comments(src)
    local = re.findall(r"^theorem\s+([A-Za-z0-9_.']+)", body, flags=re.M)
    audited = re.findall(r"^#print axioms\s+([A-Za-z0-9_.']+)", body, flags=re.M)
    # obligations = every theorem the file audits with `#print axioms` (its own, or property theorems it
    # takes from a shared Props file); a local theorem that is not audited counts as undischarged
    names = []
    for n in audited:
        if n not in names:
            names.append(n)
    for n in local:
        if not any(a == n or a.endswith("." + n) for a in audited):
            names.append(n)
    res["theorems"] = names
    res["obligations"] = len(names)
    rc, outp, dt = sh(["lake", "build", mod, "driver"], cwd=LEAN, timeout=3600)
    log.append("lake build %s driver: %.1fs rc=%d" % (mod, dt, rc))
    if rc != 0:
        # name what stopped checking first: the modules lake could not build and the first error of each
        mods = re.findall(r"^✖ \[\d+/\d+\] Building (\S+)", outp, flags=re.M)
        firsts = re.findall(r"^error: (\S+?\.lean:\d+:\d+: .*)$", outp, flags=re.M)
        res["stopped_checking"] = {"modules": mods[:10], "first_errors": [e[:300] for e in firsts[:5]]}
        res["errors"].append("lake build failed:\n" + outp[-6000:])
    rc2, outp2, dt2 = sh(["lake", "env", "lean", os.path.relpath(path, LEAN)], cwd=LEAN, timeout=3600)
    log.append("lean %s: %.1fs rc=%d" % (os.path.basename(path), dt2, rc2))
    # axioms report
    ax = {}
    # theorem names may themselves contain a prime (secretSafe'_md5): match up to the closing quote before " depends"
    for m in re.finditer(r"'(\S+)' depends on axioms: \[(.*?)\]", outp2, flags=re.S):
        ax[m.group(1)] = [a.strip() for a in m.group(2).replace("\n", " ").split(",") if a.strip()]
    for m in re.finditer(r"'(\S+)' does not depend on any axioms", outp2):
        ax[m.group(1)] = []
    errs = re.findall(r"^(.*?:\d+:\d+: error: .*)$", outp2, flags=re.M)
    if rc2 != 0 and not errs:
        errs = [outp2[-3000:]]
    res["errors"] += errs[:20]
    for n in names:
        full = [k for k in ax if k == n or k.endswith("." + n) or n.endswith("." + k)]
        if not full:
            res["failed"].append(n + " (no axiom report: not proved or not audited)")
            continue
        axs = ax[full[0]]
        res["axioms"][n] = axs
        bad = [a for a in axs if a not in ALLOWED_AXIOMS and "bv_decide" not in a]
        if "sorryAx" in axs or bad:
            res["failed"].append(n + " (axioms: " + ", ".join(axs) + ")")
            continue
        res["bv_axioms"] += sum(1 for a in axs if "bv_decide" in a)
        res["discharged"] += 1
    if rc != 0:
        # the module or one of its imports did not build: nothing counts as discharged
        pass
    return res


# per-scheme suites run as one harness process per scheme (the entropy script swaps the process-global
# crypto/rand.Reader, so schemes cannot share a process concurrently); outputs are merged in shard order
SHARDED_SUITES = {"scheme", "classify", "kdf", "guards"}
NSHARDS = 10


def run_sharded(cmd, env, workdir, suite):
    t1 = time.time()
    procs = []
    for i in range(NSHARDS):
        sd = os.path.join(workdir, "shard%d" % i)
        shutil.rmtree(sd, ignore_errors=True)
        os.makedirs(sd)
        c = list(cmd)
        c[c.index("-out") + 1] = sd
        c += ["-shard", "%d/%d" % (i, NSHARDS)]
        lf = open(os.path.join(sd, "stdout"), "wb")
        procs.append((subprocess.Popen(c, env=env, stdout=lf, stderr=subprocess.STDOUT), lf, sd))
    rc, outp = 0, ""
    metas = []
    for pr, lf, sd in procs:
        try:
            prc = pr.wait(timeout=7200)
        except subprocess.TimeoutExpired:
            pr.kill()
            prc = 124
        lf.close()
        if prc != 0:
            rc = rc or prc
            outp += open(os.path.join(sd, "stdout"), errors="replace").read()[-2000:]
    if rc == 0:
        for ext in (".ops", ".go"):
            with open(os.path.join(workdir, suite + ext), "wb") as out:
                for _, _, sd in procs:
                    out.write(open(os.path.join(sd, suite + ext), "rb").read())
        merged = None
        for _, _, sd in procs:
            m = json.load(open(os.path.join(sd, suite + ".json")))
            if merged is None:
                merged = m
                merged["propfails"] = m.get("propfails") or []
                merged["samples"] = m.get("samples") or []
                merged["extra"] = m.get("extra") or {}
                continue
            merged["ops"] += m["ops"]
            merged["direct"] = merged.get("direct", 0) + m.get("direct", 0)
            merged["distinct_nontrivial"] += m["distinct_nontrivial"]
            for k, v in (m.get("stats") or {}).items():
                merged["stats"][k] = merged["stats"].get(k, 0) + v
            merged["propfails"] += m.get("propfails") or []
            merged["samples"] += (m.get("samples") or [])[:3]
            for k, v in (m.get("extra") or {}).items():
                merged["extra"].setdefault(k, v)
        merged["extra"]["shards"] = NSHARDS
        json.dump(merged, open(os.path.join(workdir, suite + ".json"), "w"))
    if rc == 0:
        for _, _, sd in procs:
            shutil.rmtree(sd, ignore_errors=True)
    return rc, outp, time.time() - t1


def run_suite(pid, suite, tier, seed, workdir, log, replay=None):
    flavor, suite = split_suite(suite)
    if flavor:
        workdir = os.path.join(workdir, flavor)   # the same suite may run in several build flavours
    os.makedirs(workdir, exist_ok=True)
    for ext in (".ops", ".go", ".lean", ".json"):
        p = os.path.join(workdir, suite + ext)
        if os.path.exists(p):
            os.remove(p)
    race = FLAVORS[flavor]["race"]
    label = (flavor + ":" if flavor else "") + suite
    cmd = [os.path.join(BIN, "harness" + ("-" + flavor if flavor else "")), suite, "-out", workdir, "-seed", str(seed), "-tier", tier]
    if replay:
        cmd += ["-replay", replay]
    env = dict(GOENV, GOMEMLIMIT="12GiB")
    racelog = os.path.join(workdir, "race-" + suite)
    if race:
        for f in glob.glob(racelog + ".*"):
            os.remove(f)
        env["GORACE"] = "halt_on_error=0 exitcode=0 log_path=" + racelog
    if suite in SHARDED_SUITES and not race:
        rc, outp, dt = run_sharded(cmd, env, workdir, suite)
    else:
        rc, outp, dt = sh(cmd, env=env, timeout=7200)
    log.append("harness %s: %.1fs rc=%d" % (suite, dt, rc))
    r = {"suite": label, "ops": 0, "mismatches": [], "propfails": [], "stats": {}, "samples": [], "distinct": 0, "extra": {},
         "harness_rc": rc, "harness_out": outp[-2000:]}
    if rc != 0:
        # a crash the harness could not recover from (a panic inside a goroutine started by the library, a runtime
        # fatal error): the operation that was pending is the failing input
        pend = sorted(glob.glob(os.path.join(workdir, "shard*", suite + ".pending")) + glob.glob(os.path.join(workdir, suite + ".pending")))
        for pf in pend:
            txt = open(pf, errors="replace").read().strip()
            if txt:
                m = re.search(r"(panic: [^\n]*|fatal error: [^\n]*)", outp)
                r["propfails"].append({"kind": "crash", "desc": "the process died while executing this operation: " + (m.group(1) if m else "see harness output"),
                                       "input": {"suite": label, "op": txt[:3000]}})
        return r
    meta = json.load(open(os.path.join(workdir, suite + ".json")))
    r["direct"] = meta.get("direct", 0)
    r.update(ops=meta["ops"], propfails=meta["propfails"] or [], stats=meta["stats"], samples=meta["samples"] or [],
             distinct=meta["distinct_nontrivial"], extra=meta.get("extra") or {})
    if race:
        reports = []
        for f in sorted(glob.glob(racelog + ".*")):
            txt = open(f, errors="replace").read()
            reports += [b for b in txt.split("==================") if "DATA RACE" in b]
        r["extra"]["race_detector"] = "on"
        r["extra"]["race_reports"] = len(reports)
        for b in reports[:5]:
            sites = re.findall(r"^\s+(" + re.escape(os.path.abspath(REPO)) + r"/\S+:\d+)", b, flags=re.M)
            r["propfails"].append({"kind": "data-race", "desc": "race detector: unsynchronised conflicting accesses at " + ", ".join(dict.fromkeys(sites[:4])),
                                   "input": {"suite": label, "report": b.strip()[:3000]}})
    opsf = os.path.join(workdir, suite + ".ops")
    if meta["ops"] > 0:
        drv = os.path.join(LEAN, ".lake", "build", "bin", "driver")
        leanf = os.path.join(workdir, suite + ".lean")
        if suite in STATELESS_SUITES and meta["ops"] >= 400:
            # every line of these suites is answered independently of the others: split the operation file
            # into contiguous chunks, answer them in parallel, concatenate the answers in order
            t1 = time.time()
            lines = open(opsf, "rb").read().splitlines(keepends=True)
            k = min(14, max(1, len(lines) // 100))
            procs = []
            for i in range(k):
                cf = os.path.join(workdir, "%s.ops.%d" % (suite, i))
                with open(cf, "wb") as fh:
                    fh.writelines(lines[i::k])      # round-robin: expensive operations cluster by scheme
                fin = open(cf, "rb")
                fout = open(cf + ".lean", "wb")
                procs.append((subprocess.Popen([drv], stdin=fin, stdout=fout), fin, fout, cf))
            rc = 0
            answers = []
            for pr, fin, fout, cf in procs:
                try:
                    prc = pr.wait(timeout=7200)
                except subprocess.TimeoutExpired:
                    pr.kill()
                    prc = 124
                fin.close()
                fout.close()
                rc = rc or prc
                answers.append(open(cf + ".lean", "rb").read().splitlines(keepends=True))
                os.remove(cf)
                os.remove(cf + ".lean")
            with open(leanf, "wb") as out:
                for j in range(len(lines)):
                    a = answers[j % k]
                    out.write(a[j // k] if j // k < len(a) else b"<no answer>\n")
            dt = time.time() - t1
        else:
            with open(opsf, "rb") as fin, open(leanf, "wb") as fout:
                rc, _, dt = sh([drv], stdin=fin, stdout=fout, timeout=7200)
        log.append("driver %s: %.1fs rc=%d" % (suite, dt, rc))
        r["driver_rc"] = rc
        n = 0
        with open(opsf) as fo, open(os.path.join(workdir, suite + ".go")) as fg, open(os.path.join(workdir, suite + ".lean")) as fl:
            for op in fo:
                g = fg.readline()
                l = fl.readline()
                n += 1
                # the model may append " #key=value" annotations (e.g. the class of a shape); they are not compared
                ann = ""
                if " #" in l:
                    l, ann = l.split(" #", 1)
                    l = l.rstrip() + "\n"
                word = op.split(" ", 1)[0]
                if word == "roundtrip" and "dom=in" in ann and g.strip() != "rt-ok":
                    # inside the hypothesis of C10 the implementation itself failed to round-trip
                    inp = {"suite": suite, "op": op.strip()[:2000]}
                    for kv in ann.split():
                        if "=" in kv:
                            k, v = kv.split("=", 1)
                            inp[k] = v
                    if len(r["propfails"]) < 50:
                        r["propfails"].append({"kind": "roundtrip", "desc": "Marshal accepted the value but Unmarshal(Marshal(v)) gave " + g.strip(), "input": inp})
                    r["stats"]["propfail:roundtrip"] = r["stats"].get("propfail:roundtrip", 0) + 1
                if word == "roundtrip" and l.strip() == "rt-merr" and g.strip() in ("rt-reject", "rt-diff"):
                    # the implementation's Marshal accepted a value (the model says it must be rejected) and the
                    # string it wrote does not unmarshal back: a concrete round-trip failure on the real code
                    inp = {"suite": suite, "op": op.strip()[:2000], "class": "marshal-accepts-unreadable"}
                    if len(r["propfails"]) < 50:
                        r["propfails"].append({"kind": "roundtrip", "desc": "Marshal accepted the value but Unmarshal(Marshal(v)) gave " + g.strip(), "input": inp})
                if g.strip() in ("panic", "timeout") or g.startswith("panic ") or g.startswith("timeout "):
                    # the implementation did not return normally on this operation (recover / watchdog in the harness)
                    inp = {"suite": suite, "op": op.strip()[:3000]}
                    if len(r["propfails"]) < 50:
                        r["propfails"].append({"kind": "op-" + g.strip().split(" ")[0], "desc": "the implementation did not return normally: " + g.strip()[:80], "input": inp})
                    r["stats"]["propfail:op-panic"] = r["stats"].get("propfail:op-panic", 0) + 1
                if word == "restable" and g.strip() == "remarshal-failed" and l.strip() == "remarshal-failed":
                    # Unmarshal accepted a string whose value Marshal refuses to write: nothing it could be a respelling of
                    inp = {"suite": suite, "op": op.strip()[:2000]}
                    for kv in ann.split():
                        if "=" in kv:
                            k, v = kv.split("=", 1)
                            inp[k] = v
                    if len(r["propfails"]) < 50:
                        r["propfails"].append({"kind": "accepted-unwritable", "desc": "Unmarshal accepted the string, but Marshal rejects the value it returned (%s)" % inp.get("class", "?"), "input": inp})
                    r["stats"]["propfail:accepted-unwritable"] = r["stats"].get("propfail:accepted-unwritable", 0) + 1
                if word == "b64decs" and " nil" in g and "corrupt" in l and g != l:
                    inp = {"suite": suite, "op": op.strip()[:2000]}
                    if len(r["propfails"]) < 50:
                        r["propfails"].append({"kind": "malformed-accepted", "desc": "DecodeString returned no error for a text the bit-level reference rejects as corrupt (%s)" % l.strip(), "input": inp})
                if word == "roundtrip":
                    r["stats"]["roundtrip:" + ("in" if "dom=in" in ann else "out") + ":" + g.strip()] = r["stats"].get("roundtrip:" + ("in" if "dom=in" in ann else "out") + ":" + g.strip(), 0) + 1
                if word == "restable" and g.strip() in ("reject", "diff") and "dom=in" in ann:
                    inp = {"suite": suite, "op": op.strip()[:2000]}
                    for kv in ann.split():
                        if "=" in kv:
                            k, v = kv.split("=", 1)
                            inp[k] = v
                    if len(r["propfails"]) < 50:
                        r["propfails"].append({"kind": "remarshal-unstable", "desc": "re-marshalling an unmarshalled value gave a string that unmarshals differently: " + g.strip(), "input": inp})
                if g != l:
                    if suite == "classify" and word in ("check", "params"):
                        # the Lean side is the pipeline model, whose accepted language is PROVED equal to the independent
                        # recogniser of the documented layouts (Accept.unmarshal_eq_grammar_*): a different CLASS
                        # (verifies / mismatch / malformed; Params values) is a concrete misclassified string
                        def cls(x):
                            t = x.strip().split(" ", 1)[0]
                            return t if t in ("nil", "mismatch") else (x.strip() if t == "ok" else "error")
                        if cls(g) != cls(l):
                            inp = {"suite": suite, "op": op.strip()[:2000], "implementation": g.strip()[:300], "specification": l.strip()[:300]}
                            if len(r["propfails"]) < 50:
                                r["propfails"].append({"kind": "misclassified", "desc": "the implementation classifies this string as %r, the documented layout as %r" % (cls(g)[:60], cls(l)[:60]), "input": inp})
                            r["stats"]["propfail:misclassified"] = r["stats"].get("propfail:misclassified", 0) + 1
                    if (suite, word) in DIRECT_BY_SUITE and word not in DIRECT_OPS:
                        inp = {"suite": suite, "op": op.strip()[:3000], "implementation": g.strip()[:600], "reference": l.strip()[:600]}
                        kind, what = DIRECT_BY_SUITE[(suite, word)]
                        if len(r["propfails"]) < 50:
                            r["propfails"].append({"kind": kind, "desc": what, "input": inp})
                        r["stats"]["propfail:" + kind] = r["stats"].get("propfail:" + kind, 0) + 1
                    if word in DIRECT_OPS:
                        # the operation evaluates the property itself on a value the implementation produced:
                        # a disagreement is a concrete failing input, not a modelling gap
                        inp = {"suite": suite, "op": op.strip()[:2000]}
                        for kv in ann.split():
                            if "=" in kv:
                                k, v = kv.split("=", 1)
                                inp[k] = v
                        if len(r["propfails"]) < 50:
                            r["propfails"].append({"kind": DIRECT_OPS[word], "desc": "implementation: %s, specification: %s" % (g.strip(), l.strip()), "input": inp})
                        r["stats"]["propfail:" + DIRECT_OPS[word]] = r["stats"].get("propfail:" + DIRECT_OPS[word], 0) + 1
                        continue
                    if len(r["mismatches"]) < 20:
                        r["mismatches"].append({"line": n, "op": op.strip(), "go": g.strip(), "model": l.strip()})
                    r["n_mismatch"] = r.get("n_mismatch", 0) + 1
        if rc != 0:
            r["mismatches"].append({"line": 0, "op": "(driver)", "go": "", "model": "driver exited %d" % rc})
    return r


def load_known():
    p = os.path.join(ROOT, "known-findings.json")
    if not os.path.exists(p):
        return []
    return json.load(open(p)).get("findings", [])


def is_known(pid, fail, known):
    for k in known:
        if k.get("property") != pid:
            continue
        if k.get("kind") != fail.get("kind"):
            continue
        cls = k.get("class")
        if cls is not None and (fail.get("input") or {}).get("class") != cls:
            continue
        return k
    return None


def write_evidence(pid, ev):
    # evidence/ describes runs against /repo itself; a run against another checkout (VERIF_REPO) keeps its own
    evdir = os.path.join(ROOT, "evidence") if os.path.abspath(REPO) == "/repo" else os.path.join(RUN, "alt-evidence")
    if os.environ.get("VERIF_EVIDENCE_DIR"):
        evdir = os.environ["VERIF_EVIDENCE_DIR"]      # runs against a deliberately changed tree (seeded changes) keep theirs apart
    os.makedirs(evdir, exist_ok=True)
    with open(os.path.join(evdir, pid + ".json"), "w") as f:
        json.dump(ev, f, indent=1, sort_keys=True)
        f.write("\n")


def main(argv):
    ap = argparse.ArgumentParser()
    ap.add_argument("pid")
    ap.add_argument("--tier", default=os.environ.get("VERIF_TIER", "quick"))
    ap.add_argument("--replay")
    a = ap.parse_args(argv)
    pid = a.pid
    if pid not in PROPS:
        print("unknown property", pid)
        return 2
    tier = a.tier if a.tier in ("quick", "thorough") else "quick"
    try:
        seed = int(os.environ.get("VERIF_SEED", "1"))
    except ValueError:
        seed = 1
    if a.replay:
        # a replay re-runs the whole check at the tier and seed the replay file was written at: every
        # suite is a deterministic function of (tier, seed, /repo), so the recorded failing input (or the
        # recorded broken obligation) is re-evaluated against the current tree together with its neighbours
        try:
            rep0 = json.load(open(a.replay))
            if rep0.get("tier") in ("quick", "thorough"):
                tier = rep0["tier"]
            if isinstance(rep0.get("seed"), int):
                seed = rep0["seed"]
        except (OSError, ValueError) as e:
            print("cannot read replay file %s: %s" % (a.replay, e))
            return 2
    cfg = PROPS[pid]
    t0 = time.time()
    log = []
    workdir = os.path.join(RUN, pid)
    os.makedirs(workdir, exist_ok=True)
    problems = []   # (kind, text)

    with Lock(os.path.join(RUN, ".lock")):
        ok, msg, digest = run_gogen(log)
        if not ok:
            problems.append(("gogen", msg))
        hits = forbidden_tokens()
        if hits:
            problems.append(("forbidden-token", "; ".join(hits)))
        audit = lean_audit(pid, log)
        for fl in sorted({split_suite(x)[0] for x in cfg["suites"]}):
            rc, outp = build_go_tool("harness", tags=FLAVORS[fl]["tags"], race=FLAVORS[fl]["race"], suffix=("-" + fl if fl else ""))
            if rc != 0:
                problems.append(("harness-build", outp[-3000:]))

    if audit["errors"] or audit["discharged"] != audit["obligations"] or audit["obligations"] == 0:
        sc = audit.get("stopped_checking")
        head = ("no longer checks: %s — %s; " % (", ".join(sc["modules"][:4]) or "?", (sc["first_errors"] or ["?"])[0])) if sc else ""
        problems.append(("proof", head + "obligations=%d discharged=%d failed=%s errors=%s" % (
            audit["obligations"], audit["discharged"], audit["failed"], audit["errors"][:5])))

    suites = []
    if not any(k == "harness-build" for k, _ in problems):
        for s in cfg["suites"]:
            suites.append(run_suite(pid, s, tier, seed, workdir, log))

    known = load_known()
    known_hits, new_fails = [], []
    for s in suites:
        if s.get("harness_rc", 0) != 0:
            problems.append(("harness-run", "%s exited %s: %s" % (s["suite"], s["harness_rc"], s["harness_out"])))
        for f in s["propfails"]:
            if cfg.get("fail_kinds") is not None and f.get("kind") not in cfg["fail_kinds"]:
                continue   # this suite is shared; the failure kind belongs to another property's check
            k = is_known(pid, f, known)
            (known_hits if k else new_fails).append((f, k))
        if s["mismatches"]:
            problems.append(("correspondence", "%s: %d model/implementation disagreements, first: %s" % (
                s["suite"], s.get("n_mismatch", len(s["mismatches"])), json.dumps(s["mismatches"][0]))))

    evaluations = sum(s["ops"] + s.get("direct", 0) for s in suites)
    distinct = sum(s["distinct"] for s in suites)
    samples = []
    for s in suites:
        samples += s["samples"][:6]
    samples = samples[:16] + [{"theorem": n, "axioms": audit["axioms"].get(n)} for n in audit["theorems"][:40]]
    violations = len(new_fails) + (1 if (problems and not new_fails) else 0)
    ev = {
        "property_id": pid, "tier": tier, "seed": seed, "level": cfg.get("level", "proof"),
        "wall_s": round(time.time() - t0, 2), "violations": violations,
        "assumptions": cfg.get("assumptions", []),
        "coverage": {
            "obligations": audit["obligations"], "discharged": audit["discharged"],
            "checker_cmd": "cd lean && lake build GoCrypt.Props.%s && lake env lean GoCrypt/Props/%s.lean  (axiom audit via #print axioms)" % (pid, pid),
            "trusted_base": cfg.get("trusted", []) + ["Lean 4.33 kernel", "axioms: " + ", ".join(sorted({x for v in audit["axioms"].values() for x in v}) or ["none"])],
            "theorems": audit["theorems"], "theorem_axioms": audit["axioms"], "undischarged": audit["failed"],
            "bv_decide_axioms": audit["bv_axioms"],
            "evaluations": evaluations, "distinct_nontrivial": distinct,
            "rule": cfg.get("rule", ""), "samples": samples,
            "suites": [{"suite": s["suite"], "ops": s["ops"], "direct_evaluations": s.get("direct", 0), "disagreements": s.get("n_mismatch", 0), "stats": s["stats"],
                        "extra": s["extra"], "propfails": len(s["propfails"])} for s in suites],
            "source_digest": digest, "known_findings_reported": len(known_hits),
            "explanation": (cfg.get("claim", "") + " || " + cfg.get("note", "")).strip(" |"),
            "log": log,
        },
    }
    if tier == "thorough" and not problems:
        rc, outp, dt = sh(["lake", "env", "leanchecker", "GoCrypt.Props." + pid], cwd=LEAN, timeout=3600)
        ev["coverage"]["leanchecker"] = {"rc": rc, "wall_s": round(dt, 1), "tail": outp[-300:]}
        if rc != 0:
            problems.append(("leanchecker", outp[-2000:]))
    write_evidence(pid, ev)

    seen = set()
    for f, k in known_hits:
        key = k.get("id") or k.get("what")
        if key in seen:
            continue
        seen.add(key)
        print("KNOWN-FINDING: property=%s %s" % (pid, k.get("what", "")))

    if not problems and not new_fails:
        stale = os.path.join(workdir, "replay.json")
        if os.path.exists(stale):
            os.remove(stale)
        print("OK property=%s tier=%s obligations=%d/%d evaluations=%d wall=%.1fs" % (
            pid, tier, audit["discharged"], audit["obligations"], evaluations, time.time() - t0))
        return 0

    # violation: pick the replay
    rp = os.path.join(workdir, "replay.json")
    if new_fails:
        f = new_fails[0][0]
        rep = {"property": pid, "tier": tier, "seed": seed, "kind": f["kind"], "desc": f["desc"], "input": f["input"],
               "how": "./check %s --replay %s" % (pid, rp),
               "also": [x[0] for x in new_fails[1:10]], "broken": [{"kind": k, "text": t[:1500]} for k, t in problems]}
        with open(rp, "w") as fh:
            json.dump(rep, fh, indent=1)
        print("VIOLATION property=%s replay=%s" % (pid, rp))
    else:
        rep = {"property": pid, "tier": tier, "seed": seed, "kind": "no-failing-input-found",
               "broken": [{"kind": k, "text": t[:4000]} for k, t in problems],
               "undischarged_theorems": audit["failed"],
               "note": "a proof obligation, the translator or the model/implementation correspondence no longer checks; "
                       "the search on the implementation found no input on which the property itself fails"}
        for s in suites:
            if s["mismatches"]:
                rep.setdefault("disagreements", []).extend(s["mismatches"][:5])
        with open(rp, "w") as fh:
            json.dump(rep, fh, indent=1)
        print("VIOLATION property=%s replay=%s no-failing-input-found" % (pid, rp))
    for k, t in problems[:6]:
        print("  broken[%s]: %s" % (k, t[:600].replace("\n", "\n    ")))
    for f, _ in new_fails[:5]:
        print("  failing-input[%s]: %s %s" % (f["kind"], f["desc"][:200], json.dumps(f["input"])[:300]))
    return 1
