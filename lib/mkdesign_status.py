#!/usr/bin/env python3
"""Regenerates section 0 of DESIGN.md (status of the build) from the evidence files, seeded/*/meta.json and the
text below.  Run after a full pass of ./check on the unchanged tree:  python3 lib/mkdesign_status.py"""
import glob, json, os, subprocess

ROOT = os.path.dirname(os.path.dirname(os.path.abspath(__file__)))


def lines_of(pattern):
    n = 0
    for f in glob.glob(os.path.join(ROOT, pattern), recursive=True):
        n += sum(1 for _ in open(f, errors="replace"))
    return n


ev = {}
for i in range(1, 21):
    pid = "C%02d" % i
    cov = json.load(open(os.path.join(ROOT, "evidence", pid + ".json")))["coverage"]
    ev[pid] = (cov.get("obligations"), cov.get("discharged"))

ROWS = {
 "C01": ("EndToEnd.newHash_then_check_⟨S⟩ (∀ request: the string NewHash returns verifies; Key opaque), newHash_ok/total_⟨S⟩, newHash_empty_iff_md5/des, generated_salt_accepted, KDF totality (KdfProps.*_total_gen), C07.builtins_registered",
         "T: constants, shapes, guards, registrations, and the scheme pipeline itself (FlowModel: the regenerated flow IR evaluates to Scheme.check/params/newHash) (codec and KDF glue are regenerated too: TypeInfoIR/CodecIR/CodecIRU3, KdfIR/KdfIR2 *_key_tail_ir_eq_derive)",
         "scheme (NewHash→Check→crypt.Check byte-for-byte under scripted entropy; BSDi integer coding; cost at the exported bound; unicode / ill-formed UTF-8 passwords for NT hash)",
         "KDF bodies and codec tied by correspondence"),
 "C02": ("C02.check_ok_iff (nil ⇔ Key's result re-encodes to the stored digest), error-return theorems, tampered_digest_never_ok; for EVERY scheme the documented password equivalence as a predicate, 'equivalent ⇒ same verdict' and 'both verify ⇒ equivalent ∨ a named collision of the primitive' (KdfProps.*_absorbs, C02b.des/desext/bcrypt/nthash/argon2_check_absorbs); desext_twin_checks, bcryptEquiv_coarser (the algorithm's equivalence is coarser than the wording: F16, F17)",
         "T: pipeline (FlowModel), Key tails and DES core (KdfIR2/DesIR *_key_tail_ir_eq_derive), codec (CodecIR/CodecIRU3) · H: the equivalence predicates are specifications", "scheme (near-miss passwords under each scheme's equivalence, every digest-symbol substitution, the proved inherent equivalences replayed)", "the non-collision of the primitives is an explicit disjunct (a hypothesis, never an axiom)"),
 "C03": ("model = reference written from the published algorithm, ∀ inputs (and ∀ hash function where generic): md5crypt_eq_spec, sha2crypt_eq_spec, C03b.sha1crypt_eq_spec, sunmd5_eq_spec(_wrap), nthash_eq_spec, bcrypt_eq_spec (+ bcrypt_long_password_deviation: the documented pre-2b ≥254-byte rule), descrypt/desext_layer_eq_spec, and C03b.encrypt_eq_fips: the table-driven DES (tables regenerated from const.go) = FIPS 46-3 DES with the crypt(3) salt swap for every 64-bit key and block",
         "T: all DES tables, permutation tables, and the KDF bodies of ALL ten schemes: md5-crypt / SHA-crypt / sha1-crypt / Permute (KdfIR) and descrypt.Key/EncodeInt/DecodeInt, desext.key/Key, des.Key, nthash.Key/encodePassword, the Sun MD5 coin-toss loop, bcrypt.Key/encode and every Key tail (KdfIR2: slot-based hash-transcript IR, closures lifted; regenerated = model for all inputs), and DES itself — permute816/1616, keySchedules, Encrypt (DesIR: regenerated = the table-driven model that C03b proves equal to FIPS 46-3; KdfIR2 re-instantiated with it, `_full`) · H: the hash/cipher primitives that live outside the repository (MD4/MD5/SHA/Blowfish/BLAKE2b in Lean)",
         "kdf (Go Key vs model) + xcrypt (Go vs the system's libxcrypt 4.4 via cgo, both directions)",
         "hash/cipher primitives are parameters or hand copies validated differentially; libxcrypt tie is a test; F11"),
 "C04": ("C04.key_eq_rfc (∀ P,S,p,T,m,t on 1≤p≤255, 8p≤m<2³²: model key = independent RFC 9106 reference), blake2bHash_eq_H', processBlock_eq_G, indexAlpha_eq_refIndex (regenerated kernel), roundedMemory_eq_rfc; Argon2IR.key_ir_eq_model / key_ir_eq_rfc: the regenerated Key (memory rounding, initHash, initBlocks, processBlocks with the lifted processSegment closure, processBlock(XOR)/blamkaGeneric with real pointer aliasing, extractKey) = the model = RFC 9106",
         "T: the whole purego path of argon2crypto (Argon2IR; BLAKE2b is the only opaque primitive, spec with proved witness), indexAlpha/phi kernels",
         "argon, purego:argon (Go ×3 code paths vs model vs RFC reference; H'; blocks; indexAlpha; lanes up to 255)", "amd64 assembly executed and compared, never modelled"),
 "C05": ("totality of every model function (structural/fuel recursion), parser never stores nil and never returns an empty group, KDF totality, alphabet indices < 64, C16Decode.decode_never_panics; the regenerated programs never reach the interpreters' panic outcome on the property's domain (ParseFlow.parseFlow_never_panics, B64IR.decodeString_ir_never_panics, KdfIR/KdfIR2/DesIR/MiscIR equalities with total models)",
         "T: parser, base64, KDF glue, DES, salt generators (the regenerated bodies) · H: panics inside reflect/strconv/stdlib", "kdf + classify + parse + dispatch + b64 + stream + codec (outcome class incl. panic/timeout under recover + watchdog; bytes ≥ 0x80; lanes ≥ 64; a process-killing crash is reported with the pending operation; a family of hanging inputs cannot stall the check: the third operation of a process that does not return stops it and the pending operation is the replay — added after seeded change C05-m5, a synchronous lexer that blocks on empty fragments, kept the quick check busy for over twenty minutes)", "Go-side panics inside reflect/stdlib for inputs the model accepts are only sampled"),
 "C06": ("Accept.unmarshal_eq_grammar_⟨S⟩ (Unmarshal accepts h with fields out ⇔ the independent recogniser Spec/Grammar.lean accepts h and reads those fields — all ten layouts, all strings), mismatch_only_when_wellformed, params_iff_unmarshal, C10.canonical_⟨S⟩, C14.guards_iff_accepts_⟨S⟩",
         "T: shapes, guards, pipeline (FlowModel), Unmarshal (CodecIRU3.unmarshal_eq_model, closed instances for the scheme structs)",
         "classify (every edit at distance 1, splices, wrap-around numbers, duplicated group members, last-symbol sweep, explicit versions, short strings); a class disagreement is a concrete misclassified string",
         "arbitrary struct types are C10/C20's; F9"),
 "C07": ("dispatcher refines a last-writer-wins map (check_refines_registry), prefix rule = lexer's prefix (prefixOf_none_iff_parse_error), builtins_registered / registrations_only_in_init over regenerated facts",
         "T: init registrations, Check and RegisterHash themselves (DispatchFlow: regenerated structured IR = model), lexPrefix", "dispatch", "sync.Map trusted"),
 "C08": ("conc_results_isolated / conc_race_free / conc_published_never_written for ANY thread count and schedule of the protocol model; alias_has_race (the repaired defect, in the model); registry theorems; shared_state_facts / no_late_global_writes (regenerated: the only sync/map/chan package variables are the two sync.Maps, used only through Load/Store/LoadOrStore)",
         "T: shared-state facts, RegisterHash/Check (DispatchFlow), the whole of getTypeInfo with typeCache as atomic steps (TypeCacheIR: interleaved_calls_return_the_cold_result, returned_record_is_private) · measured protocol facts (hook) · H: the footprint protocol model (Model/Conc.lean)",
         "race:conc (race detector; results vs sequential table; concurrent registrations of distinct prefixes), cache", "Go memory model, sync.Map, reflect; footprints are a hand abstraction"),
 "C09": ("refset_* on the regenerated indexAlpha; schedule_independent, complete_eq_sequential; C09Link.model_fill_eq_seqFill and key_eq_any_complete_schedule (the MODEL's own fill loop is the sequential run of the lane-task system: every family of complete schedules gives the model's key = RFC 9106 by C04); workers_joined_facts (regenerated go/WaitGroup structure of processBlocks)",
         "T: processBlocks with its go/WaitGroup pattern as a task/join node (Argon2IR.processBlocks_ir_eq_model, processSegment_ir_eq_model), indexAlpha, goroutine-structure facts",
         "purego-race:argonsched (GOMAXPROCS 1,2,3,16 + noise goroutines, keys = sequential model, goroutine count), argon", "that the go/Wait syntax has the modelled meaning is runtime behaviour (observed)"),
 "C10": ("C10General.roundtrip_L6 / roundtrip_general and TiWf.roundtrip_of_typeInfoOf: for an ARBITRARY struct type that getTypeInfo accepts (tiWf is proved for everything typeInfoOf builds from supported field types) and a value inside the explicit decidable hypothesis (Unambiguous ∧ groupsSeparated; typed ∧ Representable ∧ lastTextOk ∧ noSteal) Unmarshal(Marshal v) = v — params, inline, codecs, groups, omitempty, trailing optionals; needs_* (each clause necessary); strconv round trips; parse∘render; roundtrip_/canonical_⟨S⟩ for the ten shipped layouts",
         "T: shapes, and the type-info layer (TypeInfoIR: getRawTypeInfo with its tag loop, field, normalize, cold getTypeInfo regenerated = fieldOpts/rawFields/resolveParam/normalizeLoop/typeInfoOf) and the Marshal side (CodecIR: Marshal, marshalValue, marshal, indirect, isEmpty regenerated = Codec.marshal, linked to the regenerated getTypeInfo) and the Unmarshal side (CodecIRU/U2/U3: unmarshal_eq_model — the whole regenerated Unmarshal, prologue, HashPrefix, field loop with grouped params, end checks = Codec.unmarshal + finalVals; unmarshal_eq_model_typeInfoOf with the regenerated getTypeInfo; closed instances for the shipped scheme structs)",
         "codec (run-time generated struct types incl. layout-shaped ones; round trip, re-marshal stability; the in-domain direct check uses the theorem's hypothesis)", "codec model tied differentially; F12"),
 "C11": ("parse_lossless, parse_eq_ref (= split-based reference on every input), spans_exact, values_no_delim, groups_surface_once, parse_error_iff, lexer terminal token last, lexer_goroutine_facts (regenerated)",
         "T: the whole lexer and parser (ParseFlow/DispatchFlow: regenerated structured IR = model, for every input), goroutine-structure facts", "parse (all strings ≤ 7 over the delimiter alphabet + random; token streams via hook; goroutine count)", "the channel is modelled as a producer list (rendezvous); goroutine exit observed"),
 "C12": ("EndToEnd.newHash_canonical_⟨S⟩ (∀ request: output accepted by the independent recogniser with documented prefix, requested cost in canonical form, default-length salt over the alphabet, fixed-length digest = Key's result re-encoded), params_of_newHash_⟨S⟩, defaults_agree (Params and Check apply the same defaults: regenerated flow IR)",
         "T: flow IR (evaluates to the pipeline model: FlowModel), shapes, constants (codec and KDF glue are regenerated too: TypeInfoIR/CodecIR/CodecIRU3, KdfIR/KdfIR2 *_key_tail_ir_eq_derive)",
         "scheme (independent regular expression, byte identity with model, BSDi integer coding, the exported cost bound, Check ⇔ Key(Params) on non-canonical spellings)", "model↔Go differential"),
 "C13": ("argSafe_/resultFresh_⟨S⟩ decided by the kernel on the regenerated slice-effect IR (stores through pointers included); C13Sound.argSafe_sound / resultFresh_sound / results_disjoint_across_calls (semantics: Spec/SliceSem.lean), argSafe_complete, pointsTo_exact",
         "T: the IR itself", "purity (sentinel buffers, option structs incl. rejected/defaulted values, repeated/interleaved calls, mutated results)", "gogen's slice-effect translator and its library-call table"),
 "C14": ("guards_iff_accepts_⟨S⟩: the guard clauses regenerated from each Key ⇔ declarative bounds (Spec/Accepts.lean) with the same typed error and payload, for all argument tuples",
         "T: guards, constants", "guards (salt lengths 0..max+3, every byte at every salt position, cost boundaries, option pools, lanes 63..255)", "guard translator"),
 "C15": ("randSymbols_length / _in_alphabet / symbol_map_bijective (salt as a function of entropy), sha1 randRounds window, rand_source_pure (regenerated import facts); MiscIR.rand_ir_eq_model, cryptoutil_rand_ir_eq_model, randRounds_ir_eq_model: the regenerated salt generators = randSymbols / next n entropy bytes / the randRounds kernel, entropy consumed exactly",
         "T: hashutil.NewEncoding/Encode/Decode/IndexAnyInvalid/Rand, cryptoutil.Rand, sha1.randRounds (MiscIR; crypto/rand as a scripted entropy reader: rand.Int(Reader, 64) = one byte & 0x3F), facts, constants", "salt (2 000/50 000 calls per scheme: distinctness, coverage, 8σ bound; mixed histories; salt = f(entropy) under scripted entropy)", "OS entropy quality; the statistical run is a test"),
 "C16": ("encode = bit-level spec, decode∘encode = id ∀ byte strings and padding modes; C16Decode.decode_eq_ref: the model's Decode (three paths, padding, newlines, strict) = an independent declarative reference decoder for ALL texts, result bytes and error offsets; accepted_is_canonical_or_tolerated, never_silent_garbage, malformed_rejected, decode_never_panics; alphabets regenerated; B64IR.*_ir_eq_model: the BODIES of Encode, EncodeToString, EncodedLen, DecodeString, Decode, decodeQuantum, assemble32/64, DecodedLen regenerated from the Go source (loops, switch/fallthrough, break/continue, slicing, PutUint64/32, int wrap-around) and interpreted over a heap of byte buffers = the hand model, for all inputs, panics included",
         "T: all twelve function bodies — the nine coders (buffer IR) and NewEncoding/WithPadding/Strict (B64IRCtor) —, symbol/quantum/assemble/length expressions, alphabets",
         "b64 (exhaustive 1-/2-byte tails, quanta sample, random strings to 4096, malformed edits incl. bytes ≥ 0xF0, both option orders)", "buffer-IR translator and interpreter; int wrap of EncodedLen beyond 2^60 and negative padding runes are outside the hand model's domain (the programs cover them)"),
 "C17": ("enc_chunks_eq_oneshot ∀ chunkings; dec_fragmentation_eq_oneshot ∀ fragmentations; enc_fault_prefix_sticky, dec_err_sticky; SIR.encoderWrite/encoderClose/decoderRead/nfrRead_ir_eq_model: the regenerated Write/Close/Read bodies = the stream model for every state, chunk and script", "T: encoder.Write/Close, NewEncoder, decoder.Read, newlineFilteringReader.Read, NewDecoder (stream IR over an object store; io.Reader/io.Writer as scripted external objects)",
         "stream (all compositions ≤ 9, random chunkings, caller buffers 1..4096, every fault position × kind)", "stream-IR translator and interpreter; the reader script must eventually report an error (Live): a reader answering (0, nil) forever makes Go's refill loop spin and is outside C17's fault kinds"),
 "C18": ("history_independent (getTypeInfo's result = cold-cache result for ALL call histories), forms_agree, reports_own_struct, invalid_tags_every_call; TypeCacheIR.getTypeInfo_eq_model, history_represents_runHistory, returned_record_is_private, entries_are_keyed_by_dereferenced_type, interleaved_calls_return_the_cold_result (the regenerated getTypeInfo)", "T: the whole of getTypeInfo, warm and cold path, typeCache.Load/LoadOrStore as atomic steps of a cache state (TypeCacheIR: = TypeCache.getTypeInfo call by call and over every history; private copy and keying PROVED on the regenerated code, also measured through the hook), normalize, getRawTypeInfo",
         "cache (histories over named types; fresh-type, invalid-tag, shared-embedding and prefix-embedding families vs cold siblings; pointer-receiver codec in T/*T/**T)", "reflect"),
 "C19": ("secretSafe'_⟨S⟩ decided on the regenerated flow IR of every Check; secretSafe'_sound, mismatch_cost_independent_of_position/_of_key (cost semantics), ⟨S⟩_mismatch_cost", "T: flow IR",
         "flowcheck (names the offending statement)", "statement translator; machine-level constant time of subtle/encoders"),
 "C20": ("C10General.accepted_respell_all / TiWf.accepted_respell_of_typeInfoOf: for an ARBITRARY struct type that getTypeInfo accepts, with consistent options, every accepted string is a tolerated respelling of Marshal(value read); needs_* (exclusions necessary); Accept.accepts_only_respellings_⟨S⟩ for the ten layouts; parser lossless/exact (C11)",
         "T: shapes, and the type-info layer (TypeInfoIR: getRawTypeInfo with its tag loop, field, normalize, cold getTypeInfo regenerated = fieldOpts/rawFields/resolveParam/normalizeLoop/typeInfoOf) and the Marshal side (CodecIR: Marshal, marshalValue, marshal, indirect, isEmpty regenerated = Codec.marshal, linked to the regenerated getTypeInfo) and the Unmarshal side (CodecIRU/U2/U3: unmarshal_eq_model — the whole regenerated Unmarshal, prologue, HashPrefix, field loop with grouped params, end checks = Codec.unmarshal + finalVals; unmarshal_eq_model_typeInfoOf with the regenerated getTypeInfo; closed instances for the shipped scheme structs)",
         "codec (edit-distance-1 neighbourhoods, splices incl. duplicated parameters and wrap-around integers, short strings; accepted-but-unwritable values)", "codec model tied differentially; F10, F13, F14, F15"),
}

table = ["| id | obligations (discharged) | kernel-checked now (names are theorems in `lean/GoCrypt/Props`) | tie | correspondence / search suites | weakest link |", "|---|---|---|---|---|---|"]
for pid in sorted(ROWS):
    o, d = ev[pid]
    k, t, su, w = ROWS[pid]
    table.append("| %s | %s (%s) | %s | %s | %s | %s |" % (pid, o, d, k, t, su, w))

metas = [json.load(open(f)) for f in sorted(glob.glob(os.path.join(ROOT, "seeded", "*", "meta.json")))]
# last regression run of every seeded change against its own property (lib/seed_regress.sh > seeded/REGRESS.txt)
regress = {}
rp = os.path.join(ROOT, "seeded", "REGRESS.txt")
if os.path.exists(rp):
    for line in open(rp):
        f = [x.strip() for x in line.split("|")]
        if len(f) >= 6:
            regress[f[0]] = "%s, %s, %s" % (f[4], f[5], f[3])
seed_rows = ["| seeded change | what it does | needs | checks that report it (quick tier) | own property, last regression run |", "|---|---|---|---|---|"]
for m in metas:
    res = "; ".join("%s: %s" % (k, v) for k, v in m["results_quick_tier"].items())
    seed_rows.append("| %s | %s | %s | %s | %s |" % (m["id"], m["change"], m["needs_to_manifest"], res, regress.get(m["id"], "-")))
n_agent = sum(1 for m in metas if not m["id"].startswith("revert-"))
n_rev = sum(1 for m in metas if m["id"].startswith("revert-"))

lean_total = lines_of("lean/GoCrypt/**/*.lean")
sizes = {d: lines_of("lean/GoCrypt/%s/**/*.lean" % d) for d in ("Model", "Spec", "Gen", "Prim", "Proofs", "Props", "Driver", "Base")}
fixes = subprocess.run(["git", "-C", "/repo", "log", "--format=%h %s", "--grep=^fix:"], capture_output=True, text=True).stdout.strip().splitlines()

STATUS = f"""## 0. Status of the build (what exists now, and how it differs from the plan below)

Sections 1–12 and the appendices were written before the code and are kept as the design record;
where the build went another way, this section is right (it is regenerated by
`lib/mkdesign_status.py` from the evidence files and `seeded/*/meta.json`). Everything named here is
committed under `/verif` and is rebuilt from `/repo`'s working tree on every run.

### 0.1 What runs

`./check <id> [--tier quick|thorough] [--replay <file>]` (python3, no third-party packages) for each
of the twenty properties; all twenty are claimed at level `proof` (MANIFEST.json, `not_applicable`
is empty). One run of a check does, in order:

1. `gogen` (Go, go/packages) re-translates `/repo` into `lean/GoCrypt/Gen/*.lean` — constants, all
   tables, struct shapes and text codecs, `init` registrations, import facts, shared-state facts
   (package variables of sync / map / channel type and every use of them), goroutine-structure facts
   (every `go` statement with its enclosing loops and the WaitGroup discipline around it), the
   base64 / Argon2 / SHA-1 index expressions as Lean `Nat` kernels with explicit `% 2^bits`, the
   guard clauses of every `Key`, the flow IR of every `Check`/`Params`/`NewHash` (locals of the
   package's own struct types named after the type), the slice-effect IR of every `Key` with
   module-internal callees inlined, pointer stores, and strong updates merged at block exits, and the
   FUNCTION BODIES listed in §0.1a as small structured programs (one IR per kind of code, each with a
   Lean interpreter whose outcomes are ok / panic / `stuck`; a statement the translator does not
   understand becomes an explicit `.unknown "<source text>"` node, on which the interpreter is stuck).
   Output is buffered and written only if the whole translation succeeded; a source the translator
   no longer understands is a broken obligation.
2. forbidden-token scan (`sorry`, `admit`, `native_decide`, `axiom`, `implemented_by`, `unsafe`,
   `maxHeartbeats 0`) over all of `lean/`; `lake build GoCrypt.Props.<id> driver`; then
   `lake env lean GoCrypt/Props/<id>.lean` and parse of every `#print axioms` line: the obligations
   of a property are exactly those lines; one is discharged iff it elaborated and depends on nothing
   beyond `propext`, `Classical.choice`, `Quot.sound`. (No `bv_decide` is used anywhere; the plan's
   `Audit.lean` became these per-file `#print axioms` blocks.) Thorough tier adds
   `lake env leanchecker GoCrypt.Props.<id>`.
3. the property's suites in the Go harness (`harness/`, built `-tags verif`, flavours plain / race /
   purego / purego-race; per-scheme suites run as ten processes, one per scheme): each writes an
   operation file and the real code's answers; the compiled Lean `driver` (core-only `lean_exe`)
   answers the same operations from the model / specification (stateless suites in parallel chunks);
   the runner diffs them line by line. Direct checks on the Go side (no model involved) run in the
   same pass.
4. verdict: any broken obligation or disagreement triggers the search for a concrete failing input
   (the Go-side direct checks, and the disagreeing operation itself wherever the Lean side is a
   specification or a model proved equal to one — `DIRECT_OPS` / `DIRECT_BY_SUITE` and the
   classification rule in `lib/runner.py`); the result is `VIOLATION … replay=run/<id>/replay.json`
   with the inputs, or the same line ending `no-failing-input-found` naming what no longer checks.
   A crash the harness cannot recover from (a panic inside a goroutine the library started, a runtime
   fatal error) is reported with the operation that was pending when the process died.
   Listed known findings print `KNOWN-FINDING:` and do not fail the run. `--replay` re-runs the whole
   check deterministically at the tier and seed recorded in the replay file.

`VERIF_REPO=<dir>` points a run at another checkout (a scratch worktree with a seeded change); such
runs, and `lib/seed_run.sh`, keep their evidence outside `evidence/`, which only ever describes the
unchanged tree.

Sizes: {lean_total/1000:.1f} k lines of Lean (Model {sizes['Model']/1000:.1f} k, Spec {sizes['Spec']/1000:.1f} k, Gen {sizes['Gen']/1000:.1f} k regenerated,
Prim {sizes['Prim']/1000:.1f} k, Proofs {sizes['Proofs']/1000:.1f} k, Props {sizes['Props']/1000:.1f} k), {lines_of('gogen/*.go')/1000:.1f} k lines of translator (Go),
{lines_of('harness/*.go')/1000:.1f} k lines of harness (Go), {(lines_of('lib/*.py'))/1000:.1f} k lines of runner (python3). A clean `lake build` takes
about four and a half minutes on 16 cores (413 modules; the DES table facts and the IR equality proofs dominate); on an unchanged tree every quick check
takes between 1 s and 40 s.

### 0.1a Which code is regenerated, and which is a hand-written model

"Regenerated" means: on every run `gogen` re-reads the function body from `/repo` and writes it as a
program into `lean/GoCrypt/Gen/`; a Lean interpreter gives the program its meaning; a theorem (cited
as an obligation of the properties named) states that the interpretation equals the hand-written model
the property theorems speak about, for every input. A change to the body changes the program text and
the equality proof stops checking, whatever the tests sample. Variables are identified by declaration
(slots or canonical names), source positions appear only in comments: renaming locals, moving
functions or adding comments leaves the programs unchanged (checked for each translator).
Rewrites that do change the program text need not break the equality proofs, which go through
simplification lemmas rather than syntactic matching: swapping the independent updates `si += 3` /
`di += 4` in `base64le.Encode`, reordering two independent validity tests in `normalize`, and
returning through an extra local in `hashutil.Decode` were each applied to `/repo` and the checks of
C16, C10 and C15 stayed `OK` (all obligations discharged). A rewrite the proofs do not absorb is
reported as the brief prescribes: `VIOLATION … no-failing-input-found`, the replay naming the module
that no longer builds and its first error (`stopped_checking` in the evidence; since the runner
change of this session the `broken[proof]` line starts with it).

| Go source | regenerated as | equality theorems | cited by |
|---|---|---|---|
| `crypt.go` `Check`, `RegisterHash`; `hash/parse/lex.go`, `parse.go` (lexer goroutine + channel as producer list, `Parse`) | structured IR `SFlow`/`SFlow2` | `Props/DispatchFlow.lean`, `Props/ParseFlow.lean` | C07, C11, C05, C20 |
| every scheme's `Check` / `Params` / `NewHash` | flow IR | `Props/FlowModel.lean` (evaluates to `Scheme.check/params/newHash`), `secretSafe'` decided on it | C01, C02, C06, C12, C19 |
| every scheme's `Key`: guard clauses | guard IR | `guards_iff_accepts_⟨S⟩` | C14, C01 |
| every scheme's `Key`: slice effects | slice IR | `Props/C13IR.lean`, `C13Sound.lean` | C13 |
| `md5crypt.Encrypt`, `sha2crypt.Encrypt`/`duplicate`, `cryptoutil.Permute`, HMAC loop of `sha1.Key` | hash-transcript IR `HashIR` | `Props/KdfIR.lean` | C03, C05 |
| `descrypt.Key`/`EncodeInt`/`DecodeInt`, `desext.key`/`Key`, `des.Key`, `nthash.Key`/`encodePassword`, `sunmd5.Key` (coin-toss loop, closure lifted), `bcrypt.Key`/`encode`/`setup` glue, the `Key` tails of md5/sha256/sha512/sha1 | slot-based hash-transcript IR `HashIR2` | `Props/KdfIR2.lean` (`*_key_tail_ir_eq_derive`: = `Scheme.<s>.derive`) | C03, C01, C12, C05 |
| `hash/base64le`: `Encode`, `EncodeToString`, `EncodedLen`, `DecodeString`, `Decode`, `decodeQuantum`, `assemble32/64`, `DecodedLen` | buffer IR (heap of byte buffers, slices as windows) | `Props/B64IR.lean`, `B64IRNoPanic.lean` | C16, C05 |
| `hash/base64le`: `NewEncoding`, `WithPadding`, `Strict`; `(*encoder).Write/Close`, `NewEncoder`, `(*decoder).Read`, `(*newlineFilteringReader).Read`, `NewDecoder` | stream IR `SIR` (object store, scripted `io.Reader`/`io.Writer` as external objects, calls into the regenerated `Encode`/`Decode`) | `Props/B64IRCtor.lean`, `SIREncoder.lean`, `SIRDecoder.lean` | C16, C17 |
| `hash/typeinfo.go`: `getRawTypeInfo` (tag loop, embedded structs), `(*typeInfo).field` (`sort.Slice` = any sorted permutation), `normalize`, `indirectType`, cold path of `getTypeInfo` | type-info IR `TIIR` (records behind pointers, `reflect.Type` as operations over struct descriptions) | `Props/TypeInfoIR.lean` | C10, C20, C18 |
| `argon2/argon2crypto` (purego path): `Key`, `initHash`, `initBlocks`, `processBlocks` + `processSegment` closure (go/WaitGroup pattern as task/join node, sequential schedule), `extractKey`, `indexAlpha`, `phi`, `blake2bHash`, `processBlock(XOR)`, `processBlockGeneric`, `blamkaGeneric` | Argon2 IR `A2IR` (typed words with wrap-around, heap with pointer aliasing) | `Props/Argon2IR.lean` (`key_ir_eq_model`, `key_ir_eq_rfc`) | C04, C09 |
| `des/descrypt/des.go`: `permute816`, `permute1616`, `keySchedules`, `Encrypt` | DES IR (tables by name from the regenerated `Gen/Tables`) | `Props/DesIR.lean` (`encrypt_ir_eq_model`, `desPrims_spec`, `*_full`) | C03, C05 |
| `hash/marshal.go`: `Marshal`, `marshalValue`, `marshal`, `indirect`, `isEmpty` | codec IR (on the type-info IR's heap; `reflect.Value` as operations over a value model) | `Props/CodecIR.lean` (`marshal_eq_model`), `CodecIRLink.lean` (`marshal_eq_model_typeInfoOf`) | C10, C20 |
| `hash/unmarshal.go`: `Unmarshal`, `unmarshal`, `newUnmarshalError`, `unmarshalIndirect` (destination cells, parse nodes, stores through `reflect.Value`, `defer` lowered to an epilogue) | codec IR | `Props/CodecIRU.lean`, `CodecIRU2.lean`, `CodecIRU3*.lean`: `unmarshal_value_eq_model` / `unmarshal_prefix_eq_model` (every field kind), `step_eq_stepField_general`, `loop_eq_loopFields_general` (grouped params included), `unmarshal_eq_model` (whole function on a zero destination = `Codec.unmarshal` + `finalVals`, or the model's error class), `unmarshal_eq_model_typeInfoOf`, closed instances `unmarshal_⟨scheme⟩_closed` | C10, C20, C06 |
| `internal/hashutil`: `NewEncoding`, `Encode`, `Decode`, `IndexAnyInvalid`, `Rand`, package variables; `cryptoutil.Rand`; `sha1.randRounds` | stream IR + library description `miscLib` (crypto/rand as scripted entropy reader) | `Props/MiscIR.lean` | C15, C05 |
| `hash/typeinfo.go`: the whole of `getTypeInfo` (warm + cold path; `typeCache.Load`/`LoadOrStore` as atomic steps) | type-info IR with a cache state (`Base/TIIRCache.lean`, conservative over `TIIR`) | `Props/TypeCacheIR.lean` (= `Model/TypeCache.lean` per call and per history; privacy; keying; interleavings) | C18, C08 |
| constants, DES / permutation / alphabet tables, struct shapes and text codecs, `init` registrations, import / shared-state / goroutine-structure facts, index kernels (`indexAlpha`, `phi`, base64 shift/mask expressions, `randRounds`) | Lean definitions | used directly by the models | all |

Still hand-written (tied by the correspondence suites only): the concurrency protocol of the registry (`Model/Conc.lean`, tied by measured protocol facts and the race detector), the text (un)marshalers of the scheme field types (recognised by strict pattern matching in `gogen`), and the hash/cipher primitives that live outside the repository (MD4, MD5, SHA-1/2, Blowfish, BLAKE2b: `Prim/`, validated differentially). Model limits the regenerated proofs exposed (all outside every property's domain, stated as hypotheses of the equality theorems): `decoder.Read` on a reader that answers `(0, nil)` forever (Go spins; the model's fuel runs out silently); `omitempty` on a field of a kind outside the documented ones (bool, float, map, interface …: Go's `isEmpty` knows them and omits an empty one, the model treats the field as rejected); a partially nil pointer chain `**T` (Go writes `p=`, the model reads `.nilPtr` as 'the field itself is nil'); `EncodedLen` beyond 2^60 and negative padding runes other than `NoPadding` (Go wraps / pads with `byte(r)`; the model's `Nat`/`Option UInt8` cannot say it); DES round counts ≥ 2^32 (not expressible by a Go caller).

### 0.2 Per property

"T" = regenerated from the source by `gogen` on every run; "H" = hand-written model tied by the
correspondence suites. Obligation counts are those of the last run on the unchanged tree.

{chr(10).join(table)}

### 0.3 Genuine defects found on the pinned tree

Nine were repaired in `/repo`, each as one unguarded `fix:` commit (the unedited 401-test suite
passes after each); they are listed under `fixed` in `known-findings.json` and suppress nothing.
The reverse of each is kept as a seeded change (`seeded/revert-*`) and is reported by the check of
its property.

| commit | defect (failing input) | first reported by |
|---|---|---|
| 96891c0 | `parse.Parse` dropped a group whose last value is followed by `,` at the end of a fragment: `"$x$a=1,b=2,"` → no fragments; `md5.Check(valid+"$garbage,")` verified | C11 (parse_lossless unprovable; parse suite), C06, C20 |
| d778203 | `lexPrefix` lexed a second `_` prefix after `$id$`: `"$1$_abc"` | C11, C07 |
| bc48c6a | `Unmarshal` matched a parameter by bare name prefix: `"abc"` into `param:a` | C20 (not-a-respelling) |
| 5d31a6a | a prefix was silently discarded when the struct has no `HashPrefix` field | C20 |
| a57eff7 | a declared length of 0 (`[0]byte`, `length:0`) was not enforced: `nthash.Check("$3$xyz$<digest>")` verified | C06 |
| 1aa279e | `sha2crypt.duplicate`: `i = -size` → panic for passwords ≥ 32/64 bytes | C01 (KDF totality unprovable; kdf suite), C03, C05 |
| fb1b65e | `bcrypt.setup` appended the NUL terminator into the caller's password buffer | C13 |
| 7969696 | `getTypeInfo` returned and wrote the cached `*typeInfo` (data race at typeinfo.go:243; entries stored under the pointer type) | C08 |
| d4f4d57 | `normalize` counted a param shadowed by an embedded struct's same-named field twice in `NumReqValues`: `Marshal(Outer{{Inner{{A}}; A:1; R:5 omitempty; X:"x"}}) = "a=1$r=5$x"` was rejected by `Unmarshal` | C10 — found by the proof: the general round-trip theorem forced the hypothesis `numReqValues = number of required fields`; the excluded point was run on the real code |

Recorded, not repaired (`known-findings.json`, matched by property + failure kind + syntactic class,
so any other violation of the same property still fails the check):

* **F9** (C06) an explicitly written `rounds=0` (`$5$`/`$6$`) or `v=0` (Argon2) is read as "absent" and
  defaulted: `"$5$rounds=0$salt$<digest for 5000 rounds>"` verifies. The scheme struct cannot tell an
  absent parameter from a zero one; the repair changes struct types the package's tests construct.
* **F10** (C20) `param` + `inline` on one field does not round-trip (no shipped scheme uses it).
* **F11** (C03) libxcrypt's zero-rounds Sun MD5 form `$md5$salt$$digest` is rejected here (`Rounds` is a
  required parameter); making it optional changes what `NewHash(pw, 0)` emits, which tests pin.
* **F12** (C10) an empty text in the last emitted position is unrepresentable (`"a$"` is read as `"a"` +
  tolerated trailing `$`); the repair gives up the tolerance C06/C20 grant.
* **F13** (C20) `omitempty` on a non-empty byte array (Marshal never omits it, Unmarshal treats it as
  optional; no shipped scheme uses it).
* **F16** (C02) BSDi extended DES: every password longer than 8 bytes has an 8-byte twin that verifies
  against its hash (the 7-bit bytes of the folded key; DES ignores key parity), and the fold itself
  collides (`passwd30aapaaaaa` / `passwd51ou9lRYvq`). **F17** (C02) bcrypt's key schedule reads the key
  cyclically: `"a"` ≡ `"a\\0a"` under `$2a$`/`$2b$`, `"ab"` ≡ `"abab"` under `$2$`. Both are properties
  of the algorithms (libxcrypt computes the same hashes), found by the absorption proofs
  (`C02b.desext_twin_checks`, `desext_fold_collision`, `bcryptEquiv_coarser`), replayed on the real code
  on every run, and not repairable inside crypt(3) compatibility.
* **F14**, **F15** (C20) a `length:` option on an integer field, or one that differs from a byte array's
  size: Unmarshal enforces it on the text, Marshal cannot produce it, so an accepted string has no
  canonical form (`"007"` into `uint8 length:3`). Found by the general C20 proof (`needs_intNoLength`,
  `needs_arrayLength`), confirmed on the Go code; no shipped scheme uses these options.

Not findings, although a proof attempt flagged them: the bcrypt rule that a pre-2b password of 254
bytes or more is replaced by 72 `'0'` characters is listed by C03 as documented legacy behaviour
(stated exactly in `C03b.bcrypt_long_password_deviation`); two layouts that the first hand-calibrated
`Unambiguous`/`Representable` predicates wrongly admitted (two parameter groups separated only by an
omitted optional field merge into one; a positional text beginning `name=` of an omitted optional
parameter is taken for it) are genuine ambiguities of the layout and now part of the hypothesis.

### 0.4 False alarms met while building, and what was done

* `vp check` 1 reported C02 and C19 as broken on the unchanged tree: the runner's regular
  expression for `#print axioms` lines stopped at the `'` in theorem names such as `secretSafe'_md5`.
  The parser was corrected (`'(\\S+)' depends on axioms`); nothing was loosened.
* `vp check` 3 found four committed evidence files describing runs against seeded changes (the seed
  runs had overwritten `evidence/`). Seed runs now write their evidence elsewhere.
* The first `Unambiguous` predicate of C10 excluded layouts with an inline field and an optional
  field although the code round-trips them; a seeded change in exactly that corner (C10-m2) was
  therefore only reported as `no-failing-input-found`. The predicate was relaxed to what is a
  genuine ambiguity; the general theorem now fixes it for good.
* The first slice-effect IR was flow-insensitive on variables too: with pointer stores added
  (`opts.Prefix = …` after `opts = &CompatibilityOptions{{}}` under `if opts == nil`) it flagged
  sunmd5's correct code. The translator now performs strong updates on plain locals/parameters that
  are neither captured by a closure nor address-taken, merging at every block / loop / case exit;
  the analysis itself and its soundness theorem are unchanged.
* Harmless rewrites tried against the checks (in scratch worktrees): renaming the local that holds
  the parsed struct in one `Check` broke `C12.defaults_agree` (textual comparison of statements) —
  the flow IR now names such locals after their type; renaming the accumulator in `base64le.Encode`
  made `gogen` fail — the kernel extractor now finds it by role. Hoisting `len(salt)` into a local
  in `md5.Key` was already absorbed by the guard translator. A rewrite the translator cannot follow
  still ends in `VIOLATION … no-failing-input-found`, as the brief allows.
* The thorough sweep reported `des.Check` accepting `"S4k-b:"` for a hash made from `"S4k-b:\\x80"`:
  DES-crypt keys are the low 7 bits of each byte, so a trailing 0x80 is the same as no byte — the
  documented truncation rule. The suite's equivalence test for DES (and BSDi, block-wise) was wrong,
  not the code; it now compares the masked, zero-padded keys.
* A first `secretSafe` discipline (C19) was found unsound by the proof attempt itself (three gaps);
  it was replaced by `secretSafe'`, whose soundness is proved (`C19Sound`).
* Harness-side: duplicate operation names in the first-occurrence oracle of the cache suite, a data
  race inside the harness's own entropy swapper, a salt-distinctness test applied to 12-bit DES
  salts, a quadratic name normalisation (thorough C18 took 744 s, now 7 s), and Argon2 reference
  hashes built with a raw instead of a base64 salt (which silently skipped two checks) were all
  harness faults and were corrected there.

### 0.5 Seeded changes (`seeded/<id>/`: patch.diff, demo_test.go, AUTHOR-README.md, meta.json, run.log)

{n_agent} changes were written by fresh sub-agents that saw only a property's text and a scratch
worktree (two rounds; the second round's agents, given the same text, re-invented 18 of the first
round's changes, which were dropped as duplicates); each compiles, passes the pinned suite, and comes
with a demonstration that fails with it and passes without (re-confirmed by `lib/seed_confirm.sh` in
a separate scratch worktree). {n_rev} more are the reverses of the repairs of §0.3. Each was applied
to `/repo` (`git apply`; or to a scratch worktree through `VERIF_REPO` while a sweep was using
`/repo`), the relevant checks were run, and it was undone (`git checkout -- .`); nothing was
committed to `/repo`. "missed before …" marks checks that were strengthened because of the change;
after strengthening every change is reported by the check of its own property with a concrete
failing input, except where the table says otherwise (changes whose effect is confined to another
property's observable, and C19's, where the offending statement is the replay).
The last column is the most recent regression run (`lib/seed_regress.sh`, every change against the
quick check of its own property, after the function bodies of §0.1a had become regenerated): whether
a proof obligation broke (`proof=broken`: the change touches code whose regenerated program is an
obligation of that property), whether model and implementation disagreed (`correspondence=broken`),
and the kind of the first concrete failing input.

{chr(10).join(seed_rows)}

What the misses taught (all now in the suites): numeric fields must be edited to `value + 2^bits`
and not only by one symbol; group members must be duplicated; both orders of `Strict`/`WithPadding`;
bytes ≥ 0xF0 in malformed base64; Sun MD5 with non-zero rounds through the dispatcher at the quick
tier; pointer stores and option structs for purity; invalid-tag, shared-embedding and
prefix-embedding type families against cold siblings, and a pointer-receiver codec in all three
forms, for history and form independence; mixed request sizes for the entropy pool; lane counts ≥ 64;
BSDi round counts ≥ 2^16 and the exported bound itself; non-BMP and ill-formed UTF-8 for NT hash;
explicitly spelled versions for Check/Params coherence; concurrent `RegisterHash` of distinct
prefixes (a lost update is invisible to the race detector).

### 0.6 Trusted base as built

Lean 4.33 kernel (+ `leanchecker` in the thorough tier); axioms `propext`, `Classical.choice`,
`Quot.sound` only — audited per theorem on every run; no `native_decide`, no `bv_decide`, no user
axiom, no `sorry`. `#guard` lines in a few Props files are compiled-evaluation tests and are labelled
as such; they are not obligations. `decide +kernel` is used for finite facts about regenerated data
(tables are permutations / implement the FIPS tables, IR programs satisfy a decidable discipline,
structure facts equal their expectation).
Translator: `gogen` and go/packages; for C13 additionally its table of what standard-library calls
do to their slice arguments; for C14/C19 its statement classifiers (anything unclassified becomes
`.other`/`.unknown`, which fails the obligation rather than passing silently). For the regenerated
function bodies (§0.1a) the trusted part is, per IR, the translator that writes the program and the
Lean interpreter that gives it meaning (`Base/SFlow*.lean`, `HashIR*.lean`, `B64IRBase.lean`,
`StreamIRBase.lean`, `TIIR.lean`, `CodecIR.lean`, `A2IR.lean`, `DesIR.lean`, `MiscIRBase.lean`): Go's
evaluation order, integer wrap-around, slicing/aliasing, `switch`/`fallthrough`, `break`/`continue`,
closures (lifted), `defer` (lowered to an epilogue) are the interpreter's rules; library calls
(`reflect`, `strconv`, `sort.Slice` as any sorted permutation, `sync.Map` as atomic steps, `crypto/rand`
as a scripted entropy reader, BLAKE2b/Blowfish/MD4/UTF-16 as opaque primitives with a stated spec and a
proved witness) are described there and listed in each Props file's header. Every interpreter has a
third outcome `stuck` (unknown node, exhausted loop bound, type confusion) that equals neither side of
an equality theorem, and `no_unknown_nodes` theorems state that the current source translates without
an unknown node. The interpreters are also run on concrete inputs (`#guard`) against the executable
models and, by the agents who wrote them, against the real Go code.
Correspondence: differential, seeded (`VERIF_SEED`, default 1), with the generator's distribution in
the evidence. It now covers everything twice where a body is regenerated, and alone ties: the
registry's concurrency
protocol, the text (un)marshalers of the scheme field types.
Modelled rather than verified, or only executed: `reflect`, `strconv`, `sync.Map`, goroutines /
channels / WaitGroup, the Go memory model, `crypto/*` and x/crypto primitives (Lean copies in
`Prim/`, validated differentially), `crypto/rand` and the OS entropy source, the amd64 Argon2
assembly (three code paths compared by execution), the system's libxcrypt 4.4.33 as "reference
libcrypt".
Hooks in `/repo` (build tag `verif`, add-only files): lexer tokens, type-info description / identity /
cache keys, declared-length flag, Argon2 block function / SSE4 switch / indexAlpha / H'.

"""

p = os.path.join(ROOT, "DESIGN.md")
s = open(p).read()
a = s.index("## 0. Status of the build")
b = s.index("## 1. What is being decided")
open(p, "w").write(s[:a] + STATUS + s[b:])
print("section 0 rewritten:", len(STATUS.splitlines()), "lines;", len(metas), "seeded changes;", len(fixes), "fix commits in /repo")
