#!/bin/bash
# seed_confirm.sh <seed-dir> <demo-destination-relative-to-repo> <go test args...>
# Confirms a seeded change in a scratch worktree: builds, passes the existing suite, demo fails with / passes without.
set -u
export GOFLAGS=-mod=mod GOPROXY=off GOSUMDB=off GOTOOLCHAIN=local
d=$1; dest=$2; shift 2
wt=/tmp/confirm_wt_$$
git -C /repo worktree add -q --detach $wt HEAD || exit 2
trap 'git -C /repo worktree remove --force '$wt' >/dev/null 2>&1' EXIT
cd $wt
git apply $d/patch.diff || { echo "APPLY-FAILED"; exit 2; }
go build ./... && go build -tags verif ./... || { echo "BUILD-FAILED"; exit 2; }
npass=$(go test -count=1 -json ./... 2>/dev/null | grep -c '"Action":"pass".*"Test"')
nfail=$(go test -count=1 -json ./... 2>/dev/null | grep -c '"Action":"fail".*"Test"')
echo "suite with change: pass=$npass fail=$nfail"
cp $d/demo_test.go $dest
if go test -count=1 "$@" >/tmp/confirm_with_$$.log 2>&1; then echo "DEMO WITH CHANGE: passes (unexpected)"; else echo "DEMO WITH CHANGE: fails (expected)"; fi
git apply -R $d/patch.diff
if go test -count=1 "$@" >/tmp/confirm_without_$$.log 2>&1; then echo "DEMO WITHOUT CHANGE: passes (expected)"; else echo "DEMO WITHOUT CHANGE: fails (unexpected)"; tail -5 /tmp/confirm_without_$$.log; fi
rm -f /tmp/confirm_with_$$.log /tmp/confirm_without_$$.log
