import re,binascii,sys
ops=open('codec.ops').read().split('\n')
shapes={}
for l in ops:
    if l.startswith('shape '):
        p=l.split(' ',3); shapes[p[1]]=p[3] if len(p)>3 else ''
def dec(h): 
    return '' if h=='-' else binascii.unhexlify(h).decode('latin1')
seen=set()
for l in open('codec.diff'):
    p=l.split(' || ')[0].split(' ')
    sid=p[1]
    if sid in seen: continue
    seen.add(sid)
    sh=shapes[sid]
    def f(m):
        parts=m.group(0).split('|')
        parts[5]=dec(parts[5]); return '|'.join(parts)
    sh2=re.sub(r'[A-Za-z0-9]+\|[01]\|[01]\|\d\|[a-zA-Z0-9]+\|[-0-9a-f]+\|[^;|}]+\|[^;|} ]+',f,sh)
    print(sid, sh2)
    print('   s=',repr(dec(p[2])),' vals=',' '.join(p[3:]), l.split(' || ')[2].strip())
