#!/bin/bash
# seed_process.sh <prop> <k> <demo-dest-dir-relative> <check ids...>
prop=$1; k=$2; dest=$3; shift 3
src=/tmp/seed_out/$prop/m$k
out=/verif/seeded/$prop-m$k
mkdir -p $out
cp $src/patch.diff $src/demo_test.go $out/ 2>/dev/null
cp $src/README.md $out/AUTHOR-README.md 2>/dev/null
pkg=./$dest/
[ "$dest" = "." ] && pkg=.
echo "### $prop m$k confirm" | tee $out/run.log
# only the demonstration's own tests (a demo that imports scheme packages changes what the package's other tests see)
names=$(grep -o '^func Test[A-Za-z0-9_]*' $src/demo_test.go | sed 's/func //' | paste -sd'|')
/verif/lib/seed_confirm.sh $src $dest/demo_test.go -run "^($names)\$" $pkg 2>&1 | tee -a $out/run.log
echo "### checks: $@" | tee -a $out/run.log
/verif/lib/seed_run.sh $src/patch.diff "$@" 2>&1 | tee -a $out/run.log
