#!/bin/bash
# seed_run.sh <patch.diff> <property-id>...   — apply a seeded change to /repo, run the quick checks, undo it.
p=$1; shift
cd /verif
export VERIF_EVIDENCE_DIR=/verif/run/seed-evidence   # evidence/ only ever describes the unchanged tree
git -C /repo apply $p || { echo APPLY-FAILED; exit 2; }
for id in "$@"; do ./check $id 2>&1 | grep -E "^(OK|VIOLATION|KNOWN|  failing|  broken)" | cut -c1-400 | head -12; done
git -C /repo checkout -- . ; git -C /repo status --short | head -3
# leave lean/GoCrypt/Gen describing the unchanged tree again (it is committed)
rm -f run/gogen.stamp; ./run/bin/gogen -repo /repo -out lean/GoCrypt/Gen >/dev/null 2>&1
