#!/bin/bash
# cdiff.sh <suite>: show model/implementation disagreements of run/t/<suite>
s=$1
paste -d'\n' $s.ops $s.go $s.lean | awk 'NR%3==1{op=$0} NR%3==2{g=$0} NR%3==0{ if (g!=$0) print op" || GO: "g" || LEAN: "$0}' > $s.diff
wc -l < $s.diff
awk '{print $1}' $s.diff | sort | uniq -c
