import GoCrypt.Spec.RefParse
import GoCrypt.Base.Strconv
import GoCrypt.Model.Codec

/-!
# The documented layouts of the ten shipped schemes, as recognisers (specification side of C06 / C20)

One recogniser per layout, written from the documented layout with plain list functions: strip the
literal prefix, split the rest on `$`, check lengths and alphabets, read numbers with
`Strconv.parseUint`. Nothing here calls the codec model (`unmarshal`, `loopFields`, `fieldText`, …);
the only things shared with the model are the two alphabets (generated constants) and `splitOn`.

Notation of the layouts: A = `./0-9A-Za-z`, B = the base64 alphabet, n(bits) = a non-empty decimal
digit string (leading zeros allowed) whose value fits `bits` bits, `[$]` = one tolerated trailing `$`.

The one tolerated trailing `$` is `fragments`: the text after the prefix is split on `$` and an EMPTY
LAST piece is not a fragment. So `a$b` and `a$b$` have the fragments `[a, b]`, while `a$b$$` has
`[a, b, ""]` (three fragments, the last one empty), and the empty text has no fragment at all.
-/

namespace GoCrypt.Grammar
open Bytes

def splitOn := GoCrypt.RefParse.splitOn

/-- A = `./0-9A-Za-z` -/
def A : Bytes := GoCrypt.Codec.hashAlphabet
/-- B = `A-Za-z0-9+/` -/
def B : Bytes := GoCrypt.Codec.base64Alphabet

/-- every byte of `s` is a symbol of the alphabet `a` -/
def over (a s : Bytes) : Bool := s.all fun c => a.contains c

/-- strip a literal text from the front -/
def strip (lit h : Bytes) : Option Bytes := if lit.isPrefixOf h then some (h.drop lit.length) else none

/-- strip the first of several literal prefixes that fits; returns the prefix and the rest -/
def stripAny : List Bytes → Bytes → Option (Bytes × Bytes)
  | [], _ => none
  | lit :: lits, h =>
    match strip lit h with
    | some rest => some (lit, rest)
    | none => stripAny lits h

/-- The `$`-separated fragments of the text after the prefix; an empty last piece (the text after a
trailing `$`, or an entirely empty text) is not a fragment. -/
def fragments (rest : Bytes) : List Bytes :=
  let ps := splitOn dollar rest
  if ps.getLast? = some [] then ps.dropLast else ps

/-- n(bits): decimal, non-empty, leading zeros allowed, value below `2^bits`. -/
def num (bits : Nat) (t : Bytes) : Option Nat :=
  match Strconv.parseUint t 10 bits with
  | .ok n => some n
  | .error _ => none

/-! ## md5: `$1$` A* `$` A{22} `[$]` -/

structure Md5 where
  salt : Bytes
  sum : Bytes
  deriving Repr, DecidableEq

def md5Body : List Bytes → Option Md5
  | [salt, sum] => if over A salt && over A sum && sum.length == 22 then some ⟨salt, sum⟩ else none
  | _ => none

def md5 (h : Bytes) : Option Md5 :=
  match strip [36, 49, 36] h with          -- "$1$"
  | some rest => md5Body (fragments rest)
  | none => none

/-! ## sha1: `$sha1$` n(32) `$` A* `$` A{28} `[$]` -/

structure Sha1 where
  rounds : Nat
  salt : Bytes
  sum : Bytes
  deriving Repr, DecidableEq

def sha1Body : List Bytes → Option Sha1
  | [r, salt, sum] =>
    match num 32 r with
    | some n => if over A salt && over A sum && sum.length == 28 then some ⟨n, salt, sum⟩ else none
    | none => none
  | _ => none

def sha1 (h : Bytes) : Option Sha1 :=
  match strip [36, 115, 104, 97, 49, 36] h with   -- "$sha1$"
  | some rest => sha1Body (fragments rest)
  | none => none

/-! ## sha256 / sha512: `$5$` / `$6$` [`rounds=` n(32) `$`] A* `$` A{43} / A{86} `[$]` -/

/-- `rounds = none`: no `rounds=` fragment was written (the struct then holds Rounds = 0). -/
structure Sha2 where
  rounds : Option Nat
  salt : Bytes
  sum : Bytes
  deriving Repr, DecidableEq

def kRounds : Bytes := [114, 111, 117, 110, 100, 115, 61]   -- "rounds="

def sha2Body (sumLen : Nat) : List Bytes → Option Sha2
  | [salt, sum] =>
    if over A salt && over A sum && sum.length == sumLen then some ⟨none, salt, sum⟩ else none
  | [r, salt, sum] =>
    match strip kRounds r with
    | some t =>
      (match num 32 t with
       | some n => if over A salt && over A sum && sum.length == sumLen then some ⟨some n, salt, sum⟩ else none
       | none => none)
    | none => none
  | _ => none

def sha256 (h : Bytes) : Option Sha2 :=
  match strip [36, 53, 36] h with          -- "$5$"
  | some rest => sha2Body 43 (fragments rest)
  | none => none

def sha512 (h : Bytes) : Option Sha2 :=
  match strip [36, 54, 36] h with          -- "$6$"
  | some rest => sha2Body 86 (fragments rest)
  | none => none

/-! ## nthash: `$3$` ε `$` A{32} `[$]` -/

structure NtHash where
  sum : Bytes
  deriving Repr, DecidableEq

def nthashBody : List Bytes → Option NtHash
  | [e, sum] => if e.isEmpty && over A sum && sum.length == 32 then some ⟨sum⟩ else none
  | _ => none

def nthash (h : Bytes) : Option NtHash :=
  match strip [36, 51, 36] h with          -- "$3$"
  | some rest => nthashBody (fragments rest)
  | none => none

/-! ## des: A{2} A{11} `[$]`, no prefix, not starting with `$` or `_` -/

structure Des where
  salt : Bytes
  sum : Bytes
  deriving Repr, DecidableEq

def desBody : List Bytes → Option Des
  | [x] => if x.length == 13 && over A x then some ⟨x.take 2, x.drop 2⟩ else none
  | _ => none

def des (h : Bytes) : Option Des :=
  if h.head? = some dollar ∨ h.head? = some underscore then none else desBody (fragments h)

/-! ## desext: `_` A{4} A{4} A{11} `[$]` -/

/-- `rounds` is the four-symbol text (a 24-bit number, six bits per symbol, least significant first). -/
structure DesExt where
  rounds : Bytes
  salt : Bytes
  sum : Bytes
  deriving Repr, DecidableEq

def desextBody : List Bytes → Option DesExt
  | [x] => if x.length == 19 && over A x then some ⟨x.take 4, (x.drop 4).take 4, x.drop 8⟩ else none
  | _ => none

def desext (h : Bytes) : Option DesExt :=
  match strip [95] h with                  -- "_"
  | some rest => desextBody (fragments rest)
  | none => none

/-! ## bcrypt: (`$2$`|`$2a$`|`$2b$`) cost `$` A{22} A{31} `[$]`, cost = two symbols of A read as n(8) -/

structure Bcrypt where
  pfx : Bytes
  cost : Nat
  salt : Bytes
  sum : Bytes
  deriving Repr, DecidableEq

def bcryptBody (pfx : Bytes) : List Bytes → Option Bcrypt
  | [c, x] =>
    if c.length == 2 && over A c then
      match num 8 c with
      | some n => if x.length == 53 && over A x then some ⟨pfx, n, x.take 22, x.drop 22⟩ else none
      | none => none
    else none
  | _ => none

def bcryptPrefixes : List Bytes := [[36, 50, 36], [36, 50, 97, 36], [36, 50, 98, 36]]   -- "$2$" "$2a$" "$2b$"

def bcrypt (h : Bytes) : Option Bcrypt :=
  match stripAny bcryptPrefixes h with
  | some (p, rest) => bcryptBody p (fragments rest)
  | none => none

/-! ## sunmd5: (`$md5,`|`$md5$`) `rounds=` n(32) then digest | salt, digest | salt, ε, digest; `[$]` -/

/-- `salt = none`: no salt fragment; `sep`: the empty separator fragment was written. -/
structure SunMd5 where
  pfx : Bytes
  rounds : Nat
  salt : Option Bytes
  sep : Bool
  sum : Bytes
  deriving Repr, DecidableEq

def sunRounds (r : Bytes) : Option Nat :=
  match strip kRounds r with
  | some t => num 32 t
  | none => none

def sunmd5Body (pfx : Bytes) : List Bytes → Option SunMd5
  | [r, sum] =>
    match sunRounds r with
    | some n => if over A sum && sum.length == 22 then some ⟨pfx, n, none, false, sum⟩ else none
    | none => none
  | [r, salt, sum] =>
    match sunRounds r with
    | some n => if over A salt && over A sum && sum.length == 22 then some ⟨pfx, n, some salt, false, sum⟩ else none
    | none => none
  | [r, salt, e, sum] =>
    match sunRounds r with
    | some n =>
      if over A salt && e.isEmpty && over A sum && sum.length == 22 then some ⟨pfx, n, some salt, true, sum⟩ else none
    | none => none
  | _ => none

def sunmd5Prefixes : List Bytes := [[36, 109, 100, 53, 44], [36, 109, 100, 53, 36]]   -- "$md5," "$md5$"

def sunmd5 (h : Bytes) : Option SunMd5 :=
  match stripAny sunmd5Prefixes h with
  | some (p, rest) => sunmd5Body p (fragments rest)
  | none => none

/-! ## argon2: (`$argon2d$`|`$argon2i$`|`$argon2id$`) [`v=` n(8) `$`] {`m=` n(32), `t=` n(32), `p=` n(8)} `$` B* `$` B* `[$]`

The parameter fragment holds exactly three `,`-separated members; each of the three names is carried by
one of them (any order). Salt and digest may be empty texts (B*); an empty digest needs the trailing
`$` that keeps it a fragment (`…$salt$$`). -/

structure Argon2 where
  pfx : Bytes
  version : Option Nat
  memory : Nat
  time : Nat
  threads : Nat
  salt : Bytes
  sum : Bytes
  deriving Repr, DecidableEq

def kV : Bytes := [118, 61]    -- "v="
def kM : Bytes := [109, 61]    -- "m="
def kT : Bytes := [116, 61]    -- "t="
def kP : Bytes := [112, 61]    -- "p="

/-- the value of the first member carrying the name -/
def member (key : Bytes) (bits : Nat) (ms : List Bytes) : Option Nat :=
  match ms.find? (fun m => key.isPrefixOf m) with
  | some m => num bits (m.drop key.length)
  | none => none

def argon2Params (g : Bytes) : Option (Nat × Nat × Nat) :=
  let ms := splitOn comma g
  if ms.length == 3 then
    match member kM 32 ms, member kT 32 ms, member kP 8 ms with
    | some m, some t, some p => some (m, t, p)
    | _, _, _ => none
  else none

def argon2Body (pfx : Bytes) : List Bytes → Option Argon2
  | [g, salt, sum] =>
    match argon2Params g with
    | some (m, t, p) => if over B salt && over B sum then some ⟨pfx, none, m, t, p, salt, sum⟩ else none
    | none => none
  | [v, g, salt, sum] =>
    match strip kV v with
    | some tv =>
      (match num 8 tv, argon2Params g with
       | some ver, some (m, t, p) =>
         if over B salt && over B sum then some ⟨pfx, some ver, m, t, p, salt, sum⟩ else none
       | _, _ => none)
    | none => none
  | _ => none

def argon2Prefixes : List Bytes :=
  [[36, 97, 114, 103, 111, 110, 50, 100, 36], [36, 97, 114, 103, 111, 110, 50, 105, 36],
   [36, 97, 114, 103, 111, 110, 50, 105, 100, 36]]   -- "$argon2d$" "$argon2i$" "$argon2id$"

def argon2 (h : Bytes) : Option Argon2 :=
  match stripAny argon2Prefixes h with
  | some (p, rest) => argon2Body p (fragments rest)
  | none => none

end GoCrypt.Grammar
