import GoCrypt.Spec.SecretSafe

/-!
# A cost semantics for the flow IR, and the strengthened discipline `secretSafe'`

## Semantics

* Values (`Val`): byte strings, integers, function values, `nil`, tuples, tagged data.
* An environment maps *names* to values.  `.var n` reads the name `n`; `.field b f` reads the name
  `b ++ "." ++ f` (this is the convention the translator itself uses on the left of assignments:
  `ifAssign … "scheme.Version" …`, `assign ["scheme.Sum"] …`).  A "variable" or a field selector whose
  name contains a dot is not a Go identifier and denotes `nil` (the base of a field may be dotted).
* An interpretation `Interp` gives meaning **and cost** to everything the IR leaves uninterpreted:
  constants, (curried) application of arbitrary values, binary / unary operators, `other` nodes
  (value and cost may depend on the *whole* environment), zero values, truthiness.  All of it is
  arbitrary; the theorems quantify over it.  What is assumed about the few trusted primitives is the
  structure `Trusted` — every assumption has the form "cost (and output length) depend only on the
  *shape* (= the value with byte contents blanked, i.e. lengths) of the arguments".
* The `Key` call recognised by the checker (`x, err := Key(args…)`) is answered by a *key oracle*
  `K : List Val → Val × List Val` (key, remaining results); its cost `I.keyCost` depends on the
  evaluated arguments.  Two runs may use two different oracles whose keys differ in content but not
  in length (`KeyRel`).
* A run produces the list of executed statements, each with its cost, the branch taken and — for
  the `ConstantTimeCompare` guard — the value the comparison returned; the returned value; and
  (secret side information, not part of the observable result) the operand pairs handed to
  `ConstantTimeCompare`.

Modelling limits (stated, not hidden): calls are pure except that an encoder writes its result to
its destination buffer; in particular `crypthash.Unmarshal(hash, &scheme)` does not populate
`scheme.*` — the struct fields are inputs of the run, as if `Unmarshal` had already happened, and
`declare x` resets only the name `x`.  A `Key` call that is *not* the head of an assignment's
right-hand side is an ordinary uninterpreted application (the checker does not recognise it either).
-/

namespace GoCrypt.Flow

/-! ## Values and environments -/

inductive Val where
  | bytes (b : List UInt8)
  | int (n : Nat)
  | fn (name : String)
  | nil
  | tuple (vs : List Val)
  | data (tag : String) (vs : List Val)
  deriving Inhabited

/-- The value with all byte contents blanked: what remains is the length. -/
def Val.shape : Val → Val
  | .bytes b => .bytes (List.replicate b.length 0)
  | v => v

/-- Same length (for byte strings) / same value (for everything else). -/
def ShapeEq (a b : Val) : Prop := a.shape = b.shape

abbrev Env := String → Val

def Env.set (env : Env) (x : String) (v : Val) : Env := fun y => if y = x then v else env y

def isDotted (n : String) : Bool := n.toList.contains '.'

/-! ## Interpretations -/

structure Interp where
  const : String → Val
  apply : Val → Val → Val
  applyCost : Val → Val → Nat
  op : String → Val → Val → Val
  opCost : String → Val → Val → Nat
  un : String → Val → Val
  unCost : String → Val → Nat
  /-- expression-level `other`: may look at the whole environment -/
  other : String → Env → Val
  otherCost : String → Env → Nat
  /-- statement-level `other`: arbitrary effect, may return, arbitrary cost -/
  stmtOther : String → Env → Env × Option Val × Nat
  /-- the zero value of `var x T` -/
  zero : String → Val
  truthy : Val → Bool
  /-- cost of the recognised `Key(args…)` call -/
  keyCost : List Val → Nat

/-- The key oracle: evaluated arguments ↦ (key, remaining results such as `err`). -/
abbrev KeyOracle := List Val → Val × List Val

/-- Two oracles that agree on everything but the *content* of the key. -/
def KeyRel (K₁ K₂ : KeyOracle) : Prop :=
  ∀ args, ShapeEq (K₁ args).1 (K₂ args).1 ∧ (K₁ args).2 = (K₂ args).2

def ctcName : String := "subtle.ConstantTimeCompare"

/-- What is assumed about the trusted primitives. -/
structure Trusted (I : Interp) : Prop where
  /-- `x[:]`: cost and resulting length depend only on the length of `x`. -/
  slice : ∀ v v', ShapeEq v v' →
    ShapeEq (I.un "[:]" v) (I.un "[:]" v') ∧ I.unCost "[:]" v = I.unCost "[:]" v'
  /-- `len`: value and cost depend only on the length. -/
  len : ∀ v v', ShapeEq v v' →
    I.apply (.fn "len") v = I.apply (.fn "len") v' ∧
    I.applyCost (.fn "len") v = I.applyCost (.fn "len") v'
  /-- `subtle.ConstantTimeCompare`: cost depends only on the lengths of its two arguments. -/
  ctc_cost : ∀ a a' b b', ShapeEq a a' → ShapeEq b b' →
    I.applyCost (.fn ctcName) a = I.applyCost (.fn ctcName) a' ∧
    I.applyCost (I.apply (.fn ctcName) a) b = I.applyCost (I.apply (.fn ctcName) a') b'
  /-- `subtle.ConstantTimeCompare`: 1 iff the byte strings are equal. -/
  ctc_val : ∀ x y : List UInt8,
    I.apply (I.apply (.fn ctcName) (.bytes x)) (.bytes y) = .int (if x = y then 1 else 0)
  /-- encoders: cost and output length depend only on the lengths of destination and source. -/
  enc : ∀ f, isEncodeFn f = true → ∀ d d' s s', ShapeEq d d' → ShapeEq s s' →
    I.applyCost (.fn f) d = I.applyCost (.fn f) d' ∧
    I.applyCost (I.apply (.fn f) d) s = I.applyCost (I.apply (.fn f) d') s' ∧
    ShapeEq (I.apply (I.apply (.fn f) d) s) (I.apply (I.apply (.fn f) d') s')

/-! ## Expressions -/

/-- Value and cost of an expression.  The cost is the sum of the costs of every application /
operator / `other` node evaluated. -/
def evalExpr (I : Interp) (env : Env) : FExpr → Val × Nat
  | .var n => (if isDotted n then .nil else env n, 0)
  | .field b f => (if isDotted f then .nil else env (b ++ "." ++ f), 0)
  | .const d => (I.const d, 0)
  | .fn n => (.fn n, 0)
  | .app f a =>
    let rf := evalExpr I env f
    let ra := evalExpr I env a
    (I.apply rf.1 ra.1, rf.2 + ra.2 + I.applyCost rf.1 ra.1)
  | .op o a b =>
    let ra := evalExpr I env a
    let rb := evalExpr I env b
    (I.op o ra.1 rb.1, ra.2 + rb.2 + I.opCost o ra.1 rb.1)
  | .un o a =>
    let ra := evalExpr I env a
    (I.un o ra.1, ra.2 + I.unCost o ra.1)
  | .other d => (I.other d env, I.otherCost d env)

def evalList (I : Interp) (env : Env) : List FExpr → List Val × Nat
  | [] => ([], 0)
  | e :: es =>
    let r := evalExpr I env e
    let rs := evalList I env es
    (r.1 :: rs.1, r.2 + rs.2)

/-! ## Statements -/

/-- The name of the buffer an expression denotes, if any. -/
def bufName : FExpr → Option String
  | .var n => some n
  | .field b f => some (b ++ "." ++ f)
  | .un "[:]" (.var n) => some n
  | .un "[:]" (.field b f) => some (b ++ "." ++ f)
  | _ => none

/-- The buffer an expression statement writes: only `encoder(dst, src)` writes, into `dst`. -/
def encTarget : FExpr → Option String
  | .app (.app (.fn f) dst) _ => if isEncodeFn f then bufName dst else none
  | _ => none

/-- Assign values to names left to right; missing values are `nil`. -/
def assignAll : List String → List Val → Env → Env
  | [], _, env => env
  | x :: xs, vs, env => assignAll xs vs.tail (env.set x (vs.headD .nil))

/-- The components of a multi-value result. -/
def unpack (n : Nat) (v : Val) : List Val :=
  if n = 1 then [v] else match v with
    | .tuple vs => vs
    | _ => []

/-- The comparison call and its two operands inside a guard condition `call == 0`. -/
def ctcCall : FExpr → Option (FExpr × FExpr × FExpr)
  | .op _ (.app (.app g a) b) _ => some (.app (.app g a) b, a, b)
  | _ => none

/-- One executed statement, as seen by an observer. -/
structure Event where
  stmt : FStmt
  cost : Nat
  taken : Bool
  /-- for the `ConstantTimeCompare` guard: the value the comparison returned -/
  ctc : Option Val

structure StepRes where
  env : Env
  ev : Event
  ret : Option Val
  /-- operands handed to `ConstantTimeCompare` (secret side information) -/
  cmp : Option (Val × Val)

def step (I : Interp) (K : KeyOracle) (env : Env) (s : FStmt) : StepRes :=
  match s with
  | .declare x => ⟨env.set x (I.zero x), ⟨s, 0, false, none⟩, none, none⟩
  | .assign lhs rhs =>
    match rhs.spine with
    | (some "Key", args) =>
      let ra := evalList I env args
      let k := K ra.1
      ⟨assignAll lhs (k.1 :: k.2) env, ⟨s, ra.2 + I.keyCost ra.1, false, none⟩, none, none⟩
    | _ =>
      let r := evalExpr I env rhs
      ⟨assignAll lhs (unpack lhs.length r.1) env, ⟨s, r.2, false, none⟩, none, none⟩
  | .eval e =>
    let r := evalExpr I env e
    let env' := match encTarget e with
      | some d => env.set d r.1
      | none => env
    ⟨env', ⟨s, r.2, false, none⟩, none, none⟩
  | .ifRet cond ret =>
    let rc := evalExpr I env cond
    let g := if isCTCGuard cond then ctcCall cond else none
    let ctc := g.map fun x => (evalExpr I env x.1).1
    let cmp := g.map fun x => ((evalExpr I env x.2.1).1, (evalExpr I env x.2.2).1)
    if I.truthy rc.1 then
      let rr := evalExpr I env ret
      ⟨env, ⟨s, rc.2 + rr.2, true, ctc⟩, some rr.1, cmp⟩
    else ⟨env, ⟨s, rc.2, false, ctc⟩, none, cmp⟩
  | .ifAssign cond lhs rhs =>
    let rc := evalExpr I env cond
    if I.truthy rc.1 then
      let rr := evalExpr I env rhs
      ⟨env.set lhs rr.1, ⟨s, rc.2 + rr.2, true, none⟩, none, none⟩
    else ⟨env, ⟨s, rc.2, false, none⟩, none, none⟩
  | .ret e =>
    let r := evalExpr I env e
    ⟨env, ⟨s, r.2, true, none⟩, some r.1, none⟩
  | .other d =>
    let r := I.stmtOther d env
    ⟨r.1, ⟨s, r.2.2, false, none⟩, r.2.1, none⟩

/-! ## Runs -/

structure Result where
  /-- executed statements with their costs and branch decisions, in order -/
  events : List Event
  /-- the returned value; `none` = fell off the end -/
  out : Option Val
  /-- operand pairs handed to `ConstantTimeCompare` (not observable) -/
  cmps : List (Val × Val)

def run (I : Interp) (K : KeyOracle) : List FStmt → Env → Result
  | [], _ => ⟨[], none, []⟩
  | s :: ss, env =>
    let r := step I K env s
    match r.ret with
    | some v => ⟨[r.ev], some v, r.cmp.toList⟩
    | none =>
      let R := run I K ss r.env
      ⟨r.ev :: R.events, R.out, r.cmp.toList ++ R.cmps⟩

/-- Total cost of a run. -/
def Result.cost (R : Result) : Nat := (R.events.map Event.cost).sum

/-- The values returned by the `ConstantTimeCompare` guards that were reached. -/
def Result.ctcVals (R : Result) : List Val := R.events.filterMap Event.ctc

/-- What happened up to and including the first comparison: statement, and (before the comparison)
its cost and branch decision. -/
def uptoGuard : List Event → List (FStmt × Option (Nat × Bool))
  | [] => []
  | e :: es => if e.ctc.isSome then [(e.stmt, none)] else (e.stmt, some (e.cost, e.taken)) :: uptoGuard es

/-- Every pair of buffers handed to `ConstantTimeCompare` differed. -/
def Result.AllMismatch (R : Result) : Prop :=
  ∀ c ∈ R.cmps, ∃ x y : List UInt8, c = (.bytes x, .bytes y) ∧ x ≠ y

/-! ## Low-equivalence -/

/-- A name holds a secret: a tainted name or a `….Sum` field. -/
def Secret (t : Taint) (x : String) : Prop := x ∈ t ∨ ∃ b : String, x = b ++ "." ++ "Sum"

/-- Environments that agree on every public name and agree *in length* on every secret. -/
def LowEq (t : Taint) (e₁ e₂ : Env) : Prop :=
  ∀ x, ShapeEq (e₁ x) (e₂ x) ∧ (¬ Secret t x → e₁ x = e₂ x)

/-! ## The strengthened discipline

Three changes with respect to `tainted` / `stepSafe` (each closes a real leak, see
`GoCrypt/Props/C19Sound.lean` for the witnesses):

1. `len(e)` is public only when `e` is a *whole buffer*; otherwise it is as tainted as `e`
   (`tainted` declared `len(anything)` public, including `len(f(key))` and `len(<other>)`).
2. a field read `s.F` is tainted when the name `s.F` is in the taint set
   (`tainted` ignored the taint set for fields, so `s.K, err := Key(…)` went untracked).
3. an encoder's secret source must be a *whole buffer*
   (`stepSafe` accepted `Encode(dst, f(key))`).
-/

def tainted' (t : Taint) : FExpr → Bool
  | .var n => t.contains n
  | .field b f => f == "Sum" || t.contains (b ++ "." ++ f)
  | .const _ => false
  | .fn _ => false
  | .app f a =>
    if f = .fn "len" then (if wholeBuffer a then false else tainted' t a)
    else tainted' t f || tainted' t a
  | .op _ a b => tainted' t a || tainted' t b
  | .un _ a => tainted' t a
  | .other _ => true

def stepSafe' (t : Taint) : FStmt → Option Taint
  | .declare _ => some t
  | .assign lhs rhs =>
    match rhs.spine with
    | (some "Key", args) =>
      if args.any (tainted' t) then none else some (lhs.take 1 ++ t)
    | _ => if tainted' t rhs then none else some (t.filter fun x => !lhs.contains x)
  | .eval e =>
    match e.spine with
    | (some f, [dst, src]) =>
      if isEncodeFn f then
        (if tainted' t src then
          (if wholeBuffer src then (match baseVar dst with | some d => some (d :: t) | none => none)
           else none)
         else if tainted' t dst then none else some t)
      else if tainted' t e then none else some t
    | _ => if tainted' t e then none else some t
  | .ifRet cond ret =>
    if isCTCGuard cond then (if isConst ret then some t else none)
    else if tainted' t cond || tainted' t ret then none else some t
  | .ifAssign cond _ rhs => if tainted' t cond || tainted' t rhs then none else some t
  | .ret e => if tainted' t e then none else some t
  | .other _ => none

def runSafe' : Taint → List FStmt → Option Taint
  | t, [] => some t
  | t, s :: ss => match stepSafe' t s with
    | some t' => runSafe' t' ss
    | none => none

def secretSafe' (p : List FStmt) : Bool :=
  (runSafe' [] p).isSome &&
  countCTCGuards p == 1 &&
  (p.filter returnsMismatch).all (fun s => match s with | .ifRet c _ => isCTCGuard c | _ => false) &&
  (p.filter returnsMismatch).length == 1

end GoCrypt.Flow
