import GoCrypt.Base.KeyArgs
import GoCrypt.Gen.Consts

/-!
# Specification side of C14: the exported bounds, declaratively

For each scheme: how a nil `opts` is defaulted, then an *ordered* list of clauses written only in
terms of the exported constants (`Gen.Consts`); the first violated clause determines the typed
error and its payload. Nothing here looks at the generated guard code.
-/

namespace GoCrypt.Accepts
open GoCrypt

inductive Clause where
  | pwMax (n : Nat) (err : String)                 -- len(password) ≤ n
  | pwEvenMax (n : Nat) (err : String)             -- len(password) even and ≤ n
  | saltMax (n : Nat) (err : String)               -- len(salt) ≤ n
  | saltExact (n : Nat) (err : String)             -- len(salt) = n
  | saltMin (n : Nat) (err : String)               -- len(salt) ≥ n
  | saltAlphabet (alphabet : Bytes) (err : String) -- every salt byte in the alphabet (payload: first offender)
  | roundsRange (lo hi : Nat) (err : String)       -- lo ≤ rounds ≤ hi
  | roundsMin (lo : Nat) (err : String)
  | roundsMax (hi : Nat) (err : String)
  | memoryMin (lo : Nat) (err : String)
  | threadsMin (lo : Nat) (err : String)
  | prefixIn (allowed : List Bytes) (err : String)
  | versionIn (allowed : List Nat) (err : String)
  deriving Repr

/-- The violation of one clause, if any. -/
def Clause.violation (c : Clause) (a : KeyArgs) : Option KeyErr :=
  match c with
  | .pwMax n e => if a.password.length > n then some { type := e, num := a.password.length } else none
  | .pwEvenMax n e => if a.password.length % 2 ≠ 0 ∨ a.password.length > n then some { type := e, num := a.password.length } else none
  | .saltMax n e => if a.salt.length > n then some { type := e, num := a.salt.length } else none
  | .saltExact n e => if a.salt.length ≠ n then some { type := e, num := a.salt.length } else none
  | .saltMin n e => if a.salt.length < n then some { type := e, num := a.salt.length } else none
  | .saltAlphabet al e => (a.salt.find? (fun c => !al.contains c)).map fun c => { type := e, num := c.toNat }
  | .roundsRange lo hi e => if a.rounds < lo ∨ a.rounds > hi then some { type := e, num := a.rounds } else none
  | .roundsMin lo e => if a.rounds < lo then some { type := e, num := a.rounds } else none
  | .roundsMax hi e => if a.rounds > hi then some { type := e, num := a.rounds } else none
  | .memoryMin lo e => if a.memory < lo then some { type := e, num := a.memory } else none
  | .threadsMin lo e => if a.threads < lo then some { type := e, num := a.threads } else none
  | .prefixIn al e => if al.contains a.optPrefix then none else some { type := e, str := a.optPrefix }
  | .versionIn al e => if al.contains a.optVersion then none else some { type := e, num := a.optVersion }

def firstViolation : List Clause → KeyArgs → Option KeyErr
  | [], _ => none
  | c :: cs, a => match c.violation a with
    | some e => some e
    | none => firstViolation cs a

structure Spec where
  /-- what a nil `opts` stands for (and, for sha1, how the "random rounds" request is resolved) -/
  defaults : KeyArgs → KeyArgs
  clauses : List Clause

def Spec.verdict (s : Spec) (a : KeyArgs) : Option KeyErr := firstViolation s.clauses (s.defaults a)

def hashAlpha : Bytes := Gen.internal_hashutil.encoderHash
def b64Alpha : Bytes := Gen.internal_hashutil.encoderBase64

def md5 : Spec where
  defaults := id
  clauses := [.saltMax Gen.md5.MaxSaltLength "InvalidSaltLengthError", .saltAlphabet hashAlpha "InvalidSaltError"]

def sha256 : Spec where
  defaults := id
  clauses := [.saltMax Gen.sha256.MaxSaltLength "InvalidSaltLengthError", .saltAlphabet hashAlpha "InvalidSaltError",
              .roundsRange Gen.sha256.MinRounds Gen.sha256.MaxRounds "InvalidRoundsError"]

def sha512 : Spec where
  defaults := id
  clauses := [.saltMax Gen.sha512.MaxSaltLength "InvalidSaltLengthError", .saltAlphabet hashAlpha "InvalidSaltError",
              .roundsRange Gen.sha512.MinRounds Gen.sha512.MaxRounds "InvalidRoundsError"]

/-- sha1: the documented "random rounds" request is replaced by a drawn value before the range check. -/
def sha1 : Spec where
  defaults a := if a.rounds = Gen.sha1.RandomRounds then { a with rounds := Gen.sha1.randomHint - a.rand % (Gen.sha1.randomHint / 4) } else a
  clauses := [.saltMax Gen.sha1.MaxSaltLength "InvalidSaltLengthError", .saltAlphabet hashAlpha "InvalidSaltError",
              .roundsMin Gen.sha1.MinRounds "InvalidRoundsError"]

def sunmd5 : Spec where
  defaults a := if a.optsNil then
      { a with optsNil := false, optVersion := 0, optFlag := false,
               optPrefix := if a.rounds = 0 then Gen.sunmd5.PrefixZeroRounds else Gen.sunmd5.PrefixNonZeroRounds }
    else a
  clauses := [.pwMax Gen.sunmd5.MaxPasswordLength "InvalidPasswordLengthError", .saltMax Gen.sunmd5.MaxSaltLength "InvalidSaltLengthError",
              .saltAlphabet hashAlpha "InvalidSaltError", .roundsMax Gen.sunmd5.MaxRounds "InvalidRoundsError",
              .prefixIn [Gen.sunmd5.PrefixNonZeroRounds, Gen.sunmd5.PrefixZeroRounds] "UnsupportedPrefixError"]

def des : Spec where
  defaults := id
  clauses := [.pwMax Gen.des.MaxPasswordLength "InvalidPasswordLengthError", .saltExact Gen.des.SaltLength "InvalidSaltLengthError",
              .saltAlphabet hashAlpha "InvalidSaltError"]

def desext : Spec where
  defaults := id
  clauses := [.saltExact Gen.desext.SaltLength "InvalidSaltLengthError", .saltAlphabet hashAlpha "InvalidSaltError",
              .roundsRange Gen.desext.MinRounds Gen.desext.MaxRounds "InvalidRoundsError"]

def bcrypt : Spec where
  defaults a := if a.optsNil then { a with optsNil := false, optPrefix := Gen.bcrypt.Prefix2b, optVersion := 0, optFlag := false } else a
  clauses := [.prefixIn [Gen.bcrypt.Prefix2, Gen.bcrypt.Prefix2a, Gen.bcrypt.Prefix2b] "UnsupportedPrefixError",
              .saltExact Gen.bcrypt.SaltLength "InvalidSaltLengthError", .saltAlphabet hashAlpha "InvalidSaltError",
              .roundsRange Gen.bcrypt.MinCost Gen.bcrypt.MaxCost "InvalidCostError"]

def nthash : Spec where
  defaults := id
  clauses := [.pwEvenMax Gen.nthash.MaxPasswordLength "InvalidPasswordLengthError"]

def argon2 : Spec where
  defaults a := if a.optsNil then { a with optsNil := false, optPrefix := Gen.argon2.Prefix2id, optVersion := Gen.argon2.Version13, optFlag := false } else a
  clauses := [.prefixIn [Gen.argon2.Prefix2d, Gen.argon2.Prefix2i, Gen.argon2.Prefix2id] "UnsupportedPrefixError",
              .versionIn [Gen.argon2.Version10, Gen.argon2.Version13] "UnsupportedVersionError",
              .saltMin Gen.argon2.MinSaltLength "InvalidSaltLengthError", .saltAlphabet b64Alpha "InvalidSaltError",
              .memoryMin Gen.argon2.MinMemory "InvalidMemoryError", .roundsMin Gen.argon2.MinTime "InvalidTimeError",
              .threadsMin Gen.argon2.MinThreads "InvalidThreadsError"]

end GoCrypt.Accepts
