import GoCrypt.Base.Bytes
import GoCrypt.Base.SFlow
import GoCrypt.Model.Dispatch
import GoCrypt.Gen.DispatchFlow

/-!
# A value semantics for the structured flow IR

`Base/SFlow.lean` is the structured statement IR (`SStmt`: blocks, `if init; c {…} else {…}`, `return`
inside branches) into which `gogen` re-translates `crypt.Check`, `crypt.RegisterHash` and the lexer's
`lexPrefix` on every run (`Gen/DispatchFlow.lean`).  This file says what such a program computes.

* Part 1 (`Val` … `runFunc`) is the meaning of the IR: Go's block scoping (an environment is a stack
  of frames; `:=` declares in the innermost frame, `=` updates the innermost declaration, leaving a
  block drops its frame), constants spelled by value, `==` `!=` `<` `<=` `>` `>=` `+` `-` on `int`s,
  `==` `!=` on strings and booleans, `len`, string indexing and slicing **with Go's bounds checks** (an
  out-of-range slice is the outcome `panic`, never clamped), `strings.HasPrefix`, `strings.IndexAny`,
  multi-value `:=`, `return` from any depth.  Everything that belongs to a package — package-level
  variables, methods, what a function value does when called, type assertions, conversions, fields —
  is looked up in a record `Prims`.  A name `Prims` does not interpret, an `other` node, an ill-typed
  operand, an unbound variable make the run `stuck`.  Nothing is silently assumed.
* Part 2 (`dprims`) instantiates `Prims` for the dispatcher: the state is the registry (`sync.Map`
  holding `map[string]func(hash, password string) error`, a last-writer-wins association list exactly
  as in `Model/Dispatch.lean`) together with the log of handler calls made so far; a handler is an
  abstract `α`; calling it appends to the log and yields "the result of that call".
* Part 3 (`lprims`, in `Spec/SFlowValLex.lean`) instantiates `Prims` for the lexer's prefix rule: the
  state is the `lexer` struct (`input`, `pos`, `start`) and the list of tokens sent on `l.tokens`.

## Modelling decisions (stated, not hidden)

* `int` (and `Pos`, `tokenType`) is ℤ, without wrap-around.  The only arithmetic in the three functions
  is `i+1`, `i+2`, `pos+1`, `pos+i+1` with `i`, `pos` indices into a Go string, whose length fits in an
  `int`; no wrap-around can occur there.
* `strings.IndexAny(s, chars)` is interpreted on bytes, and only for `chars` all below 0x80 (otherwise
  `stuck`): a UTF-8 encoded code point ≥ 0x80 has no byte below 0x80, and an invalid byte decodes to
  U+FFFD, which is not ASCII — so for ASCII `chars` the first matching *code point* starts at the
  first matching *byte*.
* A package-level variable is a fixed value (`crypt.ErrHash` is never assigned: `Gen.Facts`); the
  registry `crypt.hashCache` is the one mutable global, and it lives in the state.
* A handler stored by `RegisterHash` has dynamic type `func(hash string, password string) error` (the
  static type of the parameter `check`, read from `Gen.crypt.registerFlow`); the type assertion in
  `Check` succeeds on such a value iff it names that very type, panics on `nil` (a failed `Load`),
  and is `stuck` for any other type.
* A call of a handler is an opaque event: the log records `(handler, hash, password)`, the value is
  `result k` = "what the `k`-th logged call returned".  `evalCheck` reads `return crypt.ErrHash` with
  an empty log as the model's `errHash`, and `return (result 0)` with the one-entry log `[(f, h, p)]`
  as the model's `call f h p`; every other outcome (a panic, a stuck run, a second call, a call whose
  result is dropped, another returned value) is `none`.
-/

namespace GoCrypt.SFlowVal
open GoCrypt.Flow GoCrypt.SFlow

/-! # Part 1 — the meaning of the IR -/

/-! ## Values -/

inductive Val (ν : Type) where
  | str (s : Bytes)               -- `string`
  | int (n : Int)                 -- `int` and named integer types
  | bool (b : Bool)
  | nil                           -- `nil` (interface, function, pointer)
  | unit                          -- the "value" of a call without results
  | pair (a b : Val ν)            -- two results (`v, ok := m.Load(k)`)
  | func (name : String)          -- a named function used as a value (`return lexFragment`)
  | kv (key : String) (v : Val ν) -- `Key: value` inside a composite literal
  | ext (v : ν)                   -- a value only the package's primitives understand
  deriving Inhabited, Repr, DecidableEq

/-- A result, a Go run-time panic, or "the semantics does not say". -/
inductive Res (β : Type) where
  | ok (b : β)
  | panic (why : String)
  | stuck (why : String)
  deriving Inhabited, Repr

/-- Everything outside the language proper.  `σ` is the mutable state, `ν` the extra values. -/
structure Prims (σ ν : Type) where
  /-- package-level variables, by `pkg.Name` -/
  global : String → Option (Val ν)
  /-- named functions, methods (`(*T).M`, first argument the receiver), composite literals (`lit:T`),
  channel send (`chan<-`) -/
  call : String → List (Val ν) → σ → Res (Val ν × σ)
  /-- a call through a function value -/
  apply : Val ν → List (Val ν) → σ → Res (Val ν × σ)
  /-- `x.f` for `x` holding `base` -/
  readField : Val ν → String → σ → Option (Val ν)
  /-- `x.f = v` -/
  writeField : Val ν → String → Val ν → σ → Option σ
  /-- `v.(T)` -/
  assert : String → Val ν → Res (Val ν)
  /-- `T(v)` -/
  conv : String → Val ν → Option (Val ν)
  /-- zero value of a type (`var x T`) -/
  zero : String → Option (Val ν)

/-! ## Environments: a stack of scopes, innermost first -/

abbrev Frame (ν : Type) := List (String × Val ν)
abbrev Env (ν : Type) := List (Frame ν)

def Frame.get {ν} : Frame ν → String → Option (Val ν)
  | [], _ => none
  | (y, v) :: r, x => if y = x then some v else Frame.get r x

def Frame.set {ν} : Frame ν → String → Val ν → Option (Frame ν)
  | [], _, _ => none
  | (y, w) :: r, x, v => if y = x then some ((y, v) :: r) else (Frame.set r x v).map ((y, w) :: ·)

/-- The innermost declaration of `x`. -/
def Env.get {ν} : Env ν → String → Option (Val ν)
  | [], _ => none
  | fr :: rest, x =>
    match fr.get x with
    | some v => some v
    | none => Env.get rest x

/-- `x = v`: updates the innermost declaration of `x`; none is an error. -/
def Env.set {ν} : Env ν → String → Val ν → Option (Env ν)
  | [], _, _ => none
  | fr :: rest, x, v =>
    match fr.set x v with
    | some fr' => some (fr' :: rest)
    | none => (Env.set rest x v).map (fr :: ·)

/-- `x := v` / `var x`: declares in the innermost scope (a redeclared name of the same scope is
found first, which is Go's "at least one new variable" assignment). -/
def Env.define {ν} : Env ν → String → Val ν → Option (Env ν)
  | [], _, _ => none
  | fr :: rest, x, v => some (((x, v) :: fr) :: rest)

/-! ## Constants, spelled by value (`Base/SFlow.lean`) -/

def hexVal (c : Char) : Option Nat :=
  if '0' ≤ c ∧ c ≤ '9' then some (c.toNat - 48)
  else if 'a' ≤ c ∧ c ≤ 'f' then some (c.toNat - 87)
  else none

/-- The bytes of a quoted string constant after its opening quote. -/
def unquote : List Char → Option Bytes
  | [] => none
  | ['"'] => some []
  | '\\' :: 'x' :: a :: b :: r =>
    match hexVal a, hexVal b, unquote r with
    | some x, some y, some bs => some (UInt8.ofNat (x * 16 + y) :: bs)
    | _, _, _ => none
  | c :: r =>
    if c = '"' ∨ c = '\\' ∨ c.toNat < 32 ∨ 127 ≤ c.toNat then none
    else (unquote r).map (UInt8.ofNat c.toNat :: ·)

def digits : List Char → Option Nat
  | [] => none
  | cs => cs.foldl (fun acc c => acc.bind fun n => if '0' ≤ c ∧ c ≤ '9' then some (n * 10 + (c.toNat - 48)) else none) (some 0)

def constVal {σ ν} (P : Prims σ ν) (d : String) : Option (Val ν) :=
  if d = "nil" then some .nil
  else if d = "true" then some (.bool true)
  else if d = "false" then some (.bool false)
  else match d.toList with
    | '"' :: r => (unquote r).map .str
    | '-' :: r => (digits r).map fun n => .int (-(n : Int))
    | c :: r => if '0' ≤ c ∧ c ≤ '9' then (digits (c :: r)).map fun n => .int n else P.global d
    | [] => none

/-! ## Operators -/

/-- `s[lo:hi]` on a string: Go panics unless `0 ≤ lo ≤ hi ≤ len(s)`. -/
def sliceStr {ν} (s : Bytes) (lo hi : Int) : Res (Val ν) :=
  if 0 ≤ lo ∧ lo ≤ hi ∧ hi ≤ s.length then .ok (.str ((s.drop lo.toNat).take (hi.toNat - lo.toNat)))
  else .panic "slice bounds out of range"

/-- `s[i]` on a string. -/
def indexStr {ν} (s : Bytes) (i : Int) : Res (Val ν) :=
  if 0 ≤ i ∧ i < s.length then .ok (.int (s.getD i.toNat 0).toNat)
  else .panic "index out of range"

def binop {ν} (o : String) (a b : Val ν) : Res (Val ν) :=
  match a, b with
  | .int x, .int y =>
    if o = "==" then .ok (.bool (decide (x = y)))
    else if o = "!=" then .ok (.bool (decide (x ≠ y)))
    else if o = "<" then .ok (.bool (decide (x < y)))
    else if o = "<=" then .ok (.bool (decide (x ≤ y)))
    else if o = ">" then .ok (.bool (decide (x > y)))
    else if o = ">=" then .ok (.bool (decide (x ≥ y)))
    else if o = "+" then .ok (.int (x + y))
    else if o = "-" then .ok (.int (x - y))
    else .stuck ("operator " ++ o ++ " on ints")
  | .str x, .str y =>
    if o = "==" then .ok (.bool (decide (x = y)))
    else if o = "!=" then .ok (.bool (decide (x ≠ y)))
    else if o = "+" then .ok (.str (x ++ y))
    else .stuck ("operator " ++ o ++ " on strings")
  | .bool x, .bool y =>
    if o = "==" then .ok (.bool (decide (x = y)))
    else if o = "!=" then .ok (.bool (decide (x ≠ y)))
    else .stuck ("operator " ++ o ++ " on bools")
  | .str s, .int i =>
    if o = "[_:]" then sliceStr s i s.length
    else if o = "[:_]" then sliceStr s 0 i
    else if o = "[_]" then indexStr s i
    else .stuck ("operator " ++ o ++ " on a string and an int")
  | _, _ => .stuck ("operator " ++ o ++ ": operands")

/-- `"assert:T"` ↦ `("assert", T)`, `"conv:T"` ↦ `("conv", T)`. -/
def tagged (o : String) : Option (String × String) :=
  match o.toList.span (· != ':') with
  | (t, _ :: T) => if t = "assert".toList ∨ t = "conv".toList then some (String.ofList t, String.ofList T) else none
  | _ => none

def unop {σ ν} (P : Prims σ ν) (o : String) (a : Val ν) : Res (Val ν) :=
  match tagged o with
  | some ("assert", T) => P.assert T a
  | some ("conv", T) =>
    (match P.conv T a with
     | some v => .ok v
     | none => .stuck ("conversion " ++ o))
  | _ => match a with
    | .bool b => if o = "!" then .ok (.bool (!b)) else .stuck ("operator " ++ o)
    | .int n => if o = "-" then .ok (.int (-n)) else .stuck ("operator " ++ o)
    | .str s => if o = "[:]" then .ok (.str s) else .stuck ("operator " ++ o)
    | _ => .stuck ("operator " ++ o)

/-! ## The library functions the three programs use -/

/-- `strings.HasPrefix(s, p)` -/
def hasPrefix (s p : Bytes) : Bool := p.isPrefixOf s

/-- First index of a byte of `s` that occurs in `chars`. -/
def indexAny? (chars : Bytes) : Bytes → Option Nat
  | [] => none
  | c :: cs => if c ∈ chars then some 0 else (indexAny? chars cs).map (· + 1)

/-- `strings.IndexAny(s, chars)` for ASCII `chars`: −1 when no byte of `s` is in `chars`. -/
def indexAny (s chars : Bytes) : Int :=
  match indexAny? chars s with
  | some i => i
  | none => -1

/-- Built-in and library functions; everything else is the package's. -/
def callNamed {σ ν} (P : Prims σ ν) (f : String) (args : List (Val ν)) (st : σ) : Res (Val ν × σ) :=
  if f = "len" then
    match args with
    | [.str s] => .ok (.int s.length, st)
    | _ => .stuck "len: operand"
  else if f = "strings.HasPrefix" then
    match args with
    | [.str s, .str p] => .ok (.bool (hasPrefix s p), st)
    | _ => .stuck "strings.HasPrefix: operands"
  else if f = "strings.IndexAny" then
    match args with
    | [.str s, .str chars] =>
      if chars.all (· < 128) then .ok (.int (indexAny s chars), st)
      else .stuck "strings.IndexAny: non-ASCII chars"
    | _ => .stuck "strings.IndexAny: operands"
  else P.call f args st

/-! ## Expressions -/

/-- What is applied in a call: a named function / method, or a function value. -/
inductive Head (ν : Type) where
  | named (f : String)
  | value (v : Val ν)

def applyHead {σ ν} (P : Prims σ ν) (h : Head ν) (args : List (Val ν)) (st : σ) : Res (Val ν × σ) :=
  match h with
  | .named f => callNamed P f args st
  | .value v => P.apply v args st

mutual
def evalE {σ ν} (P : Prims σ ν) (env : Env ν) : FExpr → σ → Res (Val ν × σ)
  | .var x, st =>
    match env.get x with
    | some v => .ok (v, st)
    | none => .stuck ("variable " ++ x)
  | .field x f, st =>
    match env.get x with
    | some b =>
      (match P.readField b f st with
       | some v => .ok (v, st)
       | none => .stuck ("field " ++ x ++ "." ++ f))
    | none => .stuck ("variable " ++ x)
  | .const d, st =>
    match constVal P d with
    | some v => .ok (v, st)
    | none => .stuck ("constant " ++ d)
  | .fn f, st => .ok (.func f, st)
  | .app g a, st =>
    match evalSpine P env g st with
    | .ok ((h, vs), st1) =>
      (match evalE P env a st1 with
       | .ok (v, st2) => applyHead P h (vs ++ [v]) st2
       | .panic w => .panic w
       | .stuck w => .stuck w)
    | .panic w => .panic w
    | .stuck w => .stuck w
  | .op o a b, st =>
    if o = ":" then
      match a with
      | .const k =>
        (match evalE P env b st with
         | .ok (v, st1) => .ok (.kv k v, st1)
         | .panic w => .panic w
         | .stuck w => .stuck w)
      | _ => .stuck "key of a composite literal"
    else if o = "[_:_]" then
      match b with
      | .op _ lo hi =>
        (match evalE P env a st with
         | .ok (.str s, st1) =>
           (match evalE P env lo st1 with
            | .ok (.int l, st2) =>
              (match evalE P env hi st2 with
               | .ok (.int h, st3) =>
                 (match (sliceStr s l h : Res (Val ν)) with
                  | .ok v => .ok (v, st3)
                  | .panic w => .panic w
                  | .stuck w => .stuck w)
               | .ok _ => .stuck "slice: high bound"
               | .panic w => .panic w
               | .stuck w => .stuck w)
            | .ok _ => .stuck "slice: low bound"
            | .panic w => .panic w
            | .stuck w => .stuck w)
         | .ok _ => .stuck "slice: operand"
         | .panic w => .panic w
         | .stuck w => .stuck w)
      | _ => .stuck "slice: bounds"
    else if o = "<-" then
      match evalE P env a st with
      | .ok (ch, st1) =>
        (match evalE P env b st1 with
         | .ok (v, st2) => P.call "chan<-" [ch, v] st2
         | .panic w => .panic w
         | .stuck w => .stuck w)
      | .panic w => .panic w
      | .stuck w => .stuck w
    else
      match evalE P env a st with
      | .ok (va, st1) =>
        (match evalE P env b st1 with
         | .ok (vb, st2) =>
           (match binop o va vb with
            | .ok v => .ok (v, st2)
            | .panic w => .panic w
            | .stuck w => .stuck w)
         | .panic w => .panic w
         | .stuck w => .stuck w)
      | .panic w => .panic w
      | .stuck w => .stuck w
  | .un o a, st =>
    if o = "()" then
      match evalSpine P env a st with
      | .ok ((h, vs), st1) => applyHead P h vs st1
      | .panic w => .panic w
      | .stuck w => .stuck w
    else
      match evalE P env a st with
      | .ok (va, st1) =>
        (match unop P o va with
         | .ok v => .ok (v, st1)
         | .panic w => .panic w
         | .stuck w => .stuck w)
      | .panic w => .panic w
      | .stuck w => .stuck w
  | .other d, _ => .stuck ("untranslated expression: " ++ d)
/-- Callee and arguments (evaluated left to right) of an application spine. -/
def evalSpine {σ ν} (P : Prims σ ν) (env : Env ν) : FExpr → σ → Res ((Head ν × List (Val ν)) × σ)
  | .fn f, st => .ok ((.named f, []), st)
  | .app g a, st =>
    match evalSpine P env g st with
    | .ok ((h, vs), st1) =>
      (match evalE P env a st1 with
       | .ok (v, st2) => .ok ((h, vs ++ [v]), st2)
       | .panic w => .panic w
       | .stuck w => .stuck w)
    | .panic w => .panic w
    | .stuck w => .stuck w
  | .var x, st =>
    match env.get x with
    | some v => .ok ((.value v, []), st)
    | none => .stuck ("variable " ++ x)
  | .un o a, st =>
    if o = "()" then .stuck "callee is itself a call" else
    match evalE P env a st with
    | .ok (va, st1) =>
      (match unop P o va with
       | .ok v => .ok ((.value v, []), st1)
       | .panic w => .panic w
       | .stuck w => .stuck w)
    | .panic w => .panic w
    | .stuck w => .stuck w
  | _, _ => .stuck "callee"
end

def evalList {σ ν} (P : Prims σ ν) (env : Env ν) : List FExpr → σ → Res (List (Val ν) × σ)
  | [], st => .ok ([], st)
  | e :: es, st =>
    match evalE P env e st with
    | .ok (v, st1) =>
      (match evalList P env es st1 with
       | .ok (vs, st2) => .ok (v :: vs, st2)
       | .panic w => .panic w
       | .stuck w => .stuck w)
    | .panic w => .panic w
    | .stuck w => .stuck w

/-! ## Statements -/

/-- How a statement ends. -/
inductive Flow (σ ν : Type) where
  | next (env : Env ν) (st : σ)           -- falls through
  | ret (vs : List (Val ν)) (st : σ)      -- `return`
  | panic (why : String)
  | stuck (why : String)
  deriving Inhabited

/-- Leave a scope. -/
def Flow.pop {σ ν} : Flow σ ν → Flow σ ν
  | .next env st => .next env.tail st
  | f => f

/-- An assignment target: a variable or a field of a variable. -/
inductive Place where
  | var (x : String)
  | field (x f : String)
  deriving DecidableEq, Repr

/-- `"x"` or `"x.f"` (the translator's spelling of an assignment target). -/
def placeOfName (s : String) : Place :=
  match s.toList.span (· != '.') with
  | (x, []) => .var (String.ofList x)
  | (x, _ :: f) => .field (String.ofList x) (String.ofList f)

/-- The values bound by `x₁, …, xₙ := v` / `= v`. -/
def components {ν} (n : Nat) (v : Val ν) : List (Val ν) :=
  if n = 1 then [v]
  else match v with
    | .pair a b => [a, b]
    | _ => []

def defineAll {ν} (env : Env ν) : List String → List (Val ν) → Option (Env ν)
  | [], [] => some env
  | x :: xs, v :: vs =>
    if x = "_" then defineAll env xs vs
    else (env.define x v).bind fun env' => defineAll env' xs vs
  | _, _ => none

def assignAll {σ ν} (P : Prims σ ν) (env : Env ν) (st : σ) : List String → List (Val ν) → Option (Env ν × σ)
  | [], [] => some (env, st)
  | x :: xs, v :: vs =>
    if x = "_" then assignAll P env st xs vs
    else match placeOfName x with
      | .var y => (env.set y v).bind fun env' => assignAll P env' st xs vs
      | .field y f => (env.get y).bind fun b => (P.writeField b f v st).bind fun st' => assignAll P env st' xs vs
  | _, _ => none

mutual
def exec {σ ν} (P : Prims σ ν) : SStmt → Env ν → σ → Flow σ ν
  | .declare x ty, env, st =>
    match P.zero ty with
    | some v =>
      (match env.define x v with
       | some env' => .next env' st
       | none => .stuck "no scope")
    | none => .stuck ("var " ++ x ++ " " ++ ty)
  | .define xs e, env, st =>
    match evalE P env e st with
    | .ok (v, st1) =>
      (match defineAll env xs (components xs.length v) with
       | some env' => .next env' st1
       | none => .stuck "definition: arity")
    | .panic w => .panic w
    | .stuck w => .stuck w
  | .assign xs e, env, st =>
    match evalE P env e st with
    | .ok (v, st1) =>
      (match assignAll P env st1 xs (components xs.length v) with
       | some (env', st2) => .next env' st2
       | none => .stuck "assignment")
    | .panic w => .panic w
    | .stuck w => .stuck w
  | .eval e, env, st =>
    match evalE P env e st with
    | .ok (_, st1) => .next env st1
    | .panic w => .panic w
    | .stuck w => .stuck w
  | .ret es, env, st =>
    match evalList P env es st with
    | .ok (vs, st1) => .ret vs st1
    | .panic w => .panic w
    | .stuck w => .stuck w
  | .ite init c thn els, env, st =>
    -- the `if` statement is a scope of its own (it holds what `init` declares); each branch is a block
    match execBlock P init ([] :: env) st with
    | .next env1 st1 =>
      (match evalE P env1 c st1 with
       | .ok (.bool true, st2) => (execBlock P thn ([] :: env1) st2).pop.pop
       | .ok (.bool false, st2) => (execBlock P els ([] :: env1) st2).pop.pop
       | .ok _ => .stuck "condition is not a bool"
       | .panic w => .panic w
       | .stuck w => .stuck w)
    | f => f
  | .block b, env, st => (execBlock P b ([] :: env) st).pop
  | .other d, _, _ => .stuck ("untranslated statement: " ++ d)
def execBlock {σ ν} (P : Prims σ ν) : List SStmt → Env ν → σ → Flow σ ν
  | [], env, st => .next env st
  | s :: ss, env, st =>
    match exec P s env st with
    | .next env1 st1 => execBlock P ss env1 st1
    | f => f
end

/-- Outcome of a function call. -/
inductive Outcome (σ ν : Type) where
  | ret (vs : List (Val ν)) (st : σ)
  | panic (why : String)
  | stuck (why : String)
  deriving Inhabited

/-- Call a translated function: the parameters are bound, in order, in the function's outermost
scope; falling off the end returns nothing, which only a function without results may do. -/
def runFunc {σ ν} (P : Prims σ ν) (fn : SFunc) (args : List (Val ν)) (st : σ) : Outcome σ ν :=
  if fn.params.length ≠ args.length then .stuck "arity" else
  match execBlock P fn.body [(fn.params.map (·.1)).zip args] st with
  | .next _ st' => if fn.results.isEmpty then .ret [] st' else .stuck "missing return"
  | .ret vs st' => .ret vs st'
  | .panic w => .panic w
  | .stuck w => .stuck w

/-! # Part 2 — the dispatcher (`crypt.go`) -/

open GoCrypt.Dispatch (Registry)

/-- `sync.Map.Load` on the registry: the newest binding of the key. -/
def mapLoad {α} : Registry α → Bytes → Option α
  | [], _ => none
  | (q, f) :: rest, p => if q = p then some f else mapLoad rest p

/-- `sync.Map.Store`: a new newest binding. -/
def mapStore {α} (r : Registry α) (p : Bytes) (f : α) : Registry α := (p, f) :: r

/-- Values of the dispatcher beyond strings, ints and booleans. -/
inductive DVal (α : Type) where
  | handler (f : α)           -- a `func(hash, password string) error` stored by `RegisterHash`
  | cache                     -- the package-level `hashCache` (only ever used as a receiver)
  | errVar (name : String)    -- the value of a package-level error variable
  | result (k : Nat)          -- what the `k`-th handler call returned
  deriving Repr, DecidableEq

structure DState (α : Type) where
  reg : Registry α
  /-- handler calls made so far, oldest first: handler, hash, password -/
  calls : List (α × Bytes × Bytes) := []

/-- The dynamic type of every value in the registry: the static type of `RegisterHash`'s second
parameter, as regenerated. -/
def handlerTy : String :=
  match Gen.crypt.registerFlow.params with
  | [_, (_, t)] => t
  | _ => "?"

def dprims (α : Type) : Prims (DState α) (DVal α) where
  global d :=
    if d = "crypt.hashCache" then some (.ext .cache)
    else if d = "crypt.ErrHash" then some (.ext (.errVar d))
    else if d = "crypt.ErrPasswordMismatch" then some (.ext (.errVar d))
    else none
  call f args st :=
    if f = "(*sync.Map).Load" then
      match args with
      | [.ext .cache, .str p] =>
        (match mapLoad st.reg p with
         | some h => .ok (.pair (.ext (.handler h)) (.bool true), st)
         | none => .ok (.pair .nil (.bool false), st))
      | _ => .stuck "(*sync.Map).Load: operands"
    else if f = "(*sync.Map).Store" then
      match args with
      | [.ext .cache, .str p, .ext (.handler h)] => .ok (.unit, { st with reg := mapStore st.reg p h })
      | _ => .stuck "(*sync.Map).Store: operands"
    else .stuck ("function " ++ f)
  apply v args st :=
    match v, args with
    | .ext (.handler h), [.str a, .str b] =>
      .ok (.ext (.result st.calls.length), { st with calls := st.calls ++ [(h, a, b)] })
    | .nil, _ => .panic "call of a nil function"
    | _, _ => .stuck "call: operands"
  readField _ _ _ := none
  writeField _ _ _ _ := none
  assert T v :=
    if T = handlerTy then
      match v with
      | .ext (.handler h) => .ok (.ext (.handler h))
      | .nil => .panic "interface conversion: interface is nil"
      | _ => .panic "interface conversion: wrong dynamic type"
    else .stuck ("assertion to " ++ T)
  conv _ _ := none
  zero T :=
    if T = "string" then some (.str [])
    else if T = "int" then some (.int 0)
    else if T = "bool" then some (.bool false)
    else if T = "error" then some .nil
    else none

/-- Run `Check(hash, password)` against registry `r`. -/
def runCheck {α} (r : Registry α) (fn : SFunc) (h pw : Bytes) : Outcome (DState α) (DVal α) :=
  runFunc (dprims α) fn [.str h, .str pw] { reg := r }

/-- …read as an outcome of the model (see the header). -/
def evalCheck {α} (r : Registry α) (fn : SFunc) (h pw : Bytes) : Option (Dispatch.Outcome α) :=
  match runCheck r fn h pw with
  | .ret [.ext (.errVar e)] ⟨_, []⟩ => if e = "crypt.ErrHash" then some .errHash else none
  | .ret [.ext (.result 0)] ⟨_, [(f, a, b)]⟩ => some (.call f a b)
  | _ => none

/-- The registry after `Check` returns. -/
def checkFinalRegistry {α} (r : Registry α) (fn : SFunc) (h pw : Bytes) : Option (Registry α) :=
  match runCheck r fn h pw with
  | .ret _ st => some st.reg
  | _ => none

/-- Run `RegisterHash(prefix, check)` against registry `r`: the registry afterwards, provided the
function returns (nothing) without having called a handler. -/
def evalRegister {α} (r : Registry α) (fn : SFunc) (p : Bytes) (f : α) : Option (Registry α) :=
  match runFunc (dprims α) fn [.str p, .ext (.handler f)] { reg := r } with
  | .ret [] ⟨r', []⟩ => some r'
  | _ => none

end GoCrypt.SFlowVal
