import GoCrypt.Base.Flow

/-!
# C19: the syntactic-dataflow discipline for `Check`

`secretSafe prog` holds when, in the flat IR of a `Check` function,

* secret values are: the result of `Key` (first result), every `….Sum` field (the stored digest),
  and every buffer an `Encode` call filled from a secret;
* a secret is mentioned only as an argument of an encoder (`….Encode(dst, src)`), under `len(…)`,
  or as a *whole* argument of `subtle.ConstantTimeCompare`;
* the only branch that depends on a secret is `if subtle.ConstantTimeCompare(a, b) == 0 { return <constant> }`;
* no statement falls outside the IR (`.other`).

`Spec/FlowSem.lean` gives the IR a cost semantics and `Proofs/FlowNI.lean` proves that a
`secretSafe` program's cost does not depend on the secret bytes.
-/

namespace GoCrypt.Flow

abbrev Taint := List String   -- tainted local variables

def isSumField : FExpr → Bool
  | .field _ f => f == "Sum"
  | _ => false

/-- An expression carries secret *content* (as opposed to a secret's length). -/
def tainted (t : Taint) : FExpr → Bool
  | .var n => t.contains n
  | .field b f => f == "Sum" || t.contains b && false
  | .const _ => false
  | .fn _ => false
  | .app (.fn "len") _ => false          -- lengths are public
  | .app f a => tainted t f || tainted t a
  | .op _ a b => tainted t a || tainted t b
  | .un _ a => tainted t a
  | .other _ => true

/-- A whole buffer: `x`, `x[:]`, `s.F`, `s.F[:]`. -/
def wholeBuffer : FExpr → Bool
  | .var _ => true
  | .field _ _ => true
  | .un "[:]" (.var _) => true
  | .un "[:]" (.field _ _) => true
  | _ => false

def baseVar : FExpr → Option String
  | .var n => some n
  | .un "[:]" (.var n) => some n
  | _ => none

/-- The encoders the scheme packages use to turn a raw key into digest text. -/
def encoders : List String :=
  ["crypthash.LittleEndianEncoding.Encode", "crypthash.BigEndianEncoding.Encode", "Encoding.Encode",
   "base64.RawStdEncoding.Encode", "hex.Encode"]

def isEncodeFn (n : String) : Bool := encoders.contains n

/-- `subtle.ConstantTimeCompare(a, b) == 0` with whole-buffer arguments. -/
def isCTCGuard : FExpr → Bool
  | .op "==" (.app (.app (.fn "subtle.ConstantTimeCompare") a) b) (.const "0") => wholeBuffer a && wholeBuffer b
  | _ => false

def isConst : FExpr → Bool
  | .const _ => true
  | _ => false

/-- One statement: the new taint set, or `none` if the statement breaks the discipline. -/
def stepSafe (t : Taint) : FStmt → Option Taint
  | .declare _ => some t
  | .assign lhs rhs =>
    match rhs.spine with
    | (some "Key", args) =>
      -- the key is secret from here on; Key's own arguments must not already be digest-derived
      if args.any (tainted t) then none else some (lhs.take 1 ++ t)
    | _ => if tainted t rhs then none else some (t.filter fun x => !lhs.contains x)
  | .eval e =>
    match e.spine with
    | (some f, [dst, src]) =>
      if isEncodeFn f then
        (if tainted t src then (match baseVar dst with | some d => some (d :: t) | none => none) else
         if tainted t dst then none else some t)
      else if tainted t e then none else some t
    | _ => if tainted t e then none else some t
  | .ifRet cond ret =>
    if isCTCGuard cond then (if isConst ret then some t else none)
    else if tainted t cond || tainted t ret then none else some t
  | .ifAssign cond _ rhs => if tainted t cond || tainted t rhs then none else some t
  | .ret e => if tainted t e then none else some t
  | .other _ => none

def runSafe : Taint → List FStmt → Option Taint
  | t, [] => some t
  | t, s :: ss => match stepSafe t s with
    | some t' => runSafe t' ss
    | none => none

def countCTCGuards (p : List FStmt) : Nat :=
  (p.filter fun s => match s with | .ifRet c _ => isCTCGuard c | _ => false).length

def returnsMismatch : FStmt → Bool
  | .ifRet _ (.const "crypt.ErrPasswordMismatch") => true
  | .ret (.const "crypt.ErrPasswordMismatch") => true
  | _ => false

/-- The discipline, plus: the mismatch sentinel is returned by exactly one statement and that
statement is the constant-time comparison of a digest-derived buffer with the stored digest. -/
def secretSafe (p : List FStmt) : Bool :=
  (runSafe [] p).isSome &&
  countCTCGuards p == 1 &&
  (p.filter returnsMismatch).all (fun s => match s with | .ifRet c _ => isCTCGuard c | _ => false) &&
  (p.filter returnsMismatch).length == 1

end GoCrypt.Flow
