import GoCrypt.Model.Codec
import GoCrypt.Spec.Respell

/-!
# The hypothesis of C10: unambiguous layouts and representable values

`Unambiguous ti` (shape side) and `Representable ti vals` (value side) are explicit decidable
predicates. Every excluded class is a genuine ambiguity of the *layout* (two different values share
one string, or the string's reading depends on a count that the layout cannot convey), listed with
its reason; classes that are not ambiguity are NOT excluded here — they are findings.
-/

namespace GoCrypt.CodecDomain
open Bytes GoCrypt.Codec GoCrypt.Respell

def isAlnum (c : UInt8) : Bool := (48 ≤ c && c ≤ 57) || (65 ≤ c && c ≤ 90) || (97 ≤ c && c ≤ 122)

def isPositional (f : FieldInfo) : Bool := f.opts.param = [] && !f.opts.group

/-- Each inline field is followed by another inline field or by a required positional field (its
text is glued to the next text; nothing else can delimit it), and carries no param name. -/
def inlineOk : List FieldInfo → Bool
  | [] => true
  | [f] => !f.opts.inline
  | f :: g :: rest =>
    (!f.opts.inline || (f.opts.param = [] && isPositional g && !g.opts.omitEmpty)) && inlineOk (g :: rest)

def unambiguous (ti : TypeInfo) : Bool :=
  -- parameter names are plain identifiers
  ti.fields.all (fun f => f.opts.param = [] || f.opts.param.all isAlnum) &&
  -- a grouped field has a name (enforced by normalize) and groups hold only grouped params
  -- an optional positional field is filled by *count* (surplus fragments go to optional fields left to
  -- right); groups and optional params also change the count, so they cannot coexist with it
  (!(ti.fields.any fun f => isPositional f && f.opts.omitEmpty) ||
    ti.fields.all (fun f => !f.opts.group && !(f.opts.param ≠ [] && f.opts.omitEmpty))) &&
  inlineOk ti.fields &&
  -- text codecs recognised by the translator only
  (ti.hashPrefix.toList ++ ti.fields).all (fun f =>
    (match f.marshalText with | .opaque _ => false | _ => true) && (match f.unmarshalText with | .opaque _ => false | _ => true))

def noDelim (t : Bytes) : Bool := t.all fun c => c ≠ dollar && c ≠ comma

/-- A well-formed prefix text: `_`, or `$id$` / `$id,` with a non-empty delimiter-free id. -/
def wellFormedPrefix (p : Bytes) : Bool :=
  p == [underscore] ||
  (match p with
   | c :: rest =>
     c == dollar && rest.length ≥ 2 && noDelim rest.dropLast &&
       (rest.getLast? == some dollar || rest.getLast? == some comma)
   | [] => false)

def emittedIn (vals : Vals) (f : FieldInfo) : Bool :=
  !(f.opts.omitEmpty && isEmptyVal f ((getVal vals f.index).getD (zeroOf f.kind f.ptrDepth)))

/-- Group runs: two or more members are written with commas; a lone member is only read back when
it belongs to a required field. -/
def groupRunsOk (vals : Vals) (fuel : Nat) (fields : List FieldInfo) : Bool :=
  match fuel with
  | 0 => true
  | fuel + 1 =>
    match fields with
    | [] => true
    | f :: rest =>
      if f.opts.group then
        let (run, after) := takeGroupRun (f :: rest)
        let em := run.filter (emittedIn vals)
        (em.length ≥ 2 || em.length = 0 || em.all (fun g => !g.opts.omitEmpty)) && groupRunsOk vals fuel after
      else groupRunsOk vals fuel rest

/-- Optional positional fields are filled left to right: the present ones must form a prefix. -/
def greedyOptional (vals : Vals) (fields : List FieldInfo) : Bool :=
  let opt := fields.filter fun f => isPositional f && f.opts.omitEmpty
  let pres := opt.map (emittedIn vals)
  -- no `true` after a `false`
  (pres.dropWhile id).all (!·)

def representable (ti : TypeInfo) (vals : Vals) : Bool :=
  match pieces vals ti.fields with
  | none => false
  | some ps =>
    let pfx : Option Bytes := match ti.hashPrefix with
      | some hp => (match marshalValue hp ((getVal vals hp.index).getD (zeroOf hp.kind hp.ptrDepth)) with
                    | .ok t => some t | .error _ => none)
      | none => some []
    match pfx with
    | none => false
    | some p =>
      let body : Bytes := (marshalFields vals ti.fields none []).toOption.getD []
      -- prefix text: well-formed, or empty and declared optional
      (match ti.hashPrefix with
       | some hp => wellFormedPrefix p || (p.isEmpty && hp.opts.omitEmpty)
       | none => true) &&
      -- a field whose type only accepts a fixed set of texts holds one of them
      (match ti.hashPrefix with
       | some hp => (match hp.unmarshalText with | .whitelist l => l.contains p || (p.isEmpty && hp.opts.omitEmpty) | _ => true)
       | none => true) &&
      ps.all (fun pc => match pc.fi.unmarshalText with | .whitelist l => l.contains pc.text | _ => true) &&
      -- without a prefix the body must not look like one
      (!p.isEmpty || !(body.head? == some dollar || body.head? == some underscore)) &&
      -- no text contains a delimiter
      ps.all (fun pc => noDelim pc.text) &&
      -- nil pointers only where they are omitted; crypt(3) integers fit 24 bits
      ti.fields.all (fun f =>
        let v := (getVal vals f.index).getD (zeroOf f.kind f.ptrDepth)
        (v != .nilPtr || f.opts.omitEmpty) &&
        (match f.marshalText, v with | .desInt, .uint n => n < 16777216 | _, _ => true)) &&
      groupRunsOk vals (ti.fields.length + 1) ti.fields &&
      greedyOptional vals ti.fields

end GoCrypt.CodecDomain
