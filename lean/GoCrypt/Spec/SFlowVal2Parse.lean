import GoCrypt.Spec.SFlowVal2
import GoCrypt.Spec.SFlowValLex
import GoCrypt.Gen.ParseFlow

/-!
# The extended structured-flow semantics instantiated for `hash/parse` (lexer and parser)

The programs: `Gen/ParseFlow.lean` — `lexPrefix`, `lexFragment`, `(*lexer).emit`, `(*lexer).Next`,
`(*lexer).errorf`, `(*lexer).NextToken`, `(*lexer).run`, `lex`, `Parse`, regenerated from
`/repo/hash/parse/lex.go` and `parse.go` on every run of `gogen`, and the package's struct types.
**Every function the lexer and the parser call inside the package is run from its regenerated body**;
the hand-written primitives are only: composite literals, allocation, field access, channels,
`append`, `fmt.Sprintf`, `close`, integer conversions and zero values.

## MODELLING DECISION — goroutine and channel

`lex` executes `go l.run()`; `run` sends tokens on the unbuffered channel `l.tokens` and closes it;
`Parse` receives them with `<-l.tokens`.  Go interleaves the two goroutines: each send blocks until
the parser receives.  **This semantics does not interleave.**  It gives the three constructs the
meaning "the parser consumes the lexer's token sequence in order", i.e. a producer list, exactly the
rendezvous `Model/Parse.lean` assumes:

* `go l.run()` runs the regenerated body of `(*lexer).run` **to completion** at the point of the `go`
  statement; a panic in it is a panic of the program; if it does not terminate within the fuel the
  run is `stuck`;
* `ch <- t` appends `t` to the channel's queue of sent-but-not-yet-received values (`Chan.buf`); a send
  on a closed channel panics, a send on a nil channel is `stuck` (it blocks forever);
* `<-ch` takes the head of the queue; on an empty queue it yields the zero value of the element type
  when the channel is closed, and is `stuck` otherwise (nobody would ever send: a deadlock);
* `close(ch)` marks the channel closed (closing twice panics).

This is sound for these programs because the producer's behaviour does not depend on the consumer:
the goroutine started by `lex` shares nothing with its creator but the channel (it reads and writes
only the `lexer` object, which `Parse` never touches except through `NextToken`), so the sequence of
values it sends is the same under every interleaving, and an unbuffered channel delivers them in
order.  That `lex` contains exactly one `go` statement, outside any loop, and `Parse` none, is pinned
by `C11.lexer_goroutine_facts` and by `ParseFlow.translated_fragment` (`gosList`).  What the eager
reading cannot see by itself — a lexer goroutine left blocked in a send because the parser stopped
receiving — is made observable: `evalParse` yields a result only when, at `Parse`'s return, **every
channel's queue is empty and the channel is closed** (every token sent was received and the goroutine
has run to its end).

## Other modelling decisions

* **Heap.**  `&T{…}` allocates a new object at the end of the heap and yields its address; `p.f` /
  `p.f = v` read / write the object at `p`.  Pointers are addresses, so aliasing is modelled (writing
  through one pointer is seen through every other pointer to the same object).  An object is its type
  name and its fields in the declaration order of `Gen.hash_parse.structs` (regenerated), fields not
  mentioned in the literal getting the zero value of their declared type.
* **Slices are values** (lists of element values; the elements here are pointers or nil).
  `append(s, v)` yields a new list and does not model the sharing of backing arrays.  This cannot be
  observed by these programs: every `append` in them has the form `x = append(x, v)` — the result
  overwrites the only holder of the first argument (`ParseFlow.appends_overwrite_their_source`).
* `int`, `Pos`, `tokenType`, `byte` are ℤ without wrap-around; the conversions between them are the
  identity (the values are offsets into / bytes of a Go string).
* `fmt.Sprintf(format)` with no further argument and no `%` in `format` is `format`; anything else
  is `stuck`.
* `token` values are a record (`GoToken`), built by the literal `token{Type:…, Pos:…, Value:…}`
  (all three fields given) and read by `t.Type`, `t.Pos`, `t.Value`.
* Per-iteration copies of `for` variables (Go ≥ 1.22) are not modelled: no closure or address-of
  captures a loop variable here.
-/

namespace GoCrypt.SFlowVal2
open GoCrypt.Flow GoCrypt.SFlow GoCrypt.SFlow2 GoCrypt.SFlowVal

/-! ## Values and state -/

inductive PVal where
  | chan (id : Nat)                    -- a channel
  | token (t : GoToken)                -- a `token` struct value
  | ptr (a : Nat)                      -- a non-nil pointer: the address of a heap object
  | slice (xs : List (Option Nat))     -- a non-nil slice of pointers (`none`: a nil pointer element)
  deriving Repr, DecidableEq

/-- A channel of tokens: values sent and not yet received, oldest first. -/
structure Chan where
  buf : List GoToken := []
  closed : Bool := false
  deriving Repr, DecidableEq

/-- A heap object: type name, fields in declaration order. -/
abbrev Obj := String × Frame PVal

structure PSt where
  heap : List Obj := []
  chans : List Chan := []

def lget {α} : List α → Nat → Option α
  | [], _ => none
  | x :: _, 0 => some x
  | _ :: r, n + 1 => lget r n

/-- Replace the element at an index; `none` when out of range. -/
def lset {α} : List α → Nat → α → Option (List α)
  | [], _, _ => none
  | _ :: r, 0, y => some (y :: r)
  | x :: r, n + 1, y => (lset r n y).map (x :: ·)

/-! ## Base primitives -/

def hasPfx (p : String) (s : String) : Bool := s.toList.take p.length = p.toList
def dropPfx (p : String) (s : String) : String := String.ofList (s.toList.drop p.length)

/-- Zero value of a type of the package, by the type's spelling. -/
def zeroOf (ty : String) : Option (Val PVal) :=
  if ty = "int" ∨ ty = "Pos" ∨ ty = "tokenType" ∨ ty = "byte" then some (.int 0)
  else if ty = "string" then some (.str [])
  else if ty = "bool" then some (.bool false)
  else if hasPfx "*" ty ∨ hasPfx "[]" ty ∨ hasPfx "chan " ty then some .nil
  else if ty = "stateFn" ∨ ty = "error" ∨ ty = "FragmentNode" ∨ ty = "Node" then some .nil
  else none

/-- The fields (name, type) of a struct type, from the regenerated table. -/
def lookupS : List StructDecl → String → Option (List (String × String))
  | [], _ => none
  | (n, fs) :: r, T => if n = T then some fs else lookupS r T

def isKeyOf (fields : List (String × String)) : Val PVal → Bool
  | .kv k _ => fields.any fun ft => ft.1 = k
  | _ => false

/-- The object `T{K: v, …}` denotes: the fields of `T` in declaration order, each with the value
given for it or the zero value of its type.  Every element must be `K: v` with `K` a field of `T`. -/
def newObj (T : String) (kvs : List (Val PVal)) : Option Obj :=
  match lookupS Gen.hash_parse.structs T with
  | none => none
  | some fields =>
    if kvs.all (isKeyOf fields) then
      (fields.mapM fun (ft : String × String) =>
        match kvGet kvs ft.1 with
        | some v => some (ft.1, v)
        | none => (zeroOf ft.2).map fun z => (ft.1, z)).map fun fs => (T, fs)
    else none

def tokenField (t : GoToken) (f : String) : Option (Val PVal) :=
  if f = "Type" then some (.int t.ty)
  else if f = "Pos" then some (.int t.pos)
  else if f = "Value" then some (.str t.value)
  else none

/-- A value as an element of a slice of pointers. -/
def sliceElem : Val PVal → Option (Option Nat)
  | .nil => some none
  | .ext (.ptr a) => some (some a)
  | _ => none

/-- A slice value as the list of its elements (`nil` is the empty slice). -/
def sliceOf : Val PVal → Option (List (Option Nat))
  | .nil => some []
  | .ext (.slice xs) => some xs
  | _ => none

/-- The zero value of `token`: what a receive from a closed, drained channel yields. -/
def zeroToken : GoToken := ⟨0, 0, []⟩

/-- Base primitives: composite literals, allocation, fields, channels, `append`, `fmt.Sprintf`,
integer conversions, zero values.  No function of the package. -/
def pp0 : Prims PSt PVal where
  global _ := none
  call f args st :=
    if f = "lit:token" then
      match kvGet args "Type", kvGet args "Pos", kvGet args "Value" with
      | some (.int t), some (.int p), some (.str v) =>
        if args.length = 3 then .ok (.ext (.token ⟨t, p, v⟩), st) else .stuck "token literal: fields"
      | _, _, _ => .stuck "token literal: fields"
    else if f = "make:chan token" then
      match args with
      | [] => .ok (.ext (.chan st.chans.length), { st with chans := st.chans ++ [{}] })
      | _ => .stuck "make: a buffered channel is outside the fragment"
    else if f = "chan<-" then
      match args with
      | [.ext (.chan c), .ext (.token t)] =>
        (match lget st.chans c with
         | some ch =>
           if ch.closed then .panic "send on closed channel"
           else
             (match lset st.chans c { ch with buf := ch.buf ++ [t] } with
              | some cs => .ok (.unit, { st with chans := cs })
              | none => .stuck "send: channel")
         | none => .stuck "send: channel")
      | _ => .stuck "send: operands"
    else if f = "<-chan" then
      match args with
      | [.ext (.chan c)] =>
        (match lget st.chans c with
         | some ch =>
           (match ch.buf with
            | t :: r =>
              (match lset st.chans c { ch with buf := r } with
               | some cs => .ok (.ext (.token t), { st with chans := cs })
               | none => .stuck "receive: channel")
            | [] =>
              if ch.closed then .ok (.ext (.token zeroToken), st)
              else .stuck "receive: nothing sent and the channel is open (deadlock)")
         | none => .stuck "receive: channel")
      | _ => .stuck "receive: operands"
    else if f = "close" then
      match args with
      | [.ext (.chan c)] =>
        (match lget st.chans c with
         | some ch =>
           if ch.closed then .panic "close of closed channel"
           else
             (match lset st.chans c { ch with closed := true } with
              | some cs => .ok (.unit, { st with chans := cs })
              | none => .stuck "close: channel")
         | none => .stuck "close: channel")
      | [.nil] => .panic "close of nil channel"
      | _ => .stuck "close: operands"
    else if f = "append" then
      match args with
      | [s, v] =>
        (match sliceOf s, sliceElem v with
         | some xs, some x => .ok (.ext (.slice (xs ++ [x])), st)
         | _, _ => .stuck "append: operands")
      | _ => .stuck "append: operands"
    else if f = "fmt.Sprintf" then
      match args with
      | [.str fmt] => if fmt.contains 37 then .stuck "fmt.Sprintf: format verbs" else .ok (.str fmt, st)
      | _ => .stuck "fmt.Sprintf: operands"
    else if hasPfx "new:" f then
      match newObj (dropPfx "new:" f) args with
      | some o => .ok (.ext (.ptr st.heap.length), { st with heap := st.heap ++ [o] })
      | none => .stuck ("composite literal " ++ f)
    else .stuck ("function " ++ f)
  apply _ _ _ := .stuck "call of a function value"
  readField b f st :=
    match b with
    | .ext (.ptr a) => (lget st.heap a).bind fun o => Frame.get o.2 f
    | .ext (.token t) => tokenField t f
    | _ => none
  writeField b f v st :=
    match b with
    | .ext (.ptr a) =>
      (lget st.heap a).bind fun o =>
        (Frame.set o.2 f v).bind fun fs =>
          (lset st.heap a (o.1, fs)).map fun h => { st with heap := h }
    | _ => none
  assert T _ := .stuck ("assertion to " ++ T)
  conv T v :=
    match v with
    | .int n => if T = "Pos" ∨ T = "tokenType" ∨ T = "int" ∨ T = "byte" then some (.int n) else none
    | _ => none
  zero T := zeroOf T

/-! ## The package's functions, each run from its regenerated body -/

/-- `pp0` and the lexer's methods `emit`, `Next`, `errorf`. -/
def pp1 (fuel : Nat) : Prims PSt PVal :=
  { pp0 with
    call := fun f args st =>
      if f = "(*lexer).emit" then callRes (runFunc2 pp0 fuel Gen.hash_parse.lexerEmitFlow2 args st)
      else if f = "(*lexer).Next" then callRes (runFunc2 pp0 fuel Gen.hash_parse.lexerNextFlow args st)
      else if f = "(*lexer).errorf" then callRes (runFunc2 pp0 fuel Gen.hash_parse.lexerErrorfFlow args st)
      else pp0.call f args st }

/-- `pp1` and what a state function (`stateFn`) value does when called. -/
def pp2 (fuel : Nat) : Prims PSt PVal :=
  { pp1 fuel with
    apply := fun v args st =>
      match v with
      | .func g =>
        if g = "lexPrefix" then callRes (runFunc2 (pp1 fuel) fuel Gen.hash_parse.lexPrefixFlow2 args st)
        else if g = "lexFragment" then callRes (runFunc2 (pp1 fuel) fuel Gen.hash_parse.lexFragmentFlow args st)
        else .stuck ("function value " ++ g)
      | .nil => .panic "call of a nil function"
      | _ => .stuck "call: not a function" }

/-- `pp2` and `go l.run()` — see the modelling decision at the top: the producer runs to completion. -/
def pp3 (fuel : Nat) : Prims PSt PVal :=
  { pp2 fuel with
    call := fun f args st =>
      if f = "go:(*lexer).run" then
        match runFunc2 (pp2 fuel) fuel Gen.hash_parse.lexerRunFlow args st with
        | .ret [] st' => .ok (.unit, st')
        | .ret _ _ => .stuck "go: the function returned a value"
        | .panic w => .panic w
        | .stuck w => .stuck w
      else (pp2 fuel).call f args st }

/-- `pp3`, `lex` and `(*lexer).NextToken`: the primitives of `Parse`. -/
def pp4 (fuel : Nat) : Prims PSt PVal :=
  { pp3 fuel with
    call := fun f args st =>
      if f = "lex" then callRes (runFunc2 (pp3 fuel) fuel Gen.hash_parse.lexFlow args st)
      else if f = "(*lexer).NextToken" then callRes (runFunc2 pp0 fuel Gen.hash_parse.lexerNextTokenFlow args st)
      else (pp3 fuel).call f args st }

/-- Loop fuel for an input of `n` bytes.  `run` calls at most `n + 2` state functions, `Parse` receives
at most `2 n + 3` tokens. -/
def fuelFor (s : Bytes) : Nat := 2 * s.length + 4

/-! ## Reading the runs in the model's terms -/

/-- A `lexer` object. -/
def lexObj (s : Bytes) (pos start : Int) (c : Nat) : Obj :=
  ("lexer", [("input", .str s), ("pos", .int pos), ("start", .int start), ("tokens", .ext (.chan c))])

/-- Iterate a state function on the lexer `lp` while it returns itself; stop when it returns `nil`.
(A driver of this file, used only to state what the iterated `lexFragment` does on its own; in
`evalLex` / `evalParse` the iteration is the regenerated loop of `(*lexer).run`.) -/
def iterState (fuel : Nat) (fn : PFunc) (lp : Val PVal) : Nat → PSt → Option PSt
  | 0, _ => none
  | n + 1, st =>
    match runFunc2 (pp1 fuel) fuel fn [lp] st with
    | .ret [.func g] st' => if g = fn.name then iterState fuel fn lp n st' else none
    | .ret [.nil] st' => some st'
    | _ => none

/-- The tokens the iterated state function `fn` sends on a lexer for `s` standing at offset `p`
(`pos = start = p`), in the model's terms. -/
def evalLexFragment (fn : PFunc) (s : Bytes) (p : Nat) : Option (List Parse.Tok) :=
  match iterState (fuelFor s) fn (.ext (.ptr 0)) (fuelFor s) ⟨[lexObj s p p 0], [{}]⟩ with
  | some ⟨[o], [ch]⟩ =>
    if o = lexObj s s.length s.length 0 ∧ ch.closed = false then ch.buf.mapM tokOf else none
  | _ => none

/-- Run `lex(s)` (`fn`) from the empty state. -/
def runLex (fn : PFunc) (s : Bytes) : Outcome PSt PVal :=
  runFunc2 (pp3 (fuelFor s)) (fuelFor s) fn [.str s] {}

/-- …read as the token stream: `lex` returns a pointer to a `lexer` object whose channel **is closed**
(the lexer goroutine has sent its last token and run to its end); the tokens are everything sent on
it, in order, in the model's terms.  Anything else (panic, stuck, open channel, unknown token) is
`none`. -/
def evalLex (fn : PFunc) (s : Bytes) : Option (List Parse.Tok) :=
  match runLex fn s with
  | .ret [.ext (.ptr a)] st =>
    (match lget st.heap a with
     | some (ty, fs) =>
       if ty = "lexer" ∧ Frame.get fs "input" = some (.str s) then
         (match Frame.get fs "tokens" with
          | some (.ext (.chan c)) =>
            (match lget st.chans c with
             | some ch => if ch.closed then ch.buf.mapM tokOf else none
             | none => none)
          | _ => none)
       else none
     | none => none)
  | _ => none

/-- A `ValueNode` object. -/
def valueOfObj : Obj → Option Parse.VNode
  | (ty, [(f1, .str v), (f2, .int p), (f3, .int e)]) =>
    if ty = "ValueNode" ∧ f1 = "Value" ∧ f2 = "pos" ∧ f3 = "end" ∧ 0 ≤ p ∧ 0 ≤ e then some ⟨v, p.toNat, e.toNat⟩
    else none
  | _ => none

/-- A `*ValueNode`. -/
def rdValue (h : List Obj) (a : Nat) : Option Parse.VNode := (lget h a).bind valueOfObj

/-- Read every element of a slice of pointers with `f`; a nil element, or one `f` cannot read, makes
the whole reading fail. -/
def allSome {β} (f : Nat → Option β) : List (Option Nat) → Option (List β)
  | [] => some []
  | none :: _ => none
  | some a :: r =>
    match f a, allSome f r with
    | some b, some bs => some (b :: bs)
    | _, _ => none

/-- The elements of a `[]*ValueNode`. -/
def rdValues (h : List Obj) (xs : List (Option Nat)) : Option (List Parse.VNode) := allSome (rdValue h) xs

/-- A `FragmentNode` object: by its dynamic type. -/
def fragOfObj (h : List Obj) (o : Obj) : Option Parse.Frag :=
  if o.1 = "ValueNode" then (valueOfObj o).map .value
  else if o.1 = "GroupNode" then
    match o.2 with
    | [(f, sl)] => if f = "Values" then ((sliceOf sl).bind (rdValues h)).map .group else none
    | _ => none
  else none

/-- A `FragmentNode`. -/
def rdFrag (h : List Obj) (a : Nat) : Option Parse.Frag := (lget h a).bind (fragOfObj h)

/-- The elements of a `[]FragmentNode`. -/
def rdFrags (h : List Obj) (xs : List (Option Nat)) : Option (List Parse.Frag) := allSome (rdFrag h) xs

/-- A `PrefixNode` object whose `end` is the length of its text. -/
def prefixOfObj : Obj → Option Bytes
  | (ty, [(f1, .str x), (f2, .int e)]) =>
    if ty = "PrefixNode" ∧ f1 = "Text" ∧ f2 = "end" ∧ e = x.length then some x else none
  | _ => none

/-- `tree.Prefix`: nil, or a `*PrefixNode`. -/
def rdPrefix (h : List Obj) : Val PVal → Option (Option Bytes)
  | .nil => some none
  | .ext (.ptr a) => ((lget h a).bind prefixOfObj).map some
  | _ => none

/-- A `*Tree` as the model's tree (with every span). -/
def rdTree (h : List Obj) (a : Nat) : Option Parse.Tree :=
  match lget h a with
  | some (ty, [(f1, pv), (f2, fv)]) =>
    if ty = "Tree" ∧ f1 = "Prefix" ∧ f2 = "Fragments" then
      (rdPrefix h pv).bind fun p => ((sliceOf fv).bind (rdFrags h)).map fun fr => ⟨p, fr⟩
    else none
  | _ => none

/-- Error messages by the model's codes: 0 is the empty message (the zero token of a closed channel). -/
def msgCode (m : Bytes) : Option Nat :=
  if m = [] then some 0
  else if m = ascii "missing prefix identifier" then some 1
  else if m = ascii "missing prefix end" then some 2
  else none

/-- A `*SyntaxError`. -/
def rdError (h : List Obj) (a : Nat) : Option Parse.Result :=
  match lget h a with
  | some (ty, [(f1, .int o), (f2, .str m)]) =>
    if ty = "SyntaxError" ∧ f1 = "Offset" ∧ f2 = "Msg" ∧ 0 ≤ o then (msgCode m).map fun c => .err o.toNat c else none
  | _ => none

/-- Every channel is closed and drained: no sender is left blocked. -/
def allDrained (cs : List Chan) : Bool := cs.all fun ch => ch.closed && ch.buf.isEmpty

/-- Run `Parse(s)` (`fn`) from the empty state. -/
def runParse (fn : PFunc) (s : Bytes) : Outcome PSt PVal :=
  runFunc2 (pp4 (fuelFor s)) (fuelFor s) fn [.str s] {}

/-- …read as the model's result: `(tree, nil)` is `ok` of the tree read off the heap, `(nil, err)` is
the syntax error with its offset and message — and in both cases every token sent has been received
and the channel is closed (`allDrained`).  Anything else is `none`. -/
def evalParse (fn : PFunc) (s : Bytes) : Option Parse.Result :=
  match runParse fn s with
  | .ret [.ext (.ptr t), .nil] st => if allDrained st.chans then (rdTree st.heap t).map .ok else none
  | .ret [.nil, .ext (.ptr e)] st => if allDrained st.chans then rdError st.heap e else none
  | _ => none

end GoCrypt.SFlowVal2
