import GoCrypt.Base.Flow
import GoCrypt.Model.Scheme
import GoCrypt.Gen.Flow

/-!
# A value semantics for the flow IR

`Spec/FlowSem.lean` gives the flow IR (`Base/Flow.lean`, programs regenerated into `Gen/Flow.lean`
from the current Go source) a *cost* semantics over abstract values.  This file gives it a *value*
semantics: a deterministic interpreter `run` that computes what `Check` / `Params` / `Salt` /
`NewHash` return.

* Part 1 (`Val` … `run`) is the meaning of the IR.  It knows the Go *language* constructs the
  translator emits (`len`, `make`, conversions, `x[:]`, `&x`, composite literals, `==`, `!=`, tuples,
  destructuring assignment, field reads / writes) and nothing about any package.  Everything that
  belongs to a package or to a library — constants, the types of declared variables, `Key`,
  `crypthash.Unmarshal`, the encoders, `subtle.ConstantTimeCompare`, the random sources — is
  looked up in a record `Prims`.  A name that `Prims` does not interpret makes the run `stuck`; so
  does an `other` node, an ill-typed operand, an unbound variable.  Nothing is silently assumed.
* Part 2 (`prims`) instantiates `Prims` for a scheme `S : Scheme.Def` from the hand-written model:
  `crypthash.Unmarshal ↦ Codec.unmarshal (tiOf S)`, `Key ↦ Scheme.key S`, the encoders ↦ the model's
  digest encoders, `subtle.ConstantTimeCompare ↦ Scheme.ctEq`, constants ↦ `Gen/Consts.lean`.

`Props/FlowModel.lean` proves that `run (prims S …) Gen.<pkg>.flowCheck` *is* `Scheme.check S`
(and likewise `Params`/`Salt`, `NewHash`), for all inputs.

## Modelling decisions (stated, not hidden)

* `[]byte`, `[n]byte` and buffers are byte lists; a buffer of declared size `n` is a list of length
  `n`.  `Encode(dst, src)` *overwrites a prefix* of `dst` and panics when the output does not fit, as
  the Go encoders do; it does not resize `dst`.
* A struct that goes through the codec is a `TypeInfo` with the codec model's untyped `Vals`; a
  field is read **by Go field name** with the model's `Scheme.fieldVal` and *at the static Go type
  of the field* (`ofFVal`: a stored value of another kind reads as the zero value, exactly as the
  model's `fvBytes` / `fvNat` have it); it is written by prepending `(fieldIndex ti name, value)`.
* A composite literal of a codec struct that sets an embedded struct, `scheme{saltScheme: saltScheme{…}}`,
  writes the inner literal's fields as promoted fields, by name, into the flattened struct (`mkStruct`);
  this is Go's meaning as long as no promoted field is shadowed, which holds for the one occurrence.
* `&c` of a package-level string variable is a non-nil pointer to its value (`unop`); a pointer stored
  in a struct field is known by its pointee only, so the model's `FVal.str []` vs `FVal.nilPtr` for
  sunmd5's `Separator *string` is `&separator` vs `nil`.
* Two statement forms have an effect through an argument, and are recognised syntactically (as
  `FlowSem.encTarget` does): `err = crypthash.Unmarshal(h, &x)` stores the struct in `x`, and the
  expression statement `Encode(dst, src)` writes into the variable or field `dst` / `dst[:]` denotes.
  After a failed `Unmarshal` the target is *poisoned* (reading it is `stuck`): Go leaves it
  partially filled.
* The IR drops the types of `var x T` and the names of named results; `Prims.zero` and
  `Prims.results` supply them (from the Go source: `var scheme scheme`, `var b [sumLength]byte`).
* Entropy (`crypto/rand`) is an explicit byte stream threaded through evaluation, left to right,
  together with the count of bytes asked for; a stream that runs dry delivers what it has (as the
  model's `newHash` has it — Go's `crypto/rand` never does).
-/

namespace GoCrypt.FlowVal
open GoCrypt.Flow GoCrypt.Codec GoCrypt.Scheme GoCrypt.Kdf

/-! # Part 1 — the meaning of the IR -/

/-! ## Values -/

/-- Non-nil Go `error` values that occur in the ten packages' `Check`/`Params`/`NewHash`. -/
inductive GoErr where
  | unmarshal (e : UErr)        -- returned by `crypthash.Unmarshal`
  | marshal (e : MErr)          -- returned by `crypthash.Marshal`
  | key (e : KeyErr)            -- a typed error of `Key`
  | internal (what : String)    -- an untyped error of `Key`
  | mismatch                    -- `crypt.ErrPasswordMismatch`
  deriving Repr, DecidableEq

inductive Val where
  | bytes (b : Bytes)           -- `[]byte`, `[n]byte`; a buffer of declared size `n` has length `n`
  | str (s : Bytes)             -- `string` and named string types
  | nat (n : Nat)               -- unsigned integers of every width, and the non-negative `int`s met here
  | bool (b : Bool)
  | err (e : GoErr)             -- a non-nil error
  | nil                         -- `nil` (error or pointer)
  | ptr (to : FVal)             -- a non-nil pointer held in a struct field
  | ref (x : String)            -- `&x`
  | struct (ti : TypeInfo) (vals : Vals)           -- a struct the codec knows
  | lit (ty : String) (fields : List (String × Val))  -- any other composite literal, `T{…}` or `&T{…}`
  | kv (key : String) (v : Val)                    -- `Key: value` inside a composite literal
  | tuple (vs : List Val)
  | ty (name : String)          -- a type operand (`make([]byte, n)`)
  | poison                      -- unspecified contents
  deriving Inhabited

/-- Outcome of evaluating something: a result, a Go run-time panic, or "the semantics does not say". -/
inductive Res (α : Type) where
  | ok (a : α)
  | panic
  | stuck (why : String)
  deriving Inhabited

/-- The entropy source (`crypto/rand`): the bytes it will deliver, and how many have been asked for. -/
structure Entropy where
  stream : Bytes
  used : Nat := 0

/-- Evaluation threads the entropy source. -/
def Eval (α : Type) : Type := Entropy → Res (α × Entropy)

namespace Eval
def pure {α} (a : α) : Eval α := fun ent => .ok (a, ent)
def bind {α β} (x : Eval α) (f : α → Eval β) : Eval β := fun ent =>
  match x ent with
  | .ok (a, ent') => f a ent'
  | .panic => .panic
  | .stuck w => .stuck w
def stuck {α} (why : String) : Eval α := fun _ => .stuck why
def panic {α} : Eval α := fun _ => .panic
/-- an optional result: `none` is `stuck` -/
def ofOption {α} (why : String) : Option α → Eval α
  | some a => pure a
  | none => stuck why
instance : Monad Eval where
  pure := Eval.pure
  bind := Eval.bind
end Eval

abbrev Env := String → Option Val

def Env.set (env : Env) (x : String) (v : Val) : Env := fun y => if y = x then some v else env y

/-- The environment binding exactly the given names (later entries win). -/
def env0 (bs : List (String × Val)) : Env := bs.foldl (fun env b => env.set b.1 b.2) (fun _ => none)

/-! ## Primitives -/

structure Prims where
  /-- package-level constants and literals (`ImplicitRounds`, `"nil"`, `"0"`, `"\"\""`, …) -/
  const : String → Option Val
  /-- zero value of `var x T` (the IR does not carry `T`) -/
  zero : String → Option Val
  /-- the named results of the function, in order (`"<named results>"` = a bare `return`) -/
  results : List String
  /-- the codec's description of a struct type of the package, by type name -/
  structTI : String → Option TypeInfo
  /-- functions of the package and of the libraries it imports, by the name the IR uses -/
  call : String → List Val → Eval Val
  /-- encoders `f(dst, src)`: the bytes they write to `dst` -/
  encoder : String → Option (Bytes → Bytes)
  /-- `crypthash.Unmarshal(h, &x)` with `x` a zero struct: the struct stored in `x` -/
  unmarshal : Bytes → Except UErr Val

/-! ## Struct fields, by Go field name -/

def fieldInfo (ti : TypeInfo) (f : String) : Option FieldInfo :=
  (ti.hashPrefix.toList ++ ti.fields).find? (·.name = f)

/-- The stored value of a field, at the static Go type of the field. -/
def ofFVal (fi : FieldInfo) (fv : FVal) : Option Val :=
  if fi.ptrDepth > 0 then some (if fv == .nilPtr then .nil else .ptr fv) else
  match fi.kind with
  | .string => some (.str (fvBytes fv))
  | .bytes => some (.bytes (fvBytes fv))
  | .byteArray _ => some (.bytes (fvBytes fv))
  | .uint _ => some (.nat (fvNat fv))
  | _ => none

/-- A value as stored in a field of that static type. -/
def toFVal (fi : FieldInfo) (v : Val) : Option FVal :=
  if fi.ptrDepth > 0 then
    match v with
    | .nil => some .nilPtr
    | .ptr fv => some fv
    | _ => none
  else
  match fi.kind, v with
  | .string, .str s => some (.str s)
  | .bytes, .bytes b => some (.bytes b)
  | .byteArray _, .bytes b => some (.bytes b)
  | .uint _, .nat n => some (.uint n)
  | _, _ => none

def readField (s : Val) (f : String) : Option Val :=
  match s with
  | .struct ti vals => (fieldInfo ti f).bind fun fi => ofFVal fi (Scheme.fieldVal ti vals f)
  | _ => none

def writeField (s : Val) (f : String) (v : Val) : Option Val :=
  match s with
  | .struct ti vals =>
    (fieldInfo ti f).bind fun fi => (toFVal fi v).map fun fv => .struct ti ((fieldIndex ti f, fv) :: vals)
  | _ => none

/-- `s.F₁ = v₁; s.F₂ = v₂; …`, in that order. -/
def writeFields (s : Val) : List (String × Val) → Option Val
  | [] => some s
  | (f, v) :: rest => (writeField s f v).bind fun s' => writeFields s' rest

/-- `T{K₁: v₁, …}` for a struct type the codec knows: unmentioned fields are zero.  `E: E{…}` with `E`
an embedded struct of `T` — the key is the type name of the literal, and the codec's (flattened)
description of `T` has no field of that name — sets the promoted fields of `E` by their own names. -/
def mkStruct (ti : TypeInfo) : List (String × Val) → Option Val
  | [] => some (.struct ti [])
  | (f, v) :: rest => (mkStruct ti rest).bind fun s =>
    match v with
    | .lit T fs => if T = f ∧ (fieldInfo ti f).isNone then writeFields s fs else none
    | _ => writeField s f v

/-! ## Places: a variable or a field of a variable -/

inductive Place where
  | var (x : String)
  | field (x f : String)
  deriving DecidableEq

/-- `"x"` or `"x.F"` (the translator's spelling of an assignment target). -/
def placeOfName (s : String) : Place :=
  match s.toList.span (· != '.') with
  | (x, []) => .var (String.ofList x)
  | (x, _ :: f) => .field (String.ofList x) (String.ofList f)

/-- The place an expression denotes: `x`, `x.F`, `x[:]`, `x.F[:]`. -/
def placeOfExpr : FExpr → Option Place
  | .var x => some (.var x)
  | .field x f => some (.field x f)
  | .un o e => if o = "[:]" then placeOfExpr e else none
  | _ => none

def readPlace (env : Env) : Place → Option Val
  | .var x => match env x with
    | some .poison => none
    | r => r
  | .field x f => (env x).bind fun s => readField s f

def writePlace (env : Env) : Place → Val → Option Env
  | .var x, v => some (env.set x v)
  | .field x f, v => (env x).bind fun s => (writeField s f v).map fun s' => env.set x s'

/-! ## The Go language constructs the translator emits -/

def Val.isNil : Val → Option Bool
  | .nil => some true
  | .err _ => some false
  | .ptr _ => some false
  | .ref _ => some false
  | .lit _ _ => some false
  | _ => none

/-- `a == b` -/
def valEq : Val → Val → Option Bool
  | .nat a, .nat b => some (decide (a = b))
  | .bool a, .bool b => some (decide (a = b))
  | a, .nil => a.isNil
  | _, _ => none

def binop (o : String) (a b : Val) : Option Val :=
  if o = "==" then (valEq a b).map .bool
  else if o = "!=" then (valEq a b).map fun r => .bool (!r)
  else none

/-- Conversions `T(x)`, slicing `x[:]`.  (`&x` for a local `x` is handled in `eval`: it does not
evaluate `x`.)  `&c` for a package-level string variable `c` (looked up in `Prims.const`; the one
occurrence is `&separator` in sunmd5) is a non-nil pointer to that string; as everywhere in this
semantics a pointer held in a struct field is known by its pointee only (`Val.ptr`).
`hashCost` is `uint8` (bcrypt/bcrypt.go), `hashRounds` is `uint32` (desext/desext.go). -/
def unop (o : String) (a : Val) : Option Val :=
  match o, a with
  | "[:]", .bytes b => some (.bytes b)
  | "conv:[]byte", .str s => some (.bytes s)
  | "conv:[]byte", .bytes b => some (.bytes b)
  | "conv:string", .str s => some (.str s)
  | "conv:string", .bytes b => some (.str b)
  | "conv:uint8", .nat n => some (.nat (n % 2 ^ 8))
  | "conv:hashCost", .nat n => some (.nat (n % 2 ^ 8))
  | "conv:uint32", .nat n => some (.nat (n % 2 ^ 32))
  | "conv:hashRounds", .nat n => some (.nat (n % 2 ^ 32))
  | "conv:int", .nat n => some (.nat n)
  | "&", .str s => some (.ptr (.str s))
  | _, _ => none

def kvList : List Val → Option (List (String × Val))
  | [] => some []
  | .kv k v :: rest => (kvList rest).map ((k, v) :: ·)
  | _ :: _ => none

/-- A field of a composite literal that is not a codec struct; an omitted field is `none`. -/
def litField (fs : List (String × Val)) (k : String) : Option Val := (fs.find? (·.1 = k)).map (·.2)

/-- `Encode(dst, src)` writes `out` at the start of `dst`; indexing past the end of `dst` panics. -/
def writeBuf (dst out : Bytes) : Option Bytes :=
  if out.length ≤ dst.length then some (out ++ dst.drop out.length) else none

/-- The type name of a composite literal `T{…}` (`lit:T`) or `&T{…}` (`&lit:T`): exactly the
literals that occur in `Gen/Flow.lean`. -/
def litType : String → Option String
  | "lit:scheme" => some "scheme"
  | "lit:saltScheme" => some "saltScheme"
  | "&lit:CompatibilityOptions" => some "CompatibilityOptions"
  | _ => none

/-- Built-in functions and composite literals; everything else is the package's. -/
def call (P : Prims) (f : String) (args : List Val) : Eval Val :=
  match litType f with
  | some T =>
    (match kvList args with
     | none => .stuck ("composite literal " ++ f)
     | some fs =>
       match P.structTI T with
       | some ti => .ofOption ("composite literal " ++ f) (mkStruct ti fs.reverse)
       | none => pure (.lit T fs))
  | none =>
    match f, args with
    | "len", [.bytes b] => pure (.nat b.length)
    | "len", [.str s] => pure (.nat s.length)
    | "make", [.ty "[]byte", .nat n] => pure (.bytes (List.replicate n 0))
    | "tuple", vs => pure (.tuple vs)
    | _, _ => P.call f args

/-! ## Expressions -/

mutual
def eval (P : Prims) (env : Env) : FExpr → Eval Val
  | .var x => .ofOption ("variable " ++ x) (readPlace env (.var x))
  | .field x f => .ofOption ("field " ++ x ++ "." ++ f) (readPlace env (.field x f))
  | .const d =>
    if d = "<named results>" then
      .ofOption "named results" ((P.results.mapM fun x => readPlace env (.var x)).map .tuple)
    else .ofOption ("constant " ++ d) (P.const d)
  | .fn f => call P f []                       -- `f()`
  | .app g a => do
    let (f, vs) ← evalSpine P env g
    let v ← eval P env a
    call P f (vs ++ [v])
  | .op o a b =>
    match o, a with
    | ":", .const k => do let v ← eval P env b; pure (.kv k v)
    | _, _ => do
      let va ← eval P env a
      let vb ← eval P env b
      .ofOption ("operator " ++ o) (binop o va vb)
  | .un o a =>
    match o, a with
    | "&", .var x => pure (.ref x)
    | _, _ => do
      let va ← eval P env a
      .ofOption ("operator " ++ o) (unop o va)
  | .other d => .stuck ("untranslated expression: " ++ d)
/-- Head function name and arguments (evaluated left to right) of an application spine. -/
def evalSpine (P : Prims) (env : Env) : FExpr → Eval (String × List Val)
  | .fn f => pure (f, [])
  | .app g a => do
    let (f, vs) ← evalSpine P env g
    let v ← eval P env a
    pure (f, vs ++ [v])
  | _ => .stuck "applied expression is not a function name"
end

/-! ## Statements -/

inductive Outcome where
  | ret (v : Val) (ent : Entropy)   -- returned value and the entropy source afterwards
  | panic
  | stuck (why : String)
  deriving Inhabited

/-- Result of one statement: go on, or stop. -/
inductive Step where
  | next (env : Env) (ent : Entropy)
  | done (o : Outcome)

/-- Continue with the result of an evaluation. -/
def Step.of {α} (r : Res (α × Entropy)) (k : α → Entropy → Step) : Step :=
  match r with
  | .ok (a, ent) => k a ent
  | .panic => .done .panic
  | .stuck w => .done (.stuck w)

def Step.ofOption {α} (why : String) (r : Option α) (k : α → Step) : Step :=
  match r with
  | some a => k a
  | none => .done (.stuck why)

/-- `err = crypthash.Unmarshal(h, &x)` -/
def asUnmarshal : FExpr → Option (FExpr × String)
  | .app (.app (.fn f) h) (.un o (.var x)) => if f = "crypthash.Unmarshal" ∧ o = "&" then some (h, x) else none
  | _ => none

/-- `Encode(dst, src)` for an encoder of `P` -/
def asEncode (P : Prims) : FExpr → Option ((Bytes → Bytes) × FExpr × FExpr)
  | .app (.app (.fn f) dst) src => (P.encoder f).map fun enc => (enc, dst, src)
  | _ => none

/-- `x₁, …, xₙ = v`: one target takes the value, several take the components of a tuple of that
length; `_` discards. -/
def assignAll (env : Env) : List String → List Val → Option Env
  | [], [] => some env
  | x :: xs, v :: vs =>
    if x = "_" then assignAll env xs vs
    else (writePlace env (placeOfName x) v).bind fun env' => assignAll env' xs vs
  | _, _ => none

def components (n : Nat) (v : Val) : List Val :=
  if n = 1 then [v] else match v with
    | .tuple vs => vs
    | _ => []

def step (P : Prims) (env : Env) (ent : Entropy) : FStmt → Step
  | .declare x => .ofOption ("var " ++ x) (P.zero x) fun v => .next (env.set x v) ent
  | .assign lhs rhs =>
    match asUnmarshal rhs with
    | some (h, x) =>
      .of (eval P env h ent) fun vh ent' =>
        match vh, env x, lhs with
        | .str hs, some (.struct _ []), [e] =>
          (match P.unmarshal hs with
           | .ok s => .next ((env.set x s).set e .nil) ent'
           | .error ue => .next ((env.set x .poison).set e (.err (.unmarshal ue))) ent')
        | _, _, _ => .done (.stuck "Unmarshal: operands")
    | none =>
      .of (eval P env rhs ent) fun v ent' =>
        .ofOption "assignment" (assignAll env lhs (components lhs.length v)) fun env' => .next env' ent'
  | .eval e =>
    match asEncode P e with
    | some (enc, dst, src) =>
      .ofOption "Encode: destination" (placeOfExpr dst) fun p =>
      .ofOption "Encode: destination" (readPlace env p) fun vd =>
      .of (eval P env src ent) fun vs ent' =>
        match vd, vs with
        | .bytes d, .bytes s =>
          (match writeBuf d (enc s) with
           | some d' => .ofOption "Encode: destination" (writePlace env p (.bytes d')) fun env' => .next env' ent'
           | none => .done .panic)
        | _, _ => .done (.stuck "Encode: operands")
    | none => .of (eval P env e ent) fun _ ent' => .next env ent'
  | .ifRet c e =>
    .of (eval P env c ent) fun vc ent' =>
      match vc with
      | .bool true => .of (eval P env e ent') fun v ent'' => .done (.ret v ent'')
      | .bool false => .next env ent'
      | _ => .done (.stuck "condition is not a bool")
  | .ifAssign c lhs e =>
    .of (eval P env c ent) fun vc ent' =>
      match vc with
      | .bool true =>
        .of (eval P env e ent') fun v ent'' =>
          .ofOption "assignment" (writePlace env (placeOfName lhs) v) fun env' => .next env' ent''
      | .bool false => .next env ent'
      | _ => .done (.stuck "condition is not a bool")
  | .ret e => .of (eval P env e ent) fun v ent' => .done (.ret v ent')
  | .other d => .done (.stuck ("untranslated statement: " ++ d))

/-- Run a function body. Falling off the end is not a return. -/
def run (P : Prims) : List FStmt → Env → Entropy → Outcome
  | [], _, _ => .stuck "no return"
  | s :: ss, env, ent =>
    match step P env ent s with
    | .next env' ent' => run P ss env' ent'
    | .done o => o

/-! # Part 2 — the primitives of a scheme, from the model -/

/-- `var b [sumLength]byte`: the declared length of the comparison buffer, per package. -/
def sumLength (S : Def) : Option Nat :=
  match S.name with
  | "md5" => some Gen.md5.sumLength
  | "sha1" => some Gen.sha1.sumLength
  | "sha256" => some Gen.sha256.sumLength
  | "sha512" => some Gen.sha512.sumLength
  | "sunmd5" => some Gen.sunmd5.sumLength
  | "des" => some Gen.des.sumLength
  | "desext" => some Gen.desext.sumLength
  | "bcrypt" => some Gen.bcrypt.sumLength
  | "nthash" => some Gen.nthash.sumLength
  | _ => none                                  -- argon2 has no such declaration

/-- Constants, per package: exactly those the package's programs in `Gen/Flow.lean` mention. -/
def constOf (S : Def) (d : String) : Option Val :=
  match d with
  | "nil" => some .nil
  | "0" => some (.nat 0)
  | "\"\"" => some (.str [])
  | "type:[]byte" => some (.ty "[]byte")
  | "crypt.ErrPasswordMismatch" => some (.err .mismatch)
  | _ =>
    match S.name, d with
    | "md5", "Prefix" => some (.str Gen.md5.Prefix)
    | "md5", "DefaultSaltLength" => some (.nat Gen.md5.DefaultSaltLength)
    | "md5", "sumLength" => some (.nat Gen.md5.sumLength)
    | "sha1", "Prefix" => some (.str Gen.sha1.Prefix)
    | "sha1", "DefaultSaltLength" => some (.nat Gen.sha1.DefaultSaltLength)
    | "sha1", "RandomRounds" => some (.nat Gen.sha1.RandomRounds)
    | "sha256", "Prefix" => some (.str Gen.sha256.Prefix)
    | "sha256", "DefaultSaltLength" => some (.nat Gen.sha256.DefaultSaltLength)
    | "sha256", "ImplicitRounds" => some (.nat Gen.sha256.ImplicitRounds)
    | "sha512", "Prefix" => some (.str Gen.sha512.Prefix)
    | "sha512", "DefaultSaltLength" => some (.nat Gen.sha512.DefaultSaltLength)
    | "sha512", "ImplicitRounds" => some (.nat Gen.sha512.ImplicitRounds)
    | "sunmd5", "DefaultSaltLength" => some (.nat Gen.sunmd5.DefaultSaltLength)
    | "sunmd5", "PrefixZeroRounds" => some (.str Gen.sunmd5.PrefixZeroRounds)
    | "sunmd5", "PrefixNonZeroRounds" => some (.str Gen.sunmd5.PrefixNonZeroRounds)
    | "sunmd5", "sunmd5.separator" => some (.str [])       -- `var separator = ""` (sunmd5/sunmd5.go:139), never assigned: `Gen.Facts.lateGlobalWrites` lists address-of uses only
    | "des", "Prefix" => some (.str Gen.des.Prefix)
    | "des", "SaltLength" => some (.nat Gen.des.SaltLength)
    | "desext", "Prefix" => some (.str Gen.desext.Prefix)
    | "desext", "SaltLength" => some (.nat Gen.desext.SaltLength)
    | "bcrypt", "Prefix2b" => some (.str Gen.bcrypt.Prefix2b)
    | "bcrypt", "SaltLength" => some (.nat Gen.bcrypt.SaltLength)
    | "nthash", "Prefix" => some (.str Gen.nthash.Prefix)
    | "argon2", "Prefix2id" => some (.str Gen.argon2.Prefix2id)
    | "argon2", "Version10" => some (.nat Gen.argon2.Version10)
    | "argon2", "Version13" => some (.nat Gen.argon2.Version13)
    | "argon2", "DefaultThreads" => some (.nat Gen.argon2.DefaultThreads)
    | "argon2", "DefaultSaltLength" => some (.nat Gen.argon2.DefaultSaltLength)
    | _, _ => none

/-- `var scheme scheme` and `var b [sumLength]byte`. -/
def zeroOfVar (S : Def) (x : String) : Option Val :=
  match x with
  | "scheme" => (tiOf S).map fun ti => .struct ti []
  | "b" => (sumLength S).map fun n => .bytes (List.replicate n 0)
  | _ => none

/-- The options argument `&CompatibilityOptions{…}`; a field the literal omits is zero. -/
def optStr (fs : List (String × Val)) (k : String) : Option Bytes :=
  match litField fs k with
  | some (.str s) => some s
  | none => some []
  | _ => none
def optNat (fs : List (String × Val)) (k : String) : Option Nat :=
  match litField fs k with
  | some (.nat n) => some n
  | none => some 0
  | _ => none
def optBool (fs : List (String × Val)) (k : String) : Option Bool :=
  match litField fs k with
  | some (.bool b) => some b
  | none => some false
  | _ => none

/-- The arguments of `<pkg>.Key`, in the package's Go argument order, as the model's uniform record.
`rand` is the 32-bit word sha1's `Key` draws when `rounds = RandomRounds`. -/
def keyArgs (S : Def) (rand : Nat) (args : List Val) : Option KeyArgs :=
  match S.name, args with
  | "md5", [.bytes pw, .bytes salt] => some { password := pw, salt := salt }
  | "des", [.bytes pw, .bytes salt] => some { password := pw, salt := salt }
  | "sha256", [.bytes pw, .bytes salt, .nat r] => some { password := pw, salt := salt, rounds := r }
  | "sha512", [.bytes pw, .bytes salt, .nat r] => some { password := pw, salt := salt, rounds := r }
  | "desext", [.bytes pw, .bytes salt, .nat r] => some { password := pw, salt := salt, rounds := r }
  | "sha1", [.bytes pw, .bytes salt, .nat r] => some { password := pw, salt := salt, rounds := r, rand := rand }
  | "nthash", [.bytes pw] => some { password := pw }
  | "sunmd5", [.bytes pw, .bytes salt, .nat r, .lit "CompatibilityOptions" fs] => do
    let p ← optStr fs "Prefix"
    let d ← optBool fs "DisableSaltSeparator"
    pure { password := pw, salt := salt, rounds := r, optsNil := false, optPrefix := p, optFlag := d }
  | "bcrypt", [.bytes pw, .bytes salt, .nat c, .lit "CompatibilityOptions" fs] => do
    let p ← optStr fs "Prefix"
    pure { password := pw, salt := salt, rounds := c, optsNil := false, optPrefix := p }
  | "argon2", [.bytes pw, .bytes salt, .nat m, .nat t, .nat p, .lit "CompatibilityOptions" fs] => do
    let pfx ← optStr fs "Prefix"
    let v ← optNat fs "Version"
    pure { password := pw, salt := salt, memory := m, rounds := t, threads := p, optsNil := false,
           optPrefix := pfx, optVersion := v }
  | _, _ => none

/-- `Key`'s two results. -/
def keyResult : KeyRes → Eval Val
  | .ok k => pure (.tuple [.bytes k, .nil])
  | .err e => pure (.tuple [.bytes [], .err (.key e)])
  | .internal w => pure (.tuple [.bytes [], .err (.internal w)])
  | .panic => .panic

/-- The encoders, as the model's digest encoders (`Def.encodeSum` of the ten schemes). -/
def encoderOf (S : Def) (f : String) : Option (Bytes → Bytes) :=
  match f with
  | "crypthash.LittleEndianEncoding.Encode" => some leEncode
  | "crypthash.BigEndianEncoding.Encode" => some beEncode
  | "base64.RawStdEncoding.Encode" => some (stdEncode stdAlphabet)
  | "hex.Encode" => some hexLower
  | "Encoding.Encode" => if S.name = "bcrypt" then some (stdEncode bcryptAlphabet) else none
  | _ => none

/-- `encoding/base64`, no padding: `EncodedLen(n) = n/3*4 + (n%3*8+5)/6`, `DecodedLen(n) = n*6/8`. -/
def rawEncodedLen (n : Nat) : Nat := n / 3 * 4 + (n % 3 * 8 + 5) / 6
def rawDecodedLen (n : Nat) : Nat := n * 6 / 8

/-- Ask the entropy source for `n` bytes (a source that runs dry delivers what it has, as the
model's `newHash` has it; Go's `crypto/rand` never does). -/
def draw (n : Nat) : Eval Bytes := fun ent =>
  .ok (ent.stream.take n, { stream := ent.stream.drop n, used := ent.used + n })

/-- Package and library functions, by the names that occur in `Gen/Flow.lean`. -/
def callOf (S : Def) (rand : Nat) (f : String) (args : List Val) : Eval Val :=
  match f, args with
  | "Key", _ =>
    match keyArgs S rand args with
    | some a => keyResult (Scheme.key S a)
    | none => .stuck "Key: arguments"
  | "subtle.ConstantTimeCompare", [.bytes a, .bytes b] => pure (.nat (if ctEq a b then 1 else 0))
  | "encodePassword", [.str s] => if S.name = "nthash" then pure (.bytes (utf16le s)) else .stuck "encodePassword"
  | "base64.RawStdEncoding.EncodedLen", [.nat n] => pure (.nat (rawEncodedLen n))
  | "base64.RawStdEncoding.DecodedLen", [.nat n] => pure (.nat (rawDecodedLen n))
  | "Encoding.DecodedLen", [.nat n] => if S.name = "bcrypt" then pure (.nat (rawDecodedLen n)) else .stuck "Encoding.DecodedLen"
  | "crypthash.Marshal", [.struct ti vals] =>
    match marshal ti vals with
    | .ok s => pure (.tuple [.str s, .nil])
    | .error e => pure (.tuple [.str [], .err (.marshal e)])
  | "hashutil.HashEncoding.Rand", [.nat n] => do let e ← draw n; pure (.bytes (randSymbols hashAlphabet e))
  | "cryptoutil.Rand", [.nat n] => do let e ← draw n; pure (.bytes e)
  | "randRounds", [] =>
    if S.name = "sha1" then do
      let e ← draw 4
      pure (.nat (Gen.sha1.randRounds (e.foldl (fun acc b => acc * 256 + b.toNat) 0)))
    else .stuck "randRounds"
  | _, _ => .stuck ("function " ++ f)

/-- The primitives of scheme `S`. `results` are the named results of the function being run
(empty for `Check` and `NewHash`, whose results are unnamed). -/
def prims (S : Def) (rand : Nat := 0) (results : List String := []) : Prims where
  const := constOf S
  zero := zeroOfVar S
  results := results
  structTI := fun T => if T = "scheme" then tiOf S else none
  call := callOf S rand
  encoder := encoderOf S
  unmarshal := fun h => (tiOf S).elim (.error (.syntax 0 98)) fun ti =>
    (unmarshal ti h).map fun out => .struct ti (finalVals ti out)

/-! ## Initial environments -/

/-- `Check(hash, password string)` -/
def checkEnv (h pw : Bytes) : Env := env0 [("hash", .str h), ("password", .str pw)]

/-- The named results of `<pkg>.Params` / `<pkg>.Salt` (from the Go signatures; the IR drops them)
with their zero values.  nthash has no such function. -/
def paramsResults (S : Def) : List (String × Val) :=
  match S.name with
  | "md5" => [("salt", .bytes []), ("err", .nil)]
  | "des" => [("salt", .bytes []), ("err", .nil)]
  | "sha1" => [("salt", .bytes []), ("rounds", .nat 0), ("err", .nil)]
  | "sha256" => [("salt", .bytes []), ("rounds", .nat 0), ("err", .nil)]
  | "sha512" => [("salt", .bytes []), ("rounds", .nat 0), ("err", .nil)]
  | "desext" => [("salt", .bytes []), ("rounds", .nat 0), ("err", .nil)]
  | "sunmd5" => [("salt", .bytes []), ("rounds", .nat 0), ("opts", .nil), ("err", .nil)]
  | "bcrypt" => [("salt", .bytes []), ("cost", .nat 0), ("opts", .nil), ("err", .nil)]
  | "argon2" => [("salt", .bytes []), ("memory", .nat 0), ("time", .nat 0), ("threads", .nat 0), ("opts", .nil),
                 ("err", .nil)]
  | _ => []

/-- `Params(hash string) (salt …, err error)`: the parameter and the zeroed named results. -/
def paramsEnv (S : Def) (h : Bytes) : Env := env0 (("hash", .str h) :: paramsResults S)

/-- The primitives for running `Params` / `Salt`. -/
def paramsPrims (S : Def) : Prims := prims S 0 ((paramsResults S).map (·.1))

/-- `NewHash(password string, cost…)`: the parameters, per package, from the model's request record
(`rounds` carries rounds / cost / time, as in `KeyArgs`). -/
def newHashEnv (S : Def) (r : NewHashReq) : Env :=
  match S.name with
  | "md5" => env0 [("password", .str r.password)]
  | "des" => env0 [("password", .str r.password)]
  | "nthash" => env0 [("password", .str r.password)]
  | "sha1" => env0 [("password", .str r.password), ("rounds", .nat r.rounds)]
  | "sha256" => env0 [("password", .str r.password), ("rounds", .nat r.rounds)]
  | "sha512" => env0 [("password", .str r.password), ("rounds", .nat r.rounds)]
  | "desext" => env0 [("password", .str r.password), ("rounds", .nat r.rounds)]
  | "sunmd5" => env0 [("password", .str r.password), ("rounds", .nat r.rounds)]
  | "bcrypt" => env0 [("password", .str r.password), ("cost", .nat r.rounds)]
  | "argon2" => env0 [("password", .str r.password), ("memory", .nat r.memory), ("time", .nat r.rounds)]
  | _ => env0 []

/-! ## Reading the outcome -/

/-- `Check`'s result as the model's verdict; `none` for an outcome `Check` cannot have. -/
def outcomeToCheckRes : Outcome → Option CheckRes
  | .ret .nil _ => some .nil
  | .ret (.err .mismatch) _ => some .mismatch
  | .ret (.err (.unmarshal e)) _ => some (.uerr e)
  | .ret (.err (.key e)) _ => some (.kerr e)
  | .ret (.err (.internal w)) _ => some (.internal w)
  | .panic => some .panic
  | _ => none

/-- `Params` / `Salt` return `Key`'s arguments without the password, then `err`.  On a nil `err` the
packaging is that of `Key`'s arguments (`keyArgs`, with an empty password and no random word), so
the per-scheme packaging is *the same* argument order the `Key` primitive is given. -/
def outcomeToParams (S : Def) : Outcome → Option (Except UErr KeyArgs)
  | .ret (.tuple vs) _ =>
    match vs.getLast? with
    | some .nil => (keyArgs S 0 (.bytes [] :: vs.dropLast)).map .ok
    | some (.err (.unmarshal e)) => some (.error e)
    | _ => none
  | _ => none

/-- `NewHash` returns `(string, error)` (md5 and des: a bare `string`).  A `Marshal` error is the
model's `internal "marshal"`; the entropy count is the number of bytes asked of `crypto/rand`. -/
def outcomeToNewHash : Outcome → Option NewHashRes
  | .ret (.str s) ent => some (.ok s ent.used)
  | .ret (.tuple [.str s, .nil]) ent => some (.ok s ent.used)
  | .ret (.tuple [.str _, .err (.key e)]) _ => some (.kerr e)
  | .ret (.tuple [.str _, .err (.internal w)]) _ => some (.internal w)
  | .ret (.tuple [.str _, .err (.marshal _)]) _ => some (.internal "marshal")
  | .panic => some .panic
  | _ => none

end GoCrypt.FlowVal
