import GoCrypt.Base.Bytes
import GoCrypt.Prim.Blake2b

/-!
# Argon2 — reference written from RFC 9106, section 3

Independent of `GoCrypt.Model.Kdf.Argon2` and of `GoCrypt.Gen.Kernels`: the only shared code is
the BLAKE2b primitive `H^x`.  Names follow the RFC (`H0`, `H'`, `G`, `P`, `GB`, `B[i][j]`, `q`,
`J_1`, `J_2`, `W`, `x`, `y`, `zz`).  Differences of *formulation* w.r.t. the Go code, on purpose:

* the reference set `W` is materialised as the list of column indices, in the order in which the
  blocks were computed, and the reference block is `W[zz]` (no modular start-position formula);
* `G` gathers the eight 16-byte registers of a row / column of the 8×8 register matrix into a
  16-word vector, applies `P`, and scatters them back;
* all address blocks of a segment are computed up front (`G(ZERO, G(ZERO, Z_i))`, `i = 1, 2, …`);
* `H'` is the recurrence `V_1, …, V_{r+1}`;
* version 0x13: blocks of pass 0 are plain `G(…)`, blocks of later passes are XORed into the old
  block (RFC 3.2 step 6).  Version 0x10 (the pre-RFC 1.0 design, not in RFC 9106; the only
  difference is that later passes OVERWRITE) is provided for `v = 0x10`.

Memory `B` is stored flat: `B[i][j]` is entry `i*q + j`.
-/

namespace GoCrypt.Spec.Argon2Rfc

open GoCrypt

/-- `LE32(a)` -/
def LE32 (a : Nat) : Bytes := (List.range 4).map fun k => UInt8.ofNat (a / 256 ^ k % 256)

/-- `H^x(a)`: BLAKE2b with `x`-byte output. -/
def H (x : Nat) (a : Bytes) : Bytes := Prim.blake2b x a

/-! ## 3.3 Variable-length hash function `H'` -/

/-- `V_1 = v, V_2 = H^64(V_1), …` (`n` values). -/
def Vseq : Nat → Bytes → List Bytes
  | 0, _ => []
  | n + 1, v => v :: Vseq n (H 64 v)

/-- `H'^T(A)` -/
def H' (T : Nat) (A : Bytes) : Bytes :=
  if T ≤ 64 then H T (LE32 T ++ A)
  else
    let r := (T + 31) / 32 - 2                 -- ceil(T/32) - 2
    let Vs := Vseq r (H 64 (LE32 T ++ A))      -- V_1 … V_r
    let Vr := Vs.getLast?.getD []
    let Vlast := H (T - 32 * r) Vr             -- V_{r+1}
    (Vs.map (·.take 32)).flatten ++ Vlast      -- W_1 || … || W_r || V_{r+1}

/-! ## 3.5, 3.6 Compression function `G`, permutation `P` -/

/-- A 1024-byte block as 128 little-endian 64-bit words. -/
abbrev Block := Array UInt64

def ZERO : Block := Array.replicate 128 0

def blockXor (X Y : Block) : Block := (Array.range 128).map fun k => X[k]! ^^^ Y[k]!

/-- `trunc(a)`: the 64-bit value `a mod 2^32`. -/
def trunc (a : UInt64) : UInt64 := a % 4294967296

/-- `a >>> n`: rotation of a 64-bit word to the right. -/
def rotr (a : UInt64) (n : Nat) : UInt64 := (a >>> UInt64.ofNat n) ||| (a <<< UInt64.ofNat (64 - n))

/-- `GB(a, b, c, d)` (3.6) -/
def GB (a b c d : UInt64) : UInt64 × UInt64 × UInt64 × UInt64 :=
  let a := a + b + 2 * trunc a * trunc b
  let d := rotr (d ^^^ a) 32
  let c := c + d + 2 * trunc c * trunc d
  let b := rotr (b ^^^ c) 24
  let a := a + b + 2 * trunc a * trunc b
  let d := rotr (d ^^^ a) 16
  let c := c + d + 2 * trunc c * trunc d
  let b := rotr (b ^^^ c) 63
  (a, b, c, d)

/-- `GB` on positions `(ia, ib, ic, id)` of the 4×4 word matrix `v_0 … v_15`. -/
def GBat (v : Array UInt64) (q : Nat × Nat × Nat × Nat) : Array UInt64 :=
  let (ia, ib, ic, id) := q
  let (a, b, c, d) := GB v[ia]! v[ib]! v[ic]! v[id]!
  (((v.set! ia a).set! ib b).set! ic c).set! id d

/-- `P(A_0, …, A_7)` on `v_0 … v_15`, where `A_i = v_{2i+1} || v_{2i}`: four column `GB`s then four
diagonal `GB`s. -/
def P (v : Array UInt64) : Array UInt64 :=
  [(0, 4, 8, 12), (1, 5, 9, 13), (2, 6, 10, 14), (3, 7, 11, 15),
   (0, 5, 10, 15), (1, 6, 11, 12), (2, 7, 8, 13), (3, 4, 9, 14)].foldl GBat v

/-- Apply `P` to the eight 16-byte registers `R_k, k ∈ regs` of a block
(register `R_k` = words `2k`, `2k+1`). -/
def applyP (R : Block) (regs : List Nat) : Block :=
  let idx := regs.flatMap fun k => [2 * k, 2 * k + 1]
  let out := P (idx.map (R[·]!)).toArray
  (idx.zipIdx).foldl (fun acc (w, n) => acc.set! w out[n]!) R

/-- `G(X, Y)`: `R = X xor Y`; `P` on each row of the 8×8 register matrix (`R → Q`), then on each
column (`Q → Z`); result `Z xor R`. -/
def G (X Y : Block) : Block :=
  let R := blockXor X Y
  let Q := (List.range 8).foldl (fun acc i => applyP acc ((List.range 8).map (8 * i + ·))) R
  let Z := (List.range 8).foldl (fun acc j => applyP acc ((List.range 8).map (j + 8 * ·))) Q
  blockXor Z R

/-! ## bytes ↔ block -/

def blockOfBytes (b : Bytes) : Block :=
  let a := b.toArray
  (Array.range 128).map fun w =>
    (List.range 8).foldr (fun k (acc : UInt64) => acc * (256 : UInt64) + (a[8 * w + k]!).toUInt64) (0 : UInt64)

def LE64 (w : UInt64) : Bytes := (List.range 8).map fun k => UInt8.ofNat (w.toNat / 256 ^ k % 256)

def bytesOfBlock (B : Block) : Bytes := B.toList.flatMap LE64

/-! ## 3.4 Indexing -/

/-- Is the segment (pass `r`, slice `sl`) data-independent for type `y`?
Argon2d: never; Argon2i: always; Argon2id: first pass, first two slices. -/
def dataIndependent (y r sl : Nat) : Bool :=
  y == 1 || (y == 2 && r == 0 && sl < 2)

/-- 3.4.1.2: `Z = LE64(r) || LE64(l) || LE64(sl) || LE64(m') || LE64(t) || LE64(y) || LE64(i) || ZERO(968)`
and the `i`-th address block `G(ZERO, G(ZERO, Z))`. -/
def addressBlock (r l sl m' t y i : Nat) : Block :=
  let Z : Block := ([r, l, sl, m', t, y, i].map UInt64.ofNat ++ List.replicate 121 0).toArray
  G ZERO (G ZERO Z)

/-- 3.4.2: the reference set `W` (column indices within lane `l`, oldest first) for the block at
pass `r`, slice `sl`, lane `i`, position `idx` in its segment (column `j = sl*segLen + idx`). -/
def refSet (q segLen r sl i idx l : Nat) : List Nat :=
  let seg (s : Nat) : List Nat := (List.range segLen).map (s * segLen + ·)
  -- "the last SL - 1 = 3 segments computed and finished"
  let finished : List Nat :=
    if r == 0 then (List.range sl).flatMap seg
    else [(sl + 1) % 4, (sl + 2) % 4, (sl + 3) % 4].flatMap seg
  let j := sl * segLen + idx
  if l == i then
    -- … plus the blocks of the current segment computed so far, excluding B[i][j-1]
    let jPrev := (j + q - 1) % q
    (finished ++ (List.range idx).map (sl * segLen + ·)).filter (· != jPrev)
  else
    -- if B[i][j] is the first block of a segment, the very last index is excluded
    if idx == 0 then finished.dropLast else finished

/-- 3.4.2: map `(J_1, J_2)` to the reference block position `(l, z)`. -/
def refIndex (p q segLen r sl i idx J1 J2 : Nat) : Nat × Nat :=
  let l := if r == 0 && sl == 0 then i else J2 % p
  let W := refSet q segLen r sl i idx l
  let x := J1 * J1 / 2 ^ 32
  let y := W.length * x / 2 ^ 32
  let zz := W.length - 1 - y
  (l, W[zz]!)

/-! ## 3.2 Argon2 operation -/

/-- `Argon2(P, S, p, T, m, t, v, y)` with empty secret `K` and associated data `X`.
`y` = 0 (Argon2d) / 1 (Argon2i) / 2 (Argon2id); `v` = 0x13 (RFC) or 0x10. -/
def argon2 (y v : Nat) (P S : Bytes) (p T m t : Nat) : Bytes := Id.run do
  let K : Bytes := []
  let X : Bytes := []
  -- 1. H_0
  let H0 := H 64 (LE32 p ++ LE32 T ++ LE32 m ++ LE32 t ++ LE32 v ++ LE32 y
                  ++ LE32 P.length ++ P ++ LE32 S.length ++ S
                  ++ LE32 K.length ++ K ++ LE32 X.length ++ X)
  -- 2. m' = 4 * p * floor(m / 4p);  q = m' / p columns;  4 slices of q/4 columns
  let m' := 4 * p * (m / (4 * p))
  let q := m' / p
  let segLen := q / 4
  let mut B : Array Block := Array.replicate m' ZERO
  -- 3., 4. first two columns
  for i in [0:p] do
    B := B.set! (i * q + 0) (blockOfBytes (H' 1024 (H0 ++ LE32 0 ++ LE32 i)))
    B := B.set! (i * q + 1) (blockOfBytes (H' 1024 (H0 ++ LE32 1 ++ LE32 i)))
  -- 5., 6. t passes; within a pass, slice by slice; the p segments of a slice are independent
  for r in [0:t] do
    for sl in [0:4] do
      for i in [0:p] do
        let addrs : Array Block :=
          if dataIndependent y r sl then
            ((List.range ((segLen + 127) / 128)).map fun c => addressBlock r i sl m' t y (c + 1)).toArray
          else #[]
        for idx in [0:segLen] do
          let j := sl * segLen + idx
          if r == 0 && j < 2 then
            pure ()
          else
            let prev := B[i * q + (j + q - 1) % q]!
            -- 3.4.1: the 64-bit value J_1 || J_2 (J_1 = low half)
            let J : UInt64 :=
              if dataIndependent y r sl then (addrs[idx / 128]!)[idx % 128]! else prev[0]!
            let J1 := J.toNat % 2 ^ 32
            let J2 := J.toNat / 2 ^ 32
            let (l, z) := refIndex p q segLen r sl i idx J1 J2
            let new := G prev B[l * q + z]!
            let old := B[i * q + j]!
            B := B.set! (i * q + j) (if r == 0 || v == 0x10 then new else blockXor new old)
  -- 7. C = B[0][q-1] xor … xor B[p-1][q-1]
  let mut C := ZERO
  for i in [0:p] do
    C := blockXor C B[i * q + (q - 1)]!
  -- 8. Tag = H'^T(C)
  return H' T (bytesOfBlock C)

end GoCrypt.Spec.Argon2Rfc
