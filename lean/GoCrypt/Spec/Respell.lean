import GoCrypt.Model.Codec
import GoCrypt.Spec.RefParse

/-!
# Specification side of C20: the tolerated respellings

`respell ti vals s` decides whether the string `s` is, up to the fixed list of tolerated
respellings, the string `Marshal` writes for the value `vals`:

* one trailing delimiter,
* alternative digit spellings of an integer (leading zeros, letter case, explicit sign),
* the order of the members of one parameter group,
* an explicitly written zero or empty optional field.

It is written against the *derivation* of the canonical string (which field wrote which text), not
against the Unmarshal loop: it knows from `vals` which optional fields are present, so it needs none
of the loop's fragment accounting.
-/

namespace GoCrypt.Respell
open Bytes GoCrypt.Codec

/-- One emitted field with its text. -/
structure Piece where
  fi : FieldInfo
  text : Bytes
  deriving Repr

/-- The fields Marshal emits for `vals`, in order, with their texts (`none` if Marshal fails). -/
def pieces (vals : Vals) : List FieldInfo → Option (List Piece)
  | [] => some []
  | fi :: rest =>
    let fv := (getVal vals fi.index).getD (zeroOf fi.kind fi.ptrDepth)
    if fi.opts.omitEmpty && isEmptyVal fi fv then pieces vals rest
    else match marshalValue fi fv with
      | .ok s => (pieces vals rest).map (⟨fi, s⟩ :: ·)
      | .error _ => none

/-- The field's text is read as an integer (`strconv.Parse*`): no text unmarshaler, integer kind. -/
def isIntKind (fi : FieldInfo) : Bool :=
  match fi.unmarshalText, fi.kind with
  | .none, .int _ => true
  | .none, .uint _ => true
  | _, _ => false

/-- Two texts denote the same field content: identical, or — for integer fields — the same value
under the field's base and bit size. -/
def sameText (fi : FieldInfo) (a b : Bytes) : Bool :=
  a == b ||
  (isIntKind fi &&
    match fi.kind with
    | .int bits => (match Strconv.parseInt a fi.opts.base bits, Strconv.parseInt b fi.opts.base bits with
                    | .ok x, .ok y => x == y | _, _ => false)
    | .uint bits => (match Strconv.parseUint a fi.opts.base bits, Strconv.parseUint b fi.opts.base bits with
                     | .ok x, .ok y => x == y | _, _ => false)
    | _ => false) ||
  -- the 24-bit little-endian crypt(3) integer (at most four symbols): fewer symbols = leading zeros
  (fi.unmarshalText == .desInt && a.length ≤ 4 && b.length ≤ 4 && desDecodeInt a == desDecodeInt b)

/-- The text is an explicit zero / empty spelling for an (omitted) optional field. -/
def isZeroText (fi : FieldInfo) (t : Bytes) : Bool :=
  if fi.ptrDepth > 0 then false else
  match fi.unmarshalText, fi.kind with
  | .none, .int bits => (match Strconv.parseInt t fi.opts.base bits with | .ok x => x == 0 | _ => false)
  | .none, .uint bits => (match Strconv.parseUint t fi.opts.base bits with | .ok x => x == 0 | _ => false)
  | .none, .string => t.isEmpty
  | .none, .bytes => t.isEmpty
  | .none, .byteArray 0 => t.isEmpty
  | .desInt, .uint _ => t.length ≤ 4 && desDecodeInt t == 0
  | _, _ => false

def named (fi : FieldInfo) (t : Bytes) : Bytes :=
  if fi.opts.param ≠ [] then fi.opts.param ++ [equals] ++ t else t

/-- Strip `name=` for a param field; `none` if the member does not carry that name. -/
def unname (fi : FieldInfo) (m : Bytes) : Option Bytes :=
  if fi.opts.param = [] then some m
  else
    let key := fi.opts.param ++ [equals]
    if key.isPrefixOf m then some (m.drop key.length) else none

/-- member text `m` spells field `fi` with canonical text `t` (after the glued inline prefix `glue`). -/
def memberIs (glue : Bytes) (fi : FieldInfo) (t m : Bytes) : Bool :=
  glue.isPrefixOf m &&
  match unname fi (m.drop glue.length) with
  | some body => sameText fi body t
  | none => false

def memberIsZero (fi : FieldInfo) (m : Bytes) : Bool :=
  match unname fi m with
  | some body => isZeroText fi body
  | none => false

/-- Remove the first member satisfying `p`. -/
def removeFirst (p : Bytes → Bool) : List Bytes → Option (List Bytes)
  | [] => none
  | m :: ms => if p m then some ms else (removeFirst p ms).map (m :: ·)

/-- Match a run of grouped fields against the members of one fragment (any order): every emitted
field of the run appears exactly once, omitted optional ones may appear as explicit zeros, nothing
else is left. `glue` (pending inline text) can only precede the first emitted member. -/
def matchGroup (vals : Vals) (glue : Bytes) : List FieldInfo → List Bytes → Bool
  | [], ms => ms.isEmpty && glue.isEmpty
  | fi :: rest, ms =>
    let fv := (getVal vals fi.index).getD (zeroOf fi.kind fi.ptrDepth)
    if fi.opts.omitEmpty && isEmptyVal fi fv then
      -- omitted: absent, or present as an explicit zero
      matchGroup vals glue rest ms ||
      (match removeFirst (memberIsZero fi) ms with
       | some ms' => matchGroup vals glue rest ms'
       | none => false)
    else
      match marshalValue fi fv with
      | .error _ => false
      | .ok t =>
        match removeFirst (memberIs glue fi t) ms with
        | some ms' => matchGroup vals [] rest ms'
        | none => false

def splitOn := GoCrypt.RefParse.splitOn

/-- Leading run of grouped fields. -/
def takeGroupRun : List FieldInfo → List FieldInfo × List FieldInfo
  | [] => ([], [])
  | fi :: rest => if fi.opts.group then let (a, b) := takeGroupRun rest; (fi :: a, b) else ([], fi :: rest)

def anyEmitted (vals : Vals) (run : List FieldInfo) : Bool :=
  run.any fun fi => !(fi.opts.omitEmpty && isEmptyVal fi ((getVal vals fi.index).getD (zeroOf fi.kind fi.ptrDepth)))

/-- Align the field list with the `$`-separated fragments of `s` (already split into members).
`glue` is the text of inline fields waiting to be prefixed to the next emitted text. -/
def align (vals : Vals) (fuel : Nat) (fields : List FieldInfo) (frags : List (List Bytes)) (glue : Bytes) : Bool :=
  match fuel with
  | 0 => false
  | fuel + 1 =>
    match fields with
    | [] => frags.isEmpty && glue.isEmpty
    | fi :: rest =>
      if fi.opts.group then
        let (run, after) := takeGroupRun (fi :: rest)
        match frags with
        | ms :: frs =>
          (matchGroup vals glue run ms && align vals fuel after frs (if anyEmitted vals run then [] else glue)) ||
          (!anyEmitted vals run && align vals fuel after frags glue)
        | [] => !anyEmitted vals run && align vals fuel after [] glue
      else
        let fv := (getVal vals fi.index).getD (zeroOf fi.kind fi.ptrDepth)
        if fi.opts.omitEmpty && isEmptyVal fi fv then
          -- omitted optional field: absent, or spelled out as zero / empty in a fragment of its own
          align vals fuel rest frags glue ||
          (match frags with
           | [m] :: frs => glue.isEmpty && memberIsZero fi m && align vals fuel rest frs []
           | _ => false)
        else
          match marshalValue fi fv with
          | .error _ => false
          | .ok t =>
            if fi.opts.inline then
              -- no separator follows an inline field: its text is glued to whatever is emitted next;
              -- a param name, if any, is written before the inline text
              align vals fuel rest frags (glue ++ named fi t)
            else
              match frags with
              | [m] :: frs => memberIs glue fi t m && align vals fuel rest frs []
              | _ => false

/-- Strip the one tolerated trailing delimiter. -/
def stripTrailing (s : Bytes) : List Bytes :=
  match s.getLast? with
  | some c => if c = dollar ∨ c = comma then [s, s.dropLast] else [s]
  | none => [s]

def fragsOf (body : Bytes) : List (List Bytes) :=
  if body.isEmpty then [] else (splitOn dollar body).map (splitOn comma)

/-- `s` is a tolerated respelling of what Marshal writes for `vals`. -/
def respell (ti : TypeInfo) (vals : Vals) (s : Bytes) : Bool :=
  let pfxText : Option Bytes :=
    match ti.hashPrefix with
    | some hp =>
      (match marshalValue hp ((getVal vals hp.index).getD (zeroOf hp.kind hp.ptrDepth)) with
       | .ok t => some t
       | .error _ => none)
    | none => some []
  match pfxText with
  | none => false
  | some p =>
    p.isPrefixOf s &&
    (stripTrailing (s.drop p.length)).any fun body =>
      align vals (ti.fields.length + 2) ti.fields (fragsOf body) [] ||
      -- an empty body is either no fragment at all or one fragment with empty text
      (body.isEmpty && align vals (ti.fields.length + 2) ti.fields [[[]]] [])

end GoCrypt.Respell
