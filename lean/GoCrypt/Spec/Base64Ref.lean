import GoCrypt.Model.Base64LE
import GoCrypt.Spec.Base64Bits

/-!
# Reference decoder for the little-endian base64 of crypt(3)

Written from the definition of the text format, not from the control flow of `Decode`
(no quantum loop, no fast paths, no destination buffer).  Of the model only the record
`Encoding` (alphabet, padding character, strict flag) is used.

A text is read as follows.

* `\r` and `\n` are insignificant anywhere; every other byte is *significant* and keeps its index in
  the original text (`significant`).
* The significant bytes must be a run of alphabet symbols, optionally followed by padding.
  The symbols are cut into quanta of 4; the last quantum may be partial, with `k` symbols.
  `k = 1` is never valid.  `k = 2` or `3` is valid as it stands when the encoding is unpadded, and
  must be followed by exactly `4 - k` padding characters (and nothing else) when it is padded.
* The decoded bytes are the little-endian regrouping of the 6-bit symbol values (`regroup`):
  a quantum `d0 d1 d2 d3` is the number `d0 + 64·d1 + 64²·d2 + 64³·d3`, and its bytes are the
  little-endian bytes of that number — 3 bytes for a full quantum, 2 for `k = 3`, 1 for `k = 2`.
  This is `Base64Bits.specEncode` run backwards.
* The bits of a partial quantum that are not part of a byte (`unusedBits`: the top 4 of 12, resp. the
  top 2 of 18) must be zero in strict mode and are ignored otherwise.
* When the text is not valid, the result is the offset `Decode` puts in its `CorruptInputError`: an
  index into the original text, newlines counted (`len` is the length of the text).  Clause by clause
  (`verdict`), as read off the Go source:
  - the first significant byte that is not a symbol, if it is not the padding character, or if it is
    but comes after `k ≤ 1` symbols of its quantum: the index of that byte;
  - the text ends after `k = 1` symbols, or after `k = 2, 3` symbols of a padded encoding: `len - k`
    (counted back from the end of the text, trailing newlines included);
  - `k = 2` and one padding character, then the text ends: `len`; then a significant byte at `i'` that
    is not the padding character: `i' - 1` (one byte early);
  - a significant byte at `i'` after complete padding: `i'`;
  - strict mode and non-zero unused bits: `stop - (4 - k)`, where `stop` is `len` or, if a significant
    byte follows the padding, its index; this takes precedence over the previous clause.
  These offsets were checked against the compiled Go package on all 20312 texts of length ≤ 6 (and
  8 symbols followed by ≤ 4 bytes) over `. z \n = !`, in the four padding/strict modes.
-/

namespace GoCrypt.Spec.Base64Ref
open GoCrypt.Base64LE

/-- `\n` or `\r`. -/
def isNewline (c : UInt8) : Bool := c = 10 || c = 13

/-- The bytes of `text` that are not newlines, each with its index in `text`. -/
def significant (text : Bytes) : List (UInt8 × Nat) :=
  text.zipIdx.filter fun x => !isNewline x.1

/-- `c` is one of the 64 symbols. -/
def isSymbol (e : Encoding) (c : UInt8) : Bool := e.alphabet.contains c

/-- The 6-bit value of a symbol: its position in the alphabet. -/
def symbolValue (e : Encoding) (c : UInt8) : Nat := e.alphabet.idxOf c

/-- `c` is the padding character of a padded encoding. -/
def isPadding (e : Encoding) (c : UInt8) : Bool := e.pad = some c

/-- The number written by 6-bit digits, least significant digit first. -/
def leValue : List Nat → Nat
  | [] => 0
  | d :: ds => d + 64 * leValue ds

/-- The `n` low bytes of `w`, least significant byte first. -/
def leBytes (w n : Nat) : Bytes :=
  (List.range n).map fun j => UInt8.ofNat (w / 256 ^ j % 256)

/-- Little-endian regrouping of 6-bit digits into bytes, quantum by quantum: 4 digits give 3 bytes;
a final partial quantum of `k` digits gives `⌊6k/8⌋` bytes (2 for 3 digits, 1 for 2, none for 1). -/
def regroup : List Nat → Bytes
  | d0 :: d1 :: d2 :: d3 :: rest => leBytes (leValue [d0, d1, d2, d3]) 3 ++ regroup rest
  | ds => leBytes (leValue ds) (ds.length * 6 / 8)

/-- The digits of the final partial quantum (empty when the digits fill whole quanta). -/
def lastPartial (ds : List Nat) : List Nat := ds.drop (ds.length / 4 * 4)

/-- The bits of the final partial quantum above its whole bytes. -/
def unusedBits (ds : List Nat) : Nat :=
  leValue (lastPartial ds) / 256 ^ ((lastPartial ds).length * 6 / 8)

/-- The digits with the unused bits of the final partial quantum cleared: the last of 2 digits keeps
its low 2 bits, the last of 3 its low 4 bits; whole quanta are left alone. -/
def clearUnused (ds : List Nat) : List Nat :=
  match ds.length % 4, ds.getLast? with
  | 2, some d => ds.dropLast ++ [d % 4]
  | 3, some d => ds.dropLast ++ [d % 16]
  | _, _ => ds

/-- The text is complete and scanning stopped at index `stop` (the end of the text, or the first
significant byte after the padding): in strict mode non-zero unused bits are an error, located
`4 - k` bytes before `stop`; otherwise the outcome is `otherwise`. -/
def checkUnused (e : Encoding) (digits : List Nat) (stop : Nat) (otherwise : Except Nat Bytes) :
    Except Nat Bytes :=
  if e.strict ∧ unusedBits digits ≠ 0 then .error (stop - (4 - digits.length % 4)) else otherwise

/-- The verdict on a text of `len` bytes whose significant bytes are a run of symbols with values
`digits` followed by `trailer` (empty, or starting with a byte that is not a symbol). -/
def verdict (e : Encoding) (len : Nat) (digits : List Nat) (trailer : List (UInt8 × Nat)) :
    Except Nat Bytes :=
  let k := digits.length % 4                               -- symbols in the final partial quantum
  match trailer with
  | [] =>
    -- nothing but symbols and newlines
    if k = 0 then .ok (regroup digits)
    else if k = 1 ∨ e.pad.isSome then .error (len - k)      -- dangling symbol / missing padding
    else checkUnused e digits len (.ok (regroup digits))
  | (c, i) :: more =>
    if !isPadding e c ∨ k ≤ 1 then .error i                 -- foreign byte, or padding out of place
    else if k = 3 then
      match more with
      | [] => checkUnused e digits len (.ok (regroup digits))
      | (_, i') :: _ => checkUnused e digits i' (.error i')  -- something follows the padding
    else -- k = 2: two padding characters are required
      match more with
      | [] => .error len                                    -- second padding character missing
      | (c', i') :: more' =>
        if !isPadding e c' then .error (i' - 1)
        else
          match more' with
          | [] => checkUnused e digits len (.ok (regroup digits))
          | (_, i'') :: _ => checkUnused e digits i'' (.error i'')  -- something follows the padding

/-- The reference decoder on the significant bytes `sig` of a text of `len` bytes:
the decoded bytes, or the offset of the corrupt-input error. -/
def refDecodeSig (e : Encoding) (len : Nat) (sig : List (UInt8 × Nat)) : Except Nat Bytes :=
  verdict e len
    ((sig.takeWhile fun x => isSymbol e x.1).map fun x => symbolValue e x.1)  -- the leading run of symbols
    (sig.dropWhile fun x => isSymbol e x.1)                                   -- from the first non-symbol on

/-- The reference decoder. -/
def refDecode (e : Encoding) (text : Bytes) : Except Nat Bytes :=
  refDecodeSig e text.length (significant text)

deriving instance DecidableEq for Except

end GoCrypt.Spec.Base64Ref
