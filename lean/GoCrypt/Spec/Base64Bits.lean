import GoCrypt.Base.Bytes

/-!
# Bit-level specification of the little-endian base64 of crypt(3)

Written from the statement of the encoding, independently of the Go shift/mask kernels:
a group of up to three bytes `b0 b1 b2` is read as the little-endian number
`w = b0 + 256*b1 + 65536*b2`, and symbol `k` is the alphabet entry indexed by the `k`-th 6-bit
group of `w`, counted from the least significant end.
-/

namespace GoCrypt.Spec.Base64Bits

/-- The `k`-th 6-bit group of `w`, least significant first. -/
def digit (w k : Nat) : Nat := (w / 64 ^ k) % 64

/-- Alphabet symbol for the `k`-th 6-bit group of `w`. -/
def symbol (alphabet : Bytes) (w k : Nat) : UInt8 := alphabet.getD (digit w k) 0

/-- `n` padding characters (nothing when the encoding is unpadded). -/
def padding (pad : Option UInt8) (n : Nat) : Bytes :=
  match pad with
  | some p => List.replicate n p
  | none => []

/-- The encoding: 4 symbols per full 3-byte group, 2 (resp. 3) symbols plus 2 (resp. 1) optional
padding characters for a 1-byte (resp. 2-byte) tail. -/
def specEncode (alphabet : Bytes) (pad : Option UInt8) : Bytes → Bytes
  | b0 :: b1 :: b2 :: rest =>
    let w := b0.toNat + 256 * b1.toNat + 65536 * b2.toNat
    symbol alphabet w 0 :: symbol alphabet w 1 :: symbol alphabet w 2 :: symbol alphabet w 3 ::
      specEncode alphabet pad rest
  | [b0, b1] =>
    let w := b0.toNat + 256 * b1.toNat
    [symbol alphabet w 0, symbol alphabet w 1, symbol alphabet w 2] ++ padding pad 1
  | [b0] =>
    let w := b0.toNat
    [symbol alphabet w 0, symbol alphabet w 1] ++ padding pad 2
  | [] => []

/-- What `NewEncoding`/`WithPadding` require of an alphabet and padding character (they panic
otherwise): 64 distinct symbols, no `\n`/`\r` among them, and a padding character that is neither a
symbol nor `\n`/`\r`. -/
structure WellFormedAlphabet (alphabet : Bytes) (pad : Option UInt8) : Prop where
  length : alphabet.length = 64
  nodup : alphabet.Nodup
  noLF : (10 : UInt8) ∉ alphabet
  noCR : (13 : UInt8) ∉ alphabet
  pad_ok : ∀ p, pad = some p → p ∉ alphabet ∧ p ≠ 10 ∧ p ≠ 13

/-- The two crypt(3) alphabets, written out as ASCII codes. -/
def cryptAlphabet : Bytes :=   -- "./0123456789ABCDEFGHIJKLMNOPQRSTUVWXYZabcdefghijklmnopqrstuvwxyz"
  [46, 47, 48, 49, 50, 51, 52, 53, 54, 55, 56, 57,
   65, 66, 67, 68, 69, 70, 71, 72, 73, 74, 75, 76, 77, 78, 79, 80, 81, 82, 83, 84, 85, 86, 87, 88, 89, 90,
   97, 98, 99, 100, 101, 102, 103, 104, 105, 106, 107, 108, 109, 110, 111, 112, 113, 114, 115, 116, 117,
   118, 119, 120, 121, 122]

def bcryptAlphabet : Bytes :=  -- "./ABCDEFGHIJKLMNOPQRSTUVWXYZabcdefghijklmnopqrstuvwxyz0123456789"
  [46, 47,
   65, 66, 67, 68, 69, 70, 71, 72, 73, 74, 75, 76, 77, 78, 79, 80, 81, 82, 83, 84, 85, 86, 87, 88, 89, 90,
   97, 98, 99, 100, 101, 102, 103, 104, 105, 106, 107, 108, 109, 110, 111, 112, 113, 114, 115, 116, 117,
   118, 119, 120, 121, 122,
   48, 49, 50, 51, 52, 53, 54, 55, 56, 57]

end GoCrypt.Spec.Base64Bits
