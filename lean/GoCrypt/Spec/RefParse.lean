import GoCrypt.Model.Parse

/-!
# Reference parser (specification side of C11 / C07)

Written from the property statements, not from the lexer: strip the prefix by the stated rule,
split the rest on `$`, split each piece on `,`. The only subtlety is the one tolerated trailing
delimiter: an empty text at the very end of the input is not a value.
It reuses only the *types* of the model (`VNode`, `Frag`, `Tree`, `Result`).
-/

namespace GoCrypt.RefParse
open Bytes GoCrypt.Parse

/-- Split on a delimiter; always at least one piece. -/
def splitOn (d : UInt8) : Bytes → List Bytes
  | [] => [[]]
  | c :: cs =>
    if c = d then [] :: splitOn d cs
    else match splitOn d cs with
      | p :: ps => (c :: p) :: ps
      | [] => [[c]]

def isDelim (c : UInt8) : Bool := c == dollar || c == comma

/-- The prefix rule of the property statement: a leading `$` through the next `$` or `,`
inclusive; `_` for a leading underscore; nothing otherwise. Fails iff the `$` identifier is empty
or unterminated. Returns the prefix (if any) and the remaining text. -/
def refPrefix (s : Bytes) : Except (Nat × Nat) (Option Bytes × Bytes) :=
  match s with
  | [] => .ok (none, [])
  | c :: rest =>
    if c = dollar then
      let ident := rest.takeWhile (fun c => !isDelim c)
      if ident.length = rest.length then .error (s.length, 2)
      else if ident.length = 0 then .error (1, 1)
      else .ok (some (s.take (ident.length + 2)), s.drop (ident.length + 2))
    else if c = underscore then .ok (some [underscore], rest)
    else .ok (none, s)

def mkValues (off : Nat) : List Bytes → List VNode
  | [] => []
  | p :: ps => ⟨p, off, off + p.length⟩ :: mkValues (off + p.length + 1) ps

/-- One `$`-separated piece: a value if it holds no comma, otherwise a group of its comma-separated
parts. In the last piece an empty final part is not a value (nothing follows the last delimiter). -/
def mkFrag (off : Nat) (piece : Bytes) (isLast : Bool) : Option Frag :=
  let parts := splitOn comma piece
  let vs := mkValues off parts
  let vs := if isLast && parts.getLast? == some [] then vs.dropLast else vs
  if parts.length = 1 then vs.head?.map Frag.value else some (Frag.group vs)

def mkFrags (off : Nat) : List Bytes → List Frag
  | [] => []
  | [p] => (mkFrag off p true).toList
  | p :: q :: rest => (mkFrag off p false).toList ++ mkFrags (off + p.length + 1) (q :: rest)

def refParse (s : Bytes) : Result :=
  match refPrefix s with
  | .error (o, m) => .err o m
  | .ok (p, rest) => .ok ⟨p, mkFrags (p.getD []).length (splitOn dollar rest)⟩

end GoCrypt.RefParse
