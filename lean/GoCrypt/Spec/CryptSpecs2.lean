import GoCrypt.Base.Bytes

/-!
# Reference descriptions of the remaining classic crypt(3) schemes

Companion of `Spec/CryptSpecs.lean` (md5-crypt, SHA-crypt). Each reference is written from the
*published* algorithm, not from the Go code: no fuel-driven loops, no `Option` for slices, no
table-driven DES. Primitives are parameters wherever the scheme has one:

| scheme      | source                                                        | parameter                    |
|-------------|---------------------------------------------------------------|------------------------------|
| sha1-crypt  | NetBSD `crypt-sha1.c` (Simon Gerraty)                         | `HM` = HMAC                  |
| Sun MD5     | Alec Muffett's algorithm, comments of libxcrypt `crypt-sunmd5.c` | `H` = MD5, the quotation  |
| NT hash     | MS-NLMP "NTOWFv1": MD4(UTF-16LE(password))                    | `H` = MD4                    |
| bcrypt      | Provos–Mazières 1999, OpenBSD `bcrypt.c`                      | `BlowfishOps` (4 operations) |
| DES / BSDi  | crypt(3) of V7 / FreeBSD `crypt-des.c`                        | `DES` = one salted encryption |

`Props/C03b.lean` proves the code-shaped models of `Model/Kdf/*.lean` equal to these.
-/

namespace GoCrypt.CryptSpec2

/-- `f` applied `n` times. -/
def iterate {α : Type} (f : α → α) : Nat → α → α
  | 0, x => x
  | n + 1, x => f (iterate f n x)

/-- `printf("%u", n)`: Lean's own decimal digits of `n`, as ASCII bytes. -/
def decimal (n : Nat) : Bytes := (Nat.toDigits 10 n).map fun c => UInt8.ofNat c.toNat

/-! ## sha1-crypt (NetBSD)

`hmac_sha1` keyed by the password, first over `salt ‖ "$sha1$" ‖ decimal(rounds)`, then `rounds - 1`
more times over the previous tag. The 20-byte result is what `__crypt_sha1` base-64 encodes. -/

/-- `"$sha1$"` -/
def sha1Magic : Bytes := [36, 115, 104, 97, 49, 36]

def sha1cryptSpec (HM : Bytes → Bytes → Bytes) (pw salt : Bytes) (rounds : Nat) : Bytes :=
  iterate (HM pw) (rounds - 1) (HM pw (salt ++ sha1Magic ++ decimal rounds))

/-! ## Sun MD5 (Solaris `crypt_sunmd5`)

Muffett's description: start from `MD5(password ‖ salt-string)`; each round re-hashes the previous
digest followed, *if a data-dependent coin toss says so*, by a 1517-byte quotation from Hamlet, and
always by the round number in decimal. The coin is derived from the digest by three levels of
indirection (4-bit indices into the digest → 7-bit bit-numbers → two 8-bit values → two 7-bit
bit-numbers) and the round number. `4096 + rounds` rounds are run. -/

/-- `md5bit(digest, n)`: bit `n mod 128` of the digest, bytes in order, least significant bit first. -/
def md5bit (D : Bytes) (n : Nat) : Nat :=
  let n := n % 128
  ((D.getD (n / 8) 0).toNat >>> (n % 8)) % 2

/-- The number whose binary digits, least significant first, are `bits`. -/
def ofBitsLSB : List Nat → Nat
  | [] => 0
  | b :: bs => b + 2 * ofBitsLSB bs

/-- The coin toss of round `round` on the digest `D` of the previous round. -/
def sunCoinToss (D : Bytes) (round : Nat) : Bool :=
  let d (i : Nat) : Nat := (D.getD i 0).toNat
  -- shift schedule: a shift in 0..4 and a shift in 0..1 per digest byte, from the byte 3 further on
  let shift4 (i : Nat) : Nat := d ((i + 3) % 16) % 5
  let shift7 (i : Nat) : Nat := (d ((i + 3) % 16) >>> (d i % 8)) % 2
  -- 4-bit values extracted from the digest bytes …
  let indirect4 (i : Nat) : Nat := (d i >>> shift4 i) % 16
  -- … select the digest bytes from which 7-bit values are extracted
  let indirect7 (i : Nat) : Nat := (d (indirect4 i) >>> shift7 i) % 128
  -- the 7-bit values select digest bits: two 8-bit numbers
  let indirectA := ofBitsLSB ((List.range 8).map fun i => md5bit D (indirect7 i))
  let indirectB := ofBitsLSB ((List.range 8).map fun i => md5bit D (indirect7 (i + 8)))
  -- top or bottom seven bits of each, chosen by digest bits `round` and `round + 64`
  let a := (indirectA >>> md5bit D round) % 128
  let b := (indirectB >>> md5bit D (round + 64)) % 128
  -- xor of the two digest bits selected
  md5bit D a != md5bit D b

/-- The digest after `n` rounds. -/
def sunDigest (H : Bytes → Bytes) (phrase pw saltString : Bytes) : Nat → Bytes
  | 0 => H (pw ++ saltString)
  | n + 1 =>
    let D := sunDigest H phrase pw saltString n
    H (D ++ (if sunCoinToss D n then phrase else []) ++ decimal n)

/-- Sun MD5's 16-byte digest before the final byte transposition / base-64 step. `saltString` is
the whole setting (`$md5,rounds=N$salt$` or `$md5$salt$`, with or without the last `$`). -/
def sunmd5Spec (H : Bytes → Bytes) (phrase pw saltString : Bytes) (rounds : Nat) : Bytes :=
  sunDigest H phrase pw saltString (4096 + rounds)

/-! ## NT hash

`MD4(UTF-16LE(password))` in lower-case hexadecimal. The password arrives as a byte string which Go
interprets as UTF-8. The conversion is stated through Unicode scalar values and the *encoder*
direction of UTF-8 (Unicode §3.9, Table 3-6), which needs no table of exclusions: a byte sequence is
well formed iff it is the encoding of a scalar value.

**Ill-formed input.** Go's `[]rune(s)` / `utf8.DecodeRune` rule, which is *not* the
"maximal subpart" practice of Unicode §3.9 (U+FFFD substitution of maximal subparts): at a
position where no well-formed sequence starts, **one byte** is consumed and one U+FFFD emitted, so
every byte of a truncated or otherwise invalid sequence yields its own U+FFFD (`E2 82` ↦ U+FFFD
U+FFFD, where maximal-subpart replacement gives a single U+FFFD). -/

/-- Unicode scalar values: code points except the surrogates. -/
def IsScalar (c : Nat) : Prop := c < 0xD800 ∨ (0xE000 ≤ c ∧ c ≤ 0x10FFFF)

instance (c : Nat) : Decidable (IsScalar c) := by unfold IsScalar; infer_instance

/-- UTF-8 encoding of a scalar value (Table 3-6: 7, 5+6, 4+6+6, 3+6+6+6 payload bits). -/
def utf8Encode (c : Nat) : Bytes :=
  if c < 0x80 then [UInt8.ofNat c]
  else if c < 0x800 then [UInt8.ofNat (0xC0 + c / 64), UInt8.ofNat (0x80 + c % 64)]
  else if c < 0x10000 then [UInt8.ofNat (0xE0 + c / 4096), UInt8.ofNat (0x80 + c / 64 % 64), UInt8.ofNat (0x80 + c % 64)]
  else [UInt8.ofNat (0xF0 + c / 262144), UInt8.ofNat (0x80 + c / 4096 % 64), UInt8.ofNat (0x80 + c / 64 % 64),
        UInt8.ofNat (0x80 + c % 64)]

/-- The payload bits of a sequence of 1..4 bytes read as lead byte + continuation bytes. -/
def utf8Payload : Bytes → Nat
  | [a] => a.toNat
  | [a, b] => a.toNat % 32 * 64 + b.toNat % 64
  | [a, b, c] => a.toNat % 16 * 4096 + b.toNat % 64 * 64 + c.toNat % 64
  | [a, b, c, d] => a.toNat % 8 * 262144 + b.toNat % 64 * 4096 + c.toNat % 64 * 64 + d.toNat % 64
  | _ => 0

/-- The scalar value whose UTF-8 encoding is a prefix of `s`, with the length of that encoding.
(UTF-8 is prefix-free: at most one length qualifies. `Props/C03b.utf8Prefix_iff` states that this
search is exactly "`s` starts with `utf8Encode c` for a scalar `c`".) -/
def utf8Prefix (s : Bytes) : Option (Nat × Nat) :=
  [1, 2, 3, 4].findSome? fun k =>
    let c := utf8Payload (s.take k)
    if k ≤ s.length ∧ IsScalar c ∧ utf8Encode c = s.take k then some (c, k) else none

/-- `utf8Scalars.go s skip`: scalar values of `s` after skipping `skip` bytes (those of the sequence
just decoded). Structural in `s`. -/
def utf8Scalars.go : Bytes → Nat → List Nat
  | [], _ => []
  | _ :: rest, skip + 1 => go rest skip
  | b :: rest, 0 =>
    match utf8Prefix (b :: rest) with
    | some (c, k) => c :: go rest (k - 1)
    | none => 0xFFFD :: go rest 0        -- Go's rule: one U+FFFD per offending byte

/-- UTF-8 bytes → Unicode scalar values, U+FFFD for each byte at which no well-formed sequence starts. -/
def utf8Scalars (s : Bytes) : List Nat := utf8Scalars.go s 0

/-- UTF-16 code units of a scalar value. -/
def utf16Encode (c : Nat) : List Nat :=
  if c < 0x10000 then [c] else [0xD800 + (c - 0x10000) / 1024, 0xDC00 + (c - 0x10000) % 1024]

/-- Little-endian bytes of 16-bit code units. -/
def le16 (units : List Nat) : Bytes := units.flatMap fun u => [UInt8.ofNat (u % 256), UInt8.ofNat (u / 256)]

/-- `"0123456789abcdef"` -/
def hexDigits : Bytes := [48, 49, 50, 51, 52, 53, 54, 55, 56, 57, 97, 98, 99, 100, 101, 102]

def hex (b : Bytes) : Bytes := b.flatMap fun c => [hexDigits.getD (c.toNat / 16) 0, hexDigits.getD (c.toNat % 16) 0]

def utf16le (pw : Bytes) : Bytes := le16 ((utf8Scalars pw).flatMap utf16Encode)

/-- The 32 hex digits after `$3$$`. -/
def nthashSpec (H : Bytes → Bytes) (pw : Bytes) : Bytes := hex (H (utf16le pw))

/-! ## bcrypt (Provos–Mazières)

```
EksBlowfishSetup(cost, salt, key):  state ← InitState()
                                    state ← ExpandKey(state, salt, key)
                                    repeat 2^cost:  state ← ExpandKey(state, 0, key)
                                                    state ← ExpandKey(state, 0, salt)
bcrypt(cost, salt, pwd):            state ← EksBlowfishSetup(cost, salt, key(pwd))
                                    ctext ← "OrpheanBeholderScryDoubt"
                                    repeat 64:  ctext ← EncryptECB(state, ctext)
```
The order *key, then salt* inside the loop is that of OpenBSD's `bcrypt.c` and of every deployed
implementation; the USENIX paper prints the two lines the other way round. The output is the first
23 of the 24 bytes (OpenBSD encodes `4 * BCRYPT_BLOCKS - 1` bytes).

The Blowfish operations are **parameters** (`BlowfishOps`); `Props/C03b.lean` instantiates them with
`Prim/Blowfish.lean` (`ExpandKey(state, 0, ·)` = x/crypto's unsalted `ExpandKey`). -/

/-- The four Blowfish operations bcrypt is built from, on an abstract state. -/
structure BlowfishOps (S : Type) where
  /-- the digits of π -/
  initState : S
  /-- `ExpandKey(state, salt, key)` with a 128-bit salt -/
  expandKey : S → (salt key : Bytes) → S
  /-- `ExpandKey(state, 0, key)`: the salt-less Blowfish key schedule step -/
  expandKey0 : S → (key : Bytes) → S
  /-- encryption of one 64-bit block (8 bytes, big-endian halves) -/
  encryptBlock : S → Bytes → Bytes

/-- The variants of the `$2?$` family that go-crypt accepts. -/
inductive BcryptVariant where
  | v2     -- `$2$`: the password bytes without terminator
  | v2a    -- `$2a$`: the terminating NUL is part of the key
  | v2b    -- `$2b$` (OpenBSD 5.5): as 2a, the password length capped at 72 *before* the NUL is added
  deriving DecidableEq, Repr

/-- The key handed to the Blowfish key schedule. (The schedule reads 72 key bytes cyclically, so for
`$2$`/`$2a$` only the first 72 bytes of a longer key matter; no explicit truncation is part of the
algorithm. The historic 8-bit length wrap-around of OpenBSD's `$2a$` for passwords over 254 bytes is
*not* part of the reference — libxcrypt/crypt_blowfish do not have it.) -/
def bcryptKey : BcryptVariant → Bytes → Bytes
  | .v2, pw => pw
  | .v2a, pw => pw ++ [0]
  | .v2b, pw => pw.take 72 ++ [0]

def eksBlowfishSetup {S : Type} (B : BlowfishOps S) (cost : Nat) (salt key : Bytes) : S :=
  iterate (fun st => B.expandKey0 (B.expandKey0 st key) salt) (2 ^ cost) (B.expandKey B.initState salt key)

/-- ECB: every complete 8-byte block of `text` encrypted separately. -/
def encryptECB {S : Type} (B : BlowfishOps S) (st : S) (text : Bytes) : Bytes :=
  (List.range (text.length / 8)).flatMap fun i => B.encryptBlock st ((text.drop (8 * i)).take 8)

/-- `"OrpheanBeholderScryDoubt"` -/
def orpheanBeholder : Bytes :=
  [79, 114, 112, 104, 101, 97, 110, 66, 101, 104, 111, 108, 100, 101, 114, 83, 99, 114, 121, 68, 111, 117, 98, 116]

/-- The 23 bytes that are base-64 encoded into the hash; `none` for an empty key (`$2$` with the
empty password), on which the Blowfish key schedule is not defined. -/
def bcryptSpec {S : Type} (B : BlowfishOps S) (v : BcryptVariant) (cost : Nat) (salt pw : Bytes) : Option Bytes :=
  let key := bcryptKey v pw
  if key = [] then none
  else
    let st := eksBlowfishSetup B cost salt key
    some ((iterate (encryptECB B st) 64 orpheanBeholder).take 23)

/-! ## DES-crypt and BSDi extended DES, the crypt(3) layer

`DES key salt block` is **one** DES encryption of a 64-bit block (bit 63 = bit 1 of FIPS 46) under a
64-bit key (parity positions ignored), in which, for every set bit `i < 24` of `salt`, outputs `i` and
`i + 24` of the E expansion are exchanged. It is a parameter here; `Spec/DesFips.lean` defines it from
the FIPS 46-3 tables.

* traditional: key = the low 7 bits of each of the first 8 password characters, moved up by one bit
  (into the non-parity positions), zero padded; 12-bit salt from 2 characters; 25 encryptions
  starting from the zero block;
* BSDi `_`: the same key step for the first 8 characters, then for each further group of up to 8
  characters `key ← DES(key; key) ⊕ group` (unsalted, the key encrypts itself); 24-bit salt from 4
  characters; `rounds` encryptions (24-bit count from 4 characters);
* salt and count characters are base-64 digits over `./0-9A-Za-z`, least significant first;
* the 64-bit result is written as 11 base-64 digits, most significant first (66 bits: two zero bits
  are appended). -/

/-- `"./0123456789ABCDEFGHIJKLMNOPQRSTUVWXYZabcdefghijklmnopqrstuvwxyz"` -/
def a64 : Bytes :=
  [46, 47, 48, 49, 50, 51, 52, 53, 54, 55, 56, 57,
   65, 66, 67, 68, 69, 70, 71, 72, 73, 74, 75, 76, 77, 78, 79, 80, 81, 82, 83, 84, 85, 86, 87, 88, 89, 90,
   97, 98, 99, 100, 101, 102, 103, 104, 105, 106, 107, 108, 109, 110, 111, 112, 113, 114, 115, 116, 117, 118, 119, 120, 121, 122]

/-- Value of a base-64 digit (64 for a byte that is not one). -/
def a64Value (c : UInt8) : Nat := (a64.idxOf? c).getD 64

/-- Number written in base-64 digits, least significant first. -/
def a64Number : Bytes → Nat
  | [] => 0
  | c :: cs => a64Value c + 64 * a64Number cs

/-- Big-endian value of a byte string. -/
def beNat (b : Bytes) : Nat := b.foldl (fun acc x => acc * 256 + x.toNat) 0

/-- The 8 key bytes made from (up to) 8 characters: 7 low bits, shifted left by one. -/
def desKeyBytes (chars : Bytes) : Bytes :=
  (List.range 8).map fun i => UInt8.ofNat ((chars.getD i 0).toNat % 128 * 2)

def desKeyOf (chars : Bytes) : UInt64 := UInt64.ofNat (beNat (desKeyBytes chars))

/-- The 8 bytes of a block, most significant first. -/
def blockBytes (v : UInt64) : Bytes := (List.range 8).map fun i => UInt8.ofNat (v.toNat / 256 ^ (7 - i) % 256)

/-- 64 bits as 11 base-64 digits, most significant first, two zero bits appended. -/
def a64Block (v : UInt64) : Bytes := (List.range 11).map fun i => a64.getD (v.toNat * 4 / 64 ^ (10 - i) % 64) 0

/-- Traditional crypt(3): the 64-bit result. -/
def descryptBlock (DES : UInt64 → Nat → UInt64 → UInt64) (pw salt : Bytes) : UInt64 :=
  iterate (DES (desKeyOf pw) (a64Number salt)) 25 0

/-- Consecutive groups of 8 bytes, the last one possibly shorter. -/
def groups8 (b : Bytes) : List Bytes := (List.range ((b.length + 7) / 8)).map fun i => (b.drop (8 * i)).take 8

/-- BSDi key folding. -/
def bsdiKey (DES : UInt64 → Nat → UInt64 → UInt64) (pw : Bytes) : UInt64 :=
  (groups8 (pw.drop 8)).foldl (fun key g => DES key 0 key ^^^ desKeyOf g) (desKeyOf pw)

/-- BSDi extended DES: the 64-bit result. -/
def desextBlock (DES : UInt64 → Nat → UInt64 → UInt64) (pw salt : Bytes) (rounds : Nat) : UInt64 :=
  iterate (DES (bsdiKey DES pw) (a64Number salt)) rounds 0

/-- The 11 (traditional) resp. 11 of 20 (BSDi) hash characters after the salt. -/
def descryptSpec (DES : UInt64 → Nat → UInt64 → UInt64) (pw salt : Bytes) : Bytes := a64Block (descryptBlock DES pw salt)
def desextSpec (DES : UInt64 → Nat → UInt64 → UInt64) (pw salt : Bytes) (rounds : Nat) : Bytes :=
  a64Block (desextBlock DES pw salt rounds)

end GoCrypt.CryptSpec2
