import GoCrypt.Base.SFlow2
import GoCrypt.Spec.SFlowVal

/-!
# A value semantics for the extended structured flow IR (`Base/SFlow2.lean`)

`Spec/SFlowVal.lean` says what a program of `Base/SFlow.lean` computes.  This file does the same for
`PStmt` (loops, `switch`, `break` / `continue`, `go`).  It reuses, unchanged, the values (`Val`), the
results (`Res`), the record of package primitives (`Prims`), the environments (stack of frames = Go's
block scoping), the constants, the operators (`binop`, `unop`), `len` / `strings.HasPrefix` /
`strings.IndexAny` (`callNamed`) and the bounds-checked slicing / indexing (`sliceStr`, `indexStr`:
out of range = `panic`) of `Spec/SFlowVal.lean`.

## What is new

* **Loops** `for init; cond; post { body }`.  The interpreter is total: every loop may run at most
  `fuel` iterations (`fuel` is a parameter of the whole run, derived from the input length by the
  callers in `Spec/SFlowVal2Parse.lean`); a loop that would need more is `stuck`, never cut short
  silently.  `init` lives in a scope of its own that encloses condition, body and post statement; the
  body is a block (a fresh scope per iteration).  `break` ends the innermost enclosing `for` / `switch`
  (or the labelled one), `continue` goes to the post statement of the innermost enclosing `for` (or
  the labelled one); both drop the scopes they leave.
* **`switch init; tag { case a, b: … default: … }`**: the tag is evaluated once; the case values are
  evaluated top to bottom, left to right, and compared with `==`; the first equal one selects its
  clause, which runs as a block; there is no fall-through; when no value is equal the `default` body
  runs (the empty body when there is none).
* **Comparison with `nil`**: `==` / `!=` between `nil` and a function value or a reference (`ext`)
  value.  *Convention the primitives must keep*: a nil pointer / slice / channel / function is always
  `Val.nil`, never an `ext` value — so an `ext` value differs from `nil`.
* **Receive** `<-ch` is the primitive `"<-chan"`, send `ch <- v` the primitive `"chan<-"` (as before),
  `go f(args)` the primitive `"go:f"` applied to the evaluated arguments.  What these three mean is
  the business of the package's primitives (see the modelling decision at the top of
  `Spec/SFlowVal2Parse.lean`).
* **Variadic**: an argument `xs...` (`.un "..." xs`) evaluates to the marker `kv "..." v`; a nil slice
  spreads to no argument, anything else is `stuck`.  A function whose last parameter has a type
  `"...T"` binds it to `nil` when called without variadic arguments; passing any is `stuck`.

Nothing is assumed silently: an `other` node, an unknown name, an ill-typed operand, an unbound
variable, exhausted fuel are all `stuck`.
-/

namespace GoCrypt.SFlowVal2
open GoCrypt.Flow GoCrypt.SFlow GoCrypt.SFlow2 GoCrypt.SFlowVal

/-! ## Operators: comparison with `nil` added -/

/-- `a == b` when one side is `nil` and the other a function or a reference. -/
def nilCmp {ν} (a b : Val ν) : Option Bool :=
  match a, b with
  | .nil, .nil => some true
  | .nil, .func _ => some false
  | .nil, .ext _ => some false
  | .func _, .nil => some false
  | .ext _, .nil => some false
  | _, _ => none

def binop2 {ν} (o : String) (a b : Val ν) : Res (Val ν) :=
  match nilCmp a b with
  | some r =>
    if o = "==" then .ok (.bool r)
    else if o = "!=" then .ok (.bool (!r))
    else .stuck ("operator " ++ o ++ " on nil")
  | none => binop o a b

/-- An evaluated argument as the list of arguments it stands for (`xs...` of a nil slice: none). -/
def spreadArg {ν} (v : Val ν) : Option (List (Val ν)) :=
  match v with
  | .kv k w => if k = "..." then (match w with | .nil => some [] | _ => none) else some [v]
  | _ => some [v]

/-! ## Expressions -/

mutual
def evalX {σ ν} (P : Prims σ ν) (env : Env ν) : FExpr → σ → Res (Val ν × σ)
  | .var x, st =>
    match env.get x with
    | some v => .ok (v, st)
    | none => .stuck ("variable " ++ x)
  | .field x f, st =>
    match env.get x with
    | some b =>
      (match P.readField b f st with
       | some v => .ok (v, st)
       | none => .stuck ("field " ++ x ++ "." ++ f))
    | none => .stuck ("variable " ++ x)
  | .const d, st =>
    match constVal P d with
    | some v => .ok (v, st)
    | none => .stuck ("constant " ++ d)
  | .fn f, st => .ok (.func f, st)
  | .app g a, st =>
    match evalSpineX P env g st with
    | .ok ((h, vs), st1) =>
      (match evalX P env a st1 with
       | .ok (v, st2) =>
         (match spreadArg v with
          | some ws => applyHead P h (vs ++ ws) st2
          | none => .stuck "variadic argument: a non-nil slice")
       | .panic w => .panic w
       | .stuck w => .stuck w)
    | .panic w => .panic w
    | .stuck w => .stuck w
  | .op o a b, st =>
    if o = ":" then
      match a with
      | .const k =>
        (match evalX P env b st with
         | .ok (v, st1) => .ok (.kv k v, st1)
         | .panic w => .panic w
         | .stuck w => .stuck w)
      | _ => .stuck "key of a composite literal"
    else if o = "[_:_]" then
      match b with
      | .op _ lo hi =>
        (match evalX P env a st with
         | .ok (.str s, st1) =>
           (match evalX P env lo st1 with
            | .ok (.int l, st2) =>
              (match evalX P env hi st2 with
               | .ok (.int h, st3) =>
                 (match (sliceStr s l h : Res (Val ν)) with
                  | .ok v => .ok (v, st3)
                  | .panic w => .panic w
                  | .stuck w => .stuck w)
               | .ok _ => .stuck "slice: high bound"
               | .panic w => .panic w
               | .stuck w => .stuck w)
            | .ok _ => .stuck "slice: low bound"
            | .panic w => .panic w
            | .stuck w => .stuck w)
         | .ok _ => .stuck "slice: operand"
         | .panic w => .panic w
         | .stuck w => .stuck w)
      | _ => .stuck "slice: bounds"
    else if o = "<-" then
      match evalX P env a st with
      | .ok (ch, st1) =>
        (match evalX P env b st1 with
         | .ok (v, st2) => P.call "chan<-" [ch, v] st2
         | .panic w => .panic w
         | .stuck w => .stuck w)
      | .panic w => .panic w
      | .stuck w => .stuck w
    else
      match evalX P env a st with
      | .ok (va, st1) =>
        (match evalX P env b st1 with
         | .ok (vb, st2) =>
           (match binop2 o va vb with
            | .ok v => .ok (v, st2)
            | .panic w => .panic w
            | .stuck w => .stuck w)
         | .panic w => .panic w
         | .stuck w => .stuck w)
      | .panic w => .panic w
      | .stuck w => .stuck w
  | .un o a, st =>
    if o = "()" then
      match evalSpineX P env a st with
      | .ok ((h, vs), st1) => applyHead P h vs st1
      | .panic w => .panic w
      | .stuck w => .stuck w
    else if o = "<-" then
      match evalX P env a st with
      | .ok (ch, st1) => P.call "<-chan" [ch] st1
      | .panic w => .panic w
      | .stuck w => .stuck w
    else if o = "..." then
      match evalX P env a st with
      | .ok (v, st1) => .ok (.kv "..." v, st1)
      | .panic w => .panic w
      | .stuck w => .stuck w
    else
      match evalX P env a st with
      | .ok (va, st1) =>
        (match unop P o va with
         | .ok v => .ok (v, st1)
         | .panic w => .panic w
         | .stuck w => .stuck w)
      | .panic w => .panic w
      | .stuck w => .stuck w
  | .other d, _ => .stuck ("untranslated expression: " ++ d)
/-- Callee and arguments (evaluated left to right) of an application spine. -/
def evalSpineX {σ ν} (P : Prims σ ν) (env : Env ν) : FExpr → σ → Res ((Head ν × List (Val ν)) × σ)
  | .fn f, st => .ok ((.named f, []), st)
  | .app g a, st =>
    match evalSpineX P env g st with
    | .ok ((h, vs), st1) =>
      (match evalX P env a st1 with
       | .ok (v, st2) =>
         (match spreadArg v with
          | some ws => .ok ((h, vs ++ ws), st2)
          | none => .stuck "variadic argument: a non-nil slice")
       | .panic w => .panic w
       | .stuck w => .stuck w)
    | .panic w => .panic w
    | .stuck w => .stuck w
  | .var x, st =>
    match env.get x with
    | some v => .ok ((.value v, []), st)
    | none => .stuck ("variable " ++ x)
  | .un o a, st =>
    if o = "()" then .stuck "callee is itself a call" else
    match evalX P env a st with
    | .ok (va, st1) =>
      (match unop P o va with
       | .ok v => .ok ((.value v, []), st1)
       | .panic w => .panic w
       | .stuck w => .stuck w)
    | .panic w => .panic w
    | .stuck w => .stuck w
  | _, _ => .stuck "callee"
end

def evalListX {σ ν} (P : Prims σ ν) (env : Env ν) : List FExpr → σ → Res (List (Val ν) × σ)
  | [], st => .ok ([], st)
  | e :: es, st =>
    match evalX P env e st with
    | .ok (v, st1) =>
      (match evalListX P env es st1 with
       | .ok (vs, st2) => .ok (v :: vs, st2)
       | .panic w => .panic w
       | .stuck w => .stuck w)
    | .panic w => .panic w
    | .stuck w => .stuck w

/-- The function and the evaluated arguments of the call in `go f(args)`. -/
def evalCallee {σ ν} (P : Prims σ ν) (env : Env ν) (e : FExpr) (st : σ) : Res ((Head ν × List (Val ν)) × σ) :=
  match e with
  | .un o g => if o = "()" then evalSpineX P env g st else .stuck "go: not a call"
  | .app g a => evalSpineX P env (.app g a) st
  | _ => .stuck "go: not a call"

/-- Does `tag` equal one of the case values (evaluated left to right, up to the first equal one)? -/
def matchVals {σ ν} (P : Prims σ ν) (env : Env ν) (tag : Val ν) : List FExpr → σ → Res (Bool × σ)
  | [], st => .ok (false, st)
  | e :: es, st =>
    match evalX P env e st with
    | .ok (v, st1) =>
      (match binop2 "==" tag v with
       | .ok (.bool true) => .ok (true, st1)
       | .ok (.bool false) => matchVals P env tag es st1
       | .ok _ => .stuck "case: comparison"
       | .panic w => .panic w
       | .stuck w => .stuck w)
    | .panic w => .panic w
    | .stuck w => .stuck w

/-! ## Statements -/

/-- How a statement ends. -/
inductive Flow2 (σ ν : Type) where
  | next (env : Env ν) (st : σ)                      -- falls through
  | ret (vs : List (Val ν)) (st : σ)                 -- `return`
  | brk (label : String) (env : Env ν) (st : σ)      -- `break` / `break label` on its way out
  | cont (label : String) (env : Env ν) (st : σ)     -- `continue` / `continue label` on its way out
  | panic (why : String)
  | stuck (why : String)
  deriving Inhabited

/-- Leave a scope. -/
def Flow2.pop {σ ν} : Flow2 σ ν → Flow2 σ ν
  | .next env st => .next env.tail st
  | .brk l env st => .brk l env.tail st
  | .cont l env st => .cont l env.tail st
  | f => f

/-- Does a `break` / `continue` carrying label `l` (`""`: none) concern the statement labelled `mine`? -/
def labelHit (mine l : String) : Bool := l = "" || l = mine

/-- The iterations of a `for` statement: at most `n`.  `cond`, `body`, `post` run in the scope that
holds the variables of the init statement. -/
def loopN {σ ν} (label : String) (cond : Env ν → σ → Res (Bool × σ)) (body post : Env ν → σ → Flow2 σ ν) :
    Nat → Env ν → σ → Flow2 σ ν
  | 0, _, _ => .stuck "loop: out of fuel"
  | n + 1, env, st =>
    match cond env st with
    | .ok (false, st1) => .next env st1
    | .ok (true, st1) =>
      (match body env st1 with
       | .next env2 st2 =>
         (match post env2 st2 with
          | .next env3 st3 => loopN label cond body post n env3 st3
          | f => f)
       | .cont l env2 st2 =>
         if labelHit label l then
           (match post env2 st2 with
            | .next env3 st3 => loopN label cond body post n env3 st3
            | f => f)
         else .cont l env2 st2
       | .brk l env2 st2 => if labelHit label l then .next env2 st2 else .brk l env2 st2
       | f => f)
    | .panic w => .panic w
    | .stuck w => .stuck w

/-- The end of a `switch`: an unlabelled `break` (or one naming the switch) ends it. -/
def swEnd {σ ν} (label : String) : Flow2 σ ν → Flow2 σ ν
  | .next env st => .next env.tail st
  | .brk l env st => if labelHit label l then .next env.tail st else .brk l env.tail st
  | .cont l env st => .cont l env.tail st
  | f => f

/-- Outcome of looking for the clause of a `switch`. -/
inductive CaseRes (σ ν : Type) where
  | matched (f : Flow2 σ ν)   -- a clause was selected and ran
  | nomatch (st : σ)          -- no case value is equal to the tag
  | panic (why : String)
  | stuck (why : String)

def condVal {σ ν} (P : Prims σ ν) (c : Option FExpr) (env : Env ν) (st : σ) : Res (Bool × σ) :=
  match c with
  | none => .ok (true, st)
  | some c =>
    match evalX P env c st with
    | .ok (.bool b, st1) => .ok (b, st1)
    | .ok _ => .stuck "condition is not a bool"
    | .panic w => .panic w
    | .stuck w => .stuck w

mutual
def exec2 {σ ν} (P : Prims σ ν) (fuel : Nat) : PStmt → Env ν → σ → Flow2 σ ν
  | .declare x ty, env, st =>
    match P.zero ty with
    | some v =>
      (match env.define x v with
       | some env' => .next env' st
       | none => .stuck "no scope")
    | none => .stuck ("var " ++ x ++ " " ++ ty)
  | .define xs e, env, st =>
    match evalX P env e st with
    | .ok (v, st1) =>
      (match defineAll env xs (components xs.length v) with
       | some env' => .next env' st1
       | none => .stuck "definition: arity")
    | .panic w => .panic w
    | .stuck w => .stuck w
  | .assign xs e, env, st =>
    match evalX P env e st with
    | .ok (v, st1) =>
      (match assignAll P env st1 xs (components xs.length v) with
       | some (env', st2) => .next env' st2
       | none => .stuck "assignment")
    | .panic w => .panic w
    | .stuck w => .stuck w
  | .eval e, env, st =>
    match evalX P env e st with
    | .ok (_, st1) => .next env st1
    | .panic w => .panic w
    | .stuck w => .stuck w
  | .ret es, env, st =>
    match evalListX P env es st with
    | .ok (vs, st1) => .ret vs st1
    | .panic w => .panic w
    | .stuck w => .stuck w
  | .ite init c thn els, env, st =>
    match execBlock2 P fuel init ([] :: env) st with
    | .next env1 st1 =>
      (match evalX P env1 c st1 with
       | .ok (.bool true, st2) => (execBlock2 P fuel thn ([] :: env1) st2).pop.pop
       | .ok (.bool false, st2) => (execBlock2 P fuel els ([] :: env1) st2).pop.pop
       | .ok _ => .stuck "condition is not a bool"
       | .panic w => .panic w
       | .stuck w => .stuck w)
    | f => f.pop
  | .block b, env, st => (execBlock2 P fuel b ([] :: env) st).pop
  | .loop label init c post body, env, st =>
    match execBlock2 P fuel init ([] :: env) st with
    | .next env1 st1 =>
      (loopN label (condVal P c)
        (fun env st => (execBlock2 P fuel body ([] :: env) st).pop)
        (fun env st => execBlock2 P fuel post env st)
        fuel env1 st1).pop
    | f => f.pop
  | .switch label init tag cases dflt, env, st =>
    match execBlock2 P fuel init ([] :: env) st with
    | .next env1 st1 =>
      (match evalX P env1 tag st1 with
       | .ok (tv, st2) =>
         (match execCases P fuel tv cases env1 st2 with
          | .matched f => swEnd label f
          | .nomatch st3 => swEnd label (execBlock2 P fuel dflt ([] :: env1) st3).pop
          | .panic w => .panic w
          | .stuck w => .stuck w)
       | .panic w => .panic w
       | .stuck w => .stuck w)
    | f => f.pop
  | .brk l, env, st => .brk l env st
  | .cont l, env, st => .cont l env st
  | .go e, env, st =>
    match evalCallee P env e st with
    | .ok ((.named f, vs), st1) =>
      (match P.call ("go:" ++ f) vs st1 with
       | .ok (_, st2) => .next env st2
       | .panic w => .panic w
       | .stuck w => .stuck w)
    | .ok ((.value _, _), _) => .stuck "go: call of a function value"
    | .panic w => .panic w
    | .stuck w => .stuck w
  | .other d, _, _ => .stuck ("untranslated statement: " ++ d)
def execBlock2 {σ ν} (P : Prims σ ν) (fuel : Nat) : List PStmt → Env ν → σ → Flow2 σ ν
  | [], env, st => .next env st
  | s :: ss, env, st =>
    match exec2 P fuel s env st with
    | .next env1 st1 => execBlock2 P fuel ss env1 st1
    | f => f
/-- The clauses of a `switch`, top to bottom; the selected one runs as a block. -/
def execCases {σ ν} (P : Prims σ ν) (fuel : Nat) (tag : Val ν) : List PCase → Env ν → σ → CaseRes σ ν
  | [], _, st => .nomatch st
  | c :: cs, env, st =>
    match c with
    | .mk vals body =>
      match matchVals P env tag vals st with
      | .ok (true, st1) => .matched (execBlock2 P fuel body ([] :: env) st1).pop
      | .ok (false, st1) => execCases P fuel tag cs env st1
      | .panic w => .panic w
      | .stuck w => .stuck w
end

/-! ## Function calls -/

def isVariadicTy (ty : String) : Bool := ty.toList.take 3 = ['.', '.', '.']

/-- The outermost frame of a call: parameters bound to arguments, in order.  A variadic last
parameter is bound to `nil` when no argument is left for it. -/
def bindArgs {ν} : List (String × String) → List (Val ν) → Option (Frame ν)
  | [], [] => some []
  | (x, ty) :: ps, [] => if isVariadicTy ty ∧ ps = [] then some [(x, .nil)] else none
  | (x, ty) :: ps, a :: as =>
    if isVariadicTy ty then none else (bindArgs ps as).map ((x, a) :: ·)
  | [], _ :: _ => none

/-- Call a translated function.  Falling off the end returns nothing, which only a function without
results may do; a `break` / `continue` that leaves the body is `stuck` (it cannot be compiled). -/
def runFunc2 {σ ν} (P : Prims σ ν) (fuel : Nat) (fn : PFunc) (args : List (Val ν)) (st : σ) : Outcome σ ν :=
  match bindArgs fn.params args with
  | none => .stuck "arity"
  | some fr =>
    match execBlock2 P fuel fn.body [fr] st with
    | .next _ st' => if fn.results.isEmpty then .ret [] st' else .stuck "missing return"
    | .ret vs st' => .ret vs st'
    | .brk _ _ _ => .stuck "break outside a loop"
    | .cont _ _ _ => .stuck "continue outside a loop"
    | .panic w => .panic w
    | .stuck w => .stuck w

/-- The outcome of a call as the result of a call expression. -/
def callRes {σ ν} : Outcome σ ν → Res (Val ν × σ)
  | .ret [] st => .ok (.unit, st)
  | .ret [v] st => .ok (v, st)
  | .ret [a, b] st => .ok (.pair a b, st)
  | .ret _ _ => .stuck "more than two results"
  | .panic w => .panic w
  | .stuck w => .stuck w

end GoCrypt.SFlowVal2
