import GoCrypt.Base.SliceIR

/-!
# What the slice-effect IR means: a concrete, nondeterministic semantics (C13)

`Base/SliceIR.lean` decides two booleans, `argSafe` and `resultFresh`, by a points-to analysis.
This file says what a *program of that IR does*, with no reference to the analysis, so that the
booleans can be given a meaning (`Props/C13Sound.lean`).

* An **array identity** `Arr` is where a backing array comes from plus a serial number:
  `(.param i, 0)` is the array behind the caller's `i`-th argument, `(.global g, 0)` the array of
  package variable `g`, `(.fresh, n)` the `n`-th array allocated by the running code.
* A **state** is: which array each slice variable points into (`none` = the slice is nil / not yet
  assigned), the serial the next allocation will get, the list of arrays that have been STORED
  into, and the list of arrays that have been RETURNED.
* `Step st s s'` — statement `st` takes state `s` to `s'`.  `append` is nondeterministic (spare
  capacity is not known): it stores in place and keeps the array, or allocates a new one.
  `.unknown` may do anything at all.
* `Run p s s'` — any finite sequence of steps, each executing ANY statement that occurs in `p`: any
  order, any number of repetitions.  Every real execution of the Go function — branches taken or
  not, loops run any number of times — is one such sequence, because control flow only ever selects
  which of the function's statements executes next.

Modelling notes (stated, not hidden):
* A store into a nil slice stores nowhere; returning a nil slice returns no array.
* Two different parameters get two different identities.  If the caller passes overlapping slices
  they are in reality one array; both identities are non-fresh, so "stores only into fresh arrays"
  and "returns only fresh arrays" mean the same thing either way.
* Whether `x[i] = v`, `copy(x, …)`, `h.Sum(y)`, … are rendered as `write`/`appendTo`, and whether
  every slice-carrying statement is rendered at all, is the translator's job (`gogen`), checked by
  the runner's `purity` suite — not by this file.
-/

namespace GoCrypt.SliceSem
open GoCrypt.SliceIR

/-- A backing array: where it comes from, and (for `.fresh`) the serial number of the allocation. -/
structure Arr where
  origin : Root
  serial : Nat
  deriving DecidableEq, Repr

structure State where
  /-- slice variable ↦ the array it points into; `none`: nil / not assigned yet -/
  env : Nat → Option Arr
  /-- serial of the next allocation -/
  next : Nat
  /-- arrays that have been stored into (newest first) -/
  stored : List Arr
  /-- arrays (parts of) which have been returned (newest first) -/
  returned : List Arr

/-- Entry of a call: no variable assigned, nothing stored, nothing returned; allocations will be
numbered from `n`. -/
def initAt (n : Nat) : State := ⟨fun _ => none, n, [], []⟩

def init : State := initAt 0

namespace State

/-- `x := a` -/
def bind (s : State) (x : Nat) (a : Option Arr) : State :=
  { s with env := fun v => if v = x then a else s.env v }

/-- The array the next allocation creates. -/
def newArr (s : State) : Arr := ⟨.fresh, s.next⟩

/-- `x := make(…)`: allocate, bind, advance the serial counter. -/
def bindNew (s : State) (x : Nat) : State :=
  { s with env := fun v => if v = x then some s.newArr else s.env v, next := s.next + 1 }

/-- record a store into `a` -/
def store (s : State) (a : Arr) : State := { s with stored := a :: s.stored }

/-- record that `a` is returned -/
def yield (s : State) (a : Arr) : State := { s with returned := a :: s.returned }

end State

/-- One statement. -/
inductive Step : SStmt → State → State → Prop
  /-- `x := pᵢ[a:b]` -/
  | fromParam {s : State} {x i : Nat} :
      Step (.fromParam x i) s (s.bind x (some ⟨.param i, 0⟩))
  /-- `x := make(…)` -/
  | alloc {s : State} {x : Nat} :
      Step (.alloc x) s (s.bindNew x)
  /-- `x := pkgVar[a:b]` -/
  | global {s : State} {x g : Nat} :
      Step (.global x g) s (s.bind x (some ⟨.global g, 0⟩))
  /-- `x := y[a:b]` — `x` becomes whatever `y` is (nil if `y` is nil) -/
  | alias {s : State} {x y : Nat} :
      Step (.alias x y) s (s.bind x (s.env y))
  /-- `x := append(y, …)`, `y` nil: a new array -/
  | appendNil {s : State} {x y : Nat} (hy : s.env y = none) :
      Step (.appendTo x y) s (s.bindNew x)
  /-- `x := append(y, …)`, enough capacity: STORES into `y`'s array, `x` shares it -/
  | appendInPlace {s : State} {x y : Nat} {a : Arr} (hy : s.env y = some a) :
      Step (.appendTo x y) s ((s.store a).bind x (some a))
  /-- `x := append(y, …)`, capacity exceeded: a new array is allocated and stored into -/
  | appendGrow {s : State} {x y : Nat} {a : Arr} (hy : s.env y = some a) :
      Step (.appendTo x y) s ((s.store s.newArr).bindNew x)
  /-- `x[i] = v` with `x` nil stores nowhere -/
  | writeNil {s : State} {x : Nat} (hx : s.env x = none) :
      Step (.write x) s s
  /-- `x[i] = v`, `copy(x, …)`, … : STORES into `x`'s array -/
  | write {s : State} {x : Nat} {a : Arr} (hx : s.env x = some a) :
      Step (.write x) s (s.store a)
  /-- `return x` with `x` nil returns no array -/
  | retNil {s : State} {x : Nat} (hx : s.env x = none) :
      Step (.ret x) s s
  /-- `return x` : `x`'s array is RETURNED -/
  | ret {s : State} {x : Nat} {a : Arr} (hx : s.env x = some a) :
      Step (.ret x) s (s.yield a)
  /-- a statement the translator did not understand may do anything -/
  | unknown {d : String} {s s' : State} :
      Step (.unknown d) s s'

/-- Executions of `p`: finitely many steps, each running some statement that occurs in `p`. -/
inductive Run (p : Prog) : State → State → Prop
  | refl {s : State} : Run p s s
  | step {s t u : State} {st : SStmt} (r : Run p s t) (mem : st ∈ p) (h : Step st t u) : Run p s u

/-- `p` contains no statement the translator gave up on. -/
def NoUnknown (p : Prog) : Prop := ∀ d, SStmt.unknown d ∉ p

end GoCrypt.SliceSem
