import GoCrypt.Base.Bytes

/-!
# DES as in FIPS PUB 46-3, with the crypt(3) salt

Written from the standard: the permutation tables IP, IP⁻¹, E, P, PC-1, PC-2, the eight selection
functions S1..S8 and the schedule of left shifts are the printed tables (entries 1-based, bit 1 = the
leftmost bit of a block); blocks are **bit lists**, most significant bit first. Nothing here refers
to the Go code or to its nibble tables.

The only addition to the standard is crypt(3)'s salt (Morris–Thompson): for every set bit `i < 24`
of the salt number, outputs `i` and `i + 24` (0-based, in table order) of the E expansion are
exchanged. With salt 0 this is plain DES.
-/

namespace GoCrypt.DesFips

abbrev Bits := List Bool

/-- A FIPS permutation/selection table: output bit `k` is input bit `table[k]` (1-based). -/
def select (table : List Nat) (b : Bits) : Bits := table.map fun i => b.getD (i - 1) false

def xor (a b : Bits) : Bits := List.zipWith (fun x y => x != y) a b

/-- Cyclic left shift. -/
def rotl (n : Nat) (b : Bits) : Bits := b.drop n ++ b.take n

/-- `width` bits of `n`, most significant first. -/
def ofNat (width n : Nat) : Bits := (List.range width).map fun i => n.testBit (width - 1 - i)

/-- Value of a bit list read most significant first. -/
def toNat (b : Bits) : Nat := b.foldl (fun acc x => 2 * acc + x.toNat) 0

def IP : List Nat :=
  [58, 50, 42, 34, 26, 18, 10, 2,
   60, 52, 44, 36, 28, 20, 12, 4,
   62, 54, 46, 38, 30, 22, 14, 6,
   64, 56, 48, 40, 32, 24, 16, 8,
   57, 49, 41, 33, 25, 17, 9, 1,
   59, 51, 43, 35, 27, 19, 11, 3,
   61, 53, 45, 37, 29, 21, 13, 5,
   63, 55, 47, 39, 31, 23, 15, 7]

/-- IP⁻¹ -/
def FP : List Nat :=
  [40, 8, 48, 16, 56, 24, 64, 32,
   39, 7, 47, 15, 55, 23, 63, 31,
   38, 6, 46, 14, 54, 22, 62, 30,
   37, 5, 45, 13, 53, 21, 61, 29,
   36, 4, 44, 12, 52, 20, 60, 28,
   35, 3, 43, 11, 51, 19, 59, 27,
   34, 2, 42, 10, 50, 18, 58, 26,
   33, 1, 41, 9, 49, 17, 57, 25]

def E : List Nat :=
  [32, 1, 2, 3, 4, 5,
   4, 5, 6, 7, 8, 9,
   8, 9, 10, 11, 12, 13,
   12, 13, 14, 15, 16, 17,
   16, 17, 18, 19, 20, 21,
   20, 21, 22, 23, 24, 25,
   24, 25, 26, 27, 28, 29,
   28, 29, 30, 31, 32, 1]

def P : List Nat :=
  [16, 7, 20, 21,
   29, 12, 28, 17,
   1, 15, 23, 26,
   5, 18, 31, 10,
   2, 8, 24, 14,
   32, 27, 3, 9,
   19, 13, 30, 6,
   22, 11, 4, 25]

def PC1 : List Nat :=
  [57, 49, 41, 33, 25, 17, 9,
   1, 58, 50, 42, 34, 26, 18,
   10, 2, 59, 51, 43, 35, 27,
   19, 11, 3, 60, 52, 44, 36,
   63, 55, 47, 39, 31, 23, 15,
   7, 62, 54, 46, 38, 30, 22,
   14, 6, 61, 53, 45, 37, 29,
   21, 13, 5, 28, 20, 12, 4]

def PC2 : List Nat :=
  [14, 17, 11, 24, 1, 5,
   3, 28, 15, 6, 21, 10,
   23, 19, 12, 4, 26, 8,
   16, 7, 27, 20, 13, 2,
   41, 52, 31, 37, 47, 55,
   30, 40, 51, 45, 33, 48,
   44, 49, 39, 56, 34, 53,
   46, 42, 50, 36, 29, 32]

/-- Number of left shifts in iteration 1..16. -/
def shifts : List Nat := [1, 1, 2, 2, 2, 2, 2, 2, 1, 2, 2, 2, 2, 2, 2, 1]

/-- S1..S8, each 4 rows of 16 columns. -/
def S : List (List Nat) :=
  [[14, 4, 13, 1, 2, 15, 11, 8, 3, 10, 6, 12, 5, 9, 0, 7,
    0, 15, 7, 4, 14, 2, 13, 1, 10, 6, 12, 11, 9, 5, 3, 8,
    4, 1, 14, 8, 13, 6, 2, 11, 15, 12, 9, 7, 3, 10, 5, 0,
    15, 12, 8, 2, 4, 9, 1, 7, 5, 11, 3, 14, 10, 0, 6, 13],
   [15, 1, 8, 14, 6, 11, 3, 4, 9, 7, 2, 13, 12, 0, 5, 10,
    3, 13, 4, 7, 15, 2, 8, 14, 12, 0, 1, 10, 6, 9, 11, 5,
    0, 14, 7, 11, 10, 4, 13, 1, 5, 8, 12, 6, 9, 3, 2, 15,
    13, 8, 10, 1, 3, 15, 4, 2, 11, 6, 7, 12, 0, 5, 14, 9],
   [10, 0, 9, 14, 6, 3, 15, 5, 1, 13, 12, 7, 11, 4, 2, 8,
    13, 7, 0, 9, 3, 4, 6, 10, 2, 8, 5, 14, 12, 11, 15, 1,
    13, 6, 4, 9, 8, 15, 3, 0, 11, 1, 2, 12, 5, 10, 14, 7,
    1, 10, 13, 0, 6, 9, 8, 7, 4, 15, 14, 3, 11, 5, 2, 12],
   [7, 13, 14, 3, 0, 6, 9, 10, 1, 2, 8, 5, 11, 12, 4, 15,
    13, 8, 11, 5, 6, 15, 0, 3, 4, 7, 2, 12, 1, 10, 14, 9,
    10, 6, 9, 0, 12, 11, 7, 13, 15, 1, 3, 14, 5, 2, 8, 4,
    3, 15, 0, 6, 10, 1, 13, 8, 9, 4, 5, 11, 12, 7, 2, 14],
   [2, 12, 4, 1, 7, 10, 11, 6, 8, 5, 3, 15, 13, 0, 14, 9,
    14, 11, 2, 12, 4, 7, 13, 1, 5, 0, 15, 10, 3, 9, 8, 6,
    4, 2, 1, 11, 10, 13, 7, 8, 15, 9, 12, 5, 6, 3, 0, 14,
    11, 8, 12, 7, 1, 14, 2, 13, 6, 15, 0, 9, 10, 4, 5, 3],
   [12, 1, 10, 15, 9, 2, 6, 8, 0, 13, 3, 4, 14, 7, 5, 11,
    10, 15, 4, 2, 7, 12, 9, 5, 6, 1, 13, 14, 0, 11, 3, 8,
    9, 14, 15, 5, 2, 8, 12, 3, 7, 0, 4, 10, 1, 13, 11, 6,
    4, 3, 2, 12, 9, 5, 15, 10, 11, 14, 1, 7, 6, 0, 8, 13],
   [4, 11, 2, 14, 15, 0, 8, 13, 3, 12, 9, 7, 5, 10, 6, 1,
    13, 0, 11, 7, 4, 9, 1, 10, 14, 3, 5, 12, 2, 15, 8, 6,
    1, 4, 11, 13, 12, 3, 7, 14, 10, 15, 6, 8, 0, 5, 9, 2,
    6, 11, 13, 8, 1, 4, 10, 7, 9, 5, 0, 15, 14, 2, 3, 12],
   [13, 2, 8, 4, 6, 15, 11, 1, 10, 9, 3, 14, 5, 0, 12, 7,
    1, 15, 13, 8, 10, 3, 7, 4, 12, 5, 6, 11, 0, 14, 9, 2,
    7, 11, 4, 1, 9, 12, 14, 2, 0, 6, 10, 13, 15, 3, 5, 8,
    2, 1, 14, 7, 4, 10, 8, 13, 15, 12, 9, 0, 3, 5, 6, 11]]

/-- Selection function `S(box+1)` on six bits `b1..b6`: row `b1 b6`, column `b2 b3 b4 b5`. -/
def sbox (box : Nat) (b : Bits) : Bits :=
  let row := toNat [b.getD 0 false, b.getD 5 false]
  let col := toNat ((b.drop 1).take 4)
  ofNat 4 ((S.getD box []).getD (16 * row + col) 0)

/-- crypt(3)'s salt on the 48 outputs of E. -/
def saltSwap (salt : Nat) (e : Bits) : Bits :=
  (List.range 48).map fun i =>
    if salt.testBit (i % 24) then e.getD ((i + 24) % 48) false else e.getD i false

/-- The cipher function `f(R, K)`, with the salted expansion. -/
def f (salt : Nat) (R K : Bits) : Bits :=
  let x := xor (saltSwap salt (select E R)) K
  select P ((List.range 8).flatMap fun box => sbox box ((x.drop (6 * box)).take 6))

/-- `C₀D₀ = PC-1(key)`; `CₙDₙ` from `Cₙ₋₁Dₙ₋₁` by the scheduled left shifts; `Kₙ = PC-2(CₙDₙ)`. -/
def keySchedule (key : Bits) : List Bits :=
  let cd0 := select PC1 key
  let step (acc : (Bits × Bits) × List Bits) (s : Nat) : (Bits × Bits) × List Bits :=
    let c := rotl s acc.1.1
    let d := rotl s acc.1.2
    ((c, d), acc.2 ++ [select PC2 (c ++ d)])
  (shifts.foldl step ((cd0.take 28, cd0.drop 28), [])).2

/-- One iteration: `L' = R`, `R' = L ⊕ f(R, K)`. -/
def round (salt : Nat) (LR : Bits × Bits) (K : Bits) : Bits × Bits := (LR.2, xor LR.1 (f salt LR.2 K))

/-- Encipherment of one 64-bit block. -/
def des (salt : Nat) (key block : Bits) : Bits :=
  let ip := select IP block
  let lr := (keySchedule key).foldl (round salt) (ip.take 32, ip.drop 32)
  select FP (lr.2 ++ lr.1)      -- the preoutput block is R₁₆L₁₆

/-! ## On 64-bit words (bit 1 = most significant) -/

def wordBits (x : UInt64) : Bits := ofNat 64 x.toNat
def bitsWord (b : Bits) : UInt64 := UInt64.ofNat (toNat b)

/-- Salted DES on words: the `DES key salt block` of `Spec/CryptSpecs2.lean`. -/
def desWord (key : UInt64) (salt : Nat) (block : UInt64) : UInt64 :=
  bitsWord (des salt (wordBits key) (wordBits block))

end GoCrypt.DesFips
