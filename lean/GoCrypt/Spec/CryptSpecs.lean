import GoCrypt.Base.Bytes

/-!
# Reference descriptions of md5-crypt and SHA-crypt

Written from the published algorithm descriptions — Poul-Henning Kamp's md5-crypt (FreeBSD
`crypt-md5.c`) and Ulrich Drepper's "Unix crypt using SHA-256 and SHA-512" (steps 1–22) — *not* from
the Go code: no fuel, no slicing, no `Option`. The length-dependent steps are expressed with two
closed forms:

* `cycleTake b n` — the first `n` bytes of `b` repeated forever ("add the first `len` bytes of the
  digest, repeating it as often as necessary");
* `binDigitsLSB n` — the binary digits of `n`, least significant first ("for every bit of the
  length, starting with the lowest").

The hash function is a parameter `H : Bytes → Bytes`.
-/

namespace GoCrypt.CryptSpec

/-- The first `n` bytes of `b ++ b ++ b ++ …` (all zero when `b` is empty). -/
def cycleTake (b : Bytes) (n : Nat) : Bytes := (List.range n).map fun i => b.getD (i % b.length) 0

/-- Digit loop with an explicit step bound (structural, so that `decide` can evaluate it). -/
def binDigitsLSB.go : Nat → Nat → List Bool
  | 0, _ => []
  | fuel + 1, n => if n = 0 then [] else decide (n % 2 = 1) :: go fuel (n / 2)

/-- Binary digits of `n`, least significant first, without high zeros; `[]` for 0. `n` has at most
`n` digits, so `n` steps suffice: `Proofs/Kdf.lean` proves the defining equations
`binDigitsLSB 0 = []` and `n ≠ 0 → binDigitsLSB n = (n % 2 = 1) :: binDigitsLSB (n / 2)`. -/
def binDigitsLSB (n : Nat) : List Bool := binDigitsLSB.go n n

/-- `b` written `n` times. -/
def times (n : Nat) (b : Bytes) : Bytes := (List.replicate n b).flatten

/-- `x` if `c`, nothing otherwise. -/
def onlyIf (c : Prop) [Decidable c] (x : Bytes) : Bytes := if c then x else []

/-- A hash is *collision-free* when this is false; the absorption theorems reduce "two passwords
give the same key" to an explicit collision. -/
def Collision (H : Bytes → Bytes) : Prop := ∃ x y, x ≠ y ∧ H x = H y

/-- Collision for a keyed function (`HMAC`): two different (key, message) pairs, same tag. -/
def KeyedCollision (HM : Bytes → Bytes → Bytes) : Prop :=
  ∃ k m k' m', (k, m) ≠ (k', m') ∧ HM k m = HM k' m'

/-- Hypothesis under which SHA1-crypt absorbs its password outright: a tag determines its key. (The
real HMAC does *not* satisfy it: keys are zero-padded to the block size, so `k` and `k ++ [0]` give
the same tags, and keys longer than a block are replaced by their digest.) -/
def KeySeparating (HM : Bytes → Bytes → Bytes) : Prop := ∀ k k' m m', HM k m = HM k' m' → k = k'

/-- The weaker, fixed-message form: for each message, the tag is injective in the key. -/
def KeyInjective (HM : Bytes → Bytes → Bytes) : Prop := ∀ m k k', HM k m = HM k' m → k = k'

/-! ## The common "stretching" loop

Both algorithms run `C₀ = A`, `Cᵢ₊₁ = H (roundInput i Cᵢ)` where round `i` (0-based) hashes
`(i odd ? P : C) ‖ (3 ∤ i ? S : ∅) ‖ (7 ∤ i ? P : ∅) ‖ (i odd ? C : P)`; md5-crypt uses the raw
password and salt for `P` and `S`, SHA-crypt the derived sequences. -/

def roundInput (P S : Bytes) (i : Nat) (C : Bytes) : Bytes :=
  (if i % 2 = 1 then P else C) ++ onlyIf (i % 3 ≠ 0) S ++ onlyIf (i % 7 ≠ 0) P ++ (if i % 2 = 1 then C else P)

/-- `stretch H P S A i` is the running digest after `i` rounds. -/
def stretch (H : Bytes → Bytes) (P S A : Bytes) : Nat → Bytes
  | 0 => A
  | i + 1 => H (roundInput P S i (stretch H P S A i))

/-- A collision between the inputs of corresponding rounds `i < n` of two stretching chains — the
*located* form of `Collision` (for a hash with fixed-size output `Collision H` holds classically by
counting, so the content of a reduction is where it finds the colliding pair). -/
def RoundCollision (H : Bytes → Bytes) (P S A P' S' A' : Bytes) (n : Nat) : Prop :=
  ∃ i, i < n ∧ roundInput P S i (stretch H P S A i) ≠ roundInput P' S' i (stretch H P' S' A' i) ∧
    H (roundInput P S i (stretch H P S A i)) = H (roundInput P' S' i (stretch H P' S' A' i))

/-! ## md5-crypt (PHK) -/

/-- The alternate sum `MD5(pw ‖ salt ‖ pw)`. -/
def md5Alt (H : Bytes → Bytes) (pw salt : Bytes) : Bytes := H (pw ++ salt ++ pw)

/-- The "weird" bit step: for each bit of `len(pw)`, lowest first, a NUL byte if the bit is set and
the first byte of the password otherwise. -/
def md5BitBytes (pw : Bytes) : Bytes :=
  (binDigitsLSB pw.length).flatMap fun bit => if bit then [0] else pw.take 1

/-- The intermediate sum `MD5(pw ‖ magic ‖ salt ‖ alt[0..len(pw)) cyclically ‖ bit bytes)`. -/
def md5Intermediate (H : Bytes → Bytes) (pw salt magic : Bytes) : Bytes :=
  H (pw ++ magic ++ salt ++ cycleTake (md5Alt H pw salt) pw.length ++ md5BitBytes pw)

/-- md5-crypt's 16-byte digest before the final byte transposition / base-64 step: 1000 rounds of
stretching from the intermediate sum. -/
def md5cryptSpec (H : Bytes → Bytes) (pw salt magic : Bytes) : Bytes :=
  stretch H pw salt (md5Intermediate H pw salt magic) 1000

/-! ## SHA-crypt (Drepper), steps 1–21 -/

/-- Steps 4–8: digest B. -/
def shaB (H : Bytes → Bytes) (pw salt : Bytes) : Bytes := H (pw ++ salt ++ pw)

/-- Step 11: for each bit of `len(pw)`, lowest first, digest B if set, the password otherwise. -/
def shaBitBytes (B pw : Bytes) : Bytes :=
  (binDigitsLSB pw.length).flatMap fun bit => if bit then B else pw

/-- Steps 1–3, 9–11: the message hashed into digest A. -/
def shaAInput (H : Bytes → Bytes) (pw salt : Bytes) : Bytes :=
  pw ++ salt ++ cycleTake (shaB H pw salt) pw.length ++ shaBitBytes (shaB H pw salt) pw

/-- Step 12: digest A. -/
def shaA (H : Bytes → Bytes) (pw salt : Bytes) : Bytes := H (shaAInput H pw salt)

/-- Steps 13–16: the byte sequence P (`len(pw)` bytes of digest DP, cyclically). -/
def shaP (H : Bytes → Bytes) (pw : Bytes) : Bytes := cycleTake (H (times pw.length pw)) pw.length

/-- Steps 17–20: the byte sequence S (`len(salt)` bytes of digest DS; the salt is hashed
`16 + A[0]` times). -/
def shaS (H : Bytes → Bytes) (pw salt : Bytes) : Bytes :=
  cycleTake (H (times (16 + ((shaA H pw salt)[0]?.getD 0).toNat) salt)) salt.length

/-- Step 21: `rounds` rounds of stretching from digest A. The result is the digest that step 22
transposes and base-64 encodes. (`size` is the digest size of `H`; the description never uses it
other than through `H`, the parameter is kept for symmetry with the model.) -/
def shacryptSpec (H : Bytes → Bytes) (_size : Nat) (pw salt : Bytes) (rounds : Nat) : Bytes :=
  stretch H (shaP H pw) (shaS H pw salt) (shaA H pw salt) rounds

end GoCrypt.CryptSpec
