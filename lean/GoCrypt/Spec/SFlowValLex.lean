import GoCrypt.Spec.SFlowVal
import GoCrypt.Model.Parse
import GoCrypt.Gen.Consts

/-!
# The structured-flow semantics instantiated for the lexer's prefix rule (`hash/parse/lex.go`)

Part 3 of `Spec/SFlowVal.lean`: the primitives of `lexPrefix`.

* The state is the one `lexer` object the function works on (`input`, `pos`, `start`) and the list of
  tokens sent on `l.tokens` so far (the unbuffered channel as the sequence of values sent, as in
  `Model/Parse.lean`).  `l` holds a pointer to that object; `l.f` reads / writes its fields.
* `l.emit(t)` is **not** modelled by hand: it runs the regenerated body of `(*lexer).emit`
  (`Gen.hash_parse.lexerEmitFlow`) under the base primitives `lprims0`, which know only the composite
  literal `token{Type: …, Pos: …, Value: …}` and the channel send.
* `l.errorf(msg)` is a primitive: it sends `token{tokenError, l.pos, msg}` and returns the nil state
  function (`fmt.Sprintf` of a format without verbs and without arguments is the format; a `%` in the
  message is `stuck`).
* `Pos` and `tokenType` are integer types: the conversions are the identity on ℤ.
-/

namespace GoCrypt.SFlowVal
open GoCrypt.Flow GoCrypt.SFlow

/-- Go's `token` struct. -/
structure GoToken where
  ty : Int
  pos : Int
  value : Bytes
  deriving Repr, DecidableEq

inductive LVal where
  | lexer                 -- `l`: the pointer to the lexer
  | chan                  -- `l.tokens`
  | token (t : GoToken)
  deriving Repr, DecidableEq

structure LState where
  input : Bytes
  pos : Int := 0
  start : Int := 0
  sent : List GoToken := []
  deriving Repr, DecidableEq

/-- A field of a keyed composite literal. -/
def kvGet {ν} : List (Val ν) → String → Option (Val ν)
  | [], _ => none
  | .kv k v :: r, x => if k = x then some v else kvGet r x
  | _ :: _, _ => none

/-- Base primitives: fields of `l`, `token{…}`, channel send, integer conversions. -/
def lprims0 : Prims LState LVal where
  global _ := none
  call f args st :=
    if f = "lit:token" then
      match kvGet args "Type", kvGet args "Pos", kvGet args "Value" with
      | some (.int t), some (.int p), some (.str v) =>
        if args.length = 3 then .ok (.ext (.token ⟨t, p, v⟩), st) else .stuck "token literal: fields"
      | _, _, _ => .stuck "token literal: fields"
    else if f = "chan<-" then
      match args with
      | [.ext .chan, .ext (.token t)] => .ok (.unit, { st with sent := st.sent ++ [t] })
      | _ => .stuck "send: operands"
    else .stuck ("function " ++ f)
  apply _ _ _ := .stuck "call of a function value"
  readField b f st :=
    match b with
    | .ext .lexer =>
      if f = "input" then some (.str st.input)
      else if f = "pos" then some (.int st.pos)
      else if f = "start" then some (.int st.start)
      else if f = "tokens" then some (.ext .chan)
      else none
    | _ => none
  writeField b f v st :=
    match b, v with
    | .ext .lexer, .int n =>
      if f = "pos" then some { st with pos := n }
      else if f = "start" then some { st with start := n }
      else none
    | _, _ => none
  assert T _ := .stuck ("assertion to " ++ T)
  conv T v :=
    match v with
    | .int n => if T = "Pos" ∨ T = "tokenType" ∨ T = "int" then some (.int n) else none
    | _ => none
  zero T := if T = "int" ∨ T = "Pos" then some (.int 0) else if T = "string" then some (.str []) else none

/-- The primitives of `lexPrefix`: `lprims0`, `l.emit` (the regenerated body), `l.errorf`. -/
def lprims : Prims LState LVal :=
  { lprims0 with
    call := fun f args st =>
      if f = "(*lexer).emit" then
        match runFunc lprims0 Gen.hash_parse.lexerEmitFlow args st with
        | .ret [] st' => .ok (.unit, st')
        | .ret _ _ => .stuck "emit returned a value"
        | .panic w => .panic w
        | .stuck w => .stuck w
      else if f = "(*lexer).errorf" then
        match args with
        | [.ext .lexer, .str msg] =>
          if msg.contains 37 then .stuck "errorf: format verbs"
          else .ok (.nil, { st with sent := st.sent ++ [⟨Gen.hash_parse.tokenError, st.pos, msg⟩] })
        | _ => .stuck "errorf: operands"
      else lprims0.call f args st }

/-- The bytes of an ASCII string. -/
def ascii (s : String) : Bytes := s.toList.map fun c => UInt8.ofNat c.toNat

/-- A Go token as the model's `Tok` (error messages by the model's codes). -/
def tokOf (t : GoToken) : Option Parse.Tok :=
  if t.pos < 0 then none
  else if t.ty = Gen.hash_parse.tokenError then
    if t.value = ascii "missing prefix identifier" then some (.error t.pos.toNat 1)
    else if t.value = ascii "missing prefix end" then some (.error t.pos.toNat 2)
    else none
  else if t.ty = Gen.hash_parse.tokenPrefix then some (.pfx t.pos.toNat t.value)
  else if t.ty = Gen.hash_parse.tokenDollar then some (.dollar t.pos.toNat)
  else if t.ty = Gen.hash_parse.tokenComma then some (.comma t.pos.toNat)
  else if t.ty = Gen.hash_parse.tokenValue then some (.value t.pos.toNat t.value)
  else if t.ty = Gen.hash_parse.tokenEOF then some (.eof t.pos.toNat)
  else none

/-- Run `lexPrefix(l)` on a fresh lexer for `input` (as `lex` builds it: `pos = start = 0`). -/
def runLexPrefix (fn : SFunc) (input : Bytes) : Outcome LState LVal :=
  runFunc lprims fn [.ext .lexer] { input := input }

/-- …read as: the tokens sent, in the model's terms, and — when the next state is `lexFragment` — the
offset at which it resumes (`pos = start`); `none` when the lexer stops (`return nil`).  Any other
outcome (panic, stuck, an unknown token, another state function, `pos ≠ start`) is `none`. -/
def evalLexPrefix (fn : SFunc) (input : Bytes) : Option (List Parse.Tok × Option Nat) :=
  match runLexPrefix fn input with
  | .ret [.func g] st =>
    if g = "lexFragment" ∧ st.input = input ∧ st.pos = st.start ∧ 0 ≤ st.pos then
      (st.sent.mapM tokOf).map fun ts => (ts, some st.pos.toNat)
    else none
  | .ret [.nil] st => if st.input = input then (st.sent.mapM tokOf).map fun ts => (ts, none) else none
  | _ => none

/-- Every token the lexer goroutine sends, given what `lexPrefix` sent and where it handed over: the
`lexFragment` loop (the model's `Parse.lexFrag`, not regenerated) runs on the rest of the input. -/
def resume (s : Bytes) : Option (List Parse.Tok × Option Nat) → Option (List Parse.Tok)
  | some (sent, some p) => some (sent ++ Parse.lexFrag (s.drop p) p [])
  | some (sent, none) => some sent
  | none => none

end GoCrypt.SFlowVal
