import GoCrypt.Base.Bytes
import GoCrypt.Gen.Kernels

/-!
# Model of `hash/base64le` (one-shot `Encode`, `Decode`, `decodeQuantum`, `NewEncoding`)

The shift/mask expressions come from `Gen.Kernels` (regenerated from the source); the loop
structure is hand-written and tied by the `b64` correspondence suite.
`Decode` is modelled with its destination buffer, because the fast paths store 8 (resp. 4) bytes
while advancing by 6 (resp. 3): what is left *behind* `n` is observable.
-/

namespace GoCrypt.Base64LE
open GoCrypt.Gen.base64le

structure Encoding where
  alphabet : Bytes           -- `encode [64]byte`
  pad : Option UInt8         -- `padChar`; `none` = NoPadding
  strict : Bool
  deriving Repr, DecidableEq

/-- `enc.encode[i]` (callers keep `i < 64`; see `sym_index_lt`). -/
def Encoding.sym (e : Encoding) (i : Nat) : UInt8 := e.alphabet.getD i 0

/-- `decodeMap` as filled by `NewEncoding`: 0xFF, then `decodeMap[encoder[i]] = i` for i = 0..63
(a later duplicate overwrites an earlier one). -/
def decodeMapOf (alphabet : Bytes) (c : UInt8) : Nat :=
  (List.range alphabet.length).foldl (fun acc i => if alphabet.getD i 0 = c then i else acc) 255

def Encoding.dec (e : Encoding) (c : UInt8) : Nat := decodeMapOf e.alphabet c

def padBytes (e : Encoding) (n : Nat) : Bytes :=
  match e.pad with
  | some p => List.replicate n p
  | none => []

/-- `Encoding.Encode`: the bytes written to `dst`, in order. -/
def encode (e : Encoding) : Bytes → Bytes
  | b0 :: b1 :: b2 :: rest =>
    let val := Encode_val b0.toNat b1.toNat b2.toNat
    e.sym (Encode_sym0 val) :: e.sym (Encode_sym1 val) :: e.sym (Encode_sym2 val) :: e.sym (Encode_sym3 val) ::
      encode e rest
  | [b0, b1] =>
    let val := EncodeTail_val b0.toNat ||| EncodeTail_or b1.toNat
    [e.sym (EncodeTail_sym0 val), e.sym (EncodeTail_sym1 val), e.sym (EncodeTail_sym2 val)] ++ padBytes e 1
  | [b0] =>
    let val := EncodeTail_val b0.toNat
    [e.sym (EncodeTail_sym0 val), e.sym (EncodeTail_sym1 val)] ++ padBytes e 2
  | [] => []

def encodedLen (e : Encoding) (n : Nat) : Nat := EncodedLen e.pad.isNone n
def decodedLen (e : Encoding) (n : Nat) : Nat := DecodedLen e.pad.isNone n

/-! ## Decoding -/

def isNL (c : UInt8) : Bool := c == 10 || c == 13

/-- Skip `\n`/`\r` starting at `si`. -/
def skipNL (src : Array UInt8) (si : Nat) : Nat :=
  if h : si < src.size then
    if isNL src[si] then skipNL src (si + 1) else si
  else si
termination_by src.size - si

/-- Write `bs` into `dst` at offset `off` (Go: `dst[off+i] = b`; the model never writes out of range). -/
def writeAt (dst : Array UInt8) (off : Nat) (bs : List UInt8) : Array UInt8 :=
  match bs with
  | [] => dst
  | b :: rest => writeAt (dst.setIfInBounds off b) (off + 1) rest

structure QRes where
  si : Nat
  n : Nat                 -- bytes produced by this quantum
  err : Option Nat        -- CorruptInputError offset
  dst : Array UInt8
  deriving Repr

/-- The digit-collecting loop of `decodeQuantum`: returns either an early result or
`(si, dlen, dbuf, err)`. `j` digits are already in `dbuf` (reversed). -/
def collect (e : Encoding) (src : Array UInt8) (si j : Nat) (dbuf : List Nat) :
    Sum (Nat × Option Nat) (Nat × Nat × List Nat × Option Nat) :=
  if j ≥ 4 then .inr (si, 4, dbuf, none) else
  if h : si < src.size then
    let c := src[si]
    let out := e.dec c
    if out ≠ 255 then collect e src (si + 1) (j + 1) (out :: dbuf)
    else if isNL c then collect e src (si + 1) j dbuf
    else if some c ≠ e.pad then .inl (si + 1, some si)          -- CorruptInputError(si - 1) after si++
    else
      -- padding
      let si := si + 1
      if j = 0 ∨ j = 1 then .inl (si, some (si - 1))
      else
        let r : Sum (Nat × Option Nat) Nat :=
          if j = 2 then
            let si2 := skipNL src si
            if si2 = src.size then .inl (si2, some src.size)
            else if some (src.getD si2 0) ≠ e.pad then .inl (si2, some (si2 - 1))
            else .inr (si2 + 1)
          else .inr si
        match r with
        | .inl x => .inl x
        | .inr si3 =>
          let si4 := skipNL src si3
          let err := if si4 < src.size then some si4 else none
          .inr (si4, j, dbuf, err)
  else
    -- end of input
    if j = 0 then .inl (si, none)
    else if j = 1 ∨ e.pad.isSome then .inl (si, some (si - j))
    else .inr (si, j, dbuf, none)
termination_by src.size - si

/-- `dst[i] = v`; `none` = index out of range (Go panics). -/
def setChk (dst : Array UInt8) (i : Nat) (v : Nat) : Option (Array UInt8) :=
  if i < dst.size then some (dst.setIfInBounds i (UInt8.ofNat v)) else none

/-- `decodeQuantum(dst[n:], src, si)`; `none` = a store into `dst` was out of range (Go panics). -/
def decodeQuantum (e : Encoding) (dst : Array UInt8) (n : Nat) (src : Array UInt8) (si : Nat) : Option QRes :=
  match collect e src si 0 [] with
  | .inl (si', err) => some ⟨si', 0, err, dst⟩
  | .inr (si', dlen, dbufRev, err) => do
    let d := dbufRev.reverse
    let val := decodeQuantum_val (d.getD 0 0) (d.getD 1 0) (d.getD 2 0) (d.getD 3 0)
    let o0 := decodeQuantum_out0 val
    let o1 := decodeQuantum_out1 val
    let o2 := decodeQuantum_out2 val
    -- switch dlen { case 4: dst[2] = o2; o2 = 0; fallthrough
    --               case 3: dst[1] = o1; strict check on o2; o1 = 0; fallthrough
    --               case 2: dst[0] = o0; strict check on (o1, o2) }
    let (dst, o2) ← if dlen = 4 then (do let d ← setChk dst (n + 2) o2; pure (d, 0)) else pure (dst, o2)
    if dlen ≥ 3 then
      let dst ← setChk dst (n + 1) o1
      if e.strict ∧ o2 ≠ 0 then pure ⟨si', 0, some (si' - 1), dst⟩
      else
        let dst ← setChk dst n o0
        -- here o1 = 0 and (o2 = 0 or not strict), so the last strict check passes
        pure ⟨si', dlen - 1, err, dst⟩
    else
      let dst ← setChk dst n o0
      if e.strict ∧ (o1 ≠ 0 ∨ o2 ≠ 0) then pure ⟨si', 0, some (si' - 2), dst⟩ else pure ⟨si', dlen - 1, err, dst⟩

def be (n : Nat) (k : Nat) : List UInt8 :=   -- big-endian bytes of a k-byte value
  (List.range k).map fun i => UInt8.ofNat (n >>> (8 * (k - 1 - i)))

structure DRes where
  n : Nat
  err : Option Nat
  dst : Array UInt8
  panic : Bool := false
  deriving Repr

/-- One iteration of whichever of `Decode`'s three loops is active (`phase` 0: 8 symbols at a time,
1: 4 symbols, 2: quantum by quantum). Returns a final result or the next loop state. -/
def decodeStep (e : Encoding) (src : Array UInt8) (phase si n : Nat) (dst : Array UInt8) :
    Sum DRes (Nat × Nat × Nat × Array UInt8) :=
  let viaQuantum (ph : Nat) : Sum DRes (Nat × Nat × Nat × Array UInt8) :=
    match decodeQuantum e dst n src si with
    | none => .inl ⟨n, none, dst, true⟩
    | some q =>
      match q.err with
      | some off => .inl ⟨n + q.n, some off, q.dst, false⟩
      | none => .inr (ph, q.si, n + q.n, q.dst)
  if phase = 0 ∧ src.size - si ≥ 8 ∧ dst.size - n ≥ 8 then
    let r := assemble64 (e.dec (src.getD si 0)) (e.dec (src.getD (si+1) 0)) (e.dec (src.getD (si+2) 0)) (e.dec (src.getD (si+3) 0))
                        (e.dec (src.getD (si+4) 0)) (e.dec (src.getD (si+5) 0)) (e.dec (src.getD (si+6) 0)) (e.dec (src.getD (si+7) 0))
    if r.2 then .inr (0, si + 8, n + 6, writeAt dst n (be r.1 8)) else viaQuantum 0
  else if phase ≤ 1 ∧ src.size - si ≥ 4 ∧ dst.size - n ≥ 4 then
    let r := assemble32 (e.dec (src.getD si 0)) (e.dec (src.getD (si+1) 0)) (e.dec (src.getD (si+2) 0)) (e.dec (src.getD (si+3) 0))
    if r.2 then .inr (1, si + 4, n + 3, writeAt dst n (be r.1 4)) else viaQuantum 1
  else viaQuantum 2

def decodeLoop (e : Encoding) (src : Array UInt8) (phase si n : Nat) (dst : Array UInt8) : DRes :=
  if si < src.size then
    match decodeStep e src phase si n dst with
    | .inl r => r
    | .inr (ph', si', n', dst') =>
      if si < si' then decodeLoop e src ph' si' n' dst' else ⟨n', none, dst', false⟩
  else ⟨n, none, dst, false⟩
termination_by src.size - si
decreasing_by omega

/-- `Encoding.Decode(dst, src)` with `dst` a zero-filled buffer of length `dstLen`. -/
def decode (e : Encoding) (dstLen : Nat) (src : Bytes) : DRes :=
  if src = [] then ⟨0, none, Array.replicate dstLen 0, false⟩
  else decodeLoop e src.toArray 0 0 0 (Array.replicate dstLen 0)

/-- `DecodeString`: decode into a buffer of `DecodedLen(len s)` bytes and return `dbuf[:n]`. -/
def decodeString (e : Encoding) (src : Bytes) : Bytes × Option Nat :=
  let r := decode e (decodedLen e src.length) src
  (r.dst.toList.take r.n, r.err)

end GoCrypt.Base64LE
