import GoCrypt.Model.TagInfo

/-!
# Model of the type cache protocol of `hash/typeinfo.go: getTypeInfo` (sequential view)

The cache (`sync.Map`) maps a dereferenced struct type to its normalized type info. `compute`
stands for `getRawTypeInfo` + `normalize` (a function of the dereferenced type alone). A call with
argument type `t = (key, ptrDepth)`:

    typ := indirectType(t); f, ok := cache.Load(typ)
    if !ok { info := compute(typ); if err → return err (nothing stored); f = cache.LoadOrStore(typ, info) }
    ti := *f; ti.Struct = t; return &ti

Two facts about the real code — the returned object is a private copy, and entries are keyed by the
dereferenced type — are *measured* on every run through the verif hook (`TypeInfoIdentity`,
`TypeCacheKeys`) and, since the whole of `getTypeInfo` is regenerated from the source, also *proved*
about the regenerated code (`Props/TypeCacheIR.lean`: `returned_record_is_private`,
`entries_are_keyed_by_dereferenced_type`, and `getTypeInfo_eq_model`: the regenerated function equals
`getTypeInfo` below with `compute := typeInfoOf structs`). The theorems of `Props/C18Core.lean` are
about the protocol.
-/

namespace GoCrypt.TypeCache
open GoCrypt.Codec

abbrev TypeKey := String

structure ArgType where
  key : TypeKey        -- the dereferenced struct type
  ptrDepth : Nat       -- T, *T, **T …
  deriving Repr, DecidableEq

abbrev Cache := List (TypeKey × TypeInfo)

def Cache.load (c : Cache) (k : TypeKey) : Option TypeInfo := (c.find? (·.1 = k)).map (·.2)

/-- `LoadOrStore`: keeps an existing entry. -/
def Cache.loadOrStore (c : Cache) (k : TypeKey) (v : TypeInfo) : Cache × TypeInfo :=
  match c.load k with
  | some w => (c, w)
  | none => (c ++ [(k, v)], v)

/-- The result of `getTypeInfo`: the type info and the `Struct` it reports in error texts. -/
structure Result where
  info : TypeInfo
  reportedStruct : ArgType
  deriving Repr, DecidableEq

def getTypeInfo (compute : TypeKey → Except TagErr TypeInfo) (c : Cache) (t : ArgType) : Cache × Except TagErr Result :=
  match c.load t.key with
  | some ti => (c, .ok ⟨ti, t⟩)
  | none =>
    match compute t.key with
    | .error e => (c, .error e)
    | .ok info =>
      let (c', f) := c.loadOrStore t.key info
      (c', .ok ⟨f, t⟩)

/-- Every cache entry is what `compute` yields for its key. -/
def CacheOK (compute : TypeKey → Except TagErr TypeInfo) (c : Cache) : Prop :=
  ∀ k ti, c.load k = some ti → compute k = .ok ti

/-- Run a history of calls. -/
def runHistory (compute : TypeKey → Except TagErr TypeInfo) : Cache → List ArgType → Cache
  | c, [] => c
  | c, t :: ts => runHistory compute (getTypeInfo compute c t).1 ts

end GoCrypt.TypeCache
