import GoCrypt.Model.Base64LE

/-!
# Model of the streaming encoder / decoder of `hash/base64le`

`encoder.Write/Close`, `decoder.Read` and `newlineFilteringReader.Read` as step functions over an
explicit state; the underlying `io.Writer` / `io.Reader` is a *script* of responses.
Error identities: 1 = io.EOF, 2 = io.ErrUnexpectedEOF, 1000+k = CorruptInputError(k), other = the
script's own errors.
-/

namespace GoCrypt.Stream
open GoCrypt.Base64LE

abbrev Err := Nat
def errEOF : Err := 1
def errUnexpectedEOF : Err := 2
def errCorrupt (off : Nat) : Err := 1000 + off

/-! ## Encoder -/

structure EncSt where
  err : Option Err := none
  buf : Bytes := []                 -- `buf[:nbuf]`
  writes : List Bytes := []         -- every slice handed to the underlying writer, oldest first
  script : List (Option (Err × Nat)) := []  -- responses of the underlying writer to its next calls:
                                            -- none = accept all; some (e, k) = take k bytes, then fail with e
  deriving Repr

/-- One call of the underlying `w.Write(data)`; an exhausted script accepts. What the writer took is
recorded in `writes`; the returned error becomes `e.err`. -/
def EncSt.wWrite (st : EncSt) (data : Bytes) : EncSt :=
  match st.script with
  | [] => { st with writes := st.writes ++ [data] }
  | none :: rest => { st with writes := st.writes ++ [data], script := rest }
  | some (e, k) :: rest => { st with writes := st.writes ++ [data.take k], script := rest, err := some e }

/-- The interior loop of `Write`: full 3-byte groups, at most `outLen/4*3 = 768` bytes per call. -/
def encInterior (e : Encoding) (st : EncSt) (p : Bytes) (n : Nat) (fuel : Nat) : EncSt × Bytes × Nat :=
  match fuel with
  | 0 => (st, p, n)
  | fuel + 1 =>
    if p.length ≥ 3 then
      let nn := if 768 > p.length then p.length - p.length % 3 else 768
      let st := st.wWrite (encode e (p.take nn))
      if st.err.isSome then (st, p, n)
      else encInterior e st (p.drop nn) (n + nn) fuel
    else (st, p, n)

/-- `encoder.Write(p)`: returns the new state, `n` and the returned error. -/
def encWrite (e : Encoding) (st : EncSt) (p : Bytes) : EncSt × Nat × Option Err :=
  if st.err.isSome then (st, 0, st.err) else
  -- leading fringe
  let take := if st.buf.length > 0 then min p.length (3 - st.buf.length) else 0
  let buf := st.buf ++ p.take take
  let p' := p.drop take
  if st.buf.length > 0 ∧ buf.length < 3 then ({ st with buf := buf }, take, none) else
  let st1 : EncSt := if st.buf.length > 0 then ({ st with buf := buf }).wWrite (encode e buf) else st
  if st1.err.isSome then (st1, take, st1.err) else
  let st1 := if st.buf.length > 0 then { st1 with buf := [] } else st1
  -- interior
  let (st2, rest, n) := encInterior e st1 p' take (p'.length / 3 + 1)
  if st2.err.isSome then (st2, n, st2.err) else
  -- trailing fringe
  ({ st2 with buf := rest }, n + rest.length, none)

/-- `encoder.Close()`. -/
def encClose (e : Encoding) (st : EncSt) : EncSt × Option Err :=
  if st.err.isNone ∧ st.buf.length > 0 then
    let st := (st.wWrite (encode e st.buf))
    ({ st with buf := [] }, st.err)
  else (st, st.err)

/-! ## Decoder -/

/-- A scripted read: `data` (truncated to the request by the scripted reader, remainder kept for
the next call) and an optional error delivered with the last piece. -/
structure ReadResp where
  data : Bytes
  err : Option Err
  deriving Repr

structure DecSt where
  err : Option Err := none
  readErr : Option Err := none
  buf : Bytes := []                -- `buf[:nbuf]`
  out : Bytes := []                -- leftover decoded output
  script : List ReadResp := []
  sticky : Option Err := none      -- what the scripted reader returns once its script is exhausted
  reads : Nat := 0                 -- calls of the underlying reader so far
  deriving Repr

/-- An upper bound on the number of further calls the scripted reader can answer with data or with a
script entry: every call consumes at least one byte or one entry (used as fuel; the Go loops are
unbounded and terminate because the script ends in a sticky error). -/
def DecSt.pending (st : DecSt) : Nat := (st.script.map fun r => r.data.length + 1).sum

/-- One call of the scripted underlying reader with a buffer of `want` bytes. -/
def DecSt.rawRead (st : DecSt) (want : Nat) : DecSt × Bytes × Option Err :=
  match st.script with
  | [] => ({ st with reads := st.reads + 1 }, [], st.sticky)
  | r :: rest =>
    if r.data.length ≤ want then
      ({ st with script := rest, reads := st.reads + 1, sticky := (if r.err.isSome then r.err else st.sticky) }, r.data, r.err)
    else
      ({ st with script := { r with data := r.data.drop want } :: rest, reads := st.reads + 1 }, r.data.take want, none)

/-- `newlineFilteringReader.Read(p)` with `len(p) = want`. -/
def DecSt.filteredRead (st : DecSt) (want : Nat) (fuel : Nat) : DecSt × Bytes × Option Err :=
  match fuel with
  | 0 => (st, [], none)
  | fuel + 1 =>
    let (st, data, err) := st.rawRead want
    if data.length > 0 then
      let f := data.filter (fun c => !isNL c)
      if f.length > 0 then (st, f, err) else st.filteredRead want fuel
    else (st, [], err)

/-- The refill loop of `decoder.Read`. -/
def DecSt.refill (st : DecSt) (plen : Nat) (fuel : Nat) : DecSt :=
  match fuel with
  | 0 => st
  | fuel + 1 =>
    if st.buf.length < 4 ∧ st.readErr.isNone then
      let nn := plen / 3 * 4
      let nn := if nn < 4 then 4 else nn
      let nn := if nn > 1024 then 1024 else nn
      let (st, data, err) := st.filteredRead (nn - st.buf.length) (st.pending + 2)
      ({ st with buf := st.buf ++ data, readErr := err }).refill plen fuel
    else st

def decErr (r : DRes) : Option Err := r.err.map errCorrupt

/-- `decoder.Read(p)` with `len(p) = plen`: new state, delivered bytes, returned error. -/
def decRead (e : Encoding) (st : DecSt) (plen : Nat) : DecSt × Bytes × Option Err :=
  if st.out.length > 0 then ({ st with out := st.out.drop plen }, st.out.take plen, none) else
  if st.err.isSome then (st, [], st.err) else
  let st := st.refill plen (st.pending + 6)
  if st.buf.length < 4 then
    let finish (st : DecSt) : DecSt × Bytes × Option Err :=
      let err := if st.readErr = some errEOF ∧ st.buf.length > 0 then some errUnexpectedEOF else st.readErr
      ({ st with err := err }, [], err)
    if e.pad.isNone ∧ st.buf.length > 0 then
      let r := decode e 768 st.buf
      let outAll := r.dst.toList.take r.n
      let st := { st with err := decErr r, buf := [], out := outAll.drop plen }
      let n := min plen outAll.length
      if n > 0 ∨ (plen = 0 ∧ st.out.length > 0) then (st, outAll.take plen, none)
      else if st.err.isSome then (st, [], st.err)
      else finish st
    else finish st
  else
    let nr := st.buf.length / 4 * 4
    let nw := st.buf.length / 4 * 3
    if nw > plen then
      let r := decode e 768 (st.buf.take nr)
      let outAll := r.dst.toList.take r.n
      let st := { st with err := decErr r, out := outAll.drop plen, buf := st.buf.drop nr }
      (st, outAll.take plen, st.err)
    else
      let r := decode e plen (st.buf.take nr)
      let st := { st with err := decErr r, buf := st.buf.drop nr }
      (st, r.dst.toList.take r.n, st.err)

end GoCrypt.Stream
